"""Generator for the tie of the Lean model of `TypeChecker::typesAreCompatible` (C11): file-scope declarations v0, v1, ... (objects and
functions) whose types are drawn by gen/declgen.py and then VARIED in one place (a qualifier added / dropped / changed at any depth, the
basic type changed, void / a tag substituted, pointer <-> array, the form of a parameter list changed, a parameter added / dropped /
changed, a typedef name put for its type), so that pairs of declared types are compatible, almost compatible and unrelated."""
from .declgen import DeclGen, PRELUDE, valid, BASES, OBJ_BASES, QUALS


def vary(r, T):
    k = T[0]
    c = r.random()
    if k == "base":
        return ("base", r.choice(list(BASES)))
    if k == "ptr":
        if c < 0.3:
            q = list(T[1])
            x = r.choice(QUALS[:2] + QUALS)
            if x in q: q.remove(x)
            else: q.append(x)
            return ("ptr", tuple(q), T[2])
        if c < 0.4:
            return ("arr", T[2])
        return ("ptr", T[1], vary(r, T[2]))
    if k == "arr":
        if c < 0.25:
            return ("ptr", (), T[1])
        return ("arr", vary(r, T[1]))
    ret, ps, form = T[1], list(T[2]), T[3]
    if c < 0.2:
        return ("fn", vary(r, ret), ps, form)
    if c < 0.4:
        return ("fn", ret, [], r.choice(["void", "empty"]))
    if c < 0.5 and ps:
        return ("fn", ret, ps, "variadic" if form == "list" else "list")
    if c < 0.65 and ps:
        del ps[r.randrange(len(ps))]
        return ("fn", ret, ps, form if ps else "void")
    if c < 0.8:
        ps.insert(r.randrange(len(ps) + 1), (("base", r.choice(OBJ_BASES)), None))
        return ("fn", ret, ps, form if form in ("list", "variadic") else "list")
    if ps:
        j = r.randrange(len(ps))
        ps[j] = (vary(r, ps[j][0]), ps[j][1])
    return ("fn", ret, ps, form)


def program(rng, n=14, maxdepth=4):
    g = DeclGen(rng, maxdepth=maxdepth, parens=0.1)
    types = []
    while len(types) < n:
        T = g.fn(1) if rng.random() < 0.3 else g.ty(1, "obj")
        if not valid(T, "fn" if T[0] == "fn" else "obj"):
            continue
        types.append(T)
        for _ in range(rng.randrange(0, 3)):
            V = vary(rng, T)
            if valid(V, "fn" if V[0] == "fn" else "obj"):
                types.append(V)
            if rng.random() < 0.3:
                types.append(T)
    lines = []
    for i, T in enumerate(types[:n]):
        spec, d, a, nested = g.declarator(T, "v%d" % i, ["I:v%d" % i], False)
        lines.append("%s %s;" % (spec, d))
    return PRELUDE + "\n".join(lines) + "\n"
