"""Generator for C09: every ambiguity form in every expression/statement context, with every way of declaring the names
involved; the generator knows, by construction, the reading a C compiler with a symbol table takes."""

EXPR_CONTEXTS = [
    ("exprstmt", "y = %s;"), ("plainstmt", "%s;"), ("init", "int z%d = %s;"), ("callarg", "g(%s);"), ("callarg2", "g2(1, %s);"), ("subscript", "arr[%s] = 0;"),
    ("if", "if (%s) ;"), ("while", "while (%s) break;"), ("dowhile", "do ; while (%s);"), ("forinit", "for (%s; ; ) break;"), ("forcond", "for (; %s; ) break;"),
    ("forinc", "for (; ; %s) break;"), ("return", "return %s;"), ("switch", "switch (%s) { default: ; }"), ("case", "switch (y) { case %s: ; }"),
    ("nestedparen", "y = ((%s));"), ("ternary", "y = y ? %s : 0;"), ("comma", "y = (0, %s);"), ("binaryrhs", "y = 1 + %s;"), ("unary", "y = !%s;"),
    ("arrayinit", "int q%d[2] = { %s, 0 };"), ("compound", "{ y = %s; }"), ("labeled", "l%d: y = %s;"), ("ifbody", "if (y) y = %s; else y = %s;"),
    ("vla", "{ int w%d[%s]; }"), ("staticassert", "_Static_assert(%s, \"m\");"),
    # inside the TYPE NAME of a cast, a sizeof, a generic association, a compound literal (an array size in it)
    ("casttype", "y = (char (*)[%s]) 0 != 0;"), ("sizeoftype", "y = sizeof(int[%s]) != 0;"),
    ("generictype", "y = _Generic(&arr, int (*)[%s]: 1, default: 2);"), ("compoundlit", "y = ((int[%s]) { 0 }) [0];"),
]
STMT_CONTEXTS = [("forinit", "for (%s ; ) break;"), ("body", "%s"), ("block", "{ %s }"), ("ifblock", "if (y) { %s }"), ("elseblock", "if (y) ; else { %s }"), ("forblock", "for (;;) { %s break; }"),
                 ("whileblock", "while (y) { %s break; }"), ("nested", "{ { %s } }"), ("switchblock", "switch (y) { default: { %s } }"), ("after", "y = 1; %s y = 2;")]


class AmbigGen:
    def __init__(self, rng):
        self.r = rng
        self.n = 0

    def fresh(self, p):
        self.n += 1
        return "%s%d" % (p, self.n)

    def declare_T(self, how, T):
        """returns (file-scope text, function-parameter text, block-prefix text, is_type, note)"""
        if how == "file_typedef":
            return "typedef int %s;\n" % T, "", "", True
        if how == "file_typedef_struct":
            return "typedef struct { int m; } %s;\n" % T, "", "", True
        if how == "block_typedef":
            return "", "", "typedef int %s; " % T, True
        if how == "file_var":
            return "int %s;\n" % T, "", "", False
        if how == "block_var":
            return "", "", "int %s = 1; " % T, False
        if how == "param":
            return "", "int %s" % T, "", False
        if how == "typedef_shadowed_by_var":
            return "typedef int %s;\n" % T, "", "int %s = 1; " % T, False
        if how == "var_shadowed_by_typedef":
            return "int %s;\n" % T, "", "typedef int %s; " % T, True
        if how == "typedef_shadowed_by_param":
            return "typedef int %s;\n" % T, "int %s" % T, "", False
        if how == "enumerator":
            return "enum { %s = 2 };\n" % T, "", "", False
        raise ValueError(how)

    HOWS = ["file_typedef", "file_typedef_struct", "block_typedef", "file_var", "block_var", "param", "typedef_shadowed_by_var", "var_shadowed_by_typedef",
            "typedef_shadowed_by_param", "enumerator"]

    def expr_case(self, form, ctx, how):
        """an expression-level ambiguity ((T) op x, sizeof(T), _Alignof(T)) in context ctx"""
        T, x = self.fresh("T"), self.fresh("x")
        filed, param, blockd, is_type = self.declare_T(how, T)
        name, tmpl = ctx
        constant_ctx = name in ("case", "staticassert")
        if constant_ctx and not is_type and how != "enumerator":
            return None                                    # needs a constant expression
        op = {"cast-": "-", "cast+": "+", "cast*": "*", "cast&": "&", "cast&&": "&&"}.get(form)
        xdecl = ""
        if op and name in ("generictype", "compoundlit"):
            return None                                    # needs a constant array size of positive value
        if op:
            if how == "file_typedef_struct":
                return None                                # a cast to a struct type is not valid C
            if constant_ctx:
                if op in ("*", "&", "&&"):
                    return None
                x = "1"
            elif op == "&&" and is_type:
                xdecl = "%s: ; " % x                       # (T) &&x : cast of the address of label x (GNU labels as values)
            elif op == "*" and is_type:
                xdecl = "int *%s = 0; " % x               # (T) *x : cast of the dereferenced pointer
            else:
                xdecl = "int %s = 1; " % x
            e = "(%s) %s %s" % (T, op, x)
            want = "CastExpression" if is_type else {"-": "SubstractExpression", "+": "AddExpression", "*": "MultiplyExpression", "&": "BitwiseANDExpression", "&&": "LogicalANDExpression"}[op]
        elif form == "sizeof":
            e = "sizeof(%s)" % T
            want = "TypeNameAsTypeReference" if is_type else "ExpressionAsTypeReference"
        else:
            if not is_type:
                return None                                # _Alignof(expression) is a GNU extension: not C11
            e = "_Alignof(%s)" % T
            want = "TypeNameAsTypeReference"
        k = tmpl.count("%s")
        self.n += 1
        stmt = tmpl % ((self.n,) + (e,) * k) if "%d" in tmpl else tmpl % ((e,) * k)
        body = "int y = 0; int arr[4]; %s%s%s" % (blockd, xdecl, stmt)
        text = "%sint g(int a) { return a; } int g2(int a, int b) { return b; }\nint f(%s)\n{\n %s\n return 0;\n}\n" % (filed, param or "void", body)
        a = text.index(e)
        b = a + len(e)
        exact = None
        if op and not is_type:
            # the binary node covers what is on the left as well - unless the operator binds tighter than the `+` on its left
            ext = {"binaryrhs": 0 if op == "*" else len("1 + "), "unary": len("!")}.get(name, 0)
            exact = (a - ext, b)
            a -= {"binaryrhs": len("1 + "), "unary": len("!")}.get(name, 0)
        elif op:
            exact = (a, b)
        return {"text": text, "span": (a, b), "exact": exact, "want": want, "form": form, "ctx": name, "how": how, "expr": e}

    def suffix_case(self, form, ctx, how):
        """the same ambiguities with a SUFFIX after the name: (T[0]) - x / (T(1)) - x (a cast to an array or function type is not valid C:
        only the variable readings are generated) and sizeof(T[2]) (both readings valid).  The pinned parser read '(a[i]) - b' as a cast."""
        T, x = self.fresh("T"), self.fresh("x")
        filed, param, blockd, is_type = self.declare_T(how, T)
        name, tmpl = ctx
        if name in ("case", "staticassert") or how in ("enumerator", "file_typedef_struct"):
            return None
        if name in ("generictype", "compoundlit") and form != "sizeofsuffix:":
            return None                                    # needs a constant array size
        kind, op = form.split(":")
        import re

        def filerepl(new):
            return re.sub(r"(^|\n)int %s;" % T, lambda m: m.group(1) + new, filed)

        def arrays():
            return (filerepl("int %s[4];" % T), param.replace("int %s" % T, "int *%s" % T), blockd.replace("int %s = 1;" % T, "int %s[4] = { 1 };" % T))

        def functions():
            return (filerepl("int %s(int a_) { return a_; }" % T), param.replace("int %s" % T, "int (*%s)(int)" % T), blockd.replace("int %s = 1;" % T, "int (*%s)(int) = g;" % T))
        xdecl = "int %s = 1; " % x
        if kind == "sub":
            if is_type: return None
            filed, param, blockd = arrays()
            e = "(%s[0]) %s %s" % (T, op, x)
            if op == "*": pass
        elif kind == "call":
            if is_type: return None
            filed, param, blockd = functions()
            e = "(%s(1)) %s %s" % (T, op, x)
        else:
            xdecl = ""
            if is_type:
                e = "sizeof(%s[2])" % T
            else:
                filed, param, blockd = arrays()
                e = "sizeof(%s[1])" % T
        if kind in ("sub", "call"):
            want = {"-": "SubstractExpression", "+": "AddExpression", "*": "MultiplyExpression", "&": "BitwiseANDExpression", "&&": "LogicalANDExpression"}[op]
        else:
            want = "TypeNameAsTypeReference" if is_type else "ExpressionAsTypeReference"
        k = tmpl.count("%s")
        self.n += 1
        stmt = tmpl % ((self.n,) + (e,) * k) if "%d" in tmpl else tmpl % ((e,) * k)
        body = "int y = 0; int arr[4]; %s%s%s" % (blockd, xdecl, stmt)
        text = "%sint g(int a) { return a; } int g2(int a, int b) { return b; }\nint f(%s)\n{\n %s\n return 0;\n}\n" % (filed, param or "void", body)
        a = text.index(e)
        b = a + len(e)
        if want.endswith("Expression") and not is_type:
            a -= {"binaryrhs": len("1 + "), "unary": len("!")}.get(name, 0)      # the binary node covers what is on the left as well
        return {"text": text, "span": (a, b), "want": want, "form": form, "ctx": name, "how": how, "expr": e}

    def stmt_case(self, form, ctx, how, x_predeclared):
        """a statement-level ambiguity (T * x;  T (x);) in context ctx"""
        T, x = self.fresh("T"), self.fresh("x")
        filed, param, blockd, is_type = self.declare_T(how, T)
        zdecl = xdecl = ""
        if form == "mul":
            s = "%s * %s;" % (T, x)
        elif form == "call":
            s = "%s (%s);" % (T, x)
            if not is_type:
                # a call needs a function (or function pointer): declare T accordingly
                if how not in ("file_var", "block_var", "param"):
                    return None
                filed = filed.replace("int %s;" % T, "int (*%s)(int);" % T)
                blockd = blockd.replace("int %s = 1;" % T, "int (*%s)(int) = g;" % T)
                param = param.replace("int %s" % T, "int (*%s)(int)" % T)
        elif form == "callparen3":
            s = "%s (((%s)));" % (T, x)
            if not is_type:
                return None
        elif form in self.GENERAL:
            # the statements that begin like 'T * x' / 'T ( x' and go on: a declaration whose only specifier is T, or an expression
            if (form == "init" and how == "file_typedef_struct") or (form == "fn" and x_predeclared):
                return None                                # not valid C: scalar initializer for a structure; a function redeclaring the object x
            z, U = self.fresh("z"), self.fresh("U")
            s = self.GENERAL[form].replace("Z", z).replace("U", U) % (T, x)
            if "Z" in self.GENERAL[form]:
                zdecl = "int %s = 1; " % z
            if "U" in self.GENERAL[form]:
                filed += "typedef int %s;\n" % U
            if not is_type:
                tdecl = {"ptrparen": "int (*%s)(int)", "two": "int (*%s)(int)", "arr": "int *(*%s)(int)", "mulcomma": None}.get(form, 0)
                if tdecl == 0:
                    return None                            # the expression reading is not valid C (or needs U to be an object)
                if tdecl:
                    if how not in ("file_var", "block_var", "param"):
                        return None
                    init = " = gp" if form == "arr" else " = g"
                    filed = filed.replace("int %s;" % T, tdecl % T + ";")
                    blockd = blockd.replace("int %s = 1;" % T, tdecl % T + init + ";")
                    param = param.replace("int %s" % T, tdecl % T)
                if form == "ptrparen":
                    xdecl = "int *%s = &y; " % x
        else:
            s = "%s ((%s));" % (T, x)
            if not is_type:
                return None
        pre = ""
        if is_type:
            want = "DeclarationStatement"
            zdecl = ""
            if x_predeclared:
                filed += "int %s;\n" % x                  # an outer x: the statement is a shadowing redeclaration in an inner block
        else:
            want = "ExpressionStatement"
            pre = xdecl or "int %s = 1; " % x
            if x_predeclared:
                return None
        name, tmpl = ctx
        if name == "forinit" and form == "fn":
            return None                                    # 6.8.5p3: the declaration part of a for statement declares objects only
        stmt = tmpl % s
        body = "int y = 0; %s%s%s%s" % (blockd, pre, zdecl, stmt)
        text = "%sint g(int a) { return a; }\nint *gp(int a) { static int s_[4]; return s_ + a; }\nint f(%s)\n{\n %s\n return 0;\n}\n" % (filed, param or "void", body)
        a = text.index(s)
        return {"text": text, "span": (a, a + len(s)), "want": want, "form": form, "ctx": name, "how": how, "expr": s}

    GENERAL = {"ptrparen": "%s (*%s);", "arr": "%s (%s)[2];", "init": "%s (%s) = 1;", "mulinit": "%s * %s = 0;", "two": "%s (%s), (Z);", "mulcomma": "%s * %s, Z;",
               "fnptr": "%s (*%s)(U);", "fn": "%s (%s)(U);", "mularr": "%s * %s[2], Z;", "ptrfnptr": "%s (**%s)(U, U);", "initlist": "%s (%s)[2] = { 1, 2 };"}

    COLLISIONS = ["member", "tag", "member-use", "label", "member-late", "proto-param", "other-fn-param", "other-fn-local", "other-fn-typedef", "late-redecl", "nested-proto-param", "nested-fn-param"]

    def collide(self, c, kind):
        """the same spellings in ANOTHER name space (6.2.3: members, tags and labels do not hide ordinary identifiers and are not hidden
        by them): the reading of the ambiguity is unchanged.  Seeded change C09-b needed exactly this (a member spelled like the typedef)."""
        import re
        T, x = re.search(r"T\d+", c["expr"]).group(0), (re.search(r"x\d+", c["expr"]) or re.search(r"T\d+", c["expr"])).group(0)
        text = c["text"]
        if kind == "member":
            pre, inbody = "struct Sm_ { int %s; int %s_; int %s; };\n" % (T, T, x) if x != T else "struct Sm_ { int %s; };\n" % T, ""
        elif kind == "tag":
            pre, inbody = "struct %s { int m; }; union %s { int m; };\n" % (T, x) if x != T else "struct %s { int m; };\n" % T, ""
        elif kind == "member-use":
            pre = "struct Sm_ { int %s; } sm_, *pm_ = &sm_;\n" % T
            inbody = " sm_.%s = 1; pm_->%s = sm_.%s;" % (T, T, T)
        elif kind == "late-redecl":
            # a declaration that gives the name the OTHER role, later in the block of the function body: it does not reach back
            # (6.2.1p7: the scope of a declaration begins just after its declarator)
            if c["how"] not in ("file_typedef", "file_typedef_struct", "file_var", "enumerator") or T not in text.split("int f(")[0]:
                return None
            is_type = c["how"].startswith("file_typedef")
            late = " int %s = 1;" % T if is_type else " typedef int %s;" % T
            k = text.rindex("\n return 0;")
            text = text[:k] + late + text[k:]
            pre, inbody = "", ""
        elif kind == "label":
            pre, inbody = "", " goto %s; %s: ;" % (T, T)
        elif kind in ("nested-proto-param", "nested-fn-param"):
            # the same spellings as parameter names of a prototype NESTED in f's own parameter list (a callback parameter): that prototype
            # scope ends with the inner declarator (6.2.1p4), the names do not reach f's body.  Seeded change C09-c needed exactly this.
            extra = ("void (*cb_)(int %s, char %s)" if kind == "nested-proto-param" else "int fp_(double %s, int %s)") % (T, x + "_" if x == T else x)
            j = text.index("int f(") + len("int f(")
            k = text.index(")\n{", j)
            params = text[j:k]
            text = text[:j] + (extra if params == "void" else params + ", " + extra) + text[k:]
            pre, inbody = "", ""
        else:
            # the same spelling declared in a scope that has ENDED before f: prototype scope, another function's parameters / block
            pre, inbody = "", ""
            late = {"member-late": "struct Sl_ { int %s; char %s_; } sl_;\n" % (T, T),
                    "proto-param": "void pg_(int %s, char %s);\nvoid (*pp_)(double %s);\n" % (T, x + "_" if x == T else x, T),
                    "other-fn-param": "int h_(int %s) { return %s; }\n" % (T, T),
                    "other-fn-local": "int h_(void) { int %s = 1; { return %s; } }\n" % (T, T),
                    "other-fn-typedef": "int h_(void) { typedef int %s; %s v_ = 1; return v_; }\n" % (T, T)}[kind]
            j = text.index("int f(")
            text = text[:j] + late + text[j:]
        i = text.index("{\n", text.index("int f(")) + 2
        text = pre + text[:i] + inbody + text[i:]
        a = text.index(c["expr"], text.index("int f("))
        left_ext = c["text"].index(c["expr"], c["text"].index("int f(")) - c["span"][0]
        d = dict(c)
        d.update(text=text, span=(a - left_ext, a + len(c["expr"])), how=c["how"] + "+" + kind)
        if c.get("exact"):
            shift = (a - left_ext) - c["span"][0]
            d["exact"] = (c["exact"][0] + shift, c["exact"][1] + shift)
        return d

    def all_cases(self, every=1):
        base = self.base_cases()
        out = list(base)
        for i, c in enumerate(base):
            for j, kind in enumerate(self.COLLISIONS):
                if (i + 2 * j) % every == 0:
                    d = self.collide(c, kind)
                    if d:
                        out.append(d)
        return out

    def base_cases(self):
        out = []
        for form in ("cast-", "cast+", "cast*", "cast&", "cast&&", "sizeof", "alignof"):
            for ctx in EXPR_CONTEXTS:
                for how in self.HOWS:
                    c = self.expr_case(form, ctx, how)
                    if c:
                        out.append(c)
        for form in ("sub:-", "sub:+", "sub:*", "sub:&", "sub:&&", "call:-", "call:*", "call:&", "sizeofsuffix:"):
            for ctx in EXPR_CONTEXTS:
                for how in self.HOWS:
                    c = self.suffix_case(form, ctx, how)
                    if c:
                        out.append(c)
        for form in ("mul", "call", "callparen", "callparen3") + tuple(self.GENERAL):
            for ctx in STMT_CONTEXTS:
                for how in self.HOWS:
                    for pre in (False, True):
                        c = self.stmt_case(form, ctx, how, pre)
                        if c:
                            out.append(c)
        return out
