"""Generator of C programs for scope resolution (property C10): few names, reused across name spaces and scopes, one
declaration per line, a probe (`PROBE;`) wherever the visible environment is to be asked for.  The generator keeps C's
own environment (6.2.1: a frame per scope, extended in source order) and so knows, for every probe and every
(name space, name), the line of the declaration C selects.  It also emits the abstract program the Lean model runs."""

NS = {"o": 0, "t": 1, "m": 2}


class ScopeGen:
    def __init__(self, rng, names=5, maxdepth=4, late=False, enums=False, size=40):
        self.r, self.names, self.maxdepth, self.late, self.enums, self.size = rng, names, maxdepth, late, enums, size
        self.lines = []           # source lines
        self.items = []           # abstract items (tokens for the model driver)
        self.decl_lines = []      # declaration id (model numbering) -> source line
        self.frames = [{}]        # C environment: key -> line
        self.probes = []          # (line, {key: line-or-None})
        self.probe_aux = []
        self.enum_lines = set()
        self.closed = [False]     # per frame: a probe has looked through it (no further declarations unless `late`)
        self.nq = 0
        self.model_ok = True
        self.stats = {"decl": 0, "probe": 0, "block": 0, "fundef": 0, "proto": 0, "for": 0, "callback_params": 0, "fn_ret_fnptr": 0,
                      "shadowing_decl": 0, "tag": 0, "typedef": 0, "enum": 0, "late_decl": 0}

    # ---- bookkeeping
    def emit(self, text):
        self.lines.append(text)
        return len(self.lines)

    def key(self, ns, n):
        return "%s:a%d" % (ns, n)

    def mkey(self, ns, n):
        return "%d.%d" % (NS[ns], n)

    def visible(self, key):
        return any(key in f for f in self.frames)

    def declare(self, ns, n, line, model_ns=None):
        k = self.key(ns, n)
        if self.visible(k):
            self.stats["shadowing_decl"] += 1
        self.frames[-1].setdefault(k, line)
        self.decl_lines.append(line)
        self.stats["decl"] += 1
        if self.closed[-1]:
            self.stats["late_decl"] += 1

    def free_name(self, ns):
        cands = [n for n in range(self.names) if self.key(ns, n) not in self.frames[-1]]
        return self.r.choice(cands) if cands else None

    def all_keys(self):
        return [self.key("o", n) for n in range(self.names + 2)] + [self.key("t", n) for n in range(self.names)]

    def probe(self, text):
        line = self.emit(text)
        env, env_noenum = {}, {}
        for k in self.all_keys():
            env[k] = next((f[k] for f in reversed(self.frames) if k in f), None)
            env_noenum[k] = next((f[k] for f in reversed(self.frames) if k in f and f[k] not in self.enum_lines), None)
        self.probes.append((line, env))
        self.probe_aux.append((env_noenum, list(self.frames)))      # the frame objects keep growing: final contents are read later
        self.items.append("U")
        self.stats["probe"] += 1
        for i in range(len(self.closed)):
            self.closed[i] = True

    def can_declare(self):
        return self.late or not self.closed[-1]

    # ---- declarations (one per line)
    def simple_decl(self, indent, in_block):
        r = self.r
        kind = r.choice(["var", "var", "typedef", "fnproto0", "struct", "struct_fwd", "union", "field_struct"] + (["enum", "enumtag"] if self.enums else []))
        if kind == "fnproto0" and in_block:
            # a block-scope function declaration has linkage: it must not clash with another entity of that name anywhere, so two
            # reserved names are used for it (they are probed like the others and may be shadowed by inner declarations)
            n = self.r.choice([self.names, self.names + 1])
            if self.key("o", n) in self.frames[-1]:
                return
            line = self.emit(indent + "int a%d(void);" % n)
            self.declare("o", n, line)
            self.items.append("D" + self.mkey("o", n))
            return
        if kind in ("var", "typedef", "fnproto0"):
            n = self.free_name("o")
            if n is None:
                return
            txt = {"var": "int a%d;", "typedef": "typedef int a%d;", "fnproto0": "int a%d(void);"}[kind] % n
            if kind == "var" and r.random() < 0.3:
                txt = r.choice(["int *a%d;", "int a%d[2];", "static int a%d;", "int (a%d);"]) % n
            line = self.emit(indent + txt)
            self.declare("o", n, line)
            self.items.append("D" + self.mkey("o", n))
            if kind == "typedef":
                self.stats["typedef"] += 1
            return
        if kind in ("struct", "union", "struct_fwd", "field_struct", "enumtag"):
            n = self.free_name("t")
            if n is None:
                return
            fld = r.randrange(self.names)
            if kind == "enumtag":
                # the enumerator's own name is outside the probed pool; only the tag matters here
                txt = "enum a%d { E_%d };" % (n, len(self.lines) + 1)
                line = self.emit(indent + txt)
                self.declare("t", n, line)
                self.items.append("D" + self.mkey("t", n))
                self.decl_lines.append(line)            # the enumerator takes a declaration number too
                self.items.append("D2.%d" % (900 + len(self.lines)))
                self.stats["tag"] += 1
                return
            txt = {"struct": "struct a%d { int a%d; };" % (n, fld), "union": "union a%d { int a%d; };" % (n, fld),
                   "struct_fwd": "struct a%d;" % n, "field_struct": "struct a%d { int a%d; int x_; };" % (n, fld)}[kind]
            line = self.emit(indent + txt)
            self.declare("t", n, line)
            self.items.append("D" + self.mkey("t", n))
            if kind != "struct_fwd":
                # fields are declarations of the members name space in the enclosing scope (never visible as ordinary/tag)
                self.decl_lines.append(line)
                self.items.append("D" + self.mkey("m", fld))
                if kind == "field_struct":
                    self.decl_lines.append(line)
                    self.items.append("D2.999")
            self.stats["tag"] += 1
            return
        if kind == "enum":
            n = self.free_name("o")
            if n is None:
                return
            line = self.emit(indent + "enum { a%d };" % n)
            # C: an enumeration constant is an ordinary identifier
            self.frames[-1].setdefault(self.key("o", n), line)
            self.enum_lines.add(line)
            # model numbering: the (untagged) enum declaration is not in the pool; the front end puts the enumerator in Members
            self.decl_lines.append(line)
            self.items.append("D1.%d" % (800 + len(self.lines)))
            self.decl_lines.append(line)
            self.items.append("D" + self.mkey("m", n))
            self.stats["enum"] += 1

    def params(self, indent):
        """returns (source lines already emitted, model param tokens); declares the parameters in the current frame"""
        r = self.r
        toks = []
        k = r.choice([0, 1, 1, 2, 3])
        used = set()
        for i in range(k):
            cands = [n for n in range(self.names) if self.key("o", n) not in self.frames[-1]]
            if not cands:
                break
            n = r.choice(cands)
            last = i == k - 1
            form = r.choice(["plain", "plain", "ptr", "arr", "callback", "fnparam"])
            if form in ("callback", "fnparam"):
                m = r.choice([1, 2])
                inner = r.sample(range(self.names), m)
                self.stats["callback_params"] += 1
                self.emit(indent + ("int (*a%d)(" % n if form == "callback" else "int a%d(" % n))
                pline = len(self.lines)
                ik = []
                for j, q in enumerate(inner):
                    l = self.emit(indent + " int a%d%s" % (q, "," if j < m - 1 else ""))
                    self.decl_lines.append(l)
                    ik.append(self.mkey("o", q))
                self.emit(indent + ")" + ("" if last else ","))
                self.declare("o", n, pline)
                toks.append("%s:%s:%s" % (self.mkey("o", n), ",".join(ik), "s" if form == "fnparam" else "p"))
            else:
                txt = {"plain": "int a%d", "ptr": "int *a%d", "arr": "int a%d[3]"}[form] % n
                l = self.emit(indent + txt + ("" if last else ","))
                self.declare("o", n, l)
                toks.append(self.mkey("o", n))
        return toks

    def function(self, indent, definition):
        r = self.r
        n = self.free_name("o")
        if n is None:
            return
        ret_fnptr = definition and r.random() < 0.2
        head = self.emit(indent + ("int (*a%d(" % n if ret_fnptr else "int a%d(" % n))
        self.frames.append({})
        self.closed.append(False)
        ptoks = self.params(indent + " ")
        pframe = self.frames.pop()
        self.closed.pop()
        if ret_fnptr:
            self.stats["fn_ret_fnptr"] += 1
            # the returned function pointer's own parameter list: a name in a scope nobody re-enters.  The Lean model has no item
            # for it (the scope is unobservable); such programs are checked against C's rule only.
            self.model_ok = False
            q = r.randrange(self.names)
            self.emit(indent + "))(")
            self.emit(indent + " int a%d" % q)
        if definition:
            self.emit(indent + ")")
            # the function's name is declared in the enclosing scope, then the body re-enters the parameter scope
            self.declare("o", n, head)
            self.stats["fundef"] += 1
            self.items.append("F%s(" % self.mkey("o", n))
            self.items += ptoks
            self.items.append("){")
            self.emit(indent + "{")
            self.frames.append(pframe)
            self.closed.append(False)
            self.body(indent + " ", 1)
            self.frames.pop()
            self.closed.pop()
            self.emit(indent + "}")
            self.items.append("}")
        else:
            self.emit(indent + ");")
            self.declare("o", n, head)
            self.stats["proto"] += 1
            self.items.append("P%s(" % self.mkey("o", n))
            self.items += ptoks
            self.items.append(")")

    def body(self, indent, depth):
        r = self.r
        budget = r.choice([2, 3, 4, 6])
        for _ in range(budget):
            if len(self.lines) > self.size:
                break
            k = r.random()
            if k < 0.35 and self.can_declare():
                self.simple_decl(indent, True)
            elif k < 0.42 and self.can_declare():
                self.simple_decl(indent, True)
            elif k < 0.65:
                self.probe(indent + "PROBE;")
            elif depth < self.maxdepth:
                form = r.choice(["block", "block", "for", "if", "while"])
                self.stats["block"] += 1
                if form == "for":
                    n = r.randrange(self.names)
                    self.stats["for"] += 1
                    l = self.emit(indent + "for (int a%d = 0; ; )" % n)
                    self.items.append("B{")
                    self.frames.append({})
                    self.closed.append(False)
                    self.declare("o", n, l)
                    self.items.append("D" + self.mkey("o", n))
                    self.block(indent, depth)
                    self.frames.pop()
                    self.closed.pop()
                    self.items.append("}")
                else:
                    if form == "if":
                        self.emit(indent + "if (0)")
                    elif form == "while":
                        self.emit(indent + "while (0)")
                    self.block(indent, depth)
        if not self.probes or r.random() < 0.5:
            self.probe(indent + "PROBE;")

    def block(self, indent, depth):
        self.emit(indent + "{")
        self.items.append("B{")
        self.frames.append({})
        self.closed.append(False)
        self.body(indent + " ", depth + 1)
        self.frames.pop()
        self.closed.pop()
        self.emit(indent + "}")
        self.items.append("}")

    def program(self):
        r = self.r
        self.emit("int PROBE;")
        self.decl_lines.append(1)
        self.items.append("D0.777")
        while len(self.lines) < self.size:
            k = r.random()
            if k < 0.4 and self.can_declare():
                self.simple_decl("", False)
            elif k < 0.5 and self.can_declare():
                self.function("", False)
            elif k < 0.8:
                self.function("", True)
                if not self.late:
                    # a function definition is followed by declarations only in the `late` stream … unless no probe looked out
                    pass
            else:
                self.nq += 1
                l = len(self.lines) + 1
                self.probe("int *q%d_ = &PROBE;" % self.nq)
                # the probing declaration itself takes a declaration number (its name is outside the pool); the use in its
                # initialiser is visited before the declaration is finished
                self.decl_lines.append(l)
                self.items.append("D0.%d" % (600 + self.nq))
        self.probe("int *qz_ = &PROBE;")
        self.decl_lines.append(len(self.lines))
        self.items.append("D0.699")
        return "\n".join(self.lines) + "\n"

    def order_insensitive(self, i, k):
        """what an order-insensitive lookup over the same scope structure, blind to enumeration constants, finds for probe i"""
        _, frames = self.probe_aux[i]
        return next((f[k] for f in reversed(frames) if k in f and f[k] not in self.enum_lines), None)

    def queries(self):
        return ",".join(self.all_keys())

    def model_queries(self):
        return ",".join("%d.%d" % (NS[k[0]], int(k[3:])) for k in self.all_keys())
