"""A broad corpus of C11/GNU syntactic forms (used by C03, C04, C09 and the sanitizer sweeps): every declaration,
declarator, initializer, statement and expression production the front end has a node kind for, every operator and
punctuator spelling (digraphs included), every literal form, and the combinations in which optional trailing parts
(asm labels, attribute lists, initialisers, bit-field widths) follow each other.  Each entry is (category, text):
category 'a' translation unit, 'd' declaration, 's' statement, 'e' expression."""
import itertools, re

BINOPS = ["*", "/", "%", "+", "-", "<<", ">>", "<", ">", "<=", ">=", "==", "!=", "&", "^", "|", "&&", "||"]
ASGOPS = ["=", "*=", "/=", "%=", "+=", "-=", "<<=", ">>=", "&=", "^=", "|="]
PREOPS = ["+", "-", "!", "~", "*", "&", "++", "--"]
INTS = ["0", "1", "42", "0x1F", "0XABCDEFu", "017", "1u", "2L", "3ul", "4LL", "5ull", "6llu", "7UL", "0b101", "1000000000000"]
FLOATS = ["1.0", "1.", ".5", "1e10", "1.5e-3f", "2.0L", "0x1p3", "0x1.8p-2f", "1E+2", "01.5", "3.f"]
CHARS = ["'a'", "'\\n'", "'\\x41'", "'\\0'", "'\\''", "L'x'", "u'y'", "U'z'", "'\\\\'", "'\\101'", "'ab'"]
STRINGS = ['"s"', '""', '"a\\nb"', '"q\\"q"', 'L"w"', 'u8"x"', 'u"y"', 'U"z"', '"a" "b"', '"a" L"b" "c"', '"\\x41\\101"', 'R"(raw)"', '"??/"']
TAILS = ["", ' asm("x")', " __attribute__((unused))", ' asm("x") __attribute__((unused))', " __attribute__((unused)) __attribute__((used))",
         ' __asm__("y") __attribute__((noreturn, unused))', " __attribute__((aligned(8)))", ' asm("a" "b")']
DECLARATORS = ["v", "*v", "v[2]", "v(void)", "(*v)(int)", "v[2][3]", "*v(int a, ...)", "(v)", "(*v[2])(void)", "v()", "* const v", "*restrict *volatile v",
               "(*(*v)(int))[3]", "v[]", "* _Atomic v"]


def expressions():
    out = []
    for op in BINOPS:
        out += ["a %s b" % op, "a %s b %s c" % (op, op), "(a %s b) %s c" % (op, op), "a %s (b %s c)" % (op, op)]
    for op in ASGOPS:
        out += ["a %s b" % op, "a %s b %s c" % (op, op), "*p %s a + 1" % op]
    for op in PREOPS:
        out += ["%sa" % op, "%s%sa" % (op, " " + op), "%s(a + b)" % op]
    out += ["a++", "a--", "a++ + ++a", "a ? b : c", "a ? b ? c : d : e", "a ? b : c ? d : e", "a, b, c", "(a, b)", "a ?: b",
            "f()", "f(a)", "f(a, b, c)", "f(g(a), h())", "a[1]", "a[1][2]", "a<:1:>", "s.m", "p->m", "s.m.n->o[1](2)", "(*fp)(a)", "f(a)(b)",
            "sizeof a", "sizeof(a)", "sizeof(int)", "sizeof(int *)", "sizeof(struct S)", "sizeof(int[2])", "sizeof sizeof a", "_Alignof(int)", "_Alignof(struct S *)",
            "(int)a", "(int *)a", "(long)(int)a", "(unsigned char)a + 1", "(int (*)(void))f", "(struct S *)p", "(const char *)p", "(void)0",
            "(int){ 1 }", "(struct S){ 1, 2 }", "(int[]){ 1, 2, 3 }", "(struct S){ .a = 1, .b = 2 }", "((int[2]){ 1, 2 })[0]",
            "_Generic(a, int: 1, default: 2)", "_Generic((a), int: b, long: c, char *: d)", "_Generic(a, default: f)(x)",
            "({ int t = a; t; })", "({ a; })", "__builtin_va_arg(ap, int)", "__builtin_offsetof(struct S, m)", "__builtin_offsetof(struct S, m.n[1])",
            "__func__", "__FUNCTION__", "__PRETTY_FUNCTION__", "&&lab", "__extension__ a", "__real__ z", "__imag__ z",
            "a = b = c", "a = b ? c : d", "a ? b : (c = d)", "a || b && c | d ^ e & f == g < h << i + j * k", "a * b + c << d < e == f & g ^ h | i && j || k",
            "-a * !b", "*p++", "*++p", "(*p)++", "&a[1]", "&s.m", "!!a", "- -a", "+ +a", "~-a", "a - -b", "a + +b", "a & &b == 0", "a * *p",
            "a<b>c", "a<<b>>c", "a ? b , c : d", "a[b , c]", "f((a, b))", "(a)", "((a))", "(a)(b)", "(a)[1]", "(a).m", "(a)->m", "(a)++"]
    for lit in INTS + FLOATS + CHARS + STRINGS:
        out += [lit, "a + %s" % lit]
    out += ["1i", "1.0j", "2.5fi"]
    return out


def adjacency():
    """Token-adjacency hazards: every ordered pair of neighbouring operator tokens the expression grammar allows, and the places where
    two tokens written without a blank would lex as something else (`- --x` vs `-- -x`, `a / *p` vs a comment, `0xe + 1` vs one pp-number,
    `return 1` vs an identifier).  The source always separates them; what the round trip writes back must lex to the same tokens.
    (Seeded change C03-b glued a prefix operator to its operand except for equal operators: `- --x` came back as `---x`.)"""
    out = []
    PRE = PREOPS + ["sizeof", "&&", "__extension__", "__real__", "(int)"]
    for o1 in PRE:
        for o2 in PRE:
            out.append("%s %s a" % (o1, o2))
    for o1 in BINOPS + ASGOPS + [",", "?", ":"]:
        for o2 in PRE:
            if o1 == "?": out.append("a ? %s b : c" % o2)
            elif o1 == ":": out.append("a ? b : %s c" % o2)
            else: out.append("a %s %s b" % (o1, o2))
    for post in ["++", "--", "[1]", "(b)", ".m", "->m"]:
        for o in BINOPS + ASGOPS + ["?", ","]:
            out.append("a%s %s b%s" % (post, o, " : c" if o == "?" else ""))
            for o2 in ["+", "-", "++", "--", "&", "*"]:
                out.append("a%s %s %s b%s" % (post, o, o2, " : c" if o == "?" else ""))
    for lit in ["0xe", "0xE", "0x1e", "1e1", "0x1p1", "1.", ".5", "1.e1", "0xep1", "1", "1u", "0x1F", "'a'", "L'a'", "\"s\"", "L\"s\"", "u8\"s\""]:
        for o in ["+", "-", "+ +", "- -", "- --", "+ ++", ".m +"]:
            if o.startswith(".m"):
                if lit[0] in "0123456789.": continue
                out.append("s %s %s" % (o, lit))
            else:
                out += ["%s %s 1" % (lit, o), "%s %s a" % (lit, o), "a %s %s" % (o, lit), "%s %s %s" % (lit, o, lit)]
    out += ["a / *p", "a / * p", "a /= *p", "a / /* c */ b", "a - > b ? 1 : 2" if False else "a-- > b", "a - -- b", "a -- - b", "a + ++ b", "a ++ + b", "a ++ + ++ b", "a -- - -- b",
            "a & & b", "a & && l", "a && & b", "a && && l", "& && l", "&& l - && m", "a < : b" if False else "a < b : c" if False else "a <: 1 :> <: 2 :>",
            "a = - b", "a = & b", "a = * p", "a = ! b", "a = + b", "a = ++ b", "a = -- b", "a =- b" if False else "a = -b", "a ! = b" if False else "a != b", "! a != ! b", "a == ! b",
            "a | | b" if False else "a || b", "a | b | c || d", "a ^ ~ b", "~ ~ a", "! ~ ! a", "- + - + a", "+ - + - a", "* & * & a", "& * & * a", "* * * p", "- - - a", "+ + + a", "-- - -- a" if False else "- -- a",
            "sizeof - a", "sizeof + a", "sizeof * p", "sizeof & a", "sizeof ++ a", "sizeof -- a", "sizeof ! a", "sizeof ~ a", "sizeof sizeof sizeof a", "sizeof ( a ) - 1", "sizeof a - 1",
            "sizeof \"s\"", "sizeof L\"s\"", "sizeof 'a'", "sizeof 1", "sizeof 1. ", "sizeof .5", "sizeof 0xe", "_Alignof ( int ) - 1"]
    # __extension__ in front of every kind of expression (the keyword is a token of the expression node itself)
    for e in EXT_OPERANDS:
        out += ["__extension__ " + e, "a + __extension__ " + e, "__extension__ (" + e + ")"]
    return [o for o in out if o]


EXT_OPERANDS = ["a", "1", "\"s\"", "'c'", "(a)", "f(a)", "f()", "a[1]", "s.m", "p->m", "a++", "a--", "++a", "-a", "*p", "&a", "!a", "sizeof a", "sizeof(int)", "_Alignof(int)", "(int)a", "(int){ 1 }",
                "({ a; })", "__real__ z", "__imag__ z", "__builtin_va_arg(ap, int)", "__builtin_offsetof(struct S, m)", "__builtin_choose_expr(1, a, b)", "_Generic(a, int: 1, default: 2)", "__func__", "&&lab",
                "a * b", "a + b", "a << b", "a < b", "a == b", "a & b", "a && b", "a || b", "a ? b : c", "a = b", "a += b", "a, b"]


def adjacency_statements():
    out = []
    for v in ["1", "-1", "- 1", "a", "-a", "(a)", "\"s\"", "L\"s\"", "'a'", "L'a'", "u8\"s\"", ".5", "1.", "0xe", "*p", "&a", "!a", "~a", "++a", "--a", "sizeof a", "sizeof(int)", "(int)a", "(int){ 1 }", "_Alignof(int)", "__func__"]:
        out += ["return %s;" % v, "switch (a) { case %s: ; }" % v if v[0] not in "*&+-(_s" and "a" != v and "\"" not in v and v not in ("!a", "~a") else "", "if (a) b; else %s;" % v, "do %s; while (%s);" % (v, v),
                "while (%s) %s;" % (v, v), "for (%s; %s; %s) %s;" % (v, v, v, v), "if (%s) %s;" % (v, v), "l: %s;" % v, "{ %s; %s; }" % (v, v), "switch (%s) default: %s;" % (v, v)]
    out += ["__extension__ %s;" % e for e in EXT_OPERANDS] + ["{ __extension__ %s; }" % e for e in EXT_OPERANDS] + ["if (a) __extension__ %s; else __extension__ %s;" % (e, e) for e in EXT_OPERANDS[:12]]
    out += ["__extension__ __extension__ f(a);", "if (a) __extension__ f(a); else __extension__ __extension__ f(a);", "__extension__ __extension__ a * b;", "__extension__ __extension__ int q;"]
    out += ["goto l;", "goto *p;", "goto * p;", "goto *&&l;", "goto * && l;", "return;", "do ; while (1);", "do do ; while (1); while (1);", "if (a) if (b) ; else ; else ;", "else_: ;" if False else "l: l2: ;",
            "switch (a) { case 1: case 2: case -3: case 'a': case 1 ... 2: default: ; }", "switch (a) { case 1 ... 0xe: ; }", "switch (a) { case 0xe ... 0xf: ; }", "switch (a) { case 'a' ... 'z': ; }"]
    return [o for o in out if o]


def statements():
    E = "a = b"
    out = [";", "a;", "a = 1;", "{ }", "{ ; }", "{ a; b; }", "{ { } }", "{ int x; x = 1; }", "{ int x = 1, y; { int z; } }",
           "if (a) b;", "if (a) b; else c;", "if (a) { b; } else { c; }", "if (a) if (b) c; else d;", "if (a) ; else ;", "if (a) { } else if (b) { } else { }",
           "switch (a) { }", "switch (a) { case 1: b; break; default: c; }", "switch (a) { case 1: case 2: b; }", "switch (a) case 1: b;",
           "switch (a) { case 1 ... 3: b; }", "switch (a) { default: ; }", "switch (a) { case 1: { int x; } break; case 'c': ; }",
           "while (a) b;", "while (a) { b; continue; }", "while (1) { break; }", "do a; while (b);", "do { a; } while (b);",
           "for (;;) ;", "for (a; b; c) d;", "for (int i = 0; i < n; ++i) { x += i; }", "for (int i = 0, j = 1; ; ) ;", "for (a, b; ; c, d) ;",
           "for (;;) { if (a) break; else continue; }", "goto l;", "l: a;", "l: ;", "l1: l2: a;", "{ goto *p; }", "return;", "return a;", "return a + b;", "return (a);",
           "return (struct S){ 1 };", "{ l: a; goto l; }", "__asm__(\"nop\");", "asm volatile (\"nop\");", "__asm__ volatile (\"mov %0, %1\" : \"=r\"(a) : \"r\"(b));",
           "__asm__ (\"x\" : \"=r\"(a), \"=m\"(b) : \"r\"(c), \"i\"(1) : \"memory\", \"cc\");", "__asm__ (\"x\" : : \"r\"(a));", "__asm__ (\"x\" : : : \"memory\");",
           "__asm__ goto (\"x\" : : : : l);", "asm (\"a\" \"b\");", "__asm__ (\"x\" : [o] \"=r\"(a) : [i] \"r\"(b));",
           "{ int x; int y = x; }", "{ struct S s; s.m = 1; }", "{ typedef int T; T x; }", "{ enum { A, B } e; }", "{ static int x; extern int y; register int z; auto int w; }",
           "{ _Static_assert(1, \"m\"); }", "{ int a[n]; }", "{ int (*fp)(void) = f; }", "{ x = sizeof(int); }", "{ __extension__ int x; }", "{ __label__ l; l: ; }",
           "{ int x __attribute__((unused)); }", "{ int x __attribute__((cleanup(f))) = 1; }", "if (a) l: b;", "while (a) switch (b) { case 1: continue; }",
           # a block-scope declaration that BEGINS with an alignment specifier / a GNU attribute (rejected until the parser was repaired)
           "{ _Alignas(8) int z; }", "{ _Alignas(double) char buf[8]; z = 1; }", "for (_Alignas(8) int i = 0; i < 2; i++) ;", "{ __attribute__((unused)) int w; }",
           "{ __attribute__((unused)) static int w = 1; }", "switch (a) { case 1: __attribute__((fallthrough)); case 2: ; }", "for (__attribute__((unused)) int i = 0; ; ) break;"]
    return out


def declarations():
    out = []
    for d, t in itertools.product(DECLARATORS, TAILS):
        out.append("extern int %s%s;" % (d, t))
    for d in DECLARATORS:
        out += ["typedef int %s;" % re.sub(r"\bv\b", "T1", d), "static int %s;" % d if "(" not in d else "static int %s;" % d,
                "int %s, w;" % d, "int w, %s;" % d, "const volatile int %s;" % d, "struct S %s;" % d, "void g(int %s);" % re.sub(r"\bv\b", "p", d),
                "void g(int %s, char c);" % re.sub(r"\bv\b", "p", d), "struct Q { int %s; };" % d if "(void)" not in d and "()" not in d and "..." not in d else "struct Q { int (*v)(void); };"]
    out += ["int x;", "int x = 1;", "int x = 1, y = 2;", "int x = { 1 };", "int a[] = { 1, 2, 3 };", "int a[3] = { 1, 2, 3, };", "int a[2][2] = { { 1, 2 }, { 3, 4 } };",
            "int a[] = { [0] = 1, [2] = 3 };", "int a[] = { [0 ... 2] = 1 };", "struct S s = { .a = 1, .b = { 2, 3 }, .c.d = 4, .e[1] = 5 };", "struct S s = { 0 };",
            "char s[] = \"abc\";", "char *s = \"a\" \"b\";", "int *p = &x;", "int (*fp)(int) = f;", "int x = (int)1.5;", "int x = sizeof(int);", "int x = a ? b : c;",
            "unsigned long long int x;", "long double _Complex z;", "signed char c;", "_Bool b;", "short unsigned int volatile const x;", "int long long unsigned x;",
            "static const int x = 1;", "extern int x;", "register int x;", "_Thread_local int x;", "static _Thread_local int x;", "extern _Thread_local int x;",
            "inline int f(void);", "_Noreturn void f(void);", "static inline int f(void) { return 0; }", "inline static _Noreturn void f(void) { for (;;) ; }",
            "_Alignas(8) int x;", "_Alignas(int) char c;", "_Alignas(8) _Alignas(16) int x;", "_Atomic int x;", "_Atomic(int) x;", "_Atomic(int *) p;", "int * _Atomic p;",
            "const int * const * restrict volatile p;", "struct S;", "union U;", "enum E;", "struct S { int a; };", "struct S { int a, b; char c; };", "struct S { int a : 3, : 2, b : 1; };",
            "struct S { struct { int a; }; union { int b; char c; }; };", "struct S { struct T { int a; } t; } s;", "struct { int a; } s;", "struct S { int a; } s, *p, a[2];",
            "union U { int a; float b; };", "enum E { A };", "enum E { A, B, C };", "enum E { A = 1, B = A + 1, C, };", "enum { A, B } e;", "enum E { A } e = A;",
            "struct S { int a; } __attribute__((packed));", "struct __attribute__((packed)) S { int a; };", "struct S { int a __attribute__((aligned(4))); };",
            "enum E { A __attribute__((unused)), B __attribute__((unused)) = 2 };", "struct S { int f[]; };", "struct S { int (*cb)(int), x; };", "struct S { const int a; volatile int b; };",
            "typedef int T;", "typedef int T, *PT, AT[2], FT(void);", "typedef struct S { int a; } S_t;", "typedef struct { int a; } S_t, *PS_t;", "typedef enum { A } E_t;",
            "typedef int (*FP)(int, char);", "typedef void (*H)(int);", "typedef T U;", "typedef const T CT;", "typedef __typeof__(int) TI;", "typeof(1) x;", "__typeof__(x) y;", "typeof(int *) p;",
            "void f(void);", "void f();", "int f(int);", "int f(int a, int b);", "int f(int, ...);", "int f(int a[], int b[3], int c[static 3], int d[const 3], int e[*]);",
            "int f(int (*cb)(int));", "int f(int g(int));", "int f(struct S s, union U u, enum E e);", "int f(const char *restrict s, char *const *argv);", "int f(register int a);",
            "int f(void) { return 0; }", "int f(int a, int b) { return a + b; }", "void f(void) { }", "static int f(int a) { int b = a; return b; }", "int *f(void) { return 0; }",
            "int (*f(int a))(int) { return 0; }", "int f(a, b) int a; int b; { return a + b; }", "int f(a) int a; { return a; }", "f(void) { return 0; }", "void f(int n, int a[n]) { }",
            "_Static_assert(1, \"msg\");", "_Static_assert(sizeof(int) == 4, \"int\");", "__extension__ typedef long long ll;", "__extension__ int x;", "__asm__(\"nop\");", "asm(\"a\" \"b\");",
            "int x __attribute__((unused));", "__attribute__((unused)) int x;", "int __attribute__((unused)) x;", "int x __attribute__((unused)), y __attribute__((used));",
            "__attribute__((noreturn)) void f(void);", "void f(void) __attribute__((noreturn));", "void f(int a __attribute__((unused)));", "int x __attribute__((section(\".d\"), aligned(8)));",
            "int x __attribute__(());", "int x __attribute__((__unused__));", "int x __attribute__((format(printf, 1, 2)));", "void f(void) __attribute__((alias(\"g\")));",
            "int f(void) asm(\"g\");", "int x asm(\"y\") = 1;", "int x asm(\"y\") __attribute__((unused)) = 1;", "int a[2] asm(\"b\") __attribute__((unused));",
            "int f(int a) __asm__(\"g\") __attribute__((pure));", "extern int f(void) asm(\"g\") __attribute__((nothrow)), h(void) asm(\"i\");",
            "int x, *p = &x, a[2] = { 1, 2 }, f(void), (*fp)(void) = f;", "int;", "struct S { };"]
    return out


def units():
    out = ["int __attribute__((unused)) v;", "int * __attribute__((unused)) v;", "int (__attribute__((unused)) v);", "int (__attribute__((unused)) *v)(void);",
           "int __attribute__((noinline)) f(void);", "int * __attribute__((noinline)) f(void);", "int (__attribute__((noinline)) f)(void);", "__attribute__((noinline)) int f(void);",
           "int __attribute__((noinline)) f(void) { return 0; }", "int * __attribute__((noinline)) f(void) { return 0; }", "__attribute__((noinline)) int f(void) { return 0; }",
           "void f(int __attribute__((unused)) a);", "void f(int * __attribute__((unused)) a, int (__attribute__((unused)) b));", "struct S { int __attribute__((packed)) a; int * __attribute__((unused)) b; };",
           "int v __attribute__((unused)), * __attribute__((unused)) w;", "int f(void) __attribute__((noreturn)), g(void);", "__extension__ __attribute__((unused)) int v;", "int a, __attribute__((unused)) b, * __attribute__((unused)) c;", "void f(int (__attribute__((unused)) *)(void));",
           "void f(int (* __attribute__((unused)) cb)(void), int __attribute__((unused)) [2]);",
           "int (g) = 1;", "int (*p) = 0;", "int ((a)) = 2, b = 3;", "char (s[4]) = \"abc\";", "void f(void) { int (x) = 1; }"]
    # a GNU attribute in front of a declarator x the suffixes that follow it (one list of attributes, several array/function declarators
    # built around the same identifier; seeded change C14-c made every one of them hold the list)
    A = "__attribute__((unused))"
    for sfx in ("", "[1]", "[1][2]", "[2][3][4]", "(int)", "(int, char)", "(void)"):
        out += ["int a, %s b%s;" % (A, sfx), "int (%s b%s);" % (A, sfx), "int (%s b)%s;" % (A, sfx), "int * %s b%s;" % (A, sfx), "int %s b%s;" % (A, sfx),
                "int a, * %s b%s, %s c%s;" % (A, sfx, A, sfx), "void f(int (%s p%s));" % (A, sfx), "void f(int %s p%s, int (%s q)%s);" % (A, sfx, A, sfx),
                "void f(void) { int a, %s b%s; }" % (A, sfx), "typedef int T, %s U%s;" % (A, sfx)]
        out += ["int a, %s (b)%s;" % (A, sfx), "int a, %s (*b)%s;" % (A, sfx), "int a, %s ((b))%s;" % (A, sfx), "struct S { int a, %s (b)%s; };" % (A, sfx) if not sfx.startswith("(") else "int a2, %s (b2)%s;" % (A, sfx),
                "void f(int, int (%s (*))%s);" % (A, sfx), "void f(int (%s (*p))%s);" % (A, sfx)]
        if sfx.startswith("["):
            out += ["struct S { int a, %s b%s; };" % (A, sfx), "void f(int (%s %s));" % (A, sfx), "void f(int n, int (%s p)%s);" % (A, sfx.replace("1", "n"))]
        if sfx.startswith("("):
            out += ["int (%s *b%s)%s;" % (A, sfx, sfx), "int a, %s (*b)%s;" % (A, sfx)]
    for s in statements():
        out.append("void f(void) { %s }" % s)
    for e in expressions():
        out.append("void f(void) { x = %s; }" % e)
        out.append("int g = %s;" % e)
    out += ["%:define X\nint x;", "int a<:2:> = <% 1, 2 %>;", "void f(void) <% a<:0:> = 1; %>", "int x; /* c */ int y; // d\nint z;", "int\nx\n=\n1\n;",
            "#line 10\nint x;", "# 3 \"f.c\"\nint x;", "int x;\n#pragma once\nint y;", "int \\\nx;", "int x = 'a' + '\\n';", "int f(void) { return a >>= 2, a<:0:> ? 1 : 2; }"]
    return out


def corpus():
    c = [("e", e) for e in expressions()] + [("s", s) for s in statements()] + [("d", d) for d in declarations()]
    c += [("e", e) for e in adjacency()] + [("a", "void f(void) { x = %s; }" % e) for e in adjacency()] + [("s", s) for s in adjacency_statements()]
    c += [("a", "int f(void) { %s }" % s) for s in adjacency_statements()]
    c += [("a", d) for d in declarations()] + [("a", u) for u in units()]
    c += [("a", "\n".join(declarations()[i::17])) for i in range(17)]
    return c


def extension_corpus():
    """forms that need non-default switches (every extension / translation on): the node kinds the default corpus cannot reach"""
    return [("a", t) for t in [
        "void f ( void ) { x = __real__ z + __imag__ z ; __real__ z = 1 ; __imag__ ( z ) ++ ; }",
        "void f ( void ) { __asm__ inline ( \"nop\" ) ; __asm__ volatile goto ( \"x\" : : : : L ) ; L : ; }",
        "void f ( void ) { x = true ; y = false ; p = NULL ; if ( p == NULL && ! true ) return ; }",
        "_Template void f ( void ) ;",
        "_Forall ( T ) x ; _Exists ( T ) y ;",
        "int f ( a , b ) int a ; char b ; { return a ; }",
        "int g ( a , b , c ) int a , c ; char * b ; { return a + c ; }",
        "struct s { int a : 3 , : 0 , b : 1 ; } ;",
        "void f ( void ) { q = nullptr ; char16_t c16 ; char32_t c32 ; wchar_t w ; }",
        "void f ( void ) { x = __builtin_choose_expr ( 1 , a , b ) ; y = __builtin_offsetof ( struct s , a ) ; }",
        "void f ( void ) { __typeof__ ( x ) y ; __typeof__ ( int * ) p ; _Alignas ( 8 ) int z ; }",
        "void f ( void ) { x = ( { int t = 1 ; t + 1 ; } ) ; y = ( { ; } ) ; }",
        "void f ( void ) { p = && L ; goto * p ; L : ; }",
        "void f ( void ) { switch ( x ) { case 1 ... 3 : break ; } }",
        "int a [ 4 ] = { [ 0 ... 2 ] = 1 } ;",
        "void f ( void ) { __label__ l1 ; l1 : ; }",
        "void f ( void ) { __auto_type v = 1 ; }",
        "__int128 big ; unsigned __int128 ubig ; _Float128 q ; __complex__ double cd ; _Complex float cf ;",
        "_Atomic int ai ; _Atomic ( int ) aj ; int * _Atomic pa ; _Atomic ( int * ) pb ;",
        "_Noreturn void die ( void ) ; inline static int sq ( int x ) { return x * x ; } _Thread_local int tl ; extern _Thread_local int etl ;",
        "int x __attribute__ ( ( aligned ( 8 ) , unused ) ) ; __attribute__ ( ( noreturn ) ) void g ( void ) ; struct __attribute__ ( ( packed ) ) s { char c ; int i ; } ;",
        "void f ( int * restrict p , int a [ static 3 ] , int b [ const ] , int c [ * ] ) ;",
        "void f ( void ) { __asm__ ( \"mov %1, %0\" : \"=r\" ( x ) : \"r\" ( y ) : \"memory\" ) ; }",
        "__asm__ ( \"nop\" ) ; int v __asm__ ( \"sym\" ) ;",
        "enum e { A , B = 2 , C } ; enum e v = A ; typedef enum { X , Y } t ;",
        "void f ( void ) { x = __builtin_va_arg ( ap , int ) ; __builtin_va_start ( ap , n ) ; __builtin_va_end ( ap ) ; }",
        "void f ( void ) { x = _Generic ( y , int : 1 , char * : 2 , default : 3 ) ; z = _Alignof ( int ) + sizeof ( int [ 3 ] ) ; }",
        "void f ( void ) { x = ( int [ ] ) { 1 , 2 } [ 0 ] ; s = ( struct s ) { . c = 1 , . i = 2 } ; }",
        "_Static_assert ( sizeof ( int ) >= 2 , \"int\" ) ; struct t { _Static_assert ( 1 , \"m\" ) ; int k ; } ;",
        "void f ( void ) { for ( int i = 0 , j = 1 ; i < j ; i ++ , j -- ) continue ; do x -- ; while ( x ) ; }",
        "void f ( void ) { __extension__ ( { 1 ; } ) ; __extension__ x ++ ; __extension__ __real__ z ; }",
        "__extension__ typedef long long ll ; __extension__ struct es { int k ; } ev ; __extension__ int ef ( void ) { return 0 ; }",
        "typedef int ( * fpt ) ( int , ... ) ; fpt tab [ 2 ] ; int ( * ( * pp ) ( void ) ) [ 3 ] ; void ( * signal ( int , void ( * ) ( int ) ) ) ( int ) ;",
    ]]
