"""Statement nestings for C04's context theorem: every nesting of for/while/do/switch/if/if-else/block/label up to a depth,
with break / continue / case / default / an expression statement innermost.  Returns (C text of a function, the prefix
encoding the Lean model reads)."""
import itertools

WRAPS = {
    "for": ("for (;;) %s", "L %s"), "while": ("while (x) %s", "L %s"), "do": ("do %s while (x);", "L %s"), "switch": ("switch (x) %s", "S %s"),
    "if": ("if (x) %s", "I %s"), "ifelse": ("if (x) %s else y = 1;", "E %s o"), "elseonly": ("if (x) y = 2; else %s", "E o %s"),
    "block": ("{ y = 0; %s }", "B{ o %s }"), "label": ("lab%d: %s", "l %s"), "case": ("case 7: %s", "C %s"), "default": ("default: %s", "D %s"),
}
LEAVES = {"break": ("break;", "b"), "continue": ("continue;", "c"), "case": ("case 1: ;", "C o"), "default": ("default: ;", "D o"), "expr": ("y = 3;", "o")}


def nestings(depth, wraps=None):
    wraps = wraps or list(WRAPS)
    n = 0
    for d in range(0, depth + 1):
        for ws in itertools.product(wraps, repeat=d):
            for leaf in LEAVES:
                text, enc = LEAVES[leaf]
                for w in reversed(ws):
                    n += 1
                    t, e = WRAPS[w]
                    text = t % ((n, text) if "%d" in t else text)
                    enc = e % enc
                yield ("int x, y; void f(void) { %s }\n" % text, enc, ws + (leaf,))
