"""Generator for C12: typedef chains of arbitrary length over pointer/array/function/qualified/tag types, shadowing
typedefs and tags in inner blocks, forward-declared and later completed tags; every declaration on its own line.  The
generator keeps C's environment and knows, for every declaration, the expected printed type: which typedef / tag
declaration (by line) each leaf refers to and what each typedef name resolves to (derivations kept, qualifiers united)."""

BASIC = [("int", "Int_S", 5), ("char", "Char", 0), ("unsigned", "Int_U", 6), ("long", "Long_S", 7), ("double", "Double", 13),
         ("short", "Short_S", 3), ("_Bool", "Bool", 11), ("float", "Float", 12), ("unsigned char", "Char_U", 2)]


class TypedefGen:
    def __init__(self, rng, nnames=6, chain=8, size=30):
        self.r, self.nnames, self.chain, self.size = rng, nnames, chain, size
        self.lines = []
        self.frames = [{}]                # name -> typedef record / ("tag", record)
        self.refs = [set()]               # per frame: keys looked up through it (a later declaration of such a key would capture the earlier use: late-declaration finding)
        self.tdecls = []                  # typedef records: {id, name, line, ty (type tree), frame_depth}
        self.tags = []                    # tag records: {id, kw, name, line}
        self.tag_alias = {}               # (kw, name, line of the completing definition) -> line of the forward declaration
        self.expect = {}                  # (kind, name, line) -> expected printed type
        self.model = []                   # model records
        self.nv = self.nf = self.ng = 0
        self.stats = {"typedef": 0, "alias": 0, "ptr": 0, "arr": 0, "fn": 0, "qual": 0, "tagref": 0, "shadow_typedef": 0, "shadow_tag": 0,
                      "forward_tag": 0, "maxchain": 0, "vars": 0}

    def emit(self, s):
        self.lines.append(s)
        return len(self.lines)

    # ---- type trees: ('b', i) | ('v',) | ('g', tagrec) | ('n', tdrec) | ('p', t) | ('a', t) | ('f', ret, [params]) | ('q', c, v, t)
    def lookup(self, key):
        for f in reversed(self.frames):
            if key in f:
                return f[key]
        return None

    def visible_typedefs(self):
        seen, out = set(), []
        for f in reversed(self.frames):
            for k, rec in f.items():
                if k.startswith("o:") and k not in seen:
                    seen.add(k)
                    out.append(rec)
        return out

    def visible_tags(self):
        seen, out = set(), []
        for f in reversed(self.frames):
            for k, rec in f.items():
                if k.startswith("t:") and k not in seen:
                    seen.add(k)
                    out.append(rec)
        return out

    def depth_of(self, t):
        """typedef-chain length below a type"""
        k = t[0]
        if k == "n":
            return 1 + self.depth_of(t[1]["ty"])
        if k in ("p", "a"):
            return self.depth_of(t[1])
        if k == "q":
            return self.depth_of(t[3])
        if k == "f":
            return max([self.depth_of(t[1])] + [self.depth_of(p) for p in t[2]])
        return 0

    def is_arr_or_fn(self, t):
        """after reading through typedefs and qualifiers"""
        while True:
            if t[0] == "n":
                t = t[1]["ty"]
            elif t[0] == "q":
                t = t[3]
            else:
                return t[0] in ("a", "f")

    def is_void(self, t):
        while True:
            if t[0] == "n":
                t = t[1]["ty"]
            elif t[0] == "q":
                t = t[3]
            else:
                return t[0] == "v"

    def incomplete(self, t):
        while True:
            if t[0] == "n":
                t = t[1]["ty"]
            elif t[0] == "q":
                t = t[3]
            elif t[0] == "a":
                t = t[1]
            else:
                return t[0] == "v" or (t[0] == "g" and not t[1]["complete"]) or t[0] == "f"

    def base_type(self):
        """(specifier text, type tree): a basic type, void, a visible tag, or a visible typedef name"""
        r = self.r
        tds = self.visible_typedefs()
        tgs = self.visible_tags()
        k = r.random()
        if tds and k < 0.6:
            rec = r.choice(tds)
            for f in self.refs:
                f.add("o:" + rec["name"])
            return rec["name"], ("n", rec)
        if tgs and k < 0.75:
            rec = r.choice(tgs)
            for f in self.refs:
                f.add("t:" + rec["name"])
            self.stats["tagref"] += 1
            return "%s %s" % (rec["kw"], rec["name"]), ("g", rec)
        if k < 0.8:
            return "void", ("v",)
        i = r.randrange(len(BASIC))
        return BASIC[i][0], ("b", i)

    def derive(self, spec, t, name):
        """one declarator around `name` over base type t: returns (declarator text, type tree)"""
        r = self.r
        k = r.random()
        q = ""
        if k < 0.25:
            self.stats["alias"] += 1
            return name, t
        if k < 0.55:
            self.stats["ptr"] += 1
            if r.random() < 0.3:
                cq = r.choice(["const", "volatile"])
                self.stats["qual"] += 1
                return "* %s %s" % (cq, name), ("q", cq == "const", cq == "volatile", ("p", t))
            return "*" + name, ("p", t)
        if k < 0.75 and not self.is_void(t) and not self.incomplete(t):
            self.stats["arr"] += 1
            return "%s[%d]" % (name, r.choice([1, 2, 3])), ("a", t)
        if k < 0.9 and not self.is_arr_or_fn(t):
            self.stats["fn"] += 1
            return self.fnptr(name, t)
        return name, t

    def fnptr(self, name, t):
        """pointer to a function returning t; the parameters are basic types and visible typedef names (of object, non-array types)"""
        r = self.r
        ptexts, ptys = [], []
        for _ in range(r.choice([1, 1, 2, 3])):
            # (not the name being declared: inside its own declarator it still denotes the outer declaration, which the
            #  order-insensitive scope search cannot tell — C10's late-declaration finding)
            tds = [rec for rec in self.visible_typedefs() if not self.is_arr_or_fn(rec["ty"]) and not self.is_void(rec["ty"]) and rec["name"] != name]
            if tds and r.random() < 0.5:
                rec = r.choice(tds)
                for f in self.refs:
                    f.add("o:" + rec["name"])
                ptexts.append(rec["name"])
                ptys.append(("n", rec))
                self.stats["param_typedef"] = self.stats.get("param_typedef", 0) + 1
            else:
                i = r.randrange(len(BASIC))
                ptexts.append(BASIC[i][0])
                ptys.append(("b", i))
        return "(*%s)(%s)" % (name, ", ".join(ptexts)), ("p", ("f", t, ptys))

    def qualified_base(self, spec, t):
        r = self.r
        if r.random() < 0.3 and not self.is_arr_or_fn(t):
            cq = r.choice(["const", "volatile"])
            self.stats["qual"] += 1
            return cq + " " + spec, ("q", cq == "const", cq == "volatile", t)
        return spec, t

    # ---- declarations
    def typedef(self, indent):
        r = self.r
        spec, t = self.base_type()
        name = "T%d" % r.randrange(self.nnames)
        if ("o:" + name) in self.frames[-1] or ("o:" + name) in self.refs[-1]:
            return
        if self.depth_of(t) >= self.chain:
            return
        spec, t = self.qualified_base(spec, t)
        d, ty = self.derive(spec, t, name)
        if self.lookup("o:" + name) is not None:
            self.stats["shadow_typedef"] += 1
        line = self.emit(indent + "typedef %s %s;" % (spec, d))
        rec = {"id": len(self.tdecls), "name": name, "line": line, "ty": ty}
        self.tdecls.append(rec)
        self.frames[-1]["o:" + name] = rec
        self.model.append("T %d %s" % (rec["id"], self.mty(ty)))
        self.expect[("Typedef", name, line)] = self.resolved(ty)
        self.stats["typedef"] += 1
        self.stats["maxchain"] = max(self.stats["maxchain"], self.depth_of(ty))

    def tagdecl(self, indent, forward=None):
        r = self.r
        name = "S%d" % r.randrange(3)
        if ("t:" + name) in self.frames[-1]:
            rec = self.frames[-1]["t:" + name]
            if not rec["complete"] and r.random() < 0.7:
                # completion of a forward-declared tag: the same entity
                cl = self.emit(indent + "%s %s { int m%d; };" % (rec["kw"], name, len(self.lines)))
                rec["complete"] = True
                # the forward declaration and its completion declare ONE entity: a reference may be reported at either line
                self.tag_alias[(rec["kw"], name, cl)] = rec["line"]
            return
        if ("t:" + name) in self.refs[-1]:
            return
        kw = r.choice(["struct", "struct", "union"])
        fwd = r.random() < 0.4 if forward is None else forward
        if self.lookup("t:" + name) is not None:
            self.stats["shadow_tag"] += 1
        if fwd:
            self.stats["forward_tag"] += 1
            line = self.emit(indent + "%s %s;" % (kw, name))
        else:
            line = self.emit(indent + "%s %s { int m%d; };" % (kw, name, len(self.lines) + 1))
        rec = {"id": len(self.tags), "kw": kw, "name": name, "line": line, "complete": not fwd}
        self.tags.append(rec)
        self.frames[-1]["t:" + name] = rec

    def object_declaration(self, name):
        """'spec declarator;' of an object of complete type, and its type"""
        spec, t = self.base_type()
        spec, t = self.qualified_base(spec, t)
        d, ty = self.derive(spec, t, name)
        if self.incomplete(ty) or self.is_fn(ty):
            d, ty = "*" + name, ("p", t)
        return "%s %s;" % (spec, d), ty

    def variable(self, indent):
        self.nv += 1
        name = "v%d" % self.nv
        text, ty = self.object_declaration(name)
        line = self.emit(indent + text)
        self.model.append("V %s@%d %s" % (name, line, self.mty(ty)))
        self.expect[("Variable", name, line)] = self.printed(ty)
        self.stats["vars"] += 1

    # ---- structures and unions with members: plain, bit-field, function-pointer members; anonymous structures/unions
    # (6.7.2.1p13), named members of untagged and of tagged types defined in place, nested in each other
    def new_tag(self, kw, name, line, register):
        rec = {"id": len(self.tags), "kw": kw, "name": name, "line": line, "complete": True}
        self.tags.append(rec)
        if register:
            self.frames[-1]["t:" + name] = rec
        return rec

    def members(self, line, depth):
        r = self.r
        out = []
        for _ in range(r.choice([1, 2, 2, 3])):
            k = r.random()
            if depth < 3 and k < 0.45:
                kw = r.choice(["struct", "struct", "union"])
                inner = self.members(line, depth + 1)
                form = r.random()
                if form < 0.45:
                    out.append("%s { %s };" % (kw, inner))
                    self.stats["anonymous_member"] = self.stats.get("anonymous_member", 0) + 1
                    continue
                self.nf += 1
                name = "f%d" % self.nf
                if form < 0.8:
                    rec = self.new_tag(kw, "<untagged>", line, False)
                    out.append("%s { %s } %s;" % (kw, inner, name))
                    self.stats["untagged_member"] = self.stats.get("untagged_member", 0) + 1
                else:
                    self.ng += 1
                    rec = self.new_tag(kw, "N%d" % self.ng, line, True)     # no structure scope in C: the tag is visible after the definition
                    out.append("%s %s { %s } %s;" % (kw, rec["name"], inner, name))
                    self.stats["tagged_member"] = self.stats.get("tagged_member", 0) + 1
                ty = ("g", rec)
            elif k < 0.55:
                self.nf += 1
                name = "f%d" % self.nf
                i = r.choice([0, 2])
                out.append("%s %s : %d;" % (BASIC[i][0], name, r.choice([1, 3, 7])))
                ty = ("b", i)
                self.stats["bitfield"] = self.stats.get("bitfield", 0) + 1
            else:
                self.nf += 1
                name = "f%d" % self.nf
                text, ty = self.object_declaration(name)
                out.append(text)
            self.model.append("V %s@%d %s" % (name, line, self.mty(ty)))
            self.expect[("Field", name, line)] = self.printed(ty)
            self.stats["fields"] = self.stats.get("fields", 0) + 1
        return " ".join(out)

    def aggregate(self, indent):
        r = self.r
        line = len(self.lines) + 1
        kw = r.choice(["struct", "struct", "union"])
        body = self.members(line, 1)
        if r.random() < 0.6:
            self.ng += 1
            self.new_tag(kw, "G%d" % self.ng, line, True)
            self.emit(indent + "%s G%d { %s };" % (kw, self.ng, body))
        else:
            self.nv += 1
            name = "v%d" % self.nv
            rec = self.new_tag(kw, "<untagged>", line, False)
            self.emit(indent + "%s { %s } %s;" % (kw, body, name))
            self.model.append("V %s@%d %s" % (name, line, self.mty(("g", rec))))
            self.expect[("Variable", name, line)] = self.printed(("g", rec))
        self.stats["aggregates"] = self.stats.get("aggregates", 0) + 1

    def is_fn(self, t):
        while True:
            if t[0] == "n":
                t = t[1]["ty"]
            elif t[0] == "q":
                t = t[3]
            else:
                return t[0] == "f"

    # ---- expected printing
    def printed(self, t):
        """type of a non-typedef declaration after the pipeline: typedef names stay, annotated with what they resolve to"""
        k = t[0]
        if k == "b":
            return BASIC[t[1]][1]
        if k == "v":
            return "Void"
        if k == "g":
            return "(Tag_%s_%s@%d)" % (t[1]["kw"], t[1]["name"], t[1]["line"])
        if k == "n":
            return "(TD_%s@%d=>%s)" % (t[1]["name"], t[1]["line"], self.resolved(t[1]["ty"]))
        if k == "p":
            return "(Ptr_%s)" % self.printed(t[1])
        if k == "a":
            return "(Arr_%s)" % self.printed(t[1])
        if k == "f":
            return "(Fn_%s_[%s])" % (self.printed(t[1]), "_".join(self.printed(p) for p in t[2]))
        return "(Q%s%s_%s)" % ("c" if t[1] else "", "v" if t[2] else "", self.printed(t[3]))

    def resolved(self, t):
        """what the chain denotes: typedef names read through, qualifiers united (6.7.3p5)"""
        k = t[0]
        if k in ("b", "v", "g"):
            return self.printed(t)
        if k == "n":
            return self.resolved(t[1]["ty"])
        if k == "p":
            return "(Ptr_%s)" % self.resolved(t[1])
        if k == "a":
            return "(Arr_%s)" % self.resolved(t[1])
        if k == "f":
            return "(Fn_%s_[%s])" % (self.resolved(t[1]), "_".join(self.resolved(p) for p in t[2]))
        c, v, inner = t[1], t[2], self.resolved(t[3])
        import re
        m = re.match(r"\(Q(c?)(v?)_(.*)\)$", inner)
        if m:
            c, v, inner = c or bool(m.group(1)), v or bool(m.group(2)), m.group(3)
        return "(Q%s%s_%s)" % ("c" if c else "", "v" if v else "", inner)

    def mty(self, t):
        k = t[0]
        if k == "b":
            return "b%d" % t[1]
        if k == "v":
            return "v"
        if k == "g":
            return "g%d" % t[1]["id"]
        if k == "n":
            return "n%d" % t[1]["id"]
        if k in ("p", "a"):
            return k + " " + self.mty(t[1])
        if k == "f":
            return "f%d0 %s %s" % (len(t[2]), self.mty(t[1]), " ".join(self.mty(p) for p in t[2]))
        return "q%d%d %s" % (t[1], t[2], self.mty(t[3]))

    # ---- program
    def block(self, indent, depth):
        r = self.r
        self.emit(indent + "{")
        self.frames.append({})
        self.refs.append(set())
        for _ in range(r.choice([2, 3, 5])):
            k = r.random()
            if k < 0.4:
                self.typedef(indent + " ")
            elif k < 0.5:
                self.tagdecl(indent + " ")
            elif k < 0.6:
                self.aggregate(indent + " ")
            elif k < 0.85:
                self.variable(indent + " ")
            elif depth < 3:
                self.block(indent + " ", depth + 1)
        self.variable(indent + " ")
        self.frames.pop()
        self.refs.pop()
        self.emit(indent + "}")

    def program(self):
        r = self.r
        nf = 0
        while len(self.lines) < self.size:
            k = r.random()
            if k < 0.45:
                self.typedef("")
            elif k < 0.55:
                self.tagdecl("")
            elif k < 0.67:
                self.aggregate("")
            elif k < 0.8:
                self.variable("")
            else:
                nf += 1
                self.emit("void wrap%d(void)" % nf)
                self.block("", 1)
        # forward-declared tags are completed at the end (every object declared above is a pointer to them or complete)
        return "\n".join(self.lines) + "\n"
