"""Generator for C09's name-catalog model: random block-structured programs over a few names, each declared as a typedef name or
as a variable, re-declared in either role in inner blocks, used in its role, with ambiguities `(N) - x` between them - as C text and
as the item list of lean/PsycheModel/Catalog.lean.  The generator keeps C's environment, so it knows the reading of every ambiguity."""


class CatalogGen:
    def __init__(self, rng, names=4, size=24, maxdepth=4):
        self.r, self.names, self.size, self.maxdepth = rng, names, size, maxdepth
        self.n = 0

    def fresh(self):
        self.n += 1
        return "v%d" % self.n

    def program(self):
        """returns (C text, items string, [expected role per ambiguity])"""
        env = [{}]                     # innermost last
        text, items, exp = [], [], []
        # file scope: declarations only
        for k in range(self.names):
            if self.r.random() < 0.75:
                role = self.r.choice("tn")
                env[0][k] = role
                text.append("typedef int N%d;" % k if role == "t" else "int N%d;" % k)
                items.append("D%s %d" % (role, k))
        # the function's own parameters are declared in the block of its body; the named parameters of a prototype NESTED in a
        # parameter ('void (*cb)(int N2)') are in a scope that ends with that declarator (6.2.1p4): for the body it is a block that
        # holds these declarations and nothing else (seeded change C09-c let them leak into the body)
        params, nested = [], []
        env.append({})
        pool = list(range(self.names))
        self.r.shuffle(pool)
        for k in pool[:self.r.choice([0, 0, 1, 2])]:
            params.append(k)
        for j in range(self.r.choice([0, 0, 1, 2])):
            nested.append([k for k in self.r.sample(range(self.names), self.r.choice([1, 1, 2]))])
        plist, pitems = [], []
        slots = [("p", k) for k in params] + [("n", ks) for ks in nested]
        self.r.shuffle(slots)
        for j, (kind, v) in enumerate(slots):
            if kind == "p":
                plist.append("int N%d" % v)
                pitems.append("Dn %d" % v)
                env[-1][v] = "n"
            else:
                form = self.r.choice(["void (*cb%d)(%s)", "int fp%d(%s)", "char *(*cb%d)(%s)"])
                plist.append(form % (j, ", ".join("int N%d" % k for k in v)))
                pitems.append("{ " + " ".join("Dn %d" % k for k in v) + " }")
        text.append("void f(%s)\n{\n int y = 0, x = 1;" % (", ".join(plist) or "void"))
        items.append("{")
        items += pitems
        budget = [self.size]
        self.block(env, text, items, exp, 1, budget)
        env.pop()
        text.append(" y = x; x = y;\n}")
        items.append("}")
        return "\n".join(text) + "\n", " ".join(items), exp

    def lookup(self, env, k):
        for s in reversed(env):
            if k in s:
                return s[k]
        return None

    def block(self, env, text, items, exp, depth, budget):
        ind = " " * (depth + 1)
        while budget[0] > 0:
            budget[0] -= 1
            c = self.r.random()
            k = self.r.randrange(self.names)
            role = self.lookup(env, k)
            if c < 0.30 and role:
                text.append(ind + "y = (N%d) - x;" % k)
                items.append("A %d" % k)
                exp.append(role)
            elif c < 0.50:
                # a declaration in this scope: the name must not be declared in THIS scope yet
                if k in env[-1]:
                    continue
                new = self.r.choice("tn")
                env[-1][k] = new
                text.append(ind + ("typedef int N%d;" % k if new == "t" else "int N%d = 1;" % k))
                items.append("D%s %d" % (new, k))
            elif c < 0.68 and role:
                if role == "t":
                    text.append(ind + "N%d %s = 1; y = %s;" % (k, self.fresh(), "v%d" % self.n))
                else:
                    text.append(ind + "y = N%d + 1;" % k)
                items.append("U%s %d" % (role, k))
            elif c < 0.85 and depth < self.maxdepth:
                text.append(ind + "{")
                items.append("{")
                env.append({})
                self.block(env, text, items, exp, depth + 1, budget)
                env.pop()
                text.append(ind + "}")
                items.append("}")
            elif c < 0.93 and depth > 1:
                return
