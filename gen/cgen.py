"""Grammar-based generator of C11 (+ optional GNU) translation units, plus token/byte mutators.

`Gen(rng).program()` returns source text that is syntactically valid C11; with `typed=True` it also type-checks
under gcc (every object is an int / int pointer / a small struct, expressions are built type-directed), which the
checks that need a validity oracle rely on.  Every production of C11 A.2.1-A.2.3 that the front end supports is
reachable; `coverage` counts the productions used."""
import collections

BASIC = ["int", "char", "short", "long", "long long", "unsigned", "unsigned char", "unsigned long", "signed char", "float", "double",
         "long double", "_Bool", "unsigned short", "long int", "unsigned long long", "short int"]
BINOPS = ["*", "/", "%", "+", "-", "<<", ">>", "<", ">", "<=", ">=", "==", "!=", "&", "^", "|", "&&", "||"]
ASGOPS = ["=", "*=", "/=", "%=", "+=", "-=", "<<=", ">>=", "&=", "^=", "|="]


class Gen:
    def __init__(self, rng, typed=True, gnu=False, maxdepth=4, kr=False):
        self.r, self.typed, self.gnu, self.maxdepth, self.kr = rng, typed, gnu, maxdepth, kr
        self.n = 0
        self.coverage = collections.Counter()
        self.scopes = [dict()]          # name -> kind: 'int' | 'ptr' | 'arr' | 'struct:<tag>' | 'fn' | 'typedef'
        self.structs = {}               # tag -> [(field, kind)]
        self.typedefs = []              # typedef names for int
        self.enums = []                 # enumerator names
        self.labels = []

    # ---- helpers
    def c(self, k):
        self.coverage[k] += 1

    def fresh(self, p="v"):
        self.n += 1
        return "%s%d" % (p, self.n)

    def names(self, kind):
        out = []
        for s in self.scopes:
            out += [n for n, k in s.items() if k == kind or (kind == "struct" and k.startswith("struct:"))]
        return out

    def declare(self, name, kind):
        self.scopes[-1][name] = kind

    def pick(self, xs):
        return xs[self.r.randrange(len(xs))]

    # ---- expressions (all of type int unless said otherwise)
    def int_lvalue(self):
        cands = self.names("int")
        k = self.r.random()
        if self.names("arr") and k < 0.2:
            self.c("subscript"); return "%s[%s]" % (self.pick(self.names("arr")), self.pick(["0", "1", "i0"]) if "i0" in cands else "0")
        if self.names("ptr") and k < 0.35:
            self.c("deref"); return "*%s" % self.pick(self.names("ptr"))
        if self.names("struct") and k < 0.55:
            v = self.pick(self.names("struct"))
            tag = [kk for s in self.scopes for n, kk in s.items() if n == v][-1].split(":")[1]
            fs = [f for f, fk in self.structs[tag] if fk == "int"]
            if fs:
                self.c("member"); return "%s.%s" % (v, self.pick(fs))
        if cands:
            return self.pick(cands)
        return None

    def const(self):
        self.c("constant")
        return self.pick(["0", "1", "42", "0x1F", "017", "1u", "2L", "3ul", "4LL", "5ull", "'a'", "'\\n'", "L'x'", "1000000", "0xFFFFFFFFu", "'\\x41'"])

    def expr(self, d=0, want="int"):
        r = self.r
        if want == "int":
            if d >= self.maxdepth or r.random() < 0.25:
                lv = self.int_lvalue()
                if lv and r.random() < 0.6:
                    self.c("identifier"); return lv
                if self.enums and r.random() < 0.2:
                    self.c("enumerator"); return self.pick(self.enums)
                return self.const()
            k = r.randrange(16)
            if k <= 4:
                op = self.pick(BINOPS); self.c("binary" + op)
                a, b = self.expr(d + 1), self.expr(d + 1)
                if op in ("/", "%"):
                    b = "(%s | 1)" % b
                if op in ("<<", ">>"):
                    b = "(%s & 7)" % b
                return "%s %s %s" % (self.paren(a, op, False), op, self.paren(b, op, True))
            if k == 5:
                self.c("conditional"); return "%s ? %s : %s" % (self.paren(self.expr(d + 1), "?:", False), self.expr(d + 1), self.paren(self.expr(d + 1), "?:", True))
            if k == 6:
                lv = self.int_lvalue()
                if lv:
                    op = self.pick(ASGOPS); self.c("assign" + op)
                    rhs = self.expr(d + 1)
                    if op in ("/=", "%="):
                        rhs = "(%s | 1)" % rhs
                    if op in ("<<=", ">>="):
                        rhs = "(%s & 7)" % rhs
                    return "%s %s %s" % (lv, op, self.paren(rhs, "=", True))
                return self.const()
            if k == 7:
                op = self.pick(["-", "+", "~", "!"]); self.c("unary" + op); return "%s%s" % (op, self.paren(self.expr(d + 1), "unary", True))
            if k == 8:
                lv = self.int_lvalue()
                if lv:
                    f = self.pick(["++%s", "--%s", "%s++", "%s--"]); self.c("incdec"); return f % (lv if lv[0] != "*" else "(%s)" % lv)
                return self.const()
            if k == 9:
                self.c("paren"); return "(%s)" % self.expr(d + 1)
            if k == 10:
                t = self.pick(["int", "long", "unsigned", "char", "short", "unsigned long", "signed char", "long long"]); self.c("cast"); return "(%s)%s" % (t, self.paren(self.expr(d + 1), "unary", True))
            if k == 11:
                self.c("sizeof")
                return self.pick(["sizeof(%s)" % self.pick(BASIC), "sizeof (%s)" % self.expr(d + 1), "sizeof %s" % (self.int_lvalue() or "1").lstrip("*"), "_Alignof(%s)" % self.pick(BASIC),
                                  "sizeof(int[3])", "sizeof(int*)"]).replace("sizeof", "(int)sizeof").replace("_Alignof", "(int)_Alignof")
            if k == 12:
                fns = self.names("fn")
                if fns:
                    self.c("call"); return "%s(%s, %s)" % (self.pick(fns), self.paren(self.expr(d + 1), ",", True), self.paren(self.expr(d + 1), ",", True))
                return self.const()
            if k == 13:
                self.c("comma"); return "(%s, %s)" % (self.expr(d + 1), self.paren(self.expr(d + 1), ",", True))
            if k == 14 and self.names("ptr"):
                self.c("ptrcmp"); p = self.pick(self.names("ptr")); return self.pick(["%s == 0", "%s != 0", "!%s", "%s == %s" % ("%s", p)]) % p
            if k == 15:
                self.c("generic"); return "_Generic(%s, int: 1, long: 2, default: 3)" % self.paren(self.expr(d + 1), ",", True)
            return self.const()
        if want == "ptr":
            k = r.random()
            if self.names("int") and k < 0.4:
                self.c("addrof"); return "&%s" % self.pick(self.names("int"))
            if self.names("ptr") and k < 0.6:
                return self.pick(self.names("ptr"))
            if self.names("arr") and k < 0.8:
                self.c("decay"); return self.pick(self.names("arr"))
            if self.names("ptr") and k < 0.9:
                self.c("ptrarith"); return "%s + %s" % (self.pick(self.names("ptr")), self.paren(self.expr(d + 1), "+", True))
            self.c("nullptr"); return self.pick(["0", "(int*)0", "(void*)0"])
        raise ValueError(want)

    PREC = {",": 1, "=": 2, "?:": 3, "||": 4, "&&": 5, "|": 6, "^": 7, "&": 8, "==": 9, "!=": 9, "<": 10, ">": 10, "<=": 10, ">=": 10,
            "<<": 11, ">>": 11, "+": 12, "-": 12, "*": 13, "/": 13, "%": 13, "unary": 14}

    def top_prec(self, e):
        """precedence of the loosest operator of `e` outside parentheses (coarse: scans tokens)"""
        depth, best, i = 0, 99, 0
        toks = e.replace("(", " ( ").replace(")", " ) ").split()
        prev = None
        for t in toks:
            if t == "(":
                depth += 1
            elif t == ")":
                depth -= 1
            elif depth == 0:
                if t in ("?", ":"):
                    best = min(best, 3)
                elif t in ASGOPS:
                    best = min(best, 2)
                elif t in self.PREC and prev not in (None, "(") and prev not in self.PREC and prev not in ASGOPS:
                    best = min(best, self.PREC[t])
            prev = t
        return best

    def paren(self, e, op, right):
        p = self.PREC.get(op, 2 if op in ASGOPS else 14)
        q = self.top_prec(e)
        need = q < p or (q == p and (right != (op in ("=", "?:") or op in ASGOPS)))
        if op == "unary" and (e[0] in "+-&*~!" or q < 14):
            need = True
        return "(%s)" % e if need else e

    # ---- declarations
    def type_name_int(self):
        if self.typedefs and self.r.random() < 0.3:
            self.c("typedef-name"); return self.pick(self.typedefs)
        return "int"

    def quals(self):
        return self.pick(["", "", "", "const ", "volatile ", "static ", "register " if len(self.scopes) > 1 else "", "extern " if len(self.scopes) == 1 else ""])

    def var_decl(self):
        r = self.r
        k = r.randrange(9)
        q = self.pick(["", "", "static ", "const ", "volatile "]) if len(self.scopes) > 1 else self.pick(["", "", "static ", "const ", "volatile ", "extern "])
        if "extern" in q or "const" in q and k != 0:
            k = 8
        if k == 0:
            n = self.fresh(); self.c("decl-int-init"); s = "%s%s %s = %s;" % (q, self.type_name_int(), n, self.expr(1) if len(self.scopes) > 1 and "static" not in q else self.const()); self.declare(n, "int") if "const" not in q else None; return s
        if k == 1:
            a, b = self.fresh(), self.fresh(); self.c("decl-multi"); s = "int %s, *%s = 0, %s[3];" % (a, b, a + "a"); self.declare(a, "int"); self.declare(b, "ptr"); self.declare(a + "a", "arr"); return s
        if k == 2:
            n = self.fresh("p"); self.c("decl-ptr"); s = "int *%s%s = %s;" % (self.pick(["", "const ", "restrict ", "volatile "]), n, self.expr(1, "ptr") if len(self.scopes) > 1 else "0"); self.declare(n, "ptr"); return s
        if k == 3:
            n = self.fresh("a"); self.c("decl-array-init"); s = "int %s[%s] = { %s };" % (n, self.pick(["", "4", "2 + 2"]), self.pick(["1, 2, 3", "[0] = 1, [2] = 3", "1, 2, 3,", "0"])); self.declare(n, "arr"); return s
        if k == 4 and self.structs:
            tag = self.pick(list(self.structs)); n = self.fresh("s"); self.c("decl-struct-var")
            f0 = self.structs[tag][0][0]
            s = "struct %s %s = { %s };" % (tag, n, self.pick(["0", ".%s = 1" % f0, "1"])); self.declare(n, "struct:" + tag); return s
        if k == 5:
            n = self.fresh("pp"); self.c("decl-complex"); s = self.pick(["int (*%s)(int, int) = 0;", "int *(*%s)[3] = 0;", "int (*%s[2])(void);", "int **%s = 0;", "int (*(*%s)(void))[2] = 0;"]) % n; self.declare(n, "other"); return s
        if k == 6:
            n = self.fresh("b"); t = self.pick(BASIC); self.c("decl-basic"); s = "%s %s;" % (t, n); self.declare(n, "other"); return s
        if k == 7 and len(self.scopes) > 1:
            n = self.fresh("c"); self.c("decl-compound-literal"); s = "int *%s = (int[]){ 1, 2 };" % n; self.declare(n, "ptr"); return s
        n = self.fresh(); self.c("decl-int"); s = "%sint %s;" % (q, n)
        if "const" not in q:
            self.declare(n, "int")
        return s

    def struct_def(self):
        tag = self.fresh("S"); self.c("struct-def")
        kw = self.pick(["struct", "struct", "union"])
        fields = [(self.fresh("f"), "int")]
        body = "int %s;" % fields[0][0]
        for _ in range(self.r.randrange(0, 4)):
            f = self.fresh("f")
            k = self.r.randrange(6)
            if k == 0: body += " int %s : 3;" % f; fields.append((f, "int")); self.c("bitfield")
            elif k == 1: body += " char *%s;" % f; fields.append((f, "other"))
            elif k == 2: body += " int %s[2];" % f; fields.append((f, "other"))
            elif k == 3 and self.structs: body += " struct %s %s;" % (self.pick(list(self.structs)), f); fields.append((f, "other")); self.c("nested-struct-field")
            elif k == 4: body += " struct { int x; } %s;" % f; fields.append((f, "other")); self.c("anon-struct-field")
            else: body += " const int %s, %s;" % (f, f + "b"); fields.append((f, "other"))
        if kw == "struct":
            self.structs[tag] = fields
            return "struct %s { %s };" % (tag, body)
        return "union %s { %s };" % (tag, body)

    def enum_def(self):
        tag = self.fresh("E"); self.c("enum-def")
        es = [self.fresh("K") for _ in range(self.r.randrange(1, 4))]
        body = ", ".join(e + (" = %d" % self.r.randrange(10) if self.r.random() < 0.4 else "") for e in es)
        self.enums += es
        return "enum %s { %s%s };" % (tag, body, self.pick(["", ","]))

    def typedef(self):
        n = self.fresh("T"); self.c("typedef")
        self.typedefs.append(n)
        return "typedef int %s;" % n

    # ---- statements
    def stmt(self, d, in_loop=False, in_switch=False, allow_decl=False):
        r = self.r
        if d >= self.maxdepth:
            return self.expr_stmt()
        k = r.randrange(14)
        if k == 0:
            self.c("compound"); return self.block(d + 1, in_loop, in_switch)
        if k == 1:
            self.c("if"); s = "if (%s) %s" % (self.expr(1), self.stmt(d + 1, in_loop, in_switch))
            if r.random() < 0.5:
                self.c("else"); s = "if (%s) %s else %s" % (self.expr(1), self.block(d + 1, in_loop, in_switch), self.stmt(d + 1, in_loop, in_switch))
            return s
        if k == 2:
            self.c("while"); return "while (%s) %s" % (self.expr(1), self.stmt(d + 1, True, in_switch))
        if k == 3:
            self.c("do"); return "do %s while (%s);" % (self.stmt(d + 1, True, in_switch), self.expr(1))
        if k == 4:
            self.c("for")
            self.scopes.append({})
            init = self.pick(["", self.expr(1), "int i0 = 0"])
            if init.startswith("int i0"):
                self.declare("i0", "int"); self.c("for-decl")
            s = "for (%s; %s; %s) %s" % (init, self.pick(["", self.expr(1)]), self.pick(["", self.expr(1)]), self.stmt(d + 1, True, in_switch))
            self.scopes.pop()
            return s
        if k == 5:
            self.c("switch")
            body = "".join(" case %d: %s" % (j, self.stmt(d + 1, in_loop, True)) for j in range(r.randrange(1, 3)))
            return "switch (%s) {%s default: %s }" % (self.expr(1), body, self.pick(["break;", ";", self.expr_stmt()]))
        if k == 6:
            self.c("return"); return "return %s;" % self.expr(1)
        if k == 7 and in_loop:
            self.c("break-continue"); return self.pick(["break;", "continue;"])
        if k == 7 and in_switch:
            return "break;"
        if k == 8:
            l = self.fresh("L"); self.c("label-goto"); return "{ %s: %s goto %s; }" % (l, self.expr_stmt(), l) if r.random() < 0.5 else "{ goto %s; %s: ; }" % (l, l)
        if k == 9:
            self.c("null-stmt"); return ";"
        if k in (10, 11):
            self.c("decl-stmt")
            if allow_decl:
                return self.var_decl()
            self.scopes.append({}); s = "{ %s }" % self.var_decl(); self.scopes.pop(); return s
        return self.expr_stmt()

    def expr_stmt(self):
        self.c("expr-stmt")
        lv = self.int_lvalue()
        if lv and self.r.random() < 0.7:
            return "%s = %s;" % (lv, self.expr(1))
        return "%s;" % self.expr(1)

    def block(self, d, in_loop=False, in_switch=False):
        self.scopes.append({})
        ss = [self.stmt(d, in_loop, in_switch, True) for _ in range(self.r.randrange(0, 4))]
        self.scopes.pop()
        return "{ " + " ".join(ss) + " }"

    def function(self):
        n = self.fresh("fn"); self.c("function-def")
        self.declare(n, "fn")
        self.scopes.append({})
        a, b = self.fresh("a"), self.fresh("b")
        self.declare(a, "int"); self.declare(b, "int")
        if self.kr and self.r.random() < 0.3:
            self.c("kr-def"); head = "int %s(%s, %s) int %s; int %s;" % (n, a, b, a, b)
        else:
            head = "%sint %s(int %s, int %s)" % (self.pick(["", "static ", "inline static ", ""]), n, a, b)
        body = [self.stmt(1, allow_decl=True) for _ in range(self.r.randrange(1, 5))]
        self.scopes.pop()
        return "%s { %s return %s; }" % (head, " ".join(body), a)

    def proto(self):
        n = self.fresh("pr"); self.c("prototype")
        s = self.pick(["int %s(int, int);", "void %s(void);", "int %s(int x, ...);", "char *%s(const char *s, int n);", "int %s();", "int (*%s(int))(int);",
                       "void %s(int a[], int (*f)(int));", "static int %s(register int r);", "_Noreturn void %s(void);", "int %s(int n, int a[static 2]);"]) % n
        if s.startswith("int %s(int, int)" % n):
            self.declare(n, "fn")
        return s

    def program(self, nitems=None):
        items = []
        for _ in range(nitems or self.r.randrange(2, 9)):
            k = self.r.randrange(12)
            if k <= 2: items.append(self.function())
            elif k <= 5: items.append(self.var_decl())
            elif k == 6: items.append(self.struct_def())
            elif k == 7: items.append(self.enum_def())
            elif k == 8: items.append(self.typedef())
            elif k == 9: items.append(self.proto())
            elif k == 10: self.c("static-assert"); items.append("_Static_assert(1, \"ok\");")
            else:
                if self.gnu:
                    self.c("gnu"); items.append(self.pick(["int g%d __attribute__((unused));" % self.n, "__extension__ typedef long long ll%d;" % self.n,
                                                            "__asm__(\"nop\");", "typeof(1) ty%d;" % self.n, "int ga%d __asm__(\"x\");" % self.n]))
                    self.n += 1
                else:
                    items.append(self.struct_def())
        return "\n".join(items) + "\n"


# ---- mutators (for erroneous-input properties)
def mutate_tokens(rng, text, n=1):
    import re
    toks = re.findall(r"[A-Za-z_]\w*|\d[\w.]*|\"[^\"]*\"|'[^']*'|<<=|>>=|->|\+\+|--|<<|>>|<=|>=|==|!=|&&|\|\||[-+*/%&|^]=|\S", text)
    if not toks:
        return text
    for _ in range(n):
        k = rng.randrange(6)
        i = rng.randrange(len(toks))
        if k == 0: del toks[i]
        elif k == 1: toks.insert(i, toks[rng.randrange(len(toks))])
        elif k == 2 and len(toks) > 1: j = rng.randrange(len(toks)); toks[i], toks[j] = toks[j], toks[i]
        elif k == 3: toks[i] = rng.choice(["(", ")", "{", "}", "[", "]", ";", ",", "*", "int", "struct", "=", "if", "else", "case", ":", "?", "typedef", "...", "sizeof"])
        elif k == 4: toks = toks[:i]
        else: toks.insert(i, rng.choice(["(", "{", "[", ")", "}", "]"]))
        if not toks:
            toks = [";"]
    return " ".join(toks)


C_KEYWORDS = set("""auto break case char const continue default do double else enum extern float for goto if inline int long register restrict return short signed
sizeof static struct switch typedef union unsigned void volatile while _Alignas _Alignof _Atomic _Bool _Complex _Generic _Noreturn _Static_assert _Thread_local
__attribute__ __extension__ __typeof__ typeof asm __asm__ __inline__ __restrict __const __volatile__""".split())


def mutate_identifiers(rng, text, n=1):
    """n times: ONE occurrence of an identifier is replaced by another identifier of the same text.  The program stays well-formed for the parser
    most of the time and becomes semantically odd: a parameter spelled like a typedef name used next to it, a member like its tag, a variable
    redeclared as a type, a use of a name in the wrong role, self-referential types (seeded change C02-c needed a parameter named like a typedef)"""
    import re
    for _ in range(n):
        occ = [m for m in re.finditer(r"[A-Za-z_]\w*", text) if m.group(0) not in C_KEYWORDS]
        names = sorted({m.group(0) for m in occ})
        if len(names) < 2:
            return text
        m = rng.choice(occ)
        other = rng.choice([x for x in names if x != m.group(0)])
        text = text[:m.start()] + other + text[m.end():]
    return text


def mutate_bytes(rng, text, n=1):
    b = bytearray(text.encode())
    for _ in range(n):
        if not b:
            b = bytearray(b";")
        k = rng.randrange(5)
        i = rng.randrange(len(b))
        if k == 0: b[i] = rng.randrange(1, 256)
        elif k == 1: del b[i]
        elif k == 2: b.insert(i, rng.choice(b"\"'/*\\\n\t (){}[];#@$`\x80\xc3\xe4\xf0\xff"))
        elif k == 3: b = b[:i]
        else: b[i:i] = rng.choice([b"/*", b"//", b"\"", b"'", b"\\\n", b"R\"(", b"u8\"", b"L'", b"0x", b"1e", b"..", b"%:", b"<:", b"\xf0\x9d\x92\xb3"])
    return bytes(b).replace(b"\x00", b" ")
