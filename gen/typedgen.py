"""Generator for C11: one test function per line over a fixed prelude of declarations of every arithmetic type, pointers,
arrays, structs/unions/enums, typedef chains and prototyped/variadic functions.  Every construct is generated for every
combination of operand variables; gcc (-std=c11 -pedantic-errors -Wall -Werror=incompatible-pointer-types -fsyntax-only)
decides, line by line, which test functions are valid C; only those are held against the front end."""
import itertools

ARITH = [("c", "char"), ("sc", "signed char"), ("uc", "unsigned char"), ("s", "short"), ("us", "unsigned short"), ("i", "int"), ("u", "unsigned"),
         ("l", "long"), ("ul", "unsigned long"), ("ll", "long long"), ("ull", "unsigned long long"), ("b", "_Bool"), ("f", "float"), ("d", "double"),
         ("ld", "long double")]
PRELUDE = "\n".join(["%s %s, %s2;" % (t, n, n) for n, t in ARITH]) + """
typedef int T1; typedef T1 T2; typedef T2 T3; T3 ti; typedef char TC; TC tc; typedef double TD; TD td; typedef int *TP; TP tp;
const int ci; volatile int vi; const char cc; const double cd;
int *p, *q; char *pc; const int *cp; const char *ccp; void *vp; const void *cvp; double *pd; int **pp; int * const kp; int * const *kpp, * const *kpq;
int a[4], a2[4]; char ca[8]; double da[2]; int m2[2][3];
struct S { int m; char n; double o; int arr[2]; struct S *next; } st, st2, *ps; union U { int m; double o; } un, *pu;
typedef struct S TS; TS ts; TS *pts;
enum E { K1, K2 = 5 } e; enum E e2;
int f0(void); int f1(int); int f2(int, double); int fv(int, ...); void fvoid(void); double fd(double); int fp1(int *); int fvp(void *); int fcc(const char *); int fs(struct S);
int (*fp)(int); void (*fpv)(void); int *fpr(void); struct S fst(void);
"""
BIN = ["*", "/", "%", "+", "-", "<<", ">>", "<", ">", "<=", ">=", "==", "!=", "&", "^", "|", "&&", "||"]
ASG = ["=", "*=", "/=", "%=", "+=", "-=", "<<=", ">>=", "&=", "^=", "|="]


def tests():
    """[(class key, statement text)]"""
    out = []
    names = [n for n, _ in ARITH]
    for op in BIN:
        for x, y in itertools.product(names, repeat=2):
            out.append(("bin%s:%s,%s" % (op, x, y), "%s %s %s2;" % (x, op, y)))
    for op in ASG:
        for x, y in itertools.product(names, repeat=2):
            out.append(("asg%s:%s,%s" % (op, x, y), "%s %s %s2;" % (x, op, y)))
    for x in names + ["ti", "tc", "td", "e", "ci", "vi"]:
        for u in ["+%s;", "-%s;", "!%s;", "~%s;", "%s++;", "%s--;", "++%s;", "--%s;", "sizeof %s;", "sizeof(%s);", "(void)%s;", "&%s;", "%s ? 1 : 2;", "i ? %s : 0;", "a[%s];", "p + %s;", "p - %s;",
                  "p[%s];", "%s[a];", "f1(%s);", "f2(%s, %s);", "fd(%s);", "fv(1, %s);", "(int)%s;", "(double)%s;", "(char)%s;", "(long)%s;", "(_Bool)%s;", "(unsigned char)%s;", "i = %s;", "d = %s;", "c = %s;",
                  "b = %s;", "e = %s;", "ti = %s;", "td = %s;", "if (%s) ;", "while (%s) break;", "for (; %s; ) break;", "do ; while (%s);", "switch (%s) { default: ; }", "%s && p;", "p || %s;", "!p && %s;",
                  "%s == K2;", "%s + K1;", "%s , 1;", "(%s);", "{ int loc = %s; loc; }", "{ double loc = %s; loc; }", "{ char loc = %s; loc; }", "{ _Bool loc = %s; loc; }", "{ T3 loc = %s; loc; }",
                  "{ long loc[2] = { %s, %s }; loc; }", "{ struct S loc = { %s, 'x', 1.0 }; loc; }", "st.m = %s;", "ps->o = %s;", "a[1] = %s;", "*p = %s;", "*pd = %s;", "un.m = %s;", "m2[1][2] = %s;", "st.arr[0] = %s;"]:
            k = u.count("%s")
            out.append(("un:%s:%s" % (u, x), u % ((x,) * k)))
    ptr_stmts = [
        "p = q;", "p = 0;", "p = a;", "p = &a[1];", "p = &i;", "p = vp;", "vp = p;", "vp = pc;", "vp = 0;", "vp = &st;", "cp = p;", "cp = &ci;", "ccp = pc;", "ccp = \"s\";", "pc = ca;", "cvp = p;", "cvp = cp;", "cvp = vp;",
        "pp = &p;", "*pp = q;", "**pp = 1;", "p == q;", "p != q;", "p < q;", "p >= q;", "p == 0;", "0 == p;", "p == vp;", "vp == p;", "cp == p;", "p - q;", "p + 1;", "1 + p;", "p - 1;", "p++;", "--p;", "p += 2;", "p -= i;",
        "*p;", "*p + 1;", "*p = *q;", "p[0];", "p[i] = 1;", "*(p + 1);", "&*p;", "&p[1];", "!p;", "p && q;", "p || 0;", "p ? 1 : 2;", "i ? p : q;", "i ? p : 0;", "i ? 0 : p;", "i ? p : vp;", "i ? vp : p;", "if (p) ;", "while (p) break;",
        "a[0];", "a[i] = 1;", "*a;", "*a = 2;", "a + 1;", "*(a + 1);", "&a[0];", "&a;", "sizeof a;", "sizeof(a) / sizeof(a[0]);", "ca[0] = 'c';", "da[1] = 1.5;", "m2[0][1];", "m2[1];", "*m2[1];", "**m2;", "a == a2;", "a == p;", "p == a;",
        "a - a2;", "a < p;", "1[a];", "i[a] = 2;", "pc = \"lit\";", "pc[0];", "*pc = 'x';", "\"abc\"[1];", "sizeof \"abc\";", "pc == ccp;", "pc - ccp;", "kp == p;", "*kp = 1;", "p = kp;", "tp = p;", "p = tp;", "*tp = 1;", "tp[1];", "tp == p;",
        "tp + 1;", "tp - p;", "kpp == kpq;", "kpp != 0;", "*kpp == p;", "(char *)p;", "(int *)vp;", "(void *)p;", "(int *)0;", "(long)p;", "(int *)l;", "(const int *)p;", "(int *)cp;", "(void (*)(void))fp;", "(TP)vp;", "vp = (void *)0;", "p = (int *)0;", "p = (void *)0;",
        "{ int *lp = 0; lp; }", "{ int *lp = a; lp; }", "{ int *lp = &i; lp; }", "{ void *lv = p; lv; }", "{ int *lp = vp; lp; }", "{ const int *lc = p; lc; }", "{ char *ls = ca; ls; }", "{ const char *ls = \"s\"; ls; }",
        "{ char la[] = \"abc\"; la; }", "{ char la[4] = \"abc\"; la; }", "{ int la[] = { 1, 2, 3 }; la; }", "{ int la[2] = { 0 }; la; }", "{ int *lpa[2] = { p, q }; lpa; }", "{ int *lp = (void *)0; lp; }", "{ TP ltp = p; ltp; }",
        "{ int * const lk = p; lk; }", "{ int *lp = kp; lp; }", "{ int lm[2][2] = { { 1, 2 }, { 3, 4 } }; lm; }", "{ double *lpd = da; lpd; }", "{ int **lpp = &p; lpp; }",
    ]
    struct_stmts = [
        "st.m;", "st.n;", "st.o;", "st.arr[1];", "st.next;", "st.next->m;", "ps->m;", "ps->next->next->o;", "(*ps).m;", "(&st)->m;", "st.m = 1;", "ps->n = 'c';", "st = st2;", "*ps = st;", "ps = &st;", "ps = st.next;", "st.next = ps;",
        "st.next = 0;", "st.m + st.o;", "st.m++;", "&st.m;", "&ps->o;", "p = &st.m;", "p = st.arr;", "pd = &ps->o;", "un.m;", "un.o = 1.0;", "pu->m;", "pu = &un;", "un = *pu;", "ts.m;", "pts->o;", "ts = st;", "st = ts;", "pts = ps;", "ps = pts;",
        "pts = &ts;", "ps == pts;", "ps == 0;", "!ps;", "ps ? 1 : 0;", "i ? ps : 0;", "i ? st : st2;", "(i ? st : st2).m;", "fst().m;", "fs(st);", "fs(ts);", "fs(*ps);", "st = fst();", "sizeof st;", "sizeof(struct S);", "sizeof(TS);", "sizeof st.arr;",
        "(void)st;", "{ struct S ls = st; ls; }", "{ struct S ls = { 1, 'c', 2.0, { 1, 2 }, 0 }; ls; }", "{ struct S ls = { .m = 1, .o = 2.0 }; ls; }", "{ struct S ls = { 0 }; ls; }", "{ TS lt = st; lt; }", "{ struct S *lps = &st; lps; }",
        "{ struct S *lps = 0; lps; }", "{ union U lu = { 1 }; lu; }", "{ union U lu = { .o = 1.0 }; lu; }", "{ union U lu = un; lu; }", "{ struct S la[2] = { { 1 }, { 2 } }; la; }", "{ struct { int x; } an = { 1 }; an.x; }",
        "e = K1;", "e = K2;", "e = e2;", "e == K1;", "e + 1;", "i = e;", "e = i;", "e = 1;", "K1 + K2;", "i = K2 * 2;", "switch (e) { case K1: break; case K2: break; }", "a[K1];", "{ enum E le = K2; le; }", "{ int li = K1; li; }", "e ? K1 : K2;", "(enum E)i;", "(int)e;",
    ]
    call_stmts = [
        "f0();", "f1(1);", "f1(i);", "f1(c);", "f1(d);", "f1('a');", "f1(K1);", "f1(f0());", "f1(f1(1));", "f2(1, 2.0);", "f2(i, i);", "f2(c, f);", "fv(1);", "fv(1, 2);", "fv(1, 2.0, \"s\", p);", "fv(i, c, s, f);", "fvoid();", "fd(1);", "fd(f);", "fd(fd(d));",
        "fp1(p);", "fp1(a);", "fp1(&i);", "fp1(0);", "fp1(vp);", "fp1(tp);", "fp1(&st.m);", "fp1(st.arr);", "fvp(p);", "fvp(pc);", "fvp(vp);", "fvp(0);", "fvp(&st);", "fvp(ps);", "fvp(a);", "fvp(\"s\");", "fcc(pc);", "fcc(ccp);", "fcc(\"lit\");", "fcc(ca);", "fcc(0);",
        "i = f0();", "d = fd(1.0);", "i = f1(2) + f0();", "p = fpr();", "*fpr() = 1;", "fpr()[0];", "fp = f1;", "fp = &f1;", "fp(1);", "(*fp)(1);", "(**fp)(1);", "i = fp(2);", "fpv = fvoid;", "fpv();", "(*fpv)();", "fp == f1;", "fp != 0;", "fp ? 1 : 0;", "!fp;", "fp = 0;",
        "(void)f0();", "(void)fvoid();", "f0() + 1;", "f0() ? 1 : 2;", "if (f0()) ;", "f1(i ? 1 : 2);", "f1((i, 2));", "f1(sizeof(int));", "f2(f0(), fd(1));", "{ int (*lfp)(int) = f1; lfp(1); }", "{ int (*lfp)(int) = 0; lfp; }", "{ int lr = f1(1); lr; }",
        "{ double lr = fd(2); lr; }", "{ int *lr = fpr(); lr; }", "{ struct S lr = fst(); lr; }", "sizeof f0();", "sizeof(f1(1));", "fst();", "fst().arr[0];", "f1(st.m);", "f1(ps->arr[1]);", "f2(a[0], da[1]);", "f1(*p);", "f1(p[1]);", "f1(un.m);", "f1(e);", "f1(ti);", "fd(td);", "f1(tc);",
    ]
    misc = ["i = i;", "1;", "1 + 2;", "1.5 + 2;", "'a' + 1;", "\"s\";", "i = 1, d = 2;", "i = d = c;", "i += d;", "d /= i;", "c = c + 1;", "b = i && d;", "b = !d;", "i = b + b;", "i = (c, d, i);", "i = sizeof(int) + sizeof i;", "i = _Alignof(double);",
            "ul = sizeof(i);", "i = 1u;", "l = 1ull;", "d = 1.f;", "f = 1.0L;", "c = 65;", "i = 'a';", "i = L'a';", "c = \"s\"[0];", "i = -1;", "u = -1;", "i = ~0u;", "l = 1 << 3;", "ull = 1ull << 40;", "i = 7 % 3;", "i = 7 / 2;", "d = 7 / 2.0;", "i = (1, 2);",
            "i = 1 ? 2 : 3;", "d = i ? 1 : 2.0;", "i = i ? c : s;", "vp = i ? p : vp;", "i = 1 < 2;", "i = 1.0 < 2;", "i = d == d;", "i = c != 'a';", "i = !0;", "i = !1.5;", "i = 1 && 0;", "i = 1.5 || 0;", "ci + 1;", "i = ci;", "i = vi;", "vi = 1;", "cc + 1;", "d = cd;",
            "i = ci + vi;", "return;", "{ return; }", ";", "{ }", "{ ; ; }", "if (i) i = 1; else i = 2;", "while (i) { i--; }", "do { i++; } while (i < 10);", "for (i = 0; i < 3; i++) { d += i; }", "for (int k = 0; k < 3; ++k) a[k] = k;", "for (;;) { break; }",
            "switch (i) { case 1: break; case 2: i = 0; break; default: ; }", "switch (c) { case 'a': break; }", "goto L; L: ;", "{ int k = 1; { int k = 2; k; } k; }", "{ static int k; k = 1; }", "{ extern int i; i = 2; }", "{ typedef long LT; LT k = 1; k; }",
            "{ const int k = 1; i = k; }", "{ int k; k = i; (void)k; }", "{ _Static_assert(1, \"m\"); }", "{ int k[3]; k[0] = 1; }", "{ int n = 3; int vla[n]; vla[0] = 1; }", "{ char k = 'x'; int m = k; m; }", "{ unsigned k = 1; k << 2; }", "{ long long k = 1; k + 1; }",
            "{ float k = 1; k * 2; }", "{ double k = 1, m = 2; k / m; }", "{ int k = 1, *m = &k; *m; }", "{ int k = sizeof(int[3]); k; }", "i = ((i));", "i = (int)(char)(long)d;", "d = (double)(int)d;", "(void)0;", "(void)(i + 1);", "i = __func__[0];", "i = (int)sizeof(st);",
            "ti = ti + 1;", "ti++;", "ti = i;", "i = ti;", "ti << 1;", "ti % 2;", "tc = 'a';", "tc + 1;", "td = 1.5;", "td * 2;", "td = ti;", "{ T1 k = 1; T2 m = k; T3 n = m; n; }", "ti ? tc : td;", "a[ti];", "p + ti;", "f1(ti);", "{ T3 *ptx = &ti; *ptx; }", "p = &ti;", "{ T3 at[2]; at[0] = 1; }"]
    for sgroup, name in ((ptr_stmts, "ptr"), (struct_stmts, "struct"), (call_stmts, "call"), (misc, "misc")):
        for s in sgroup:
            out.append(("%s:%s" % (name, s), s))
    rets = [("int", "c"), ("int", "d"), ("int", "1"), ("double", "i"), ("double", "1"), ("char", "i"), ("_Bool", "p"), ("int *", "0"), ("int *", "p"), ("int *", "a"), ("int *", "vp"), ("void *", "p"), ("void *", "0"), ("const int *", "p"),
            ("struct S", "st"), ("struct S", "*ps"), ("TS", "st"), ("struct S *", "&st"), ("struct S *", "0"), ("enum E", "K1"), ("enum E", "i"), ("int", "K2"), ("T3", "ti"), ("T3", "c"), ("long", "ull"), ("float", "ld"), ("unsigned char", "i"),
            ("const char *", "\"s\""), ("char *", "ca"), ("int (*)(int)", None), ("TP", "p"), ("int *", "tp"), ("double", "td"), ("int", "f0()"), ("int", "i ? 1 : 2"), ("void", None)]
    for t, v in rets:
        out.append(("ret:%s:%s" % (t, v), ("RET", t, v)))
    return out


def has_initializer(s):
    """the type checker stops (Action::Quit) at the first initialised declaration: such a test gets a program of its own"""
    import re
    return isinstance(s, str) and bool(re.search(r"\{\s*(?:static |const |extern )?(?:[A-Za-z_][\w ]*?[\s*]+)\(?\**\s*\w+\)?(?:\[[^\]]*\])*(?:\([^)]*\))?\s*=[^=]", s) or re.search(r"for \(int ", s))


def program(tests_chunk, base):
    """returns (text, {line: index into tests_chunk})"""
    lines = PRELUDE.strip("\n").split("\n")
    where = {}
    for j, (key, s) in enumerate(tests_chunk):
        n = base + j
        if isinstance(s, tuple):
            _, t, v = s
            if t == "int (*)(int)":
                text = "int (*r%d(void))(int) { return f1; }" % n
            elif t == "void":
                text = "void r%d(void) { return; }" % n
            else:
                text = "%s r%d(void) { return %s; }" % (t, n, v)
        else:
            text = "void t%d(void) { %s }" % (n, s)
        lines.append(text)
        where[len(lines)] = j
    return "\n".join(lines) + "\n", where
