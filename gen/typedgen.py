"""Generator for C11: one test function per line over a fixed prelude of declarations of every arithmetic type, pointers,
arrays, structs/unions/enums, typedef chains and prototyped/variadic functions.  Every construct is generated for every
combination of operand variables; gcc (-std=c11 -pedantic-errors -Wall -Werror=incompatible-pointer-types -fsyntax-only)
decides, line by line, which test functions are valid C; only those are held against the front end."""
import itertools

ARITH = [("c", "char"), ("sc", "signed char"), ("uc", "unsigned char"), ("s", "short"), ("us", "unsigned short"), ("i", "int"), ("u", "unsigned"),
         ("l", "long"), ("ul", "unsigned long"), ("ll", "long long"), ("ull", "unsigned long long"), ("b", "_Bool"), ("f", "float"), ("d", "double"),
         ("ld", "long double")]
PRELUDE = "\n".join(["%s %s, %s2;" % (t, n, n) for n, t in ARITH]) + """
typedef int T1; typedef T1 T2; typedef T2 T3; T3 ti; typedef char TC; TC tc; typedef double TD; TD td; typedef int *TP; TP tp;
const int ci; volatile int vi; const char cc; const double cd;
int *p, *q; char *pc; const int *cp; const char *ccp; void *vp; const void *cvp; double *pd; int **pp; int * const kp; int * const *kpp, * const *kpq;
int a[4], a2[4]; char ca[8]; double da[2]; int m2[2][3];
struct S { int m; char n; double o; int arr[2]; struct S *next; } st, st2, *ps; union U { int m; double o; } un, *pu;
typedef struct S TS; TS ts; TS *pts;
enum E { K1, K2 = 5 } e; enum E e2;
int f0(void); int f1(int); int g2(int, double); int fv(int, ...); void fvoid(void); double fd(double); int fp1(int *); int fvp(void *); int fcc(const char *); int fs(struct S);
int (*fp)(int); void (*fpv)(void); int *fpr(void); struct S fst(void);
int fb(_Bool); int f2p(int, int *); void *lk(const char *, void *); int fv3(int, char *, int *, ...); int g3p(int *, double, struct S *); void cb2(int (*)(int), void (*)(void));
struct fwd; struct fwd *pfw; union ufw; union ufw *pufw; struct fwd { int v; struct fwd *next; union ufw *u; }; union ufw { int k; struct fwd f; };
typedef int row_t[3]; typedef row_t grid_t[2];
struct M { double m[4][4]; row_t cell[3]; grid_t gr; struct { int g[2][2]; union { char u[2][2][2]; int w; } iu; } in; char name[8]; struct S as[2]; } ma, mb, *pma;
union UM { int k[2][3]; struct M sm; row_t r; } uma, umb, *puma; struct M fma(void); int fmm(struct M); int fum(union UM);
"""
BIN = ["*", "/", "%", "+", "-", "<<", ">>", "<", ">", "<=", ">=", "==", "!=", "&", "^", "|", "&&", "||"]
ASG = ["=", "*=", "/=", "%=", "+=", "-=", "<<=", ">>=", "&=", "^=", "|="]


def tests():
    """[(class key, statement text)]"""
    out = []
    names = [n for n, _ in ARITH]
    for op in BIN:
        for x, y in itertools.product(names, repeat=2):
            out.append(("bin%s:%s,%s" % (op, x, y), "%s %s %s2;" % (x, op, y)))
    for op in ASG:
        for x, y in itertools.product(names, repeat=2):
            out.append(("asg%s:%s,%s" % (op, x, y), "%s %s %s2;" % (x, op, y)))
    for x in names + ["ti", "tc", "td", "e", "ci", "vi"]:
        for u in ["+%s;", "-%s;", "!%s;", "~%s;", "%s++;", "%s--;", "++%s;", "--%s;", "sizeof %s;", "sizeof(%s);", "(void)%s;", "&%s;", "%s ? 1 : 2;", "i ? %s : 0;", "a[%s];", "p + %s;", "p - %s;",
                  "p[%s];", "%s[a];", "f1(%s);", "g2(%s, %s);", "fd(%s);", "fv(1, %s);", "(int)%s;", "(double)%s;", "(char)%s;", "(long)%s;", "(_Bool)%s;", "(unsigned char)%s;", "i = %s;", "d = %s;", "c = %s;",
                  "b = %s;", "e = %s;", "ti = %s;", "td = %s;", "if (%s) ;", "while (%s) break;", "for (; %s; ) break;", "do ; while (%s);", "switch (%s) { default: ; }", "%s && p;", "p || %s;", "!p && %s;",
                  "%s == K2;", "%s + K1;", "%s , 1;", "(%s);", "{ int loc = %s; loc; }", "{ double loc = %s; loc; }", "{ char loc = %s; loc; }", "{ _Bool loc = %s; loc; }", "{ T3 loc = %s; loc; }",
                  "{ long loc[2] = { %s, %s }; loc; }", "{ struct S loc = { %s, 'x', 1.0 }; loc; }", "st.m = %s;", "ps->o = %s;", "a[1] = %s;", "*p = %s;", "*pd = %s;", "un.m = %s;", "m2[1][2] = %s;", "st.arr[0] = %s;"]:
            k = u.count("%s")
            out.append(("un:%s:%s" % (u, x), u % ((x,) * k)))
    ptr_stmts = [
        "p = q;", "p = 0;", "p = a;", "p = &a[1];", "p = &i;", "p = vp;", "vp = p;", "vp = pc;", "vp = 0;", "vp = &st;", "cp = p;", "cp = &ci;", "ccp = pc;", "ccp = \"s\";", "pc = ca;", "cvp = p;", "cvp = cp;", "cvp = vp;",
        "pp = &p;", "*pp = q;", "**pp = 1;", "p == q;", "p != q;", "p < q;", "p >= q;", "p == 0;", "0 == p;", "p == vp;", "vp == p;", "cp == p;", "p - q;", "p + 1;", "1 + p;", "p - 1;", "p++;", "--p;", "p += 2;", "p -= i;",
        "*p;", "*p + 1;", "*p = *q;", "p[0];", "p[i] = 1;", "*(p + 1);", "&*p;", "&p[1];", "!p;", "p && q;", "p || 0;", "p ? 1 : 2;", "i ? p : q;", "i ? p : 0;", "i ? 0 : p;", "i ? p : vp;", "i ? vp : p;", "if (p) ;", "while (p) break;",
        "a[0];", "a[i] = 1;", "*a;", "*a = 2;", "a + 1;", "*(a + 1);", "&a[0];", "&a;", "sizeof a;", "sizeof(a) / sizeof(a[0]);", "ca[0] = 'c';", "da[1] = 1.5;", "m2[0][1];", "m2[1];", "*m2[1];", "**m2;", "a == a2;", "a == p;", "p == a;",
        "a - a2;", "a < p;", "1[a];", "i[a] = 2;", "pc = \"lit\";", "pc[0];", "*pc = 'x';", "\"abc\"[1];", "sizeof \"abc\";", "pc == ccp;", "pc - ccp;", "kp == p;", "*kp = 1;", "p = kp;", "tp = p;", "p = tp;", "*tp = 1;", "tp[1];", "tp == p;",
        "tp + 1;", "tp - p;", "kpp == kpq;", "kpp != 0;", "*kpp == p;", "(char *)p;", "(int *)vp;", "(void *)p;", "(int *)0;", "(long)p;", "(int *)l;", "(const int *)p;", "(int *)cp;", "(void (*)(void))fp;", "(TP)vp;", "vp = (void *)0;", "p = (int *)0;", "p = (void *)0;",
        "{ int *lp = 0; lp; }", "{ int *lp = a; lp; }", "{ int *lp = &i; lp; }", "{ void *lv = p; lv; }", "{ int *lp = vp; lp; }", "{ const int *lc = p; lc; }", "{ char *ls = ca; ls; }", "{ const char *ls = \"s\"; ls; }",
        "{ char la[] = \"abc\"; la; }", "{ char la[4] = \"abc\"; la; }", "{ int la[] = { 1, 2, 3 }; la; }", "{ int la[2] = { 0 }; la; }", "{ int *lpa[2] = { p, q }; lpa; }", "{ int *lp = (void *)0; lp; }", "{ TP ltp = p; ltp; }",
        "{ int * const lk = p; lk; }", "{ int *lp = kp; lp; }", "{ int lm[2][2] = { { 1, 2 }, { 3, 4 } }; lm; }", "{ double *lpd = da; lpd; }", "{ int **lpp = &p; lpp; }",
    ]
    struct_stmts = [
        # aggregates whose members are arrays of arrays (directly, through typedefs, inside anonymous-type members, inside unions): assignable as a whole
        "ma = mb;", "*pma = ma;", "ma = *pma;", "ma.in = mb.in;", "ma.in.iu = mb.in.iu;", "pma->in = ma.in;", "uma = umb;", "*puma = uma;", "uma.sm = ma;", "ma = uma.sm;", "ma = fma();", "fmm(ma);", "fmm(*pma);",
        "fum(uma);", "{ struct M lm = ma; lm; }", "{ struct M lm = fma(); lm; }", "{ union UM lu = uma; lu; }", "ma.m[1][2] = 1.0;", "ma.cell[1][2] = 3;", "ma.gr[1][2] = ma.cell[0][0];", "ma.in.g[1][1];",
        "ma.in.iu.u[1][1][1] = 'c';", "pma->m[0][0];", "pma = &ma;", "(i ? ma : mb).cell[0][0];", "ma.as[1] = st;", "st = ma.as[0];", "ma.as[0].arr[1] = 2;", "uma.k[1][2] = 1;", "uma.r[0];", "sizeof ma.m;", "sizeof(ma.cell[0]);",
        "p = ma.cell[1];", "p = ma.in.g[0];", "pd = ma.m[2];", "pc = ma.name;", "pc = ma.in.iu.u[1][0];", "(ma = mb).name[0];", "fma().m[1][1];", "(0, ma).gr[0][1];",
        "pfw->v;", "pfw->next->v = 1;", "pfw->u->k;", "pufw->f.next = pfw;", "i = pfw->next->u->f.v;", "pufw = pfw->u;", "{ struct fwd lf = *pfw; lf.v; }",
        "st.m;", "st.n;", "st.o;", "st.arr[1];", "st.next;", "st.next->m;", "ps->m;", "ps->next->next->o;", "(*ps).m;", "(&st)->m;", "st.m = 1;", "ps->n = 'c';", "st = st2;", "*ps = st;", "ps = &st;", "ps = st.next;", "st.next = ps;",
        "st.next = 0;", "st.m + st.o;", "st.m++;", "&st.m;", "&ps->o;", "p = &st.m;", "p = st.arr;", "pd = &ps->o;", "un.m;", "un.o = 1.0;", "pu->m;", "pu = &un;", "un = *pu;", "ts.m;", "pts->o;", "ts = st;", "st = ts;", "pts = ps;", "ps = pts;",
        "pts = &ts;", "ps == pts;", "ps == 0;", "!ps;", "ps ? 1 : 0;", "i ? ps : 0;", "i ? st : st2;", "(i ? st : st2).m;", "fst().m;", "fs(st);", "fs(ts);", "fs(*ps);", "st = fst();", "sizeof st;", "sizeof(struct S);", "sizeof(TS);", "sizeof st.arr;",
        "(void)st;", "{ struct S ls = st; ls; }", "{ struct S ls = { 1, 'c', 2.0, { 1, 2 }, 0 }; ls; }", "{ struct S ls = { .m = 1, .o = 2.0 }; ls; }", "{ struct S ls = { 0 }; ls; }", "{ TS lt = st; lt; }", "{ struct S *lps = &st; lps; }",
        "{ struct S *lps = 0; lps; }", "{ union U lu = { 1 }; lu; }", "{ union U lu = { .o = 1.0 }; lu; }", "{ union U lu = un; lu; }", "{ struct S la[2] = { { 1 }, { 2 } }; la; }", "{ struct { int x; } an = { 1 }; an.x; }",
        "e = K1;", "e = K2;", "e = e2;", "e == K1;", "e + 1;", "i = e;", "e = i;", "e = 1;", "K1 + K2;", "i = K2 * 2;", "switch (e) { case K1: break; case K2: break; }", "a[K1];", "{ enum E le = K2; le; }", "{ int li = K1; li; }", "e ? K1 : K2;", "(enum E)i;", "(int)e;",
    ]
    # null pointer constants (6.3.2.3p3: an integer constant expression with the value 0) in every spelling, wherever a pointer is expected
    null_stmts = []
    for nc in ["0x0", "0L", "(0)", "0u", "00", "0UL", "((0))", "0ll", "0X00"]:
        for cons in ["p = %s;", "fp1(%s);", "p == %s;", "%s != p;", "i ? %s : p;", "i ? p : %s;", "vp = %s;", "ps = %s;", "fp = %s;", "lk(\"k\", %s);", "g3p(%s, 1.0, %s);", "pc = %s;", "b = p == %s;"]:
            null_stmts.append(cons.replace("%s", nc))
    for nc in ["'\\0'", "1 - 1"]:                # these need the expression to be evaluated: recorded finding
        for cons in ["p = %s;", "fp1(%s);"]:
            null_stmts.append(cons.replace("%s", nc))
    # a second pass over the constraints of 6.5 with less usual operand types (fifth session)
    extra_stmts = [
        "p < q;", "p >= q;", "cp == p;", "vp != p;", "p == vp;", "cp < p;", "pc == ccp;", "cvp == vp;", "kp == p;", "pp == kpp;",
        "!p;", "!d;", "!st.next;", "!fp;", "!a;", "!e;", "!b;", "!\"s\";",
        "~u;", "~c;", "~b;", "~e;", "-d;", "+c;", "-b;", "+e;", "-ull;",
        "p++;", "--p;", "d++;", "b++;", "e++;", "--e;", "f--;", "pc++;", "ps--;", "++st.m;", "a[1]++;", "(*p)++;", "++*p;", "pp++;", "(*pp)++;",
        "&a;", "&a[1];", "&*p;", "&st.m;", "&m2[1];", "*m2;", "**m2;", "&m2;", "&st.arr;", "&st.arr[1];", "&un.o;", "&*a;", "&ps->m;", "&(st.m);", "&f1;", "*f1;", "&fp;", "*&i;", "&p;", "**&p;",
        "(void)p;", "(void)st;", "(long)p;", "(int *)u;", "(double)c;", "(char)d;", "(_Bool)p;", "(struct S *)vp;", "(void (*)(void))fp;", "(enum E)i;", "(int)e;", "(unsigned)d;", "(int *)pc;", "(char *)p;", "(void *)fp1;", "(T3)d;", "(TP)vp;",
        "(const int *)p;", "(int)(long)p;", "(float)ull;", "(_Bool)d;", "(_Bool)0;",
        "i ? p : vp;", "i ? vp : p;", "i ? cp : p;", "i ? st : st2;", "i ? (void)0 : (void)0;", "i ? fvoid() : (void)0;", "i ? 1 : d;", "i ? e : i;", "i ? p : 0;", "i ? 0 : p;", "i ? a : p;", "i ? f1 : fp;", "p ? 1 : 2;", "d ? i : c;",
        "i ? ps : 0;", "i ? vp : 0;", "i ? pc : \"s\";", "i ? un : un;", "i ? K1 : K2;", "i ? b : c;", "i ? cp : vp;", "i ? cvp : p;", "(i ? p : q)[0];", "*(i ? p : a);", "(i ? st : st2).m;", "(i ? ps : pts)->m;",
        "p - q;", "p + u;", "c + p;", "p[c];", "u[p];", "a[e];", "p + e;", "b + p;", "p - b;", "pc - ca;", "a - p;", "p[b];", "a[ull];", "m2[1] - m2[0];", "&a[3] - &a[0];", "(p + 1)[-1];", "p[-1];", "*(p - 1);",
        "sizeof(int[3]);", "sizeof a;", "sizeof *ps;", "sizeof(st);", "sizeof st.arr;", "_Alignof(double);", "sizeof(struct S);", "sizeof(i + d);", "sizeof p;", "sizeof *p;", "sizeof(int (*)(int));", "sizeof m2[0];", "sizeof(T3);", "sizeof \"abc\";", "sizeof 'a';", "sizeof(e);",
        "st.next->next->m;", "(*ps).arr[1];", "ps->arr;", "(&st)->m;", "un.o;", "(*&st).m;", "ps->next->arr[0];", "st.arr[i];", "(st).m;", "pu->o;", "(*pu).m;", "ma.in.iu.w;", "pma->in.g[1][0];", "ma.cell[1][2];", "ma.as[1].m;",
        "f1(c);", "f1(e);", "f1(b);", "f1(d);", "fp(1);", "(*fp)(1);", "(****fp)(1);", "(&f1)(2);", "f1;", "fvoid;", "fp = f1;", "fd(i);", "fd(f);", "fd(c);", "g2(d, i);", "fp1(a);", "fp1(&a[1]);", "fp1(st.arr);", "fvp(&st);", "fvp(fp1);", "fcc(\"s\");", "fcc(ca);", "fcc(pc);", "fs(st);", "fs(*ps);", "fs(fst());",
        "i = (i, d);", "i = sizeof(i);", "i += d;", "p += i;", "p -= u;", "d *= i;", "i %= u;", "i <<= c;", "u |= i;", "b = d;", "b &= 1;", "e = K1;", "i = e;", "p += b;", "p += e;", "pc -= 1;", "d /= f;", "c += c;", "b += 1;", "e += 1;", "e |= K2;", "f *= 2;", "ull >>= 3;", "i ^= b;",
        "a[1] = 2;", "*a = 1;", "*(a + 1) = 3;", "m2[1][2] = 0;", "(*m2)[1] = 1;", "**m2 = 1;", "*m2[1] = 2;", "st.arr[1] = 1;", "ps->arr[0] = 2;", "*st.arr = 3;", "un.m = 1;", "pu->o = 1.5;", "*pd = 1;", "pd[1] = i;", "*pp = p;", "**pp = 1;", "pp[0][1] = 2;",
        "pc = \"s\";", "c = \"s\"[0];", "c = *\"s\";", "ccp = \"a\" \"b\";", "i = \"abc\"[1] + 1;",
        "i = 'a';", "i = L'a';", "d = 1.0f;", "d = 1e3;", "u = 1u;", "i = 0x1;", "ull = 1ull;", "l = 1L;", "f = 1.5f;", "ld = 1.0L;", "c = '\\n';", "i = '\\x41';", "d = .5;", "d = 5.;", "i = 017;",
        "if (p) ;", "while (d) ;", "do ; while (p);", "for (; p; ) ;", "switch (c) { case 'a': ; }", "if (st.next) ;", "while (!p) ;", "if (fp) ;", "if (a) ;", "for (i = 0; i < 4; i++) a[i] = i;", "for (p = a; p < a + 4; p++) *p = 0;", "switch (e) { case K1: ; default: ; }", "switch (b) { case 0: ; }", "if (e) ;", "if (b) ;",
        "i = p && d;", "i = p || i;", "i = !p && !d;", "i = p && q;", "i = d || f;", "i = st.next && i;", "i = fp && i;", "i = a && 1;", "b = p && q;",
        "i = p == 0;", "i = 0 == p;", "i = p != (void *)0;", "i = (void *)0 == p;", "i = ps == 0;", "i = fp == 0;", "i = fp != f1;", "i = f1 == fp;", "i = vp == 0;", "i = p == (int *)0;", "i = p == a;", "i = a == p;", "i = &a[0] == a;",
        "vp = &vp;", "vp = p;", "p = vp;", "cvp = cp;", "cvp = p;", "vp = ps;", "ps = vp;", "vp = &st;", "vp = a;", "vp = pp;", "pp = vp;", "cp = a;", "ccp = ca;", "cp = &ci;", "kpp = pp;", "cvp = \"s\";",
        "st = st2;", "st = *ps;", "*ps = st;", "st = fst();", "un = *pu;", "ts = st;", "st = ts;", "*pts = *ps;", "ma = mb;", "ma = *pma;", "uma = umb;", "ma.as[0] = st;", "st = ma.as[1];",
        "e = e2;", "e = 1;", "i = K1 + K2;", "e = (enum E)1;", "e = K1 | K2;", "e == e2;", "e < K2;", "K1 ? 1 : 2;",
        "i = (int)d + (int)f;", "d = (double)i / 2;", "u = (unsigned)-1;", "c = (char)300;", "i = -(int)u;", "i = (i);", "i = ((i) + (1));", "(i) = 1;", "(*p) = 1;", "(a)[1] = 2;", "(st).m = 1;", "(ps)->m = 2;", "(st.arr)[0] = 1;",
        "i = i;", "i = +i;", "i = - -i;", "i = !!i;", "i = ~~i;", "i = -!i;", "i = *&*&i;", "i = sizeof sizeof i;", "i = i++ + ++i;", "i = (i = 1);", "i = i = 2;", "d = i = c;", "p = q = a;", "i += i += 1;",
    ]
    # third pass: pointers to arrays, arrays of pointers / of function pointers, functions returning pointers / structures, qualified
    # operands, compound literals, comma / conditional chains, casts between pointer types
    extra2_stmts = [
        "m2[1];", "*m2[1];", "m2[i][c];", "(*m2)[2];", "*(m2[1] + 1);", "*(*(m2 + 1) + 2);", "sizeof m2 / sizeof m2[0];", "&m2[1][2];", "p = m2[1];", "p = *m2;", "p = &m2[0][0];", "i = m2[1] - m2[0];", "m2[0] == p;", "m2[1] + 1 == p;",
        "{ int (*pa)[3] = m2; pa; }", "{ int (*pa)[3] = &m2[1]; (*pa)[0] = 1; }", "{ int (*pa)[3] = m2; pa[1][2] = 0; }", "{ int (*pa)[3] = m2 + 1; pa; }", "{ int *ap[2]; ap[0] = p; *ap[1] = 2; }", "{ int *ap[2]; ap[1] = &i; **ap = 3; }",
        "{ int (*fa[2])(int); fa[0] = f1; fa[1] = fp; fa[0](1); }", "{ int (*fa[2])(int); (*fa[1])(2); i = fa[0](3) + 1; }", "{ int (**pfp)(int) = &fp; (*pfp)(1); (**pfp)(2); }", "{ struct S sa[2]; sa[0] = st; sa[1].m = 2; ps = sa; ps = &sa[1]; }",
        "*fpr();", "fpr()[1] = 2;", "*fpr() += 1;", "p = fpr() + 1;", "i = *fpr() * 2;", "fst().m;", "i = fst().arr[1];", "fst().o + 1.0;", "st = fst();", "fs(fst());", "i = fma().cell[1][2];", "fmm(ma);", "fum(uma);", "d = fma().m[1][2];",
        "ci + 1;", "i = ci;", "i = vi;", "vi = 1;", "vi++;", "vi += ci;", "i = ci * vi;", "d = cd + 1;", "c = cc;", "p = kp;", "*kp = 1;", "i = *kp;", "i = **kpp;", "kp[1] = 2;", "cp = kp;", "i = *cp + ci;", "ccp = &cc;", "c = *ccp;", "cvp = &ci;", "cvp = kp;",
        "(struct S){ 1 };", "i = (struct S){ 1, 'a' }.m;", "st = (struct S){ .m = 2 };", "p = (int[]){ 1, 2, 3 };", "i = (int[2]){ 4, 5 }[1];", "fs((struct S){ 0 });", "fp1((int[3]){ 0 });", "ps = &(struct S){ 1 };", "i = (int){ 7 };", "d = (double){ 1 } + 2;",
        "i = (1, 2, 3);", "i = (c, d, i);", "(void)(i, p);", "p = (i, a);", "i = i ? c ? 1 : 2 : 3;", "i = i ? 1 : c ? 2 : 3;", "d = i ? 1 : c ? 2.0 : 3;", "p = i ? a : c ? p : q;", "st = i ? st : c ? st2 : ts;",
        "pc = (char *)p;", "p = (int *)pc;", "pd = (double *)vp;", "ps = (struct S *)pu;", "fp = (int (*)(int))fpv;", "fpv = (void (*)(void))f1;", "pp = (int **)vp;", "p = (int *)(long)i;", "l = (long)p;", "ull = (unsigned long long)vp;", "p = (int *)0;", "fp = (int (*)(int))0;",
        "vp = (void *)(long)0;", "cp = (const int *)vp;", "p = (int *)cp;", "pc = (char *)ccp;",
        "i = a[0] + a[1] * a[2] - a[3];", "i = st.m + ps->m + un.m + pu->m;", "d = st.o * ps->o / un.o;", "i = (st.arr[0] << 2) | (ps->arr[1] & 3);", "i = !st.m && ps->next || pu;", "i = p[0] < q[1] == (c != d);", "i = -a[1] + +a[2] - ~a[3];", "i = sizeof a / sizeof *a;",
        "i = f1(f1(f1(1)));", "i = f1(a[f1(0)]);", "i = f1(st.m) + f1(ps->arr[f1(1)]);", "d = fd(fd(1) + f1(2));", "i = g2(f1(1), fd(2));", "i = fv(1, f1(2), fd(3), p, st);", "i = (i ? f1 : fp)(2);", "i = (*(i ? &f1 : fp))(3);", "fvoid(), fvoid();", "i = (fvoid(), 1);",
        "b = 1; b = 0; b = i; b = d; b = c; b = !b; b = b && b; b = i < 2; b = p != q; i = b + b; i = b << 1; i = -b; i = ~b; i = b ? 1 : 2; i = a[b];",
        "ll = i; ll = ull; ull = ll; l = ul; ul = l; s = c; us = s; uc = sc; sc = uc; i = ll; c = ll; f = ll; ld = ull; ll = ld;",
        "ll + ull; l * ul; s + us; sc - uc; c * sc; i / ll; u % ull; ull << s; ll >> uc; ul & us; l ^ ll; ull | c; ll < u; ull == i; l != ul;",
        "f + d; d * ld; ld / f; f - i; ld + ull; d < f; ld == i; f != c; -ld; +f; !ld; f ? 1 : 2; i = f; i = ld; f = d; d = ld; ld = f;",
    ]
    # fourth pass: typedef'd and qualified aggregates, function pointers in aggregates, conditional operator with qualified / void / null
    # operands, comparisons of qualified pointers, integer / pointer mixes that ARE valid
    extra3_stmts = [
        "ts.m;", "pts->m;", "ts.arr[1];", "pts->next->m;", "(*pts).o;", "ts.next = pts;", "ts.next = &st;", "pts = ts.next;", "ts = *pts;", "i = ts.m + pts->m;", "pts->arr[0] = ts.arr[1];", "&ts;", "&pts->m;", "sizeof ts;", "sizeof *pts;",
        "tp = p;", "p = tp;", "*tp = 1;", "tp[1] = 2;", "i = *tp + tp[0];", "tp++;", "tp - p;", "tp == p;", "tp = a;", "tp = &ti;", "ti = *tp;", "tc = 'a';", "td = tc + ti;", "ti += tc;", "tp = &i;",
        "cp == cp;", "cp < cp;", "cp - cp;", "cp + 1;", "i = *cp;", "i = cp[1];", "cp = cp + 1;", "cp++;", "ccp == pc;", "ccp - pc;", "pc == ccp;", "cvp == cp;", "cvp != vp;", "kp == cp;", "kp - p;", "*kpp == kp;", "kpp == kpq;", "**kpp = 1;", "i = **kpq;",
        "i ? cp : p;", "i ? p : cp;", "i ? cvp : vp;", "i ? vp : cvp;", "i ? cp : 0;", "i ? 0 : cp;", "i ? ccp : pc;", "i ? cvp : p;", "i ? p : cvp;", "i ? kp : p;", "(i ? cp : p)[0];", "*(i ? cp : p);", "i ? ci : vi;", "i ? cc : c;", "i ? cd : d;",
        "i ? (void *)0 : p;", "i ? p : (void *)0;", "i ? (void *)0 : (void *)0;", "i ? vp : (void *)0;", "i ? fp : 0;", "i ? 0 : fp;", "i ? fp : f1;", "i ? f1 : f1;", "i ? fpv : fvoid;", "(i ? f1 : fp)(1);",
        "p == (void *)0;", "(void *)0 != p;", "vp == (void *)0;", "fp == (void *)0;", "fp != 0;", "0 != fp;", "!fp;", "fp && p;", "ps == (void *)0;", "ps != 0;", "pu == 0;", "pp == 0;", "*pp == 0;", "pp != (void *)0;", "st.next == 0;", "st.next != ps;", "ps->next == &st;",
        "i = (p != 0) + (q == 0);", "i = !p + !q;", "i = (p < q) - (p > q);", "i = p == q && q == a;", "b = p;", "b = !p;", "b = p && q;", "b = fp;", "b = ps;", "b = st.next;", "b = pc;", "b = \"s\";", "b = a;", "b = f1;",
        "c = c + 1;", "c++;", "c += 'a';", "sc = -sc;", "uc = ~uc;", "s = s << 1;", "us = us >> 1;", "c = c & 0x7f;", "uc |= 0x80;", "s ^= s;", "c = !c;", "c = c && c;", "c = c < c;", "c = c ? c : c;", "c = (c, c);", "c = sizeof c;", "c = a[c];", "c = *pc + pc[c];",
        "e & K2;", "e | 1;", "e ^ e2;", "~e;", "e << 1;", "e >> K1;", "e % 2;", "e / K2;", "e * e2;", "e - K1;", "-e;", "+e;", "!e;", "e && e2;", "e || i;", "e ? e : e2;", "e = e ? K1 : K2;", "i = e == K1 ? 1 : 2;", "a[e] = e;", "p + e;", "p[e];", "e = a[K1];", "i = sizeof e;", "f1(e + 1);", "d = e;", "d = e * 1.5;", "e = (enum E)(e + 1);",
        "b & 1;", "b | b;", "b ^ 1;", "b << 2;", "b >> b;", "b % 2;", "b * 3;", "b / 1;", "b - b;", "b < b;", "b == 1;", "b != b;", "b && 1;", "b || 0;", "b ? i : c;", "a[b];", "p + b;", "f1(b);", "fd(b);", "d = b;", "d = b * 2.5;", "b = b + 1;", "b -= 1;", "b *= 2;", "b |= 1;", "b <<= 1;", "--b;", "b--;",
        "st.next->next = ps;", "ps->next->next->m = 1;", "*st.next = st2;", "*ps->next = *ps;", "st.next[0].m = 1;", "(*st.next).m = 2;", "(&*ps)->m = 3;", "(&st)->next = &st2;", "st2.next = st.next->next;", "i = st.next->arr[st.m];", "ps = ps->next ? ps->next : ps;", "while (ps) ps = ps->next;", "for (ps = &st; ps; ps = ps->next) i += ps->m;",
        "un.m = un.o;", "un.o = un.m;", "un = un;", "*pu = un;", "pu = &un;", "pu->m++;", "i = pu->m + un.m;", "d = pu->o * un.o;", "&un.m == (int *)&un;", "(void *)&un == (void *)&un.o;", "sizeof un;", "sizeof pu->o;", "pu == &un;", "!pu;",
        "fp = fp;", "fp = i ? f1 : fp;", "fp = (fp);", "fp = *fp;", "fp = **f1;", "fp = &*f1;", "fpv = fvoid;", "fpv();", "(*fpv)();", "(fpv)();", "fpv = i ? fvoid : fpv;", "i = fp == f1 || fp == 0;", "i = (fp ? fp : f1)(3);", "i = (*fp)(f1(1));", "i = fp(fp(fp(1)));",
        "{ struct { int (*cb)(int); void (*v)(void); } h; h.cb = f1; h.v = fvoid; h.cb(1); h.v(); (*h.cb)(2); i = h.cb(3) + 1; }", "{ struct { int *q; int **qq; } h; h.q = p; h.qq = &h.q; **h.qq = 1; *h.q = 2; i = *h.q + **h.qq; }",
        "{ int (*tab[3])(int); int k; for (k = 0; k < 3; k++) tab[k] = f1; i = tab[1](2); i = (*tab[2])(3); fp = tab[0]; }", "{ struct S *arr2[2]; arr2[0] = &st; arr2[1] = ps; i = arr2[0]->m + arr2[1]->arr[0]; ps = arr2[i]; }",
        "{ char buf[8]; char *w; w = buf; *w = 'a'; w[1] = 0; buf[2] = *w; pc = buf + 1; i = w - buf; i = sizeof buf; }", "{ double mat[2][2]; mat[0][0] = 1; mat[1][1] = mat[0][0] * 2; d = mat[0][1] + **mat; pd = mat[1]; pd = &mat[0][0]; }",
        "{ const int k = 1; const int *pk; int r; pk = &k; r = k + *pk; r = k * 2; i = r; cp = pk; }", "{ volatile int v; int r; v = 1; r = v; v++; v += r; r = v * 2; i = r; }", "{ long n; unsigned long m; n = i; m = n; n = m + 1; m = sizeof n; l = n; ul = m; }",
        "{ unsigned char by; int r; by = 255; r = by + 1; by = r; by++; r = by << 8 | by; r = ~by & 0xff; i = r; }", "{ float g; double h; g = 1; h = g; g = h; g = g * 2 + 1; h = g / 3; h = -g; i = g < h; i = g == 1; d = h; }",
    ]
    call_stmts = [
        "f0();", "f1(1);", "f1(i);", "f1(c);", "f1(d);", "f1('a');", "f1(K1);", "f1(f0());", "f1(f1(1));", "g2(1, 2.0);", "g2(i, i);", "g2(c, f);", "fv(1);", "fv(1, 2);", "fv(1, 2.0, \"s\", p);", "fv(i, c, s, f);", "fvoid();", "fd(1);", "fd(f);", "fd(fd(d));",
        "fp1(p);", "fp1(a);", "fp1(&i);", "fp1(0);", "fp1(vp);", "fp1(tp);", "fp1(&st.m);", "fp1(st.arr);", "fvp(p);", "fvp(pc);", "fvp(vp);", "fvp(0);", "fvp(&st);", "fvp(ps);", "fvp(a);", "fvp(\"s\");", "fcc(pc);", "fcc(ccp);", "fcc(\"lit\");", "fcc(ca);", "fcc(0);",
        "i = f0();", "d = fd(1.0);", "i = f1(2) + f0();", "p = fpr();", "*fpr() = 1;", "fpr()[0];", "f2p(1, 0);", "f2p(i, 0);", "lk(\"k\", 0);", "lk(0, 0);", "lk(ccp, vp);", "fv3(1, 0, 0);", "fv3(i, pc, 0, 1, 2);", "fv3(1, 0, p, 0);", "g3p(0, 1.0, 0);", "g3p(p, d, 0);", "g3p(0, 0, ps);", "cb2(f1, 0);", "cb2(0, fvoid);",
        "cb2(fp, fpv);", "f2p(f2p(1, 0), 0);", "p = lk(\"k\", 0);", "i = f2p(c, a);", "f2p('c', &i);",
        "fp = f1;", "fp = &f1;", "fp = &(f1);", "fp == &f1;", "fp = &*fp;", "fp = *&f1;", "(&f1)(1);", "{ int (*lf)(int) = &f1; lf; }", "fpv = &fvoid;", "fp(1);", "(*fp)(1);", "(**fp)(1);", "i = fp(2);", "fpv = fvoid;", "fpv();", "(*fpv)();", "fp == f1;", "fp != 0;", "fp ? 1 : 0;", "!fp;", "fp = 0;",
        "(void)f0();", "(void)fvoid();", "f0() + 1;", "f0() ? 1 : 2;", "if (f0()) ;", "f1(i ? 1 : 2);", "f1((i, 2));", "f1(sizeof(int));", "g2(f0(), fd(1));", "{ int (*lfp)(int) = f1; lfp(1); }", "{ int (*lfp)(int) = 0; lfp; }", "{ int lr = f1(1); lr; }",
        "{ double lr = fd(2); lr; }", "{ int *lr = fpr(); lr; }", "{ struct S lr = fst(); lr; }", "sizeof f0();", "sizeof(f1(1));", "fst();", "fst().arr[0];", "f1(st.m);", "f1(ps->arr[1]);", "g2(a[0], da[1]);", "f1(*p);", "f1(p[1]);", "f1(un.m);", "f1(e);", "f1(ti);", "fd(td);", "f1(tc);",
    ]
    misc = ["i = i;", "1;", "1 + 2;", "1.5 + 2;", "'a' + 1;", "\"s\";", "i = 1, d = 2;", "i = d = c;", "i += d;", "d /= i;", "c = c + 1;", "b = i && d;", "b = !d;", "i = b + b;", "i = (c, d, i);", "i = sizeof(int) + sizeof i;", "i = _Alignof(double);",
            "ul = sizeof(i);", "i = 1u;", "l = 1ull;", "d = 1.f;", "f = 1.0L;", "c = 65;", "i = 'a';", "i = L'a';", "c = \"s\"[0];", "i = -1;", "u = -1;", "i = ~0u;", "l = 1 << 3;", "ull = 1ull << 40;", "i = 7 % 3;", "i = 7 / 2;", "d = 7 / 2.0;", "i = (1, 2);",
            "i = 1 ? 2 : 3;", "d = i ? 1 : 2.0;", "i = i ? c : s;", "vp = i ? p : vp;", "i = 1 < 2;", "i = 1.0 < 2;", "i = d == d;", "i = c != 'a';", "i = !0;", "i = !1.5;", "i = 1 && 0;", "i = 1.5 || 0;", "ci + 1;", "i = ci;", "i = vi;", "vi = 1;", "cc + 1;", "d = cd;",
            "i = ci + vi;", "return;", "{ return; }", ";", "{ }", "{ ; ; }", "if (i) i = 1; else i = 2;", "while (i) { i--; }", "do { i++; } while (i < 10);", "for (i = 0; i < 3; i++) { d += i; }", "for (int k = 0; k < 3; ++k) a[k] = k;", "for (;;) { break; }",
            "switch (i) { case 1: break; case 2: i = 0; break; default: ; }", "switch (c) { case 'a': break; }", "goto L; L: ;", "{ int k = 1; { int k = 2; k; } k; }", "{ static int k; k = 1; }", "{ extern int i; i = 2; }", "{ typedef long LT; LT k = 1; k; }",
            "{ const int k = 1; i = k; }", "{ int k; k = i; (void)k; }", "{ _Static_assert(1, \"m\"); }", "{ int k[3]; k[0] = 1; }", "{ int n = 3; int vla[n]; vla[0] = 1; }", "{ char k = 'x'; int m = k; m; }", "{ unsigned k = 1; k << 2; }", "{ long long k = 1; k + 1; }",
            "{ float k = 1; k * 2; }", "{ double k = 1, m = 2; k / m; }", "{ int k = 1, *m = &k; *m; }", "{ int k = sizeof(int[3]); k; }", "i = ((i));", "i = (int)(char)(long)d;", "d = (double)(int)d;", "(void)0;", "(void)(i + 1);", "i = __func__[0];", "i = (int)sizeof(st);",
            "ti = ti + 1;", "ti++;", "ti = i;", "i = ti;", "ti << 1;", "ti % 2;", "tc = 'a';", "tc + 1;", "td = 1.5;", "td * 2;", "td = ti;", "{ T1 k = 1; T2 m = k; T3 n = m; n; }", "ti ? tc : td;", "a[ti];", "p + ti;", "f1(ti);", "{ T3 *ptx = &ti; *ptx; }", "p = &ti;", "{ T3 at[2]; at[0] = 1; }"]
    for sgroup, name in ((ptr_stmts, "ptr"), (struct_stmts, "struct"), (call_stmts, "call"), (null_stmts, "null"), (extra_stmts, "extra"), (extra2_stmts, "extra2"), (extra3_stmts, "extra3"), (misc, "misc")):
        for s in sgroup:
            out.append(("%s:%s" % (name, s), s))
    # ---- composition: every producer of a value class inside every consumer that needs that class (a wrong RESULT TYPE of an accepted
    # operation shows one node later: seeded change C11-b gave `i + p` the type of `i`)
    PROD = {
        "iptr": ["p", "p + 1", "1 + p", "i + p", "p + i", "c + p", "ul + p", "e + p", "ti + p", "p - 1", "p - i", "p += 1", "p -= i", "p++", "p--", "++p", "--p", "&i", "&a[1]", "a", "a + 1", "1 + a", "i + a", "&*p", "(int *)vp",
                 "i ? p : q", "i ? p : 0", "i ? 0 : p", "(p)", "(0, p)", "p = q", "fpr()", "st.arr", "&st.m", "tp", "tp + 1", "1 + tp", "*pp", "kp", "m2[1]", "*m2", "pp[0]", "&p[2]", "&a[0] + 1", "1 + &i", "(1 + p) + 1",
                 "1 + (p + 1)", "i + (i + p)", "st.arr + 1", "1 + st.arr", "1 + fpr()", "(int *)0", "1 + (int *)vp", "&m2[1][0]", "1 + m2[1]", "ps->arr", "i + ps->arr", "&ps->m", "i + &ps->m"],
        "int": ["i", "c", "i + c", "p - q", "sizeof i", "i < d", "!p", "p == q", "e", "K1", "i << 2", "~i", "st.m", "a[0]", "*p", "f0()", "i++", "i = 2", "(int)d", "i ? c : s", "b", "ti", "'a'", "i && d", "_Alignof(int)", "us % 3",
                "un.m", "(i, c)", "*(1 + p)", "*(i + p)", "(1 + p)[0]", "(i + a)[1]", "1[p]", "*(c + a)", "(1 + p) - p", "(i + p) == p", "(1 + p) < q", "p - (1 + p)", "*(1 + st.arr)", "(1 + ps)->m", "(i + ps)->arr[0]", "ps[1].m",
                "(*(1 + ps)).m", "ull", "sc", "-c", "+us", "c * c", "uc << 1", "i % ti", "(short)l", "sizeof(int) * 2", "e + K2", "ci", "vi", "i += 1", "c ? i : u", "u / 2", "l & 1", "b | 1", "ll ^ i"],
        "flt": ["d", "f", "d + i", "i * 1.5", "fd(1)", "st.o", "(double)i", "-d", "td", "i ? d : 1", "*pd", "da[1]", "*(1 + pd)", "(1 + pd)[0]", "*(i + da)", "ld", "f * f", "f + i", "d / ull", "(float)d", "cd", "d = 1", "d += i",
                "ps->o", "(1 + ps)->o", "un.o", "1.5f", "i ? f : d", "+f", "f - c"],
        "struct": ["st", "*ps", "fst()", "i ? st : st2", "st = st2", "ts", "ps[0]", "*st.next", "(st)", "*(1 + ps)", "(1 + ps)[0]", "*(i + ps)", "*pts", "(0, st)", "*ps->next"],
        "sptr": ["ps", "&st", "st.next", "ps + 1", "1 + ps", "i + ps", "c + ps", "pts", "i ? ps : 0", "ps->next", "(struct S *)vp", "&ps[1]", "ps++", "ps += 1", "1 + st.next", "&*ps", "(ps)", "ps = &st", "1 + &st", "i + pts",
                 "1 + (1 + ps)", "(0, ps)", "i ? ps : pts"],
        "cptr": ["pc", "ca", "pc + 1", "1 + pc", "i + pc", "i + ca", "1 + ca", "\"s\"", "1 + \"abc\"", "&ca[1]", "(char *)vp", "pc++", "i ? pc : ca", "&*pc", "1 + &ca[2]"],
        "dptr": ["pd", "da", "1 + pd", "i + da", "pd + 1", "&d", "1 + &d", "&da[1]", "&st.o", "1 + &st.o", "pd++"],
    }
    CONS = {
        "iptr": ["b = %s;", "fb(%s);", "q = %s;", "*(%s);", "*(%s) = 1;", "(%s)[0];", "(%s)[i] = 2;", "fp1(%s);", "fvp(%s);", "(%s) == p;", "p != (%s);", "(%s) - p;", "q - (%s);", "(%s) < q;", "(%s) + 1;", "2 + (%s);", "(%s) - 1;", "vp = %s;", "cp = %s;",
                 "!(%s);", "(%s) ? 1 : 2;", "i ? (%s) : q;", "(%s) && i;", "if (%s) ;", "*pp = %s;", "tp = %s;", "(void *)(%s);", "(long)(%s);", "{ int *lp = %s; lp; }", "{ const int *lc = %s; lc; }", "{ void *lv = %s; lv; }",
                 "sizeof *(%s);", "&*(%s);", "&(%s)[1];", "i = *(%s) + 1;", "i = (%s)[1] * 2;", "f1(*(%s));", "f1((%s)[0]);", "RET:int *", "RET:void *", "RET:const int *", "RET:_Bool"],
        "int": ["i = %s;", "a[%s];", "(%s) << 1;", "(%s) % 2;", "switch (%s) { default: ; }", "~(%s);", "p + (%s);", "(%s) + p;", "p - (%s);", "p[%s];", "f1(%s);", "c = %s;", "ul = %s;", "d = %s;", "b = %s;", "e = %s;", "(%s) & 1;",
                "-(%s);", "!(%s);", "(%s) == 1;", "(%s) ? 1 : 2;", "if (%s) ;", "(%s) * 1.5;", "{ int li = %s; li; }", "{ long ll2 = %s; ll2; }", "fv(1, %s);", "i += %s;", "i <<= %s;", "(char)(%s);", "RET:int", "RET:long", "RET:double"],
        "flt": ["d = %s;", "f = %s;", "i = %s;", "(%s) * 2;", "-(%s);", "(%s) < 1;", "fd(%s);", "g2(1, %s);", "!(%s);", "(%s) ? 1 : 2;", "(int)(%s);", "d += %s;", "(%s) + i;", "{ double lq = %s; lq; }", "if (%s) ;", "(%s) / d;", "RET:double", "RET:int", "RET:float"],
        "struct": ["st2 = %s;", "(%s).m;", "(%s).o + 1;", "(%s).arr[0];", "fs(%s);", "ts = %s;", "*pts = %s;", "(void)(%s);", "sizeof(%s);", "{ struct S lz = %s; lz; }", "{ TS lz = %s; lz; }", "(%s).next->m;", "i = (%s).m;", "RET:struct S", "RET:TS"],
        "sptr": ["b = %s;", "fb(%s);", "pts = %s;", "(%s)->m;", "(%s)->o = 1;", "(*(%s)).n;", "(%s)[0].m;", "(%s)->next->m;", "(%s)->arr[1];", "fvp(%s);", "(%s) == ps;", "(%s) - ps;", "(%s) + 1;", "1 + (%s);", "vp = %s;", "st = *(%s);", "!(%s);", "(%s) ? 1 : 2;",
                 "{ struct S *lz = %s; lz; }", "{ TS *lz = %s; lz; }", "st.next = %s;", "&(%s)->m;", "p = &(%s)->m;", "p = (%s)->arr;", "RET:struct S *", "RET:TS *", "RET:void *"],
        "cptr": ["b = %s;", "fb(%s);", "ccp = %s;", "*(%s);", "(%s)[0];", "fcc(%s);", "fvp(%s);", "(%s) == pc;", "(%s) - pc;", "(%s) + 1;", "cvp = %s;", "i = *(%s);", "c = (%s)[1];", "{ const char *lz = %s; lz; }", "!(%s);", "RET:const char *", "RET:const void *"],
        "dptr": ["b = %s;", "fb(%s);", "pd = %s;", "*(%s);", "(%s)[0];", "*(%s) = 1.5;", "d = *(%s) * 2;", "fvp(%s);", "(%s) == pd;", "(%s) - pd;", "vp = %s;", "{ double *lz = %s; lz; }", "fd(*(%s));", "RET:double *", "RET:void *"],
    }
    for cls in PROD:
        for e in PROD[cls]:
            for c in CONS[cls]:
                if c.startswith("RET:"):
                    out.append(("comp-ret:%s:%s" % (c[4:], e), ("RET", c[4:], e)))
                else:
                    out.append(("comp:%s:%s" % (c, e), c.replace("%s", e)))
    rets = [("int", "c"), ("int", "d"), ("int", "1"), ("double", "i"), ("double", "1"), ("char", "i"), ("_Bool", "p"), ("int *", "0"), ("int *", "p"), ("int *", "a"), ("int *", "vp"), ("void *", "p"), ("void *", "0"), ("const int *", "p"),
            ("struct S", "st"), ("struct S", "*ps"), ("TS", "st"), ("struct S *", "&st"), ("struct S *", "0"), ("enum E", "K1"), ("enum E", "i"), ("int", "K2"), ("T3", "ti"), ("T3", "c"), ("long", "ull"), ("float", "ld"), ("unsigned char", "i"),
            ("const char *", "\"s\""), ("char *", "ca"), ("int (*)(int)", None), ("TP", "p"), ("int *", "tp"), ("double", "td"), ("int", "f0()"), ("int", "i ? 1 : 2"), ("void", None)]
    for t, v in rets:
        out.append(("ret:%s:%s" % (t, v), ("RET", t, v)))
    return out


def has_initializer(s):
    """the type checker stops (Action::Quit) at the first initialised declaration: such a test gets a program of its own"""
    import re
    return isinstance(s, str) and bool(re.search(r"\{\s*(?:static |const |extern )?(?:[A-Za-z_][\w ]*?[\s*]+)\(?\**\s*\w+\)?(?:\[[^\]]*\])*(?:\([^)]*\))?\s*=[^=]", s) or re.search(r"for \(int ", s))


def program(tests_chunk, base):
    """returns (text, {line: index into tests_chunk})"""
    lines = PRELUDE.strip("\n").split("\n")
    where = {}
    for j, (key, s) in enumerate(tests_chunk):
        n = base + j
        if isinstance(s, tuple):
            _, t, v = s
            if t == "int (*)(int)":
                text = "int (*r%d(void))(int) { return f1; }" % n
            elif t == "void":
                text = "void r%d(void) { return; }" % n
            else:
                text = "%s r%d(void) { return %s; }" % (t, n, v)
        else:
            text = "void t%d(void) { %s }" % (n, s)
        lines.append(text)
        where[len(lines)] = j
    return "\n".join(lines) + "\n", where
