"""Enumerative corpus of declaration FORMS for C04 (one external declaration per line; gcc decides line by line which are valid C,
only those are held against the parser).  Families are cross products of the alternatives the grammar gives for one construct, so that
a restriction wrongly applied to ONE combination shows (seeded change C04-b rejected '[*]' in a non-first array dimension of a parameter).
"""
import itertools

PRELUDE = "typedef int T; typedef struct S { int m; } S; struct P { int x, y; }; enum E { K1, K2 }; extern int n;\n"


def array_parameters():
    """6.7.6.2 / 6.7.6.3: every first-dimension form x 0..2 later dimensions x named/abstract/pointer-to-array"""
    first = ["[]", "[3]", "[n]", "[*]", "[static 3]", "[static n]", "[const]", "[const 3]", "[const static 3]", "[static const n]", "[restrict]",
             "[restrict static 2]", "[volatile *]", "[const *]", "[const restrict volatile 4]", "[_Atomic 2]"]
    # every qualifier (alone and in pairs) in every position 6.7.6.2p1 gives a type-qualifier-list
    quals = ["const", "volatile", "restrict", "_Atomic"]
    qsets = quals + ["%s %s" % (a, b) for a in quals for b in quals if a != b]
    for q in qsets:
        for form in ("[%s]", "[%s n]", "[%s *]", "[%s static n]", "[static %s n]", "[static %s 3]"):
            if form % q not in first:
                first.append(form % q)
    later = ["[3]", "[n]", "[*]", "[2 * n]", "[static 3]", "[const 3]", "[]"]
    out = []
    for f in first:
        for k in range(3):
            for ls in itertools.product(later, repeat=k):
                dims = f + "".join(ls)
                out.append("int a%s" % dims)                     # named
                out.append("int %s" % dims)                      # abstract
        out.append("int *a%s" % f)
        out.append("int (a)%s" % f)
    for k in range(1, 4):
        for ls in itertools.product(later, repeat=k):
            out.append("int (*p)%s" % "".join(ls))               # pointer to array: no restriction on its dimensions
            out.append("int (*)%s" % "".join(ls))
            out.append("int (*p[2])%s" % "".join(ls))
            out.append("int (* const p)%s" % "".join(ls))
    out += ["int (*cb)(int a[*], int b[static 2])", "int (*cb)(int [*][*])", "int f2(int m, int a[m][*])", "T a[n][*]", "S a[*][*]", "struct P a[n][*]", "enum E a[][*]",
            "const int a[const n][*]", "register int a[n][*]", "int a[n][*][*]", "int a[*][n][*]", "char *a[][*]", "int (*a[*])[*]", "int (*(*a)[*])[*]"]
    return ["void f(int n, %s);" % p for p in out]


def members():
    """6.7.2.1: member declarators"""
    spec = ["int", "unsigned", "const int", "T", "struct P", "enum E", "_Bool", "unsigned char", "long long", "int *", "S *"]
    decl = ["m", "m : 3", ": 2", ": 0", "m, k", "m : 1, k : 2", "m, : 2, k : 1", "*m", "m[2]", "m[2][3]", "(*m)(int)", "(*m)[2]", "m : K2", "m : sizeof(int)", "m : 1 + 2",
            "(m)", "(m) : 2", "* const m", "m __attribute__((packed))"]
    out = []
    for s, d in itertools.product(spec, decl):
        out.append("struct M { %s %s; };" % (s, d))
    out += ["struct M { int a; int fam[]; };", "struct M { struct { int x; }; union { int u; float v; }; };", "struct M { _Alignas(8) int a; };", "struct M { _Static_assert(1, \"m\"); int a; };",
            "struct M { int a; };", "struct M { struct M *next; };", "struct M { struct N { int q; } in; };", "union M { int a; char b[4]; };", "struct M { int a, b; char c; };",
            "struct M { const volatile int a; };", "struct M { int (*f[3])(void); };", "struct M { enum { Q1, Q2 } e : 2; };", "struct M { unsigned a : 1, : 0, b : 1; };",
            "struct { int a; } anon;", "struct M;", "struct M { int a; } v1, *v2, v3[2];", "typedef struct M { int a; } M;", "typedef struct { int a; } U2, *PU2;",
            "struct M { int a; } __attribute__((packed));", "struct __attribute__((packed)) M { int a; };", "struct M { _Atomic int a; _Atomic(int) b; };"]
    out += ["enum X { A };", "enum X { A, };", "enum X { A = 1 };", "enum X { A = 1, B, C = A + 2, };", "enum X { A = sizeof(int) };", "enum X { A = (1 << 3) | 1 };", "enum { A, B } v;",
            "enum X { A } v = A;", "enum X;" if False else "enum X { A = 'a' };", "enum X { A = -1 };", "enum X { A = K2 };", "typedef enum { A, B } X;", "enum X { A __attribute__((unused)) };"]
    return out


def declarations():
    """6.7: specifiers, storage classes, function specifiers, alignment, initializers"""
    out = []
    stor = ["", "static ", "extern ", "_Thread_local ", "static _Thread_local ", "extern _Thread_local ", "register " if False else ""]
    spec = ["int", "const int", "int const", "volatile int", "const volatile int", "unsigned long long", "long unsigned int long", "signed char", "_Bool", "float", "long double",
            "double _Complex", "_Complex float", "T", "const T", "S", "struct P", "enum E", "_Atomic int", "_Atomic(int)", "_Atomic(T)", "_Alignas(8) int", "_Alignas(double) char",
            "int _Alignas(16)", "void *", "char *", "const char * const", "int * restrict", "int ** const *"]
    for s, t in itertools.product(stor, spec):
        out.append("%s%s v;" % (s, t))
    inits = ["int v = 1;", "int v = (1);", "int v = 1 + 2 * 3;", "int v = sizeof(int);", "int v = sizeof v;", "int v = _Alignof(double);", "int v = (int)1.5;", "int v = K1;", "int v = 'a';",
             "int v = {1};", "int v[] = {1, 2, 3};", "int v[] = {1, 2, 3,};", "int v[3] = {0};", "int v[3] = {[1] = 2};", "int v[3] = {[0] = 1, [2] = 3};", "int v[2][2] = {{1, 2}, {3, 4}};",
             "int v[2][2] = {1, 2, 3, 4};", "int v[2][2] = {[0][1] = 1, [1] = {2, 3}};", "int v[2][2] = {[1][0] = 5};", "struct P v = {1, 2};", "struct P v = {.x = 1, .y = 2};",
             "struct P v = {.y = 2};", "struct P v = {.x = 1, 2};", "struct P v[2] = {{1, 2}, {.x = 3}};", "struct P v[2] = {[1].x = 3, [0] = {1, 2}};", "struct P v[2] = {[0].y = 1};",
             "struct P *v = &(struct P){1, 2};", "int *v = (int[]){1, 2, 3};", "int *v = (int[2]){1};", "int v = (struct P){1, 2}.x;", "char v[] = \"abc\";", "char v[4] = \"abc\";",
             "char v[] = {'a', 'b', 0};", "char *v = \"a\" \"b\";", "char v[] = {\"abc\"};", "const char *v[] = {\"a\", \"b\", 0};", "int v = 0x1F, w = 017, x = 1u, y = 2L;",
             "double v = 1.5e3, w = .5, x = 1., y = 0x1p3;", "int v, *w, x[2], (*y)(void), z(int);", "int (*v)(int) = 0;", "int (*v[2])(int) = {0, 0};", "void (*v(int))(int);",
             "int (*(*v)(void))[3];", "int v(void), w(int, ...);", "int v(int a, int b);", "int v(int, int);", "int v();", "int v(void);", "int v(T);", "int v(T t);", "int v(T (t));",
             "int v(int (x));", "int v(int (*)(int));", "int v(int (*cb)(int), void *);", "int v(const char *fmt, ...);", "int v(register int a);", "int v(int a[]);", "int v(struct P p);",
             "int v(struct Q { int q; } p);" if False else "int v(S s);", "int v(enum E e);", "inline int v(void);", "static inline int v(void);", "_Noreturn void v(void);",
             "extern inline int v(void);", "_Noreturn static void v(void);", "int v __attribute__((unused));", "int v __asm__(\"x\");" if False else "int v;", "__extension__ int v;" if False else "int v;",
             "_Static_assert(1, \"m\");", "_Static_assert(sizeof(int) >= 2, \"m\");", "typedef int V;", "typedef int V, *PV, AV[2];", "typedef int FV(int);", "typedef int (*PFV)(int);",
             "typedef T V;", "typedef const T V;", "typedef struct P V;", "typedef int V[n];" if False else "typedef int V[3];", "int typedef V;", "const typedef int V;", "typedef int long V;",
             "int v[n];" if False else "int v[3];", "extern int v[];", "int v[sizeof(int)];", "int v[K2 + 1];", "int v['a'];", "int v[(2)];", "int v[1 + 2];", "int v[3][4][5];", "int *v[3];",
             "int (*v)[3];", "int *(*v[2])[3];", "int (*v)[3][4];", "T v, w;", "T *v;", "T v[2];", "T (*v)(T);", "T (v);", "T (*v);", "T (v)[2];", "S v = {1};", "struct P v, *w;"]
    out += inits
    return out


def functions():
    """6.9.1: function definitions with every parameter-list form"""
    params = ["void", "", "int a", "int a, int b", "int a, ...", "T t", "T t, S s", "int a[]", "int a[static 3]", "int n, int a[n]", "int n, int a[n][n]", "int (*cb)(int)", "int cb(int)",
              "const char *s, ...", "struct P p", "enum E e", "register int r", "int *restrict p, int *restrict q", "int a[const]", "int n, int a[*]" if False else "int n, int a[n + 1]",
              "void *p", "T (t)", "int (a)", "int (*a)[3]", "int a[2][3]", "_Bool b", "double _Complex z", "const T * const t"]
    rets = ["int", "void", "T", "S", "struct P", "int *", "const char *", "static int", "inline int", "static inline int", "_Noreturn void", "enum E", "unsigned long", "T *", "int (*"]
    out = []
    for r, p in itertools.product(rets, params):
        if r == "int (*":
            out.append("int (*f(%s))(int) { return 0; }" % p)
        elif "void" in r.split():
            out.append("%s f(%s) { }" % (r, p))
        elif r in ("S", "struct P"):
            out.append("%s f(%s) { %s v = {0}; return v; }" % (r, p, r))
        else:
            out.append("%s f(%s) { return 0; }" % (r, p))
    return out


def corpus():
    """[(family, line)]"""
    return ([("array-parameter", l) for l in array_parameters()] + [("member", l) for l in members()] + [("declaration", l) for l in declarations()]
            + [("function", l) for l in functions()])


_FILE_NAMES = r"(?<![.\w])(f|f2|v|w|x|y|z|M|N|X|A|B|C|V|PV|AV|FV|PFV|U2|PU2|anon|v1|v2|v3|Q1|Q2)\b"


def program(chunk, base):
    """one program of many lines: file-scope names, tags and enumerators get a per-line suffix; returns (text, {line number: index in chunk})"""
    import re
    lines = PRELUDE.rstrip("\n").split("\n")
    where = {}
    for j, (_, l) in enumerate(chunk):
        lines.append(re.sub(_FILE_NAMES, lambda m: "%s_%d" % (m.group(1), base + j), l))
        where[len(lines)] = j
    return "\n".join(lines) + "\n", where
