"""Generator of C declarations from *types* (property C07): a type is drawn at random, printed as a C declaration by a
type-to-declarator printer written from C11 6.7.6 (independent of the front end and of the Lean model), and the
generator records, per declared name, the symbol kind and the type S-expression the binder has to produce, plus the
declarator tree the parser has to build.

Type representation (Python tuples):
  ('base', spec)                      spec: key of BASES
  ('ptr', quals, T)                   quals: tuple of 'const'/'volatile'/'restrict'/'_Atomic' in written order
  ('arr', T)
  ('fn', ret, params, form)           params: list of (T, name-or-None); form: 'list' | 'variadic' | 'void' | 'empty'
"""
import re

PRELUDE = "struct S { int m; }; union U { int m; }; enum E { K0 }; typedef int T; typedef char *PT;\n"
UNQ = {
    "int": "Int_S", "char": "Char", "unsigned": "Int_U", "long": "Long_S", "double": "Double", "short": "Short_S", "_Bool": "Bool",
    "unsigned char": "Char_U", "long long": "LongLong_S", "float": "Float", "unsigned long": "Long_U", "signed char": "Char_S",
    "void": "Void", "struct S": "(Tag_struct_S)", "union U": "(Tag_union_U)", "enum E": "(Tag_enum_E)", "T": "(TD_T)", "PT": "(TD_PT)",
}


def base_sexpr(spec):
    """S-expression of the type a specifier list denotes: an unqualified menu entry plus const/volatile in any position"""
    ws = spec.split()
    qs = "".join(c for c, w in (("c", "const"), ("v", "volatile")) if w in ws)
    u = UNQ.get(" ".join(w for w in ws if w not in ("const", "volatile")))
    if u is None:
        return None
    return "(Q%s_%s)" % (qs, u) if qs else u


BASES = {b: base_sexpr(b) for b in list(UNQ) + ["const int", "volatile char", "const struct S", "const T", "int const", "const volatile double",
                                                "const void", "const char", "char const volatile", "volatile PT", "const union U"]}
OBJ_BASES = [b for b in BASES if "void" not in b]
QUALS = ["const", "volatile", "restrict", "_Atomic"]
QCH = {"const": "c", "volatile": "v", "restrict": "r", "_Atomic": "a"}


class DeclGen:
    def __init__(self, rng, maxdepth=5, parens=0.25):
        self.r, self.maxdepth, self.parens = rng, maxdepth, parens
        self.n = 0
        self.moved_to_file_scope = False
        self.stats = {"ptr": 0, "arr": 0, "fn": 0, "qualified_ptr": 0, "paren_redundant": 0, "abstract": 0, "variadic": 0, "void_list": 0,
                      "empty_list": 0, "param_arr": 0, "param_fn": 0, "maxdepth": 0}

    def fresh(self, p):
        self.n += 1
        return "%s%d" % (p, self.n)

    # ---- random types -------------------------------------------------------------------------------------------
    def base(self, allow_void):
        r = self.r
        b = r.choice(list(BASES) if allow_void else OBJ_BASES)
        return ("base", b)

    def quals(self):
        r = self.r
        if r.random() < 0.55:
            return ()
        k = r.choice([1, 1, 1, 2, 2, 3])
        return tuple(r.sample(QUALS, k))

    def ty(self, d, role):
        """role: 'obj' (complete object type), 'ret' (function return: not array/function), 'pointee' (anything),
        'elem' (array element: complete object, not function), 'param' (like obj, arrays/functions allowed: adjusted)"""
        r = self.r
        self.stats["maxdepth"] = max(self.stats["maxdepth"], d)
        if d >= self.maxdepth or r.random() < 0.22:
            return self.base(role in ("ret", "pointee"))
        k = r.random()
        if k < 0.42:
            self.stats["ptr"] += 1
            sub = self.ty(d + 1, "pointee")
            q = self.quals()
            if sub[0] == "fn" or is_void(sub) and False:
                q = tuple(x for x in q if x != "restrict")      # 6.7.3p2: restrict needs a pointer to an object type
            if q:
                self.stats["qualified_ptr"] += 1
            return ("ptr", q, sub)
        if k < 0.70 and role != "ret":
            self.stats["arr"] += 1
            return ("arr", self.ty(d + 1, "elem"))
        if k < 0.95 and role in ("pointee", "param", "decl_fn"):
            return self.fn(d)
        return self.base(role in ("ret", "pointee"))

    def fn(self, d):
        r = self.r
        self.stats["fn"] += 1
        ret = self.ty(d + 1, "ret")
        k = r.random()
        if k < 0.12:
            self.stats["void_list"] += 1
            return ("fn", ret, [], "void")
        if k < 0.2:
            self.stats["empty_list"] += 1
            return ("fn", ret, [], "empty")
        n = r.choice([1, 1, 2, 2, 3, 4])
        ps = []
        for _ in range(n):
            t = self.ty(d + 2, "param")
            nm = self.fresh("p") if r.random() < 0.6 else None
            if nm is None and t[0] == "base" and t[1].split()[-1] in ("T", "PT") and len(ps) == n - 1:
                # '(T)' / '(…, T) {': a lone identifier closing a parameter list cannot be told from a parameter *name* without a
                # symbol table (6.7.6.3p11 needs one); recorded under C04, not generated here
                nm = self.fresh("p")
            if nm is None:
                self.stats["abstract"] += 1
            if t[0] == "arr":
                self.stats["param_arr"] += 1
            if t[0] == "fn":
                self.stats["param_fn"] += 1
            ps.append((t, nm))
        form = "variadic" if r.random() < 0.2 else "list"
        if form == "variadic":
            self.stats["variadic"] += 1
        return ("fn", ret, ps, form)

    # ---- the printer: type -> (specifier text, declarator text, declarator tree) --------------------------------
    def maybe_paren(self, text, ast):
        if text and self.r.random() < self.parens:
            self.stats["paren_redundant"] += 1
            return "(" + text + ")", ["R"] + ast
        return text, ast

    def declarator(self, T, inner, ast, inner_is_ptr):
        """wraps `inner` (text of the declarator built so far, '' = abstract) with the derivations of T, outermost type
        constructor first (it is the one next to the name); returns (spec, text, ast, nested-parameter-symbols)"""
        nested = []
        while True:
            k = T[0]
            if k == "base":
                return T[1], inner, ast, nested
            if k == "ptr":
                q = " ".join(T[1])
                inner = "*" + (" " + q + " " if q else "") + inner
                ast = ["P:" + ("".join(QCH[x] for x in T[1]) or "-")] + ast
                inner_is_ptr = True
                T = T[2]
                if self.r.random() < self.parens * 0.5:
                    inner, ast = self.maybe_paren(inner, ast)
                    inner_is_ptr = not inner.startswith("(")
                continue
            if inner_is_ptr:
                inner = "(" + inner + ")"
                ast = ["R"] + ast
            elif inner:
                inner, ast = self.maybe_paren(inner, ast)
            if k == "arr":
                inner = inner + "[%d]" % self.r.choice([1, 2, 3, 7])
                ast = ["S"] + ast
                T = T[1]
            else:
                ptxt, past, psyms = self.params(T[2], T[3])
                inner = inner + "(" + ptxt + ")"
                ast = ["F:%d:%d" % (1 if T[3] == "variadic" else 0, 1 if T[3] == "void" else len(T[2]))] + ast + past
                nested += psyms
                T = T[1]
            inner_is_ptr = False

    def params(self, ps, form):
        if form == "void":
            return "void", ["void", "A"], [("Parameter", "<anon>", "Void")]
        if form == "empty":
            return "", [], []
        txt, ast, syms = [], [], []
        for t, nm in ps:
            spec, d, a, nested = self.declarator(t, nm or "", ["I:" + nm] if nm else ["A"], False)
            if nm is None and t[0] == "fn" and t[2] and t[3] != "void" and chain_base(t[2][0][0])[1].split()[0] in ("T", "PT"):
                # 'int (T [3])': in an abstract function declarator the typedef name is taken for a parameter name by a parser without
                # symbol table (6.7.6.3p11 needs one; recorded under C04): name the parameter
                nm = self.fresh("p")
                spec, d, a, nested = self.declarator(t, nm, ["I:" + nm], False)
            txt.append(spec + (" " + d if d else ""))
            ast += [spec.replace(" ", "+")] + a
            syms.append(("Parameter", nm or "<anon>", sexpr(adjust(t))))
            syms += nested
        return ", ".join(txt) + (", ..." if form == "variadic" else ""), ast, syms

    # ---- declarations -------------------------------------------------------------------------------------------
    def unit(self, ctx):
        """one declaration in context ctx: 'file' 'block' 'member' 'typedef' 'fundef' 'proto'.
        returns (text, expected symbols [(kind, name, type)], expected ast record)"""
        r = self.r
        if ctx == "fundef":
            f = self.fn(1)
            if f[3] != "void":
                f = ("fn", f[1], [(t, nm or self.fresh("p")) for t, nm in f[2]], f[3] if f[2] else "void")
            name = self.fresh("f")
            spec, d, a, nested = self.declarator(f, name, ["I:" + name], False)
            if blind_spot(spec, d):
                keep, self.parens = self.parens, 0.0
                spec, d, a, nested = self.declarator(f, name, ["I:" + name], False)
                self.parens = keep
            return ("%s %s { }" % (spec, d), [("Function", name, sexpr(f))] + nested, "Dx %s 1 %s" % (spec.replace(" ", "+"), " ".join(a)))
        n = r.choice([1, 1, 2, 3]) if ctx != "proto" else 1
        b = self.base(ctx == "proto")
        if ctx == "block" and b[1].split()[0] in ("T", "PT"):
            # 'T *x, y;' / 'T *x[3];' in a block: the parser reads an expression statement and the reparser only looks at the plain
            # 'T * x;' shape (recorded under C09); here the declaration starts with a keyword so that it is a declaration syntactically
            b = ("base", "const " + b[1])
        decls, syms, asts = [], [], []
        for _ in range(n):
            role = {"file": "obj", "block": "obj", "member": "obj", "typedef": "pointee", "proto": "decl_fn"}[ctx]
            if ctx in ("file", "block") and r.random() < 0.25:
                role = "decl_fn"
            T = self.ty(1, role) if role != "decl_fn" else self.fn(1)
            T = rebase(T, b)
            if not valid(T, "pointee" if ctx == "typedef" or T[0] == "fn" else "obj"):
                T = ("ptr", (), b)
            name = self.fresh({"typedef": "t", "member": "m"}.get(ctx, "f" if T[0] == "fn" else "v"))
            save = (self.n, dict(self.stats), self.r.getstate())
            spec, d, a, nested = self.declarator(T, name, ["I:" + name], False)
            if not decls and blind_spot(b[1], d):
                # 'T (x[3]);' cannot be told from an implicit-int function declarator without a symbol table (recorded under C04):
                # print this declarator again without redundant parentheses
                keep, self.parens = self.parens, 0.0
                self.n, self.stats = save[0], save[1]
                spec, d, a, nested = self.declarator(T, name, ["I:" + name], False)
                self.parens = keep
            decls.append(d)
            kind = "Typedef" if ctx == "typedef" else "Function" if T[0] == "fn" else "Field" if ctx == "member" else "Variable"
            syms.append((kind, name, sexpr(T)))
            syms += nested
            asts.append(" ".join(a))
        if ctx == "block" and b[1].split()[-1] in ("T", "PT") and decls[0].startswith("("):
            # 'T (*x)[3];' in a block is read as an expression statement (call) by the parser and is not among the ambiguities the
            # reparser looks at (recorded under C09): put a declarator first that does not start with a parenthesis
            j = next((j for j, d in enumerate(decls) if not d.startswith("(")), None)
            if j is None:
                self.moved_to_file_scope = True
            else:
                decls[0], decls[j] = decls[j], decls[0]
                asts[0], asts[j] = asts[j], asts[0]
        text = ("typedef " if ctx == "typedef" else "") + b[1] + " " + ", ".join(decls) + ";"
        rec = "D%s %s %d %s" % ({"typedef": "t", "member": "m"}.get(ctx, "v"), b[1].replace(" ", "+"), n, " ".join(asts))
        return text, syms, rec

    def program(self, nunits=6):
        r = self.r
        parts, syms, recs = [], [], []
        for _ in range(nunits):
            ctx = r.choice(["file", "file", "block", "member", "typedef", "fundef", "proto"])
            t, s, a = self.unit(ctx)
            if ctx == "block" and self.moved_to_file_scope:
                self.moved_to_file_scope = False
            elif ctx == "block":
                f = self.fresh("g")
                t = "void %s(void) { %s }" % (f, t)
                s = [("Function", f, "(Fn_Void_[Void])"), ("Parameter", "<anon>", "Void")] + s
                a = "Dx void 1 F:0:1 I:%s void A ; %s" % (f, a)
            elif ctx == "member":
                tag = self.fresh("R")
                t = "struct %s { %s };" % (tag, t)
            parts.append(t)
            syms += s
            recs.append(a)
        return PRELUDE + "\n".join(parts) + "\n", syms, " ; ".join(recs)


PRELUDE_SYMS = [("Field", "m", "Int_S"), ("Field", "m", "Int_S"), ("Typedef", "T", "Int_S"), ("Typedef", "PT", "(Ptr_Char)")]
PRELUDE_AST = "Dm int 1 I:m ; Dm int 1 I:m ; Dt int 1 I:T ; Dt char 1 P:- I:PT"


def chain_base(T):
    while T[0] != "base":
        T = T[2] if T[0] == "ptr" else T[1]
    return T


def blind_spot(base, d):
    import re
    return base.split()[-1] in ("T", "PT") and d.startswith("(") and not re.match(r"\((\w+\)|[*(])", d)


def rebase(T, b):
    """the type T with its innermost base (along the declarator chain) replaced by b"""
    k = T[0]
    if k == "base":
        return b
    if k == "ptr":
        return ("ptr", T[1], rebase(T[2], b))
    if k == "arr":
        return ("arr", rebase(T[1], b))
    return ("fn", rebase(T[1], b), T[2], T[3])


def is_void(T):
    return T[0] == "base" and "void" in T[1]


def valid(T, role):
    """C constraints on derivations (6.7.6.2p1, 6.7.6.3p1, 6.7p7): no array of void/function, no function returning
    array/function, objects are complete"""
    k = T[0]
    if k == "base":
        return role == "pointee" or role == "ret" or not is_void(T)
    if k == "ptr":
        if "restrict" in T[1] and T[2][0] == "fn":
            return False
        return valid(T[2], "pointee")
    if k == "arr":
        return T[1][0] != "fn" and not is_void(T[1]) and valid(T[1], "obj")
    if role not in ("pointee", "param", "fn"):
        return False
    return T[1][0] not in ("arr", "fn") and valid(T[1], "ret") and all(valid(p, "param") and not is_void(p) for p, _ in T[2])


def adjust(T):
    if T[0] == "arr":
        return ("ptr/arr", (), T[1])
    if T[0] == "fn":
        return ("ptr/fn", (), T)
    return T


def sexpr(T):
    k = T[0]
    if k == "base":
        return base_sexpr(T[1])
    if k in ("ptr", "ptr/arr", "ptr/fn"):
        s = "(%s_%s)" % ("P" + k[1:], sexpr(T[2]))
        if T[1]:
            qs = "".join(c for c in "cvra" if c in [QCH[q] for q in T[1]])
            s = "(Q%s_%s)" % (qs, s)
        return s
    if k == "arr":
        return "(Arr_%s)" % sexpr(T[1])
    if T[3] == "void":
        ps = ["Void"]
    else:
        ps = [sexpr(adjust(p)) for p, _ in T[2]]
    return "(Fn_%s_[%s]%s)" % (sexpr(T[1]), "_".join(ps), "_..." if T[3] == "variadic" else "")
