// C02: compute the semantic model of a text and walk EVERYTHING reachable through the semantic-model API:
// every declaration, its name, kind, containing symbol, enclosing scope chain and that scope's declarations, its type with
// every component type, what typedef-name / tag types refer to (their declarations, the tag's members and their types),
// the scope recorded for every identifier use and the declaration found from it, the TypeInfo of every expression;
// then print all of it with the library's own printers and destroy the compilation.  Built with ASan+UBSan (flavour
// `asan`) every dangling pointer is a report; built plain, null dereferences that only exist under NDEBUG are crashes.
// line: "<options> <phase 1..4> <hex text>" -> "ok decls=<n> types=<n> uses=<n> exprs=<n> printed=<bytes> diags=<n>"
#include "sema_common.h"
#include "C/syntax/SyntaxNodes.h"
#include "C/syntax/SyntaxVisitor.h"
#include "C/sema/TypeInfo.h"
#include <set>
#include <sstream>

namespace {

struct Walker {
    const SemanticModel* model;
    std::set<const Type*> seenTy;
    std::set<const DeclarationSymbol*> seenDecl;
    std::ostringstream sink;
    unsigned ntypes = 0;

    void scopeChain(const Scope* s)
    {
        for (int guard = 0; s && guard < 200; ++guard, s = s->outerScope()) {
            sink << int(s->kind());
            for (auto d : s->declarations()) if (d) sink << int(d->kind());
        }
    }
    void decl(const DeclarationSymbol* d)
    {
        if (!d || !seenDecl.insert(d).second) return;
        sink << symKindName(d->kind()) << declName(d) << int(d->nameSpace());
        if (auto c = d->containingSymbol()) sink << int(c->kind());
        scopeChain(d->enclosingScope());
        if (auto id = d->denotingIdentifier()) sink << identText(id);
        type(declType(d));
        if (d->kind() == SymbolKind::StructDeclaration || d->kind() == SymbolKind::UnionDeclaration || d->kind() == SymbolKind::EnumDeclaration) {
            auto t = static_cast<const TagDeclarationSymbol*>(d);
            for (auto m : t->members()) decl(m);
            type(t->introducedNewType());
        }
        if (d->kind() == SymbolKind::TypedefDeclaration) {
            auto t = static_cast<const TypedefDeclarationSymbol*>(d);
            type(t->synonymizedType());
            type(t->introducedSynonymType());
        }
        sink << d;                      // the library's own printer
    }
    void type(const Type* t, int depth = 0)
    {
        if (!t || depth > 60) return;
        bool first = seenTy.insert(t).second;
        if (first) ++ntypes;
        sink << int(t->kind());
        if (!first) return;
        switch (t->kind()) {
            case TypeKind::Basic: sink << int(t->asBasicType()->kind()); break;
            case TypeKind::Void: case TypeKind::Error: break;
            case TypeKind::Pointer: type(t->asPointerType()->referencedType(), depth + 1); break;
            case TypeKind::Array: type(t->asArrayType()->elementType(), depth + 1); break;
            case TypeKind::Function: {
                auto f = t->asFunctionType();
                type(f->returnType(), depth + 1);
                for (auto p : f->parameterTypes()) type(p, depth + 1);
                sink << f->isVariadic() << int(f->parameterListForm());
                break;
            }
            case TypeKind::Qualified: type(t->asQualifiedType()->unqualifiedType(), depth + 1); sink << t->asQualifiedType()->qualifiers().hasConst(); break;
            case TypeKind::Tag: {
                auto g = t->asTagType();
                if (g->tag()) sink << identText(g->tag());
                decl(g->declaration());
                break;
            }
            case TypeKind::TypedefName: {
                auto d = t->asTypedefNameType();
                if (d->typedefName()) sink << identText(d->typedefName());
                decl(d->declaration());
                type(d->resolvedSynonymizedType(), depth + 1);
                break;
            }
        }
        sink << t;                      // the library's own printer (recursive)
    }
};

struct UseAndExprs : SyntaxVisitor {
    Walker* w;
    unsigned uses = 0, exprs = 0;
    UseAndExprs(const SyntaxTree* t, Walker* wk) : SyntaxVisitor(t), w(wk) {}
    void info(const ExpressionSyntax* e) { ++exprs; auto ti = w->model->typeInfoOf(e); w->type(ti.type()); w->sink << int(ti.origin()); }
    Action visitIdentifierName(const IdentifierNameSyntax* n) override
    {
        ++uses;
        if (auto s = w->model->scopeOf(n)) {
            w->scopeChain(s);
            if (auto l = n->identifierToken().lexeme())
                w->decl(s->searchForDeclaration(l->asIdentifier(), NameSpace::OrdinaryIdentifiers));
        }
        info(n);
        return Action::Visit;
    }
    Action visitBinaryExpression(const BinaryExpressionSyntax* n) override { info(n); return Action::Visit; }
    Action visitAssignmentExpression(const AssignmentExpressionSyntax* n) override { info(n); return Action::Visit; }
    Action visitConstantExpression(const ConstantExpressionSyntax* n) override { info(n); return Action::Visit; }
    Action visitStringLiteralExpression(const StringLiteralExpressionSyntax* n) override { info(n); return Action::Visit; }
    Action visitCallExpression(const CallExpressionSyntax* n) override { info(n); return Action::Visit; }
    Action visitCastExpression(const CastExpressionSyntax* n) override { info(n); return Action::Visit; }
    Action visitPrefixUnaryExpression(const PrefixUnaryExpressionSyntax* n) override { info(n); return Action::Visit; }
    Action visitPostfixUnaryExpression(const PostfixUnaryExpressionSyntax* n) override { info(n); return Action::Visit; }
    Action visitMemberAccessExpression(const MemberAccessExpressionSyntax* n) override { info(n); return Action::Visit; }
    Action visitArraySubscriptExpression(const ArraySubscriptExpressionSyntax* n) override { info(n); return Action::Visit; }
    Action visitConditionalExpression(const ConditionalExpressionSyntax* n) override { info(n); return Action::Visit; }
    Action visitParenthesizedExpression(const ParenthesizedExpressionSyntax* n) override { info(n); return Action::Visit; }
    Action visitTypeName(const TypeNameSyntax* n) override { ++exprs; auto ti = w->model->typeInfoOf(n); w->type(ti.type()); return Action::Visit; }
};

}  // namespace

static int semawalkMain(const std::vector<std::string>&, std::istream& in, std::ostream& out)
{
    std::string line;
    while (std::getline(in, line)) {
        auto w = splitWords(line);
        if (w.size() != 3) { out << "bad-case\n"; continue; }
        ParseOptions opts = decodeOptions(w[0]);
        std::string text = unhex(w[2]);
        size_t printed = 0, ndecl = 0, ntypes = 0, uses = 0, exprs = 0, ndiag = 0;
        {
            Analysis a;
            try { a = analyse(text, opts, w[1][0] - '0', SyntaxTree::SyntaxCategory::Any, TextCompleteness::Fragment); }
            catch (const std::exception& ex) { out << "exception:" << ex.what() << "\n"; continue; }
            if (a.tree->hasTranslationUnitAsRootNode() && a.model) {
                Walker wk;
                wk.model = a.model;
                for (auto d : allDeclarations(a.model)) { wk.decl(d); ++ndecl; }
                if (auto tu = a.model->translationUnit()) wk.sink << int(tu->kind());
                UseAndExprs ue(a.tree, &wk);
                ue.visit(a.tree->rootNode());
                uses = ue.uses; exprs = ue.exprs; ntypes = wk.ntypes;
                for (auto& d : a.tree->diagnostics()) { wk.sink << d.descriptor().id() << d.location().lineSpan().span().start().line(); ++ndiag; }
                printed = wk.sink.str().size();
            }
        }   // compilation, models, types, symbols and the tree are destroyed here
        out << "ok decls=" << ndecl << " types=" << ntypes << " uses=" << uses << " exprs=" << exprs << " printed=" << printed << " diags=" << ndiag << "\n";
    }
    return 0;
}
PSYH_COMPONENT("semawalk", semawalkMain);
