// Helpers shared by the components that go through the C front end.
#pragma once
#include "psyh.h"
#include "C/syntax/SyntaxTree.h"
#include "C/syntax/SyntaxToken.h"
#include "C/syntax/SyntaxNode.h"
#include "C/syntax/Lexeme_ALL.h"
#include "C/parser/ParseOptions.h"
#include "C/parser/LanguageDialect.h"
#include "C/parser/LanguageExtensions.h"
#include "C/parser/MacroTranslations.h"
#include "kindnames.inc"

using namespace psy;
using namespace psy::C;

// Order = PsycheModel.KeywordTrie.Flag.all
#define PSYH_EXT_FLAGS(X) \
    X(extC_KandRStyle) X(extC_wchar_t_Keyword) X(extC_char8_t_Keyword) X(extC_char16_t_Keyword) X(extC_char32_t_Keyword) \
    X(extGNU_AlternateKeywords) X(extGNU_Asm) X(extGNU_AttributeSpecifiers) X(extGNU_AttributeSpecifiersLLVM) \
    X(extGNU_Alignment) X(extGNU_CompoundLiterals) X(extGNU_Conditionals) X(extGNU_DesignatedInitializers) \
    X(extGNU_FunctionNames) X(extGNU_Complex) X(extGNU_StatementExpressions) X(extGNU_InternalBuiltins) \
    X(extGNU_LabelsAsValues) X(extPSY_Generics) X(CPP_nullptr) X(nativeBooleans) X(NULLAsBuiltin)
#define PSYH_TR_FLAGS(X) \
    X(Translate_static_assert_AsKeyword) X(Translate_complex_AsKeyword) X(Translate_operatorNames) \
    X(Translate_alignas_AsKeyword) X(Translate_alignof_AsKeyword) X(Translate_va_arg_AsKeyword) \
    X(Translate_offsetof_AsKeyword) X(Translate_bool_AsKeyword) X(Translate_thread_local_AsKeyword)

// spec: "<std 0-3>,<keywordRecognition 0/1>,<commentMode 0-2>,<disambigMode 0-3>,<31 flag chars 0/1/d>"  ('d' = leave the default)
inline ParseOptions decodeOptions(const std::string& spec)
{
    std::vector<std::string> f; { std::string cur; for (char c : spec) { if (c == ',') { f.push_back(cur); cur.clear(); } else cur.push_back(c); } f.push_back(cur); }
    while (f.size() < 5) f.push_back("");
    MacroTranslations tr;
    const std::string& bits = f[4];
    size_t i = 22;
#define X(F) if (i < bits.size() && bits[i] != 'd') tr.enable_##F(bits[i] == '1'); ++i;
    PSYH_TR_FLAGS(X)
#undef X
    LanguageExtensions ext(tr);
    i = 0;
#define X(F) if (i < bits.size() && bits[i] != 'd') ext.enable_##F(bits[i] == '1'); ++i;
    PSYH_EXT_FLAGS(X)
#undef X
    LanguageDialect::Std std = LanguageDialect::Std::C11;
    if (!f[0].empty()) std = static_cast<LanguageDialect::Std>(f[0][0] - '0');
    // the route by which the options object gets its dialect and extensions (second character of the first field):
    //   none / 'c': the constructor;  'w': default-constructed, then withLanguageDialect + withLanguageExtensions;
    //   'x': constructed with ANOTHER standard and default extensions, then both with-ers (what is observed must be what was selected last)
    char route = f[0].size() > 1 ? f[0][1] : 'c';
    ParseOptions o{LanguageDialect(std), ext};
    if (route == 'w') {
        ParseOptions w;
        w.withLanguageDialect(LanguageDialect(std)).withLanguageExtensions(ext);
        o = w;
    }
    else if (route == 'x') {
        auto other = static_cast<LanguageDialect::Std>((static_cast<int>(std) + 2) % 4);
        ParseOptions w{LanguageDialect(other)};
        w.withLanguageDialect(LanguageDialect(std)).withLanguageExtensions(ext);
        o = w;
    }
    if (!f[1].empty()) o.enable_keywordRecognition(f[1][0] == '1');
    if (!f[2].empty()) o.setCommentMode(static_cast<ParseOptions::CommentMode>(f[2][0] - '0'));
    if (!f[3].empty()) o.setDisambiguationMode(static_cast<ParseOptions::DisambiguationMode>(f[3][0] - '0'));
    return o;
}

#include "common/diagnostics/Diagnostic.h"
inline std::string diagIdsOf(const SyntaxTree* tree)
{
    std::string s;
    for (auto& d : tree->diagnostics()) { if (!s.empty()) s += ","; s += d.descriptor().id(); }
    return s.empty() ? "-" : s;
}

inline std::string kindStr(SyntaxKind k) { return kindName(static_cast<unsigned>(k)); }
