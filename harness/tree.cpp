// C14 (also used by C03/C09): structural dump of the real syntax tree.
// line: "<options> <category a|d|e|s> <hex text>"
// answer: "<ntokens> ; N<id> <Kind> f<first> l<last> v<visits> : <holders> ; ..."   (pre-order of the holder walk)
//   holders: t<idx> (0 = none) | n<id> | n- | L(<id>,<delim> <id>,<delim> ...)  (delim 0 = none)
#include "psy_common.h"
#include "C/syntax/SyntaxNodes.h"
#include "C/syntax/SyntaxNodeList.h"
#include "C/syntax/SyntaxVisitor.h"
#include "C/syntax/SyntaxHolder.h"
#include <map>
#include <unordered_map>

namespace {

struct Collector : SyntaxVisitor {           // elements of a list: do not descend
    using SyntaxVisitor::SyntaxVisitor;
    std::vector<const SyntaxNode*> elems;
    bool preVisit(const SyntaxNode* n) override { elems.push_back(n); return false; }
};

struct Counter : SyntaxVisitor {             // full traversal: visits per node
    using SyntaxVisitor::SyntaxVisitor;
    std::unordered_map<const SyntaxNode*, unsigned> count;
    bool preVisit(const SyntaxNode* n) override { ++count[n]; return true; }
};

template <class T> bool delimsOf(const SyntaxNodeList* l, std::vector<unsigned>& out)
{
    auto sl = dynamic_cast<const SyntaxNodeSeparatedList<T>*>(l);
    if (!sl) return false;
    for (auto it = sl; it; it = it->next) if (it->value) out.push_back(it->delimTkIdx_);
    return true;
}

std::vector<unsigned> delimiters(const SyntaxNodeList* l, size_t n)
{
    std::vector<unsigned> d;
    if (delimsOf<EnumeratorDeclarationSyntax*>(l, d) || delimsOf<ParameterDeclarationSyntax*>(l, d) || delimsOf<ExtGNU_AttributeSyntax*>(l, d)
        || delimsOf<DeclaratorSyntax*>(l, d) || delimsOf<InitializerSyntax*>(l, d) || delimsOf<ExpressionSyntax*>(l, d)
        || delimsOf<GenericAssociationSyntax*>(l, d) || delimsOf<ExtGNU_AsmOperandSyntax*>(l, d)) {}
    d.resize(n, 0);
    return d;
}

// ---- the kind-specific down-casts (C14): the class a node dispatches to (its visitX), against every asY() of SyntaxNode
struct ClassNamer : SyntaxVisitor {
    using SyntaxVisitor::SyntaxVisitor;
    const char* name = nullptr;
#define NODE_CLASS(N, B, A)
#define NODE_CAST(N)
#define NODE_VISIT(N) Action visit##N(const N##Syntax*) override { name = #N; return Action::Skip; }
#include "node_classes.inc"
#undef NODE_CLASS
#undef NODE_CAST
#undef NODE_VISIT
};

struct ClassInfo { const char* name; const char* base; int arity; };
const ClassInfo kClasses[] = {
#define NODE_CLASS(N, B, A) { #N, #B, A },
#define NODE_CAST(N)
#define NODE_VISIT(N)
#include "node_classes.inc"
#undef NODE_CLASS
#undef NODE_CAST
#undef NODE_VISIT
};

// ancestors (reflexive) of every class, computed once
const std::unordered_map<std::string, std::vector<std::string>>& ancestorTable()
{
    static std::unordered_map<std::string, std::vector<std::string>> t;
    if (t.empty()) {
        for (auto& ci : kClasses) {
            std::vector<std::string> a;
            std::string c = ci.name;
            for (int guard = 0; guard < 64 && c != "SyntaxNode"; ++guard) {
                a.push_back(c);
                bool found = false;
                for (auto& cj : kClasses) if (c == cj.name) { c = cj.base; found = true; break; }
                if (!found) break;
            }
            t.emplace(ci.name, std::move(a));
        }
    }
    return t;
}

bool derivesFrom(const std::string& cls, const char* anc)
{
    auto it = ancestorTable().find(cls);
    if (it == ancestorTable().end()) return false;
    for (auto& a : it->second) if (a == anc) return true;
    return false;
}

// returns "" when every down-cast of `n` agrees with the class it dispatches to (and a one-kind class carries its own kind)
std::string downcastProblem(const SyntaxTree* tree, const SyntaxNode* n)
{
    ClassNamer cn(tree);
    n->dispatchVisit(&cn);
    if (!cn.name) return std::string("no-visit:") + kindStr(n->kind());
    std::string cls = cn.name;
    for (auto& ci : kClasses)
        if (cls == ci.name && ci.arity == 1 && cls != kindStr(n->kind()))
            return "kind:" + cls + "/" + kindStr(n->kind());
#define NODE_CLASS(N, B, A)
#define NODE_VISIT(N)
#define NODE_CAST(N) { const N##Syntax* p = n->as##N(); bool want = derivesFrom(cls, #N); \
        if ((p != nullptr) != want) return std::string("as") + #N + (want ? "=null:" : "!=null:") + cls; \
        if (p && static_cast<const SyntaxNode*>(p) != n) return std::string("as") + #N + "-other-object:" + cls; }
#include "node_classes.inc"
#undef NODE_CLASS
#undef NODE_CAST
#undef NODE_VISIT
    return "";
}

// ---- the reported kind against the token that introduces the construct (C14: "agrees with its reported kind"; specification table,
// 6.8.1-6.8.6, 6.5.3.4): the FIRST token a node of this kind owns itself (none when error recovery left it without)
struct Introducer { SyntaxKind node; SyntaxKind tok; };
const Introducer kIntroducers[] = {
    { SyntaxKind::IfStatement, SyntaxKind::Keyword_if }, { SyntaxKind::SwitchStatement, SyntaxKind::Keyword_switch },
    { SyntaxKind::WhileStatement, SyntaxKind::Keyword_while }, { SyntaxKind::DoStatement, SyntaxKind::Keyword_do },
    { SyntaxKind::ForStatement, SyntaxKind::Keyword_for }, { SyntaxKind::GotoStatement, SyntaxKind::Keyword_goto },
    { SyntaxKind::ContinueStatement, SyntaxKind::Keyword_continue }, { SyntaxKind::BreakStatement, SyntaxKind::Keyword_break },
    { SyntaxKind::ReturnStatement, SyntaxKind::Keyword_return }, { SyntaxKind::CompoundStatement, SyntaxKind::OpenBraceToken },
    { SyntaxKind::CaseLabelStatement, SyntaxKind::Keyword_case }, { SyntaxKind::DefaultLabelStatement, SyntaxKind::Keyword_default },
    { SyntaxKind::IdentifierLabelStatement, SyntaxKind::IdentifierToken }, { SyntaxKind::ExtGNU_AsmStatement, SyntaxKind::Keyword_ExtGNU___asm__ },
    { SyntaxKind::SizeofExpression, SyntaxKind::Keyword_sizeof }, { SyntaxKind::AlignofExpression, SyntaxKind::Keyword__Alignof },
    { SyntaxKind::GenericSelectionExpression, SyntaxKind::Keyword__Generic }, { SyntaxKind::StaticAssertDeclaration, SyntaxKind::Keyword__Static_assert },
    { SyntaxKind::StructTypeSpecifier, SyntaxKind::Keyword_struct }, { SyntaxKind::UnionTypeSpecifier, SyntaxKind::Keyword_union },
    { SyntaxKind::EnumTypeSpecifier, SyntaxKind::Keyword_enum }, { SyntaxKind::ConstQualifier, SyntaxKind::Keyword_const },
    { SyntaxKind::VolatileQualifier, SyntaxKind::Keyword_volatile }, { SyntaxKind::RestrictQualifier, SyntaxKind::Keyword_restrict },
    { SyntaxKind::VoidTypeSpecifier, SyntaxKind::Keyword_void }, { SyntaxKind::TypedefStorageClass, SyntaxKind::Keyword_typedef },
    { SyntaxKind::ExternStorageClass, SyntaxKind::Keyword_extern }, { SyntaxKind::StaticStorageClass, SyntaxKind::Keyword_static },
    { SyntaxKind::RegisterStorageClass, SyntaxKind::Keyword_register }, { SyntaxKind::AutoStorageClass, SyntaxKind::Keyword_auto },
};

std::string introducerProblem(const SyntaxTree* tree, const SyntaxNode* n)
{
    for (auto& in : kIntroducers) {
        if (in.node != n->kind()) continue;
        for (auto& h : n->childNodesAndTokens()) {
            if (h.variant() != SyntaxHolder::Variant::Token || h.tokenIndex() == LexedTokens::invalidIndex()) continue;
            auto tk = tree->tokenAt(h.tokenIndex());
            if (tk.kind() == SyntaxKind::Keyword_ExtGNU___extension__) continue;      // the GNU flag a declaration / expression may carry in front
            // alternative spellings of one keyword lex to the same kind; digraphs likewise
            if (tk.kind() != in.tok) return std::string(kindStr(n->kind())) + "/" + kindStr(tk.kind());
            return "";
        }
        return "";
    }
    return "";
}

struct Dumper {
    const SyntaxTree* tree;
    std::map<unsigned, unsigned> idxByByteOffset;
    std::unordered_map<const SyntaxNode*, unsigned> id;
    std::unordered_map<const SyntaxNode*, unsigned>* visits;
    std::string out;
    unsigned occurrences = 0;

    std::string tokIdx(const SyntaxToken& tk)
    {
        if (tk == SyntaxToken::invalid()) return "-";
        if (tk.kind() == SyntaxKind::EndOfFile) return std::to_string(tree->tokenCount() - 1);
        auto it = idxByByteOffset.find(tk.byteOffset_);
        return it == idxByByteOffset.end() ? std::string("?") : std::to_string(it->second);
    }

    std::unordered_map<const SyntaxNode*, bool> emitted;

    void nodeWithId(const SyntaxNode* n)
    {
        ++occurrences;
        unsigned my = id[n];
        std::string rec = " ; N" + std::to_string(my) + " " + kindStr(n->kind()) + " f" + tokIdx(n->firstToken()) + " l" + tokIdx(n->lastToken())
                          + " v" + std::to_string(visits->count(n) ? (*visits)[n] : 0) + " :";
        out += rec;
        std::vector<const SyntaxNode*> todo;
        std::vector<std::string> hs;
        for (auto& h : n->childNodesAndTokens()) {
            switch (h.variant()) {
                case SyntaxHolder::Variant::Token: hs.push_back("t" + std::to_string(h.tokenIndex() == LexedTokens::invalidIndex() ? 0 : h.tokenIndex())); break;
                case SyntaxHolder::Variant::Node:
                    if (!h.node()) hs.push_back("n-");
                    else { todo.push_back(h.node()); hs.push_back("n@" + std::to_string(todo.size() - 1)); }
                    break;
                case SyntaxHolder::Variant::NodeList: {
                    if (!h.nodeList()) { hs.push_back("L()"); break; }
                    Collector c(tree);
                    const_cast<SyntaxNodeList*>(h.nodeList())->acceptVisitor(&c);
                    auto ds = delimiters(h.nodeList(), c.elems.size());
                    std::string s = "L(";
                    for (size_t i = 0; i < c.elems.size(); ++i) {
                        todo.push_back(c.elems[i]);
                        if (i) s += ' ';
                        s += "@" + std::to_string(todo.size() - 1) + "," + std::to_string(ds[i]);
                    }
                    hs.push_back(s + ")");
                    break;
                }
            }
        }
        std::vector<unsigned> childId(todo.size());
        for (size_t i = 0; i < todo.size(); ++i) {
            if (!id.count(todo[i])) { unsigned nid = id.size(); id[todo[i]] = nid; }
            childId[i] = id[todo[i]];
        }
        for (auto& h : hs) {
            std::string r;
            for (size_t p = 0; p < h.size(); ++p) {
                if (h[p] == '@') { size_t q = p + 1; while (q < h.size() && isdigit(h[q])) ++q; r += std::to_string(childId[std::stoul(h.substr(p + 1, q - p - 1))]); p = q - 1; }
                else r += h[p];
            }
            out += " " + r;
        }
        for (auto c : todo) {
            if (emitted[c]) { out += " ; R" + std::to_string(id[c]); ++occurrences; continue; }
            emitted[c] = true;
            nodeWithId(c);
        }
    }
};

} // namespace

static int treeMain(const std::vector<std::string>&, std::istream& in, std::ostream& out)
{
    std::string line;
    while (std::getline(in, line)) {
        auto w = splitWords(line);
        if (w.size() != 3) { out << "bad-case\n"; continue; }
        ParseOptions opts = decodeOptions(w[0]);
        SyntaxTree::SyntaxCategory cat = (w[1] == "d" || w[1] == "D") ? SyntaxTree::SyntaxCategory::Declarations : (w[1] == "e" || w[1] == "E") ? SyntaxTree::SyntaxCategory::Expressions
                                       : (w[1] == "s" || w[1] == "S") ? SyntaxTree::SyntaxCategory::Statements : SyntaxTree::SyntaxCategory::Any;
        std::unique_ptr<SyntaxTree> tree;
        try {
            tree = SyntaxTree::parseText(SourceText(unhex(w[2])), TextPreprocessingState::Preprocessed, TextCompleteness::Fragment, opts, "t.c", cat);
        } catch (const std::exception& ex) { out << "exception " << ex.what() << "\n"; continue; }
        catch (...) { out << "exception ?\n"; continue; }
        if (!tree->rootNode()) { out << tree->tokenCount() << " ; no-root | " << diagIdsOf(tree.get()) << "\n"; continue; }
        // category letter in upper case: the tree is built and NOT walked (inputs nested so deep that a recursive walk of the tree - this
        // harness's, not the front end's - would exhaust the stack: the subject is SyntaxTree::parseText alone)
        if (w[1] == "A" || w[1] == "D" || w[1] == "E" || w[1] == "S") { out << tree->tokenCount() << " ; built " << kindStr(tree->rootNode()->kind()) << " | unwalked | " << diagIdsOf(tree.get()) << "\n"; continue; }
        Counter counter(tree.get());
        counter.visit(tree->rootNode());
        Dumper d;
        d.tree = tree.get();
        d.visits = &counter.count;
        for (unsigned i = 1; i < tree->tokenCount(); ++i) d.idxByByteOffset.emplace(tree->tokenAt(i).byteOffset_, i);
        d.id[tree->rootNode()] = 0;
        d.emitted[tree->rootNode()] = true;
        d.nodeWithId(tree->rootNode());
        size_t foreign = 0;
        for (auto& kv : counter.count) if (!d.id.count(kv.first)) ++foreign;
        size_t dcBad = 0;
        std::string dcFirst;
        std::map<std::string, std::string> kindClass;      // kind -> class it dispatches to (distinct pairs of this tree)
        for (auto& kv : d.id) {
            std::string pr = downcastProblem(tree.get(), kv.first);
            if (!pr.empty()) { if (!dcBad) dcFirst = pr; ++dcBad; }
            if (dcBad == 0) {
                std::string ip = introducerProblem(tree.get(), kv.first);
                if (!ip.empty()) { dcFirst = "introducer:" + ip; ++dcBad; }
            }
            ClassNamer cn(tree.get());
            kv.first->dispatchVisit(&cn);
            std::string k = kindStr(kv.first->kind());
            auto it = kindClass.find(k);
            std::string c = cn.name ? cn.name : "?";
            if (it == kindClass.end()) kindClass.emplace(k, c);
            else if (it->second != c) it->second += "+" + c;
        }
        std::string kc;
        for (auto& e : kindClass) kc += (kc.empty() ? "" : ",") + e.first + ":" + e.second;
        out << tree->tokenCount() << d.out << " | foreign=" << foreign << " dc=" << dcBad << (dcBad ? ":" + dcFirst : std::string()) << " kc=" << (kc.empty() ? "-" : kc) << " | " << diagIdsOf(tree.get()) << "\n";
    }
    return 0;
}
PSYH_COMPONENT("tree", treeMain);
