// C19 (and others): the front end's verdict on a text under given options, computed as cnip's Driver does:
//   syntax error  = an Error-severity diagnostic after parsing
//   semantic error = an Error-severity diagnostic after computeSemanticModel
// line: "<options> <hex text>" -> "<syn 0/1> <sem 0/1> <root-is-TU 0/1>"
#include "sema_common.h"

static bool anyError(const SyntaxTree* t)
{
    for (auto& d : t->diagnostics()) if (d.severity() == DiagnosticSeverity::Error) return true;
    return false;
}

static int verdictMain(const std::vector<std::string>&, std::istream& in, std::ostream& out)
{
    std::string line;
    while (std::getline(in, line)) {
        auto w = splitWords(line);
        if (w.size() == 1) w.push_back("");                     // the empty text
        if (w.size() != 2) { out << "bad-case\n"; continue; }
        // as Driver::runCFrontEnd builds them: ParseOptions{LanguageDialect(std)} + disambiguation + comment mode
        auto full = decodeOptions(w[0]);
        ParseOptions opts{ LanguageDialect(full.languageDialect().std()) };
        opts.setDisambiguationMode(full.disambiguationMode());
        opts.setCommentMode(full.commentMode());
        auto tree = SyntaxTree::parseText(SourceText(unhex(w[1])), TextPreprocessingState::Preprocessed, TextCompleteness::Fragment, opts, "f.c");
        bool tu = tree->translationUnit() != nullptr;
        bool syn = anyError(tree.get());
        bool sem = false;
        if (!syn && tu) {
            auto comp = Compilation::create("v");
            auto raw = tree.get();
            comp->addSyntaxTree(std::move(tree));
            comp->computeSemanticModel(raw);
            sem = anyError(raw);
        }
        out << syn << ' ' << sem << ' ' << tu << "\n";
    }
    return 0;
}
PSYH_COMPONENT("verdict", verdictMain);
