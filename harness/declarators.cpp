// C07 (also C12/C10 helpers): declarator ASTs of the real parser + symbols bound by the real binder.
// line: "<phase 1..4> <hex text>"          phase: 1 = bindDeclarations only … 4 = all phases (see sema_common.h)
// answer: "ast= D<ctx> <spec> <n> <declarator>... ; D… | syms= <Kind>:<name>:<type>;… | diags=<ids>"
//   ctx: v (variable/function declaration) t (typedef) m (member) x (function definition)
//   declarator (prefix): I:<name> | A | P:<quals or -> <d> | R <d> | S <d> | F:<0/1 ellipsis>:<k> <d> (<spec> <d>){k} | B <d> | B0
#include "sema_common.h"
#include "C/syntax/SyntaxNodes.h"
#include "C/syntax/SyntaxVisitor.h"

namespace {

struct DeclDumper : SyntaxVisitor {
    const std::string& text;
    std::string out;
    bool bad = false;
    DeclDumper(const SyntaxTree* t, const std::string& src) : SyntaxVisitor(t), text(src) {}

    std::string cut(const SyntaxToken& a, const SyntaxToken& b)
    {
        if (a == SyntaxToken::invalid() || b == SyntaxToken::invalid()) return "?";
        size_t from = a.byteOffset_, to = b.byteOffset_ + b.byteSize_;
        if (from > to || to > text.size()) return "?";
        std::string s;
        bool gap = false;
        for (size_t i = from; i < to; ++i) {
            char c = text[i];
            if (c == ' ' || c == '\n' || c == '\t') { gap = true; continue; }
            if (gap && !s.empty()) s += '+';
            gap = false;
            s += c;
        }
        return s;
    }

    std::string specText(const SpecifierListSyntax* specs)
    {
        std::string s;
        for (auto it = specs; it; it = it->next) {
            auto sp = it->value;
            if (!sp) continue;
            std::string piece;
            switch (sp->kind()) {
                case SyntaxKind::TypedefStorageClass: case SyntaxKind::ExternStorageClass: case SyntaxKind::StaticStorageClass:
                case SyntaxKind::AutoStorageClass: case SyntaxKind::RegisterStorageClass: case SyntaxKind::ThreadLocalStorageClass:
                case SyntaxKind::InlineSpecifier: case SyntaxKind::NoReturnSpecifier:
                case SyntaxKind::ExtGNU_AttributeSpecifier: case SyntaxKind::AlignmentSpecifier:
                    continue;
                case SyntaxKind::TagDeclarationAsSpecifier: {
                    auto td = static_cast<const TagDeclarationAsSpecifierSyntax*>(sp)->tagDeclaration();
                    auto ts = td ? td->typeSpecifier() : nullptr;
                    piece = ts ? cut(ts->keyword(), ts->tagToken() == SyntaxToken::invalid() ? ts->keyword() : ts->tagToken()) : "?";
                    break;
                }
                default:
                    piece = cut(sp->firstToken(), sp->lastToken());
            }
            if (!s.empty()) s += '+';
            s += piece;
        }
        return s.empty() ? "<none>" : s;
    }

    void decl(const DeclaratorSyntax* d)
    {
        if (!d) { out += " ?null"; bad = true; return; }
        switch (d->kind()) {
            case SyntaxKind::IdentifierDeclarator:
                out += " I:" + d->asIdentifierDeclarator()->identifierToken().valueText();
                return;
            case SyntaxKind::AbstractDeclarator:
                out += " A";
                return;
            case SyntaxKind::ParenthesizedDeclarator:
                out += " R";
                decl(d->asParenthesizedDeclarator()->innerDeclarator());
                return;
            case SyntaxKind::PointerDeclarator: {
                auto p = d->asPointerDeclarator();
                std::string q;
                for (auto it = p->qualifiersAndAttributes(); it; it = it->next) {
                    if (!it->value || !it->value->asTypeQualifier()) continue;
                    switch (it->value->asTypeQualifier()->qualifierKeyword().kind()) {
                        case SyntaxKind::Keyword_const: q += 'c'; break;
                        case SyntaxKind::Keyword_volatile: q += 'v'; break;
                        case SyntaxKind::Keyword_restrict: q += 'r'; break;
                        case SyntaxKind::Keyword__Atomic: q += 'a'; break;
                        default: q += '?'; break;
                    }
                }
                out += " P:" + (q.empty() ? std::string("-") : q);
                decl(p->innerDeclarator());
                return;
            }
            case SyntaxKind::ArrayDeclarator:
                out += " S";
                decl(d->asArrayOrFunctionDeclarator()->innerDeclarator());
                return;
            case SyntaxKind::FunctionDeclarator: {
                auto f = d->asArrayOrFunctionDeclarator();
                auto sfx = f->suffix() ? f->suffix()->asParameterSuffix() : nullptr;
                if (!sfx) { out += " ?nosuffix"; bad = true; return; }
                unsigned k = 0;
                for (auto it = sfx->parameters(); it; it = it->next) if (it->value) ++k;
                out += " F:" + std::string(sfx->ellipsisToken() == SyntaxToken::invalid() ? "0" : "1") + ":" + std::to_string(k);
                decl(f->innerDeclarator());
                for (auto it = sfx->parameters(); it; it = it->next) {
                    if (!it->value) continue;
                    out += " " + specText(it->value->specifiers());
                    decl(it->value->declarator());
                }
                return;
            }
            case SyntaxKind::BitfieldDeclarator: {
                auto b = d->asBitfieldDeclarator();
                if (b->innerDeclarator()) { out += " B"; decl(b->innerDeclarator()); }
                else out += " B0";
                return;
            }
            default:
                out += " ?" + kindStr(d->kind());
                bad = true;
        }
    }

    template <class N> void record(char ctx, const N* node)
    {
        unsigned n = 0;
        for (auto it = node->declarators(); it; it = it->next) if (it->value) ++n;
        out += std::string(out.empty() ? "" : " ; ") + "D" + ctx + " " + specText(node->specifiers()) + " " + std::to_string(n);
        for (auto it = node->declarators(); it; it = it->next) if (it->value) decl(it->value);
    }

    Action visitVariableAndOrFunctionDeclaration(const VariableAndOrFunctionDeclarationSyntax* n) override { record('v', n); return Action::Visit; }
    Action visitTypedefDeclaration(const TypedefDeclarationSyntax* n) override { record('t', n); return Action::Visit; }
    Action visitFieldDeclaration(const FieldDeclarationSyntax* n) override { record('m', n); return Action::Visit; }
    Action visitFunctionDefinition(const FunctionDefinitionSyntax* n) override
    {
        out += std::string(out.empty() ? "" : " ; ") + "Dx " + specText(n->specifiers()) + " 1";
        decl(n->declarator());
        return Action::Visit;
    }
};

}  // namespace

static int declaratorsMain(const std::vector<std::string>&, std::istream& in, std::ostream& out)
{
    std::string line;
    ParseOptions opts;
    while (std::getline(in, line)) {
        auto w = splitWords(line);
        if (w.size() != 2) { out << "bad-case\n"; continue; }
        std::string text = unhex(w[1]);
        Analysis a = analyse(text, opts, w[0][0] - '0');
        if (!a.tree->hasTranslationUnitAsRootNode()) { out << "no-unit\n"; continue; }
        DeclDumper d(a.tree, text);
        d.visit(a.tree->rootNode());
        out << "ast= " << (d.out.empty() ? "-" : d.out) << " | syms= ";
        bool first = true;
        for (auto s : allDeclarations(a.model)) {
            std::string ty = typeSexpr(declType(s));
            for (auto& c : ty) if (c == ' ') c = '_';
            if (!first) out << ';';
            first = false;
            out << symKindName(s->kind()) << ':' << (declName(s).empty() ? "<anon>" : declName(s)) << ':' << ty;
        }
        if (first) out << '-';
        out << " | diags=" << diagIds(a.tree) << "\n";
    }
    return 0;
}
PSYH_COMPONENT("declarators", declaratorsMain);
