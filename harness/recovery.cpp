// C01: the real Parser's cursor operations on the token vector of a lexed text.
// line: "<hex text> | <op> <op> ..."   ops: c (consume)  m:<Kind> (match)  s:<Kind> (skipTo)  i:<0-3> (ignoreDeclarator,
//        ignoreDeclarationOrDefinition, ignoreMemberDeclaration, ignoreStatement)  j:<n> (set the cursor, as a Backtracker restores it)
// answer: "K <kind> <kind> ... | C <cursor after each op>"   (index 0 = the marker token that precedes the first real token)
#include "psy_common.h"
#include "C/parser/Parser.h"
#include <map>

static int recoveryMain(const std::vector<std::string>&, std::istream& in, std::ostream& out)
{
    std::string line;
    std::map<std::string, SyntaxKind> byName;
    for (unsigned v = 0; v < 2000; ++v) { std::string n = kindName(v); if (n != "?") byName.emplace(n, static_cast<SyntaxKind>(v)); }
    while (std::getline(in, line)) {
        auto bar = line.find('|');
        if (bar == std::string::npos) { out << "bad-case\n"; continue; }
        auto hexs = splitWords(line.substr(0, bar));
        auto ops = splitWords(line.substr(bar + 1));
        std::string text = hexs.empty() ? std::string() : unhex(hexs[0]);
        ParseOptions opts;
        auto tree = SyntaxTree::parseText(SourceText(text), TextPreprocessingState::Preprocessed, TextCompleteness::Fragment, opts, "r.c");
        out << "K";
        for (unsigned i = 1; i < tree->tokenCount(); ++i) out << ' ' << kindStr(tree->tokenAt(i).kind());
        out << " | C";
        Parser parser(tree.get());
        for (auto& op : ops) {
            char c = op[0];
            std::string arg = op.size() > 2 ? op.substr(2) : "";
            LexedTokens::IndexType idx;
            if (c == 'c') parser.consume();
            else if (c == 'm') parser.match(byName.count(arg) ? byName[arg] : SyntaxKind::Error, &idx);
            else if (c == 's') parser.skipTo(byName.count(arg) ? byName[arg] : SyntaxKind::Error);
            else if (c == 'i') {
                switch (arg[0]) {
                    case '0': parser.ignoreDeclarator(); break;
                    case '1': parser.ignoreDeclarationOrDefinition(); break;
                    case '2': parser.ignoreMemberDeclaration(); break;
                    default: parser.ignoreStatement(); break;
                }
            }
            else if (c == 'j') {
                unsigned n = (unsigned)std::stoul(arg);
                if (n >= 1 && n <= parser.curTkIdx_) parser.curTkIdx_ = n;
            }
            out << ' ' << parser.curTkIdx_;
        }
        out << "\n";
    }
    return 0;
}
PSYH_COMPONENT("recovery", recoveryMain);
