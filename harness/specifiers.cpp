// C08: bind "<specifier sequence> x" in a given declaration position and report the bound type and diagnostics.
// line: "<ctx>[:<hex primer>] <hex of the specifier text>"   ctx: v (variable) p (parameter) f (field) t (typedef) r (parameter, primer = return type) b (block)
// answer: "<type sexpr of x> <diagnostic ids>"
#include "sema_common.h"

static int specifiersMain(const std::vector<std::string>&, std::istream& in, std::ostream& out)
{
    std::string line;
    ParseOptions opts;
    while (std::getline(in, line)) {
        auto w = splitWords(line);
        if (w.size() != 2) { out << "bad-case\n"; continue; }
        std::string spec = unhex(w[1]), text;
        // "<ctx>:<hex primer>": a declaration with the (valid) primer specifiers stands before the probed one, in the same unit / list
        std::string primer;
        if (w[0].size() > 2 && w[0][1] == ':') primer = unhex(w[0].substr(2));
        switch (w[0][0]) {
            case 'v': text = (primer.empty() ? "" : primer + " a; ") + spec + " x;"; break;
            case 'p': text = "void g(" + (primer.empty() ? "" : primer + " a, ") + spec + " x);"; break;
            case 'f': text = "struct S { " + (primer.empty() ? "" : primer + " a; ") + spec + " x; };"; break;
            case 't': text = (primer.empty() ? "" : "typedef " + primer + " a; ") + "typedef " + spec + " x;"; break;
            case 'r': text = (primer.empty() ? "int" : primer) + " g(" + spec + " x);"; break;          // the primer is the return type
            case 'b': text = "void g(void) { " + (primer.empty() ? "" : primer + " a; ") + spec + " x; }"; break;
            default: out << "bad-case\n"; continue;
        }
        Analysis a = analyse(text, opts, P_Bind);
        std::string ty = "no-declaration";
        for (auto d : allDeclarations(a.model))
            if (declName(d) == "x") ty = typeSexpr(declType(d));
        for (auto& c : ty) if (c == ' ') c = '_';
        out << ty << ' ' << diagIds(a.tree) << "\n";
    }
    return 0;
}
PSYH_COMPONENT("specifiers", specifiersMain);
