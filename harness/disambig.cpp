// C09: the final tree after the reparser, as a flat list of node extents.
// line: "<options> <hex text>"   (options carry the disambiguation mode)
// answer: "<Kind>:<byte offset of first token>:<byte end of last token> … | diags=<ids>"   (pre-order)
#include "psy_common.h"
#include "C/syntax/SyntaxNodes.h"
#include "C/syntax/SyntaxVisitor.h"

namespace {
struct Lister : SyntaxVisitor {
    using SyntaxVisitor::SyntaxVisitor;
    std::string out;
    bool preVisit(const SyntaxNode* n) override
    {
        auto f = n->firstToken(), l = n->lastToken();
        out += kindStr(n->kind()) + ":" + (f == SyntaxToken::invalid() ? std::string("-") : std::to_string(f.byteOffset_)) + ":"
               + (l == SyntaxToken::invalid() ? std::string("-") : std::to_string(l.byteOffset_ + l.byteSize_)) + " ";
        return true;
    }
};
}

static int disambigMain(const std::vector<std::string>&, std::istream& in, std::ostream& out)
{
    std::string line;
    while (std::getline(in, line)) {
        auto w = splitWords(line);
        if (w.size() != 2) { out << "bad-case\n"; continue; }
        ParseOptions opts = decodeOptions(w[0]);
        std::unique_ptr<SyntaxTree> t;
        try { t = SyntaxTree::parseText(SourceText(unhex(w[1])), TextPreprocessingState::Preprocessed, TextCompleteness::Full, opts, "a.c"); }
        catch (...) { out << "exception\n"; continue; }
        if (!t->rootNode()) { out << "no-root | diags=" << diagIdsOf(t.get()) << "\n"; continue; }
        Lister l(t.get());
        l.visit(t->rootNode());
        out << l.out << "| diags=" << diagIdsOf(t.get()) << "\n";
    }
    return 0;
}
PSYH_COMPONENT("disambig", disambigMain);
