// C17: kind of the single token lexed from a word under given ParseOptions, through the real SyntaxTree/Lexer,
// plus the direct answer of Lexer::recognize / Lexer::translate.
// line: "<options> <hexword>"  ->  "<kind-of-first-token> <token-count> <recognize> <translate>"
#include "psy_common.h"
#include "C/parser/Lexer.h"

static int keywordsMain(const std::vector<std::string>&, std::istream& in, std::ostream& out)
{
    std::string line;
    while (std::getline(in, line)) {
        auto w = splitWords(line);
        if (w.size() != 2) { out << "bad-case\n"; continue; }
        ParseOptions opts = decodeOptions(w[0]);
        std::string word = unhex(w[1]);
        auto tree = SyntaxTree::parseText(SourceText(word), TextPreprocessingState::Preprocessed, TextCompleteness::Fragment,
                                          opts, "<kw>", SyntaxTree::SyntaxCategory::Expressions);
        // token 0 is the reserved slot; the first lexed token follows it
        std::string first = "none";
        unsigned n = tree->tokenCount();
        unsigned firstIdx = 1;
        if (n > firstIdx) first = kindStr(tree->tokenAt(firstIdx).kind());
        std::string buf = word + ";";      // as in the lexer: the word sits inside a larger buffer
        out << first << ' ' << n << ' '
            << kindStr(Lexer::recognize(buf.c_str(), (int)word.size(), opts)) << ' '
            << kindStr(Lexer::translate(buf.c_str(), (int)word.size(), opts)) << "\n";
    }
    return 0;
}
PSYH_COMPONENT("keywords", keywordsMain);
