#pragma once
#include <functional>
#include <istream>
#include <ostream>
#include <sstream>
#include <string>
#include <vector>

using Handler = int (*)(const std::vector<std::string>& args, std::istream& in, std::ostream& out);
struct Registrar { Registrar(const char* name, Handler h); };
#define PSYH_COMPONENT(name, fn) static Registrar reg_##fn(name, fn)

inline std::vector<std::string> splitWords(const std::string& s)
{
    std::vector<std::string> v; std::istringstream is(s); std::string w;
    while (is >> w) v.push_back(w);
    return v;
}
inline std::string unhex(const std::string& h)
{
    std::string r; r.reserve(h.size() / 2);
    auto val = [](char c) { return c <= '9' ? c - '0' : (c | 32) - 'a' + 10; };
    for (size_t i = 0; i + 1 < h.size(); i += 2) r.push_back(char(val(h[i]) * 16 + val(h[i + 1])));
    return r;
}
inline std::string hex(const std::string& s)
{
    static const char* d = "0123456789abcdef"; std::string r;
    for (unsigned char c : s) { r.push_back(d[c >> 4]); r.push_back(d[c & 15]); }
    return r;
}
