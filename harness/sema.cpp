// C11 / C02: the whole semantic pipeline on a program; error diagnostics with their lines.
// line: "<hex text>"  -> "<id>@<line>,… | nerr=<n>"    (Error severity only; '-' if none)
#include "sema_common.h"

static int semaMain(const std::vector<std::string>&, std::istream& in, std::ostream& out)
{
    std::string line;
    ParseOptions opts;
    while (std::getline(in, line)) {
        auto w = splitWords(line);
        if (w.size() != 1) { out << "bad-case\n"; continue; }
        Analysis a = analyse(unhex(w[0]), opts, P_Check, SyntaxTree::SyntaxCategory::Any, TextCompleteness::Full);
        std::string s;
        unsigned n = 0;
        for (auto& d : a.tree->diagnostics()) {
            if (d.severity() != DiagnosticSeverity::Error) continue;
            if (!s.empty()) s += ",";
            s += d.descriptor().id() + "@" + std::to_string(d.location().lineSpan().span().start().line());
            ++n;
        }
        out << (s.empty() ? "-" : s) << " | nerr=" << n << "\n";
    }
    return 0;
}
PSYH_COMPONENT("sema", semaMain);
