// C18: histories on the real psy::TextElementTable<Identifier> (the class SyntaxTree instantiates).
#include "psyh.h"
#include "C/syntax/Lexeme_ALL.h"
#include "common/text/TextElementTable.h"
#include <map>

using namespace psy;
using namespace psy::C;

template <class ElemT>
static std::string runHistory(const std::vector<std::string>& ops)
{
    TextElementTable<ElemT> table;
    std::map<const void*, unsigned> idOf;
    std::string out;
    for (auto& w : ops) {
        std::string bytes = unhex(w.substr(1));
        // the table receives a pointer into a larger buffer, as it does from the lexer (no terminator at `size`)
        std::string buf = bytes + "#";
        const ElemT* e = nullptr;
        if (w[0] == 'i') {
            unsigned before = table.size();
            e = table.findOrInsert(buf.data(), bytes.size());
            if (table.size() != before) idOf[e] = table.size() - 1;
            if (!e) return "null-from-findOrInsert";
        } else if (w[0] == 'f') {
            e = table.find(buf.data(), bytes.size());
        } else return "bad-op";
        if (!out.empty()) out += ' ';
        if (!e) out += "-";
        else {
            auto it = idOf.find(e);
            out += it == idOf.end() ? std::string("unknown-object") : std::to_string(it->second);
        }
    }
    out += " | " + std::to_string(table.size()) + " | ";
    for (unsigned i = 0; i < table.size(); ++i) {
        const ElemT* e = table.at(i);
        if (i) out += ',';
        out += hex(std::string(e->begin(), e->end()));
        auto it = idOf.find(e);
        if (it == idOf.end() || it->second != i) out += "(identity-moved)";
    }
    return out;
}

static int textableMain(const std::vector<std::string>&, std::istream& in, std::ostream& out)
{
    std::string line;
    while (std::getline(in, line)) {
        auto ops = splitWords(line);
        std::string a = runHistory<Identifier>(ops);
        std::string b = runHistory<StringLiteral>(ops);
        if (a != b) out << "INSTANCES-DIFFER Identifier: " << a << " || StringLiteral: " << b << "\n";
        else out << a << "\n";
    }
    return 0;
}
PSYH_COMPONENT("textable", textableMain);
