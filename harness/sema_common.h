// Shared helpers: build a tree, run semantic phases, canonical dumps of declarations / types / diagnostics.
#pragma once
#include "psy_common.h"
#include "C/sema/Compilation.h"
#include "C/sema/SemanticModel.h"
#include "C/sema/Scope.h"
#include "C/symbols/Symbol_ALL.h"
#include "C/types/Type_ALL.h"
#include "common/diagnostics/Diagnostic.h"
#include <sstream>

inline const char* basicKindName(BasicTypeKind k)
{
    switch (k) {
        case BasicTypeKind::Char: return "Char"; case BasicTypeKind::Char_S: return "Char_S"; case BasicTypeKind::Char_U: return "Char_U";
        case BasicTypeKind::Short_S: return "Short_S"; case BasicTypeKind::Short_U: return "Short_U";
        case BasicTypeKind::Int_S: return "Int_S"; case BasicTypeKind::Int_U: return "Int_U";
        case BasicTypeKind::Long_S: return "Long_S"; case BasicTypeKind::Long_U: return "Long_U";
        case BasicTypeKind::LongLong_S: return "LongLong_S"; case BasicTypeKind::LongLong_U: return "LongLong_U";
        case BasicTypeKind::Bool: return "Bool"; case BasicTypeKind::Float: return "Float"; case BasicTypeKind::Double: return "Double";
        case BasicTypeKind::LongDouble: return "LongDouble"; case BasicTypeKind::FloatComplex: return "FloatComplex";
        case BasicTypeKind::DoubleComplex: return "DoubleComplex"; case BasicTypeKind::LongDoubleComplex: return "LongDoubleComplex";
    }
    return "?basic";
}

inline std::string identText(const Identifier* id) { return id ? std::string(id->c_str(), id->size()) : std::string("<null>"); }

// S-expression of a type; `depth` guards against cyclic structures (printed as (cycle)).
inline std::string typeSexpr(const Type* ty, int depth = 0)
{
    if (!ty) return "null";
    if (depth > 64) return "(cycle)";
    switch (ty->kind()) {
        case TypeKind::Basic: return basicKindName(ty->asBasicType()->kind());
        case TypeKind::Void: return "Void";
        case TypeKind::Error: return "Error";
        case TypeKind::Pointer: {
            auto p = ty->asPointerType();
            std::string s = "(Ptr";
            if (p->arisesFromArrayDecay()) s += "/arr";
            if (p->arisesFromFunctionDecay()) s += "/fn";
            return s + " " + typeSexpr(p->referencedType(), depth + 1) + ")";
        }
        case TypeKind::Array: return "(Arr " + typeSexpr(ty->asArrayType()->elementType(), depth + 1) + ")";
        case TypeKind::Function: {
            auto f = ty->asFunctionType();
            std::string s = "(Fn " + typeSexpr(f->returnType(), depth + 1) + " [";
            bool first = true;
            for (auto p : f->parameterTypes()) { if (!first) s += " "; first = false; s += typeSexpr(p, depth + 1); }
            s += "]";
            if (f->isVariadic()) s += " ...";
            return s + ")";
        }
        case TypeKind::Qualified: {
            auto q = ty->asQualifiedType();
            std::string s = "(Q";
            auto qs = q->qualifiers();
            if (qs.hasConst()) s += "c"; if (qs.hasVolatile()) s += "v"; if (qs.hasRestrict()) s += "r"; if (qs.hasAtomic()) s += "a";
            return s + " " + typeSexpr(q->unqualifiedType(), depth + 1) + ")";
        }
        case TypeKind::Tag: {
            auto t = ty->asTagType();
            const char* k = t->kind() == TagTypeKind::Struct ? "struct" : t->kind() == TagTypeKind::Union ? "union" : "enum";
            return std::string("(Tag ") + k + " " + (t->isUntagged() ? std::string("<untagged>") : identText(t->tag())) + ")";
        }
        case TypeKind::TypedefName: return "(TD " + identText(ty->asTypedefNameType()->typedefName()) + ")";
    }
    return "?type";
}

inline const char* symKindName(SymbolKind k)
{
    switch (k) {
        case SymbolKind::Program: return "Program"; case SymbolKind::TranslationUnit: return "TranslationUnit";
        case SymbolKind::FunctionDeclaration: return "Function"; case SymbolKind::EnumeratorDeclaration: return "Enumerator";
        case SymbolKind::FieldDeclaration: return "Field"; case SymbolKind::VariableDeclaration: return "Variable";
        case SymbolKind::ParameterDeclaration: return "Parameter"; case SymbolKind::TypedefDeclaration: return "Typedef";
        case SymbolKind::StructDeclaration: return "Struct"; case SymbolKind::UnionDeclaration: return "Union";
        case SymbolKind::EnumDeclaration: return "Enum";
    }
    return "?sym";
}

inline std::vector<const DeclarationSymbol*> allDeclarations(const SemanticModel* m)
{
    std::vector<const DeclarationSymbol*> v;
    m->searchForDeclaration([&](const DeclarationSymbol* d) { v.push_back(d); return false; });
    return v;
}

inline std::string declName(const DeclarationSymbol* d)
{
    switch (d->kind()) {
        case SymbolKind::FunctionDeclaration: return identText(static_cast<const FunctionDeclarationSymbol*>(d)->name());
        case SymbolKind::EnumeratorDeclaration: case SymbolKind::FieldDeclaration:
            return identText(static_cast<const MemberDeclarationSymbol*>(d)->name());
        case SymbolKind::VariableDeclaration: case SymbolKind::ParameterDeclaration:
            return identText(static_cast<const ObjectDeclarationSymbol*>(d)->name());
        case SymbolKind::TypedefDeclaration: return identText(static_cast<const TypedefDeclarationSymbol*>(d)->introducedSynonymType()->typedefName());
        case SymbolKind::StructDeclaration: case SymbolKind::UnionDeclaration: case SymbolKind::EnumDeclaration: {
            auto t = static_cast<const TagDeclarationSymbol*>(d)->introducedNewType();
            return t->isUntagged() ? "<untagged>" : identText(t->tag());
        }
        default: return "?";
    }
}

inline const Type* declType(const DeclarationSymbol* d)
{
    switch (d->kind()) {
        case SymbolKind::FunctionDeclaration: return static_cast<const FunctionDeclarationSymbol*>(d)->type();
        case SymbolKind::EnumeratorDeclaration: case SymbolKind::FieldDeclaration:
            return static_cast<const MemberDeclarationSymbol*>(d)->type();
        case SymbolKind::VariableDeclaration: case SymbolKind::ParameterDeclaration:
            return static_cast<const ObjectDeclarationSymbol*>(d)->type();
        case SymbolKind::TypedefDeclaration: return static_cast<const TypedefDeclarationSymbol*>(d)->synonymizedType();
        case SymbolKind::StructDeclaration: case SymbolKind::UnionDeclaration: case SymbolKind::EnumDeclaration:
            return static_cast<const TagDeclarationSymbol*>(d)->introducedNewType();
        default: return nullptr;
    }
}

inline std::string diagIds(const SyntaxTree* tree, bool errorsOnly = false)
{
    std::string s;
    for (auto& d : tree->diagnostics()) {
        if (errorsOnly && d.severity() != DiagnosticSeverity::Error) continue;
        if (!s.empty()) s += ",";
        s += d.descriptor().id();
    }
    return s.empty() ? "-" : s;
}

enum Phase { P_Parse = 0, P_Bind = 1, P_Canon = 2, P_Resolve = 3, P_Check = 4 };

struct Analysis {
    std::unique_ptr<Compilation> comp;
    const SyntaxTree* tree = nullptr;
    const SemanticModel* model = nullptr;
};

inline Analysis analyse(const std::string& text, const ParseOptions& opts, int upTo = P_Check,
                        SyntaxTree::SyntaxCategory cat = SyntaxTree::SyntaxCategory::Any,
                        TextCompleteness compl_ = TextCompleteness::Fragment,
                        const PlatformOptions* platform = nullptr)
{
    Analysis a;
    auto tree = SyntaxTree::parseText(SourceText(text), TextPreprocessingState::Preprocessed, compl_, opts, "<psyh>", cat);
    a.comp = platform ? Compilation::create("psyh", *platform) : Compilation::create("psyh");
    a.tree = tree.get();
    a.comp->addSyntaxTree(std::move(tree));
    if (upTo >= P_Bind && a.tree->hasTranslationUnitAsRootNode()) {
        a.comp->bindDeclarations(a.tree);
        if (upTo >= P_Canon) a.comp->canonicalizeTypes(a.tree);
        if (upTo >= P_Resolve) a.comp->resolveTypedefNameTypes(a.tree);
        if (upTo >= P_Check) a.comp->checkTypes(a.tree);
    }
    a.model = a.comp->semanticModel(a.tree);
    return a;
}
