// C05: the token stream of the real lexer.
// line: "<options> <hex text>" ->
//   "<Kind>:<byteOffset>:<byteSize>:<charOffset>:<charSize>:<flags s|w|j or ->:<hex lexeme or -> ..." (all tokens incl. EndOfFile)
//   " | C <Kind>:<byteOffset>:<byteSize> ..." (kept comments) " | <diagnostic ids>"
#include "psy_common.h"

static bool hasLexeme(SyntaxKind k)
{
    switch (k) {
        case SyntaxKind::IdentifierToken:
        case SyntaxKind::IntegerConstantToken:
        case SyntaxKind::FloatingConstantToken:
        case SyntaxKind::CharacterConstantToken:
        case SyntaxKind::CharacterConstant_L_Token:
        case SyntaxKind::CharacterConstant_u_Token:
        case SyntaxKind::CharacterConstant_U_Token:
        case SyntaxKind::ImaginaryIntegerConstantToken:
        case SyntaxKind::ImaginaryFloatingConstantToken:
        case SyntaxKind::StringLiteralToken:
        case SyntaxKind::StringLiteral_L_Token:
        case SyntaxKind::StringLiteral_u8_Token:
        case SyntaxKind::StringLiteral_u_Token:
        case SyntaxKind::StringLiteral_U_Token:
        case SyntaxKind::StringLiteral_R_Token:
        case SyntaxKind::StringLiteral_LR_Token:
        case SyntaxKind::StringLiteral_u8R_Token:
        case SyntaxKind::StringLiteral_uR_Token:
        case SyntaxKind::StringLiteral_UR_Token:
            return true;
        default:
            return false;
    }
}

static int lexMain(const std::vector<std::string>&, std::istream& in, std::ostream& out)
{
    std::string line;
    while (std::getline(in, line)) {
        auto w = splitWords(line);
        if (w.size() != 2) { out << "bad-case\n"; continue; }
        ParseOptions opts = decodeOptions(w[0]);
        std::unique_ptr<SyntaxTree> tree;
        try {
            tree = SyntaxTree::parseText(SourceText(unhex(w[1])), TextPreprocessingState::Preprocessed, TextCompleteness::Fragment, opts, "f.c");
        } catch (const std::exception& ex) { out << "exception " << ex.what() << "\n"; continue; }
        for (unsigned i = 1; i < tree->tokenCount(); ++i) {
            const SyntaxToken& tk = tree->tokenAt(i);
            if (i > 1) out << ' ';
            out << kindStr(tk.kind()) << ':' << tk.byteOffset_ << ':' << tk.byteSize_ << ':' << tk.charOffset_ << ':' << tk.charSize_ << ':';
            std::string fl;
            if (tk.isAtStartOfLine()) fl += 's';
            if (tk.hasLeadingTrivia()) fl += 'w';
            if (tk.isJoined()) fl += 'j';
            out << (fl.empty() ? "-" : fl) << ':';
            if (hasLexeme(tk.kind()) && tk.lexeme_) {
                std::string v(tk.lexeme_->c_str(), tk.lexeme_->size());
                out << (v.empty() ? "." : hex(v));
            }
            else out << '-';
        }
        out << " | C";
        for (auto& tk : tree->comments_)
            out << ' ' << kindStr(tk.kind()) << ':' << tk.byteOffset_ << ':' << tk.byteSize_;
        out << " | " << diagIdsOf(tree.get()) << "\n";
    }
    return 0;
}
PSYH_COMPONENT("lex", lexMain);
