// C12: declaration types after the whole semantic pipeline, with what every typedef-name / tag leaf refers to.
// line: "<hex text>"
// answer: "<Kind>:<name>@<line>:<type> ; … | diags=<ids>"   one entry per Variable/Function/Parameter/Field/Typedef declaration
//   type: like typeSexpr, but   (TD <name>@<line of the typedef declaration|-> => <resolved type>)
//                               (Tag <kw> <tag>@<line of the tag declaration|->)
//                               basic / void leaves carry '!' when they are NOT the compilation's canonical object
#include "sema_common.h"
#include "C/syntax/SyntaxNodes.h"
#include "C/syntax/SyntaxVisitor.h"
#include <algorithm>
#include <map>

namespace {

unsigned lineOf(const std::string& text, size_t off)
{
    return 1 + static_cast<unsigned>(std::count(text.begin(), text.begin() + std::min(off, text.size()), '\n'));
}

struct DeclLines : SyntaxVisitor {
    const SemanticModel* model;
    const std::string& text;
    std::map<const DeclarationSymbol*, unsigned> line;
    DeclLines(const SyntaxTree* t, const SemanticModel* m, const std::string& src) : SyntaxVisitor(t), model(m), text(src) {}
    void note(const DeclarationSymbol* sym, const SyntaxNode* n)
    {
        if (!sym || !n) return;
        auto tk = n->firstToken();
        if (tk == SyntaxToken::invalid()) return;
        unsigned ln = lineOf(text, tk.byteOffset_);
        auto it = line.find(sym);
        if (it == line.end() || ln < it->second) line[sym] = ln;
    }
    Action visitIdentifierDeclarator(const IdentifierDeclaratorSyntax* n) override { note(model->declarationBy(n), n); return Action::Visit; }
    Action visitParameterDeclaration(const ParameterDeclarationSyntax* n) override
    {
        // an unnamed parameter is bound at its (abstract) declarator: its line is that of the parameter declaration
        const DeclaratorSyntax* d = n->declarator();
        while (d && d->kind() == SyntaxKind::ParenthesizedDeclarator) d = static_cast<const ParenthesizedDeclaratorSyntax*>(d)->innerDeclarator();
        if (d) note(model->declarationBy(d), n);
        return Action::Visit;
    }
    Action visitStructOrUnionDeclaration(const StructOrUnionDeclarationSyntax* n) override { note(model->structOrUnionFor(n), n); return Action::Visit; }
    Action visitEnumDeclaration(const EnumDeclarationSyntax* n) override { note(model->enumFor(n), n); return Action::Visit; }
};

struct Printer {
    const Compilation* comp;
    std::map<const DeclarationSymbol*, unsigned>* line;
    std::string lineOfDecl(const DeclarationSymbol* d)
    {
        if (!d) return "-";
        auto it = line->find(d);
        return it == line->end() ? std::string("?") : std::to_string(it->second);
    }
    std::string ty(const Type* t, int depth = 0)
    {
        if (!t) return "null";
        if (depth > 40) return "(deep)";
        switch (t->kind()) {
            case TypeKind::Basic: {
                auto b = t->asBasicType();
                return std::string(basicKindName(b->kind())) + (comp->canonicalBasicType(b->kind()) == b ? "" : "!");
            }
            case TypeKind::Void: return std::string("Void") + (comp->canonicalVoidType() == t ? "" : "!");
            case TypeKind::Error: return "Error";
            case TypeKind::Pointer: {
                auto p = t->asPointerType();
                std::string s = "(Ptr";
                if (p->arisesFromArrayDecay()) s += "/arr";
                if (p->arisesFromFunctionDecay()) s += "/fn";
                return s + "_" + ty(p->referencedType(), depth + 1) + ")";
            }
            case TypeKind::Array: return "(Arr_" + ty(t->asArrayType()->elementType(), depth + 1) + ")";
            case TypeKind::Function: {
                auto f = t->asFunctionType();
                std::string s = "(Fn_" + ty(f->returnType(), depth + 1) + "_[";
                bool first = true;
                for (auto p : f->parameterTypes()) { if (!first) s += "_"; first = false; s += ty(p, depth + 1); }
                s += "]";
                if (f->isVariadic()) s += "_...";
                return s + ")";
            }
            case TypeKind::Qualified: {
                auto q = t->asQualifiedType();
                std::string s = "(Q";
                auto qs = q->qualifiers();
                if (qs.hasConst()) s += "c"; if (qs.hasVolatile()) s += "v"; if (qs.hasRestrict()) s += "r"; if (qs.hasAtomic()) s += "a";
                return s + "_" + ty(q->unqualifiedType(), depth + 1) + ")";
            }
            case TypeKind::Tag: {
                auto g = t->asTagType();
                const char* k = g->kind() == TagTypeKind::Struct ? "struct" : g->kind() == TagTypeKind::Union ? "union" : "enum";
                return std::string("(Tag_") + k + "_" + (g->isUntagged() ? std::string("<untagged>") : identText(g->tag())) + "@" + lineOfDecl(g->declaration()) + ")";
            }
            case TypeKind::TypedefName: {
                auto d = t->asTypedefNameType();
                return "(TD_" + identText(d->typedefName()) + "@" + lineOfDecl(d->declaration()) + "=>" + ty(d->resolvedSynonymizedType(), depth + 1) + ")";
            }
        }
        return "?type";
    }
};

}  // namespace

static int typedefsMain(const std::vector<std::string>&, std::istream& in, std::ostream& out)
{
    std::string line;
    ParseOptions opts;
    while (std::getline(in, line)) {
        auto w = splitWords(line);
        if (w.size() != 1) { out << "bad-case\n"; continue; }
        std::string text = unhex(w[0]);
        Analysis a = analyse(text, opts, P_Check, SyntaxTree::SyntaxCategory::Any, TextCompleteness::Full);
        if (!a.tree->hasTranslationUnitAsRootNode()) { out << "no-unit\n"; continue; }
        DeclLines dl(a.tree, a.model, text);
        dl.visit(a.tree->rootNode());
        Printer pr{a.comp.get(), &dl.line};
        bool first = true;
        for (auto s : allDeclarations(a.model)) {
            switch (s->kind()) {
                case SymbolKind::VariableDeclaration: case SymbolKind::FunctionDeclaration: case SymbolKind::ParameterDeclaration:
                case SymbolKind::FieldDeclaration: case SymbolKind::TypedefDeclaration: break;
                default: continue;
            }
            if (!first) out << " ; ";
            first = false;
            const Type* shown = declType(s);
            if (s->kind() == SymbolKind::TypedefDeclaration)      // what the typedef's name stands for once resolved
                shown = static_cast<const TypedefDeclarationSymbol*>(s)->introducedSynonymType()->resolvedSynonymizedType();
            out << symKindName(s->kind()) << ':' << (declName(s).empty() ? "<anon>" : declName(s)) << '@' << pr.lineOfDecl(s) << ':' << pr.ty(shown);
        }
        if (first) out << '-';
        out << " | diags=" << diagIds(a.tree) << "\n";
    }
    return 0;
}
PSYH_COMPONENT("typedefs", typedefsMain);
