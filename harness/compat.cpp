// C11: the real TypeChecker::typesAreCompatible on every ordered pair of the types of the declarations v0, v1, ... of a unit.
// line: "<hex text>"
// answer: "<n> | <type> ; <type> ; ... | <bits> | <assign bits>"  assign bits: for i, for j: isTypeAssignableFromOtherType(ti, tj, e) for e not a null constant, for e = 0
//  bits: for i, for j, for (voidAny, ignoreQ) in (0,0) (0,1) (1,0) (1,1): 0/1
//   type (prefix form, what the Lean model reads; a typedef name stands for its resolved synonym):
//     B<k> basic | V void | E error | T<kind>:<i> tag (i: index of first occurrence of the tag identifier) | P <t> pointer | A <t> array
//     | F<form>:<n> <ret> <p1> ... <pn> function (form 0 unspecified 1 specified-as-empty 2 non-empty: FunctionType::ParameterListForm) | Q<bits> <t> qualified (c1 v2 r4 a8)
#include "sema_common.h"
#include "C/sema/TypeChecker.h"
#include "C/syntax/SyntaxNodes.h"
#include "C/syntax/SyntaxVisitor.h"
#include <map>

namespace {
struct Enc {
    std::map<const void*, int> tags;
    std::string ty(const Type* t, int depth = 0)
    {
        if (!t || depth > 60) return "E";
        switch (t->kind()) {
            case TypeKind::Basic: return "B" + std::to_string(int(t->asBasicType()->kind()));
            case TypeKind::Void: return "V";
            case TypeKind::Error: return "E";
            case TypeKind::Pointer: return "P " + ty(t->asPointerType()->referencedType(), depth + 1);
            case TypeKind::Array: return "A " + ty(t->asArrayType()->elementType(), depth + 1);
            case TypeKind::Function: {
                auto f = t->asFunctionType();
                auto ps = f->parameterTypes();
                std::string s = "F" + std::to_string(int(f->parameterListForm())) + ":" + std::to_string(ps.size()) + " " + ty(f->returnType(), depth + 1);
                for (auto p : ps) s += " " + ty(p, depth + 1);
                return s;
            }
            case TypeKind::Qualified: {
                auto q = t->asQualifiedType();
                auto qs = q->qualifiers();
                int b = (qs.hasConst() ? 1 : 0) | (qs.hasVolatile() ? 2 : 0) | (qs.hasRestrict() ? 4 : 0) | (qs.hasAtomic() ? 8 : 0);
                return "Q" + std::to_string(b) + " " + ty(q->unqualifiedType(), depth + 1);
            }
            case TypeKind::Tag: {
                auto g = t->asTagType();
                auto it = tags.emplace(static_cast<const void*>(g->tag()), int(tags.size())).first;
                return "T" + std::to_string(int(g->kind())) + ":" + std::to_string(it->second);
            }
            case TypeKind::TypedefName: return ty(t->asTypedefNameType()->resolvedSynonymizedType(), depth + 1);
        }
        return "E";
    }
};
}  // namespace

static int compatMain(const std::vector<std::string>&, std::istream& in, std::ostream& out)
{
    std::string line;
    ParseOptions opts;
    while (std::getline(in, line)) {
        auto w = splitWords(line);
        if (w.size() != 1) { out << "bad-case\n"; continue; }
        auto a = analyse(unhex(w[0]) + "\nint zz_ = 0;\n", opts, P_Resolve);
        if (!a.model) { out << "no-model\n"; continue; }
        std::map<int, const Type*> byIdx;
        for (auto d : allDeclarations(a.model)) {
            if (d->kind() != SymbolKind::VariableDeclaration && d->kind() != SymbolKind::FunctionDeclaration) continue;
            std::string nm = declName(d);
            if (nm.size() < 2 || nm[0] != 'v' || !isdigit(nm[1])) continue;
            byIdx[std::stoi(nm.substr(1))] = declType(d);
        }
        std::vector<const Type*> tys;
        for (auto& kv : byIdx) if (kv.second) tys.push_back(kv.second);
        TypeChecker tc(const_cast<SemanticModel*>(a.model), a.tree);
        Enc enc;
        out << tys.size() << " |";
        for (size_t i = 0; i < tys.size(); ++i) out << (i ? " ; " : " ") << enc.ty(tys[i]);
        out << " | ";
        for (auto t1 : tys)
            for (auto t2 : tys)
                for (int f = 0; f < 4; ++f)
                    out << (tc.typesAreCompatible(t1, t2, (f & 2) != 0, (f & 1) != 0) ? '1' : '0');
        // isTypeAssignableFromOtherType(t1, t2, right operand) for every ordered pair, the right operand once an expression that is no
        // null pointer constant (the unit's root node serves) and once the constant `0` (of the declaration `int zz_ = 0;` the harness appends)
        struct ZeroFinder : SyntaxVisitor {
            const SyntaxNode* zero = nullptr;
            ZeroFinder(const SyntaxTree* t) : SyntaxVisitor(t) {}
            Action visitConstantExpression(const ConstantExpressionSyntax* n) override { if (!zero && n->constantToken().valueText() == "0") zero = n; return Action::Skip; }
        } zf(a.tree);
        zf.visit(a.tree->rootNode());
        out << " | ";
        if (zf.zero) {
            for (auto t1 : tys)
                for (auto t2 : tys) {
                    out << (tc.isTypeAssignableFromOtherType(t1, t2, a.tree->rootNode()) ? '1' : '0');
                    out << (tc.isTypeAssignableFromOtherType(t1, t2, zf.zero) ? '1' : '0');
                }
        } else out << "nozero";
        out << "\n";
    }
    return 0;
}
PSYH_COMPONENT("compat", compatMain);
