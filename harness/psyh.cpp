// psyh <component> : line-protocol harness calling the real Psyche-C code in-process.
// One case per input line, one canonical answer line per case.
#include "psyh.h"
#include <cstring>
#include <iostream>

static std::vector<std::pair<std::string, Handler>>& table()
{
    static std::vector<std::pair<std::string, Handler>> t;
    return t;
}

Registrar::Registrar(const char* name, Handler h) { table().emplace_back(name, h); }

int main(int argc, char** argv)
{
    if (argc < 2) {
        std::cerr << "usage: psyh <component> [args]\ncomponents:";
        for (auto& e : table()) std::cerr << ' ' << e.first;
        std::cerr << "\n";
        return 2;
    }
    std::ios::sync_with_stdio(false);
    for (auto& e : table()) {
        if (e.first == argv[1]) {
            std::vector<std::string> args(argv + 2, argv + argc);
            return e.second(args, std::cin, std::cout);
        }
    }
    std::cerr << "unknown component " << argv[1] << "\n";
    return 2;
}
