// psyh <component> : line-protocol harness calling the real Psyche-C code in-process.
// One case per input line, one canonical answer line per case.
#include "psyh.h"
#include <cstring>
#include <iostream>
#include <ext/stdio_filebuf.h>
#include <unistd.h>

static std::vector<std::pair<std::string, Handler>>& table()
{
    static std::vector<std::pair<std::string, Handler>> t;
    return t;
}

Registrar::Registrar(const char* name, Handler h) { table().emplace_back(name, h); }

int main(int argc, char** argv)
{
    if (argc < 2) {
        std::cerr << "usage: psyh <component> [args]\ncomponents:";
        for (auto& e : table()) std::cerr << ' ' << e.first;
        std::cerr << "\n";
        return 2;
    }
    std::ios::sync_with_stdio(false);
    // answers go to the original stdout; anything the library itself prints on stdout (the "[ASSERT] at …" lines of
    // assertion-enabled builds) is diverted to stderr so that it cannot shift the answer stream
    int answersFd = dup(1);
    dup2(2, 1);
    static __gnu_cxx::stdio_filebuf<char> answersBuf(answersFd, std::ios::out);
    static std::ostream answers(&answersBuf);
    std::cin.tie(&answers);          // every read of a case flushes the answers so far (a crash loses nothing)
    for (auto& e : table()) {
        if (e.first == argv[1]) {
            std::vector<std::string> args(argv + 2, argv + argc);
            { int rc = e.second(args, std::cin, answers); answers.flush(); return rc; }
        }
    }
    std::cerr << "unknown component " << argv[1] << "\n";
    return 2;
}
