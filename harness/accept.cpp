// C04: does the parser accept a text?
//   "parse <options> <hex text>" -> "<ids of diagnostics with severity Error or Warning, with lines | -> early=<0/1> tu=<0/1>"
//   "ctxadd" -> the real Parser::StatementContext operator+ on all 16 pairs: "a+b=c …"  (0 None 1 Switch 2 Loop 3 SwitchAndLoop)
#include "psy_common.h"
#include "C/parser/Parser.h"
#include "common/diagnostics/Diagnostic.h"

namespace psy { namespace C { Parser::StatementContext operator+(Parser::StatementContext a, Parser::StatementContext b); } }

static int acceptMain(const std::vector<std::string>&, std::istream& in, std::ostream& out)
{
    std::string line;
    while (std::getline(in, line)) {
        auto w = splitWords(line);
        if (w.size() == 1 && w[0] == "ctxadd") {
            for (int a = 0; a < 4; ++a)
                for (int b = 0; b < 4; ++b) {
                    auto c = static_cast<Parser::StatementContext>(a) + static_cast<Parser::StatementContext>(b);
                    out << a << '+' << b << '=' << int(c) << ' ';
                }
            out << "\n";
            continue;
        }
        if (w.size() == 4 && w[0] == "guess") {
            // the REAL Parser::guessRoleOfIdentifier with the cursor on the first token (an identifier) of the text
            ParseOptions o;
            auto tree = SyntaxTree::parseText(SourceText(unhex(w[3])), TextPreprocessingState::Preprocessed, TextCompleteness::Fragment, o, "g.c");
            Parser parser(tree.get());
            parser.curTkIdx_ = 1;
            parser.isWithinKandRFuncDef_ = w[2] == "1";
            auto r = parser.guessRoleOfIdentifier(static_cast<Parser::DeclarationContext>(w[1][0] - '0'));
            out << (r == Parser::IdentifierRole::TypedefName ? "T" : "D") << "\n";
            continue;
        }
        if (w.size() != 3 || w[0] != "parse") { out << "bad-case\n"; continue; }
        ParseOptions opts = decodeOptions(w[1]);
        std::unique_ptr<SyntaxTree> t;
        try { t = SyntaxTree::parseText(SourceText(unhex(w[2])), TextPreprocessingState::Preprocessed, TextCompleteness::Full, opts, "a.c"); }
        catch (const std::exception& ex) { out << "exception:" << ex.what() << "\n"; continue; }
        catch (...) { out << "exception\n"; continue; }
        std::string s;
        for (auto& d : t->diagnostics()) {
            if (d.severity() != DiagnosticSeverity::Error) continue;
            if (!s.empty()) s += ",";
            s += d.descriptor().id() + "@" + std::to_string(d.location().lineSpan().span().start().line() + 1);
        }
        out << (s.empty() ? "-" : s) << " early=" << t->parseExitedEarly() << " tu=" << (t->translationUnit() != nullptr) << "\n";
    }
    return 0;
}
PSYH_COMPONENT("accept", acceptMain);
