// C03: lossless unparse.  line: "<options> <category a|d|e|s> <hex text>"
// answer: "skip <why>"  (the text does not parse cleanly, or an ambiguity node is left: not C03's subject)
//      or "ok|FAIL ntok=<n> nodes=<k> faithful=<0/1> tokens=<ok|diff@i:src/out> reparse=<ok|diags:…> shape=<ok|diff@i:a/b> [unfaithful=<Kind>:<dumper seq>/<holder seq>]"
//   faithful: at every node the dumper's sequence of terminal()/nonterminal() calls equals the node's own child list
//   tokens  : (kind, spelling) sequence of the unparsed text's tokens = that of the source
//   shape   : pre-order kind listing of the reparsed tree = that of the first tree
#include "psy_common.h"
#include "C/parser/Unparser.h"
#include "C/syntax/SyntaxNodes.h"
#include "C/syntax/SyntaxNodeList.h"
#include "C/syntax/SyntaxHolder.h"
#include <map>
#include <sstream>
#include <unordered_map>

namespace {

struct ElemCollector : SyntaxVisitor {
    using SyntaxVisitor::SyntaxVisitor;
    std::vector<const SyntaxNode*> elems;
    bool preVisit(const SyntaxNode* n) override { elems.push_back(n); return false; }
};

struct KindLister : SyntaxVisitor {
    using SyntaxVisitor::SyntaxVisitor;
    std::vector<SyntaxKind> kinds;
    std::vector<const SyntaxNode*> nodes;
    bool ambiguous = false;
    bool preVisit(const SyntaxNode* n) override
    {
        kinds.push_back(n->kind());
        nodes.push_back(n);
        if (n->kind() == SyntaxKind::AmbiguousCastOrBinaryExpression
            || n->kind() == SyntaxKind::AmbiguousTypeNameOrExpressionAsTypeReference
            || n->kind() == SyntaxKind::AmbiguousCallOrVariableDeclaration || n->kind() == SyntaxKind::AmbiguousMultiplicationOrPointerDeclaration)
            ambiguous = true;
        return true;
    }
};

// records, per node, what the dumper emits while it is at that node
struct RecDumper : SyntaxDumper {
    std::map<unsigned, unsigned>* idxByByteOffset;
    std::vector<const SyntaxNode*> stack;
    std::unordered_map<const SyntaxNode*, std::string> seq;
    RecDumper(const SyntaxTree* t, std::map<unsigned, unsigned>* m) : SyntaxDumper(t), idxByByteOffset(m) {}
    void run(const SyntaxNode* n) { seq[nullptr]; nonterminal(n); }
    bool preVisit(const SyntaxNode* n) override
    {
        // a child is "emitted" when the dumper enters it, however it got there (nonterminal() or a direct visit())
        std::ostringstream os; os << " n" << static_cast<const void*>(n);
        seq[stack.empty() ? nullptr : stack.back()] += os.str();
        stack.push_back(n); seq[n];
        return true;
    }
    void postVisit(const SyntaxNode*) override { stack.pop_back(); }
    void terminal(const SyntaxToken& tk, const SyntaxNode*) override
    {
        if (tk == SyntaxToken::invalid() || tk.kind() == SyntaxKind::EndOfFile) return;
        auto it = idxByByteOffset->find(tk.byteOffset_);
        seq[stack.empty() ? nullptr : stack.back()] += " t" + (it == idxByByteOffset->end() ? std::string("?") : std::to_string(it->second));
    }
};

template <class T> bool delimsOf(const SyntaxNodeList* l, std::vector<unsigned>& out)
{
    auto sl = dynamic_cast<const SyntaxNodeSeparatedList<T>*>(l);
    if (!sl) return false;
    for (auto it = sl; it; it = it->next) if (it->value) out.push_back(it->delimTkIdx_);
    return true;
}

std::string holderSeq(const SyntaxTree* tree, const SyntaxNode* n)
{
    std::string s;
    for (auto& h : n->childNodesAndTokens()) {
        switch (h.variant()) {
            case SyntaxHolder::Variant::Token:
                if (h.tokenIndex() != LexedTokens::invalidIndex() && tree->tokenAt(h.tokenIndex()).kind() != SyntaxKind::EndOfFile) s += " t" + std::to_string(h.tokenIndex());
                break;
            case SyntaxHolder::Variant::Node:
                if (h.node()) { std::ostringstream os; os << " n" << static_cast<const void*>(h.node()); s += os.str(); }
                break;
            case SyntaxHolder::Variant::NodeList: {
                if (!h.nodeList()) break;
                ElemCollector c(tree);
                const_cast<SyntaxNodeList*>(h.nodeList())->acceptVisitor(&c);
                std::vector<unsigned> d;
                auto l = h.nodeList();
                if (delimsOf<EnumeratorDeclarationSyntax*>(l, d) || delimsOf<ParameterDeclarationSyntax*>(l, d) || delimsOf<ExtGNU_AttributeSyntax*>(l, d)
                    || delimsOf<DeclaratorSyntax*>(l, d) || delimsOf<InitializerSyntax*>(l, d) || delimsOf<ExpressionSyntax*>(l, d)
                    || delimsOf<GenericAssociationSyntax*>(l, d) || delimsOf<ExtGNU_AsmOperandSyntax*>(l, d)) {}
                d.resize(c.elems.size(), 0);
                for (size_t i = 0; i < c.elems.size(); ++i) {
                    std::ostringstream os; os << " n" << static_cast<const void*>(c.elems[i]); s += os.str();
                    if (d[i] != 0 && d[i] != LexedTokens::invalidIndex()) s += " t" + std::to_string(d[i]);
                }
                break;
            }
        }
    }
    return s;
}

using TokSeq = std::vector<std::pair<SyntaxKind, std::string>>;
TokSeq tokensOf(const SyntaxTree* t)
{
    TokSeq v;
    for (unsigned i = 1; i < t->tokenCount(); ++i) {
        const SyntaxToken& tk = t->tokenAt(i);
        if (tk.kind() == SyntaxKind::EndOfFile) continue;
        v.emplace_back(tk.kind(), tk.valueText());
    }
    return v;
}

}  // namespace

static int roundtripMain(const std::vector<std::string>&, std::istream& in, std::ostream& out)
{
    std::string line;
    while (std::getline(in, line)) {
        auto w = splitWords(line);
        if (w.size() != 3) { out << "bad-case\n"; continue; }
        ParseOptions opts = decodeOptions(w[0]);
        SyntaxTree::SyntaxCategory cat = w[1] == "d" ? SyntaxTree::SyntaxCategory::Declarations : w[1] == "e" ? SyntaxTree::SyntaxCategory::Expressions
                                       : w[1] == "s" ? SyntaxTree::SyntaxCategory::Statements : SyntaxTree::SyntaxCategory::Any;
        std::string text = unhex(w[2]);
        std::unique_ptr<SyntaxTree> t1;
        try { t1 = SyntaxTree::parseText(SourceText(text), TextPreprocessingState::Preprocessed, TextCompleteness::Fragment, opts, "a.c", cat); }
        catch (...) { out << "skip exception\n"; continue; }
        if (!t1->rootNode()) { out << "skip no-root\n"; continue; }
        if (!t1->diagnostics().empty()) { out << "skip diags=" << diagIdsOf(t1.get()) << "\n"; continue; }
        // a fragment parser (expression / statement category) stops where its construct ends and leaves the rest of the text alone: such a
        // tree is not "the tree of the text" (C04 is about what is left over), so there is nothing to compare the unparsed text with
        if (t1->tokenCount() > 2) {
            auto lastTk = t1->rootNode()->lastToken();
            if (lastTk.byteOffset_ != t1->tokenAt(t1->tokenCount() - 2).byteOffset_) { out << "skip partial-parse\n"; continue; }
        }
        KindLister k1(t1.get());
        k1.visit(t1->rootNode());
        // an ambiguity node left in a mode that does not resolve every ambiguity is not C03's subject; in the resolving modes (the property's
        // "default disambiguation mode") a clean parse that still holds one is compared like any other tree (its unparsing repeats tokens)
        {
            // options spec "<std>,<kw>,<comments>,<disambiguation mode>,<flags>": modes 2 and 3 resolve every ambiguity
            size_t c1 = w[0].find(','), c2 = c1 == std::string::npos ? c1 : w[0].find(',', c1 + 1), c3 = c2 == std::string::npos ? c2 : w[0].find(',', c2 + 1);
            bool resolving = c3 != std::string::npos && c3 + 1 < w[0].size() && (w[0][c3 + 1] == '2' || w[0][c3 + 1] == '3');
            if (k1.ambiguous && !resolving) { out << "skip ambiguity-left\n"; continue; }
        }
        // the dumper against the child lists
        std::map<unsigned, unsigned> idx;
        for (unsigned i = 1; i < t1->tokenCount(); ++i) idx.emplace(t1->tokenAt(i).byteOffset_, i);
        RecDumper rd(t1.get(), &idx);
        rd.run(t1->rootNode());
        bool faithful = true;
        std::string unf;
        for (auto n : k1.nodes) {
            std::string a = rd.seq.count(n) ? rd.seq[n] : std::string(" <not visited>"), b = holderSeq(t1.get(), n);
            if (a != b && faithful) { faithful = false; unf = kindStr(n->kind()) + ":" + a + " /" + b; }
        }
        // unparse, lex and parse again
        std::ostringstream os;
        Unparser up(t1.get());
        up.unparse(t1->rootNode(), os);
        std::string text2 = os.str();
        std::unique_ptr<SyntaxTree> t2;
        try { t2 = SyntaxTree::parseText(SourceText(text2), TextPreprocessingState::Preprocessed, TextCompleteness::Fragment, opts, "b.c", cat); }
        catch (...) { out << "FAIL reparse=exception\n"; continue; }
        TokSeq s1 = tokensOf(t1.get()), s2 = tokensOf(t2.get());
        // "the source's token sequence, same spellings": the SOURCE BYTES of each token's extent are its spelling, on both sides - not what the
        // lexeme table answers (a table that hands out the lexeme of another, colliding spelling makes both sides of a lexeme-to-lexeme
        // comparison wrong in the same way) and not the canonical name of the token kind (`typeof' / `__typeof__', `<:' / `[' are one kind each)
        auto sourceSpell = [](SyntaxTree* t, const std::string& txt, TokSeq& seq) {
            size_t j = 0;
            for (unsigned i = 1; i < t->tokenCount() && j < seq.size(); ++i) {
                const SyntaxToken& tk = t->tokenAt(i);
                if (tk.kind() == SyntaxKind::EndOfFile) continue;
                if (tk.byteSize_ && tk.byteOffset_ + tk.byteSize_ <= txt.size()) {
                    std::string src = txt.substr(tk.byteOffset_, tk.byteSize_);
                    if (src.find('\\') == std::string::npos && src.find('?') == std::string::npos)       // no splice / trigraph inside the token
                        seq[j].second = src;
                }
                ++j;
            }
        };
        sourceSpell(t1.get(), text, s1);
        sourceSpell(t2.get(), text2, s2);
        std::string tokv = "ok";
        for (size_t i = 0; i < std::max(s1.size(), s2.size()); ++i) {
            if (i >= s1.size() || i >= s2.size() || s1[i] != s2[i]) {
                tokv = "diff@" + std::to_string(i) + ":" + (i < s1.size() ? hex(s1[i].second) : std::string("<end>")) + "/" + (i < s2.size() ? hex(s2[i].second) : std::string("<end>"));
                break;
            }
        }
        std::string rep = t2->diagnostics().empty() && t2->rootNode() ? "ok" : "diags:" + diagIdsOf(t2.get());
        std::string shape = "ok";
        if (t2->rootNode()) {
            KindLister k2(t2.get());
            k2.visit(t2->rootNode());
            for (size_t i = 0; i < std::max(k1.kinds.size(), k2.kinds.size()); ++i) {
                if (i >= k1.kinds.size() || i >= k2.kinds.size() || k1.kinds[i] != k2.kinds[i]) {
                    shape = "diff@" + std::to_string(i) + ":" + (i < k1.kinds.size() ? kindStr(k1.kinds[i]) : "<end>") + "/" + (i < k2.kinds.size() ? kindStr(k2.kinds[i]) : "<end>");
                    break;
                }
            }
        } else shape = "no-root";
        bool ok = tokv == "ok" && rep == "ok" && shape == "ok";
        out << (ok ? "ok" : "FAIL") << " ntok=" << s1.size() << " nodes=" << k1.kinds.size() << " faithful=" << (faithful ? 1 : 0) << " tokens=" << tokv
            << " reparse=" << rep << " shape=" << shape;
        if (!faithful) { for (auto& c : unf) if (c == ' ') c = '_'; out << " unfaithful=" << unf.substr(0, 300); }
        out << " kinds=";
        {   // distinct node kinds (coverage)
            std::map<std::string, int> ks; for (auto k : k1.kinds) ks[kindStr(k)]++;
            bool f = true; for (auto& kv : ks) { if (!f) out << ','; f = false; out << kv.first; }
        }
        out << "\n";
    }
    return 0;
}
PSYH_COMPONENT("roundtrip", roundtripMain);
