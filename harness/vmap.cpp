// C20: histories on the real psy::VersionedMap, instantiated at <int,int> and <std::string,int>.
#include "psyh.h"
#include "data-structures/VersionedMap.h"
#include <map>

template <class M, class KF>
static std::string runHistory(const std::vector<std::string>& ops, KF keyOf)
{
    M m;
    std::string out;
    for (auto& w : ops) {
        if (w[0] == 'i') {
            auto c = w.find(',');
            int k = std::stoi(w.substr(1, c - 1)), v = std::stoi(w.substr(c + 1));
            if (k % 2) m.insertOrAssign(keyOf(k), v);            // const& overload
            else { int vv = v; m.insertOrAssign(keyOf(k), std::move(vv)); }   // && overload
        } else if (w[0] == 's') {
            m.applyRevision((uint32_t)std::stoul(w.substr(1)));
        } else return "bad-op";
        std::map<int, int> sorted;
        for (auto it = m.begin(); it != m.end(); ++it) {
            int k;
            if constexpr (std::is_same<typename std::decay<decltype(it->first)>::type, std::string>::value)
                k = std::stoi(it->first.substr(1));
            else
                k = it->first;
            sorted[k] = it->second;
            auto f = m.find(it->first);               // find must agree with iteration
            if (f == m.end() || f->second != it->second) return "find-disagrees-with-iteration";
        }
        if (!out.empty()) out += ' ';
        out += std::to_string(m.revision()) + ":{";
        bool first = true;
        for (auto& kv : sorted) {
            if (!first) out += ';';
            first = false;
            out += std::to_string(kv.first) + "=" + std::to_string(kv.second);
        }
        out += "}";
    }
    return out;
}

static int vmapMain(const std::vector<std::string>&, std::istream& in, std::ostream& out)
{
    std::string line;
    while (std::getline(in, line)) {
        auto ops = splitWords(line);
        std::string a = runHistory<psy::VersionedMap<int, int>>(ops, [](int k) { return k; });
        std::string b = runHistory<psy::VersionedMap<std::string, int>>(ops, [](int k) { return "k" + std::to_string(k); });
        if (a != b) out << "INSTANCES-DIFFER int: " << a << " | string: " << b << "\n";
        else out << a << "\n";
    }
    return 0;
}
PSYH_COMPONENT("vmap", vmapMain);
