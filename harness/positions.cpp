// C16: positions of tokens and diagnostics.
// line: "<options> <hex text>" ->
//   "T <kind>@<charStart>=<line>:<col>/<locLine>:<locCol> ... | D <id>@<line>:<col>:<hex snippet> ... | L <line starts> | R <offset>:<N> ..."
#include "psy_common.h"
#include "common/diagnostics/Diagnostic.h"

static int positionsMain(const std::vector<std::string>&, std::istream& in, std::ostream& out)
{
    std::string line;
    while (std::getline(in, line)) {
        auto w = splitWords(line);
        if (w.size() != 2) { out << "bad-case\n"; continue; }
        ParseOptions opts = decodeOptions(w[0]);
        auto tree = SyntaxTree::parseText(SourceText(unhex(w[1])), TextPreprocessingState::Preprocessed, TextCompleteness::Fragment, opts, "f.c");
        out << "T";
        for (unsigned i = 1; i < tree->tokenCount(); ++i) {
            const SyntaxToken& tk = tree->tokenAt(i);
            LinePosition p = tree->computePosition(tk.charStart());
            Location loc = tk.location();
            auto ls = loc.lineSpan().span().start();
            out << ' ' << kindStr(tk.kind()) << '@' << tk.charStart() << '=' << p.line() << ':' << p.character()
                << '/' << ls.line() << ':' << ls.character();
        }
        out << " | D";
        for (auto& d : tree->diagnostics()) {
            auto s = d.location().lineSpan().span().start();
            out << ' ' << d.descriptor().id() << '@' << s.line() << ':' << s.character() << ':' << hex(d.snippet());
        }
        out << "\n";
    }
    return 0;
}
PSYH_COMPONENT("positions", positionsMain);
