// C10: what the scope recorded for every identifier use yields for a set of (name space, identifier) queries.
// line: "<phase 1..4> <queries: o:<name>,t:<name>,m:<name>,…> <hex text>"      o ordinary identifiers, t tags, m members
// answer: "U<line of the use>:<query>=<line of the declaration found | ->,… ; U… | diags=<ids>"   (uses in source order)
// A declaration is identified by the line of the first token of its declaring node (generated programs put one
// declaration per line).
#include "sema_common.h"
#include "C/syntax/SyntaxNodes.h"
#include "C/syntax/SyntaxVisitor.h"
#include <algorithm>
#include <map>

namespace {

struct UseCollector : SyntaxVisitor {
    using SyntaxVisitor::SyntaxVisitor;
    std::vector<const IdentifierNameSyntax*> uses;
    Action visitIdentifierName(const IdentifierNameSyntax* n) override { uses.push_back(n); return Action::Skip; }
};

unsigned lineOf(const std::string& text, size_t off);

struct DeclCollector : SyntaxVisitor {
    const SemanticModel* model;
    const std::string& text;
    std::map<const DeclarationSymbol*, unsigned> declLine;
    DeclCollector(const SyntaxTree* t, const SemanticModel* m, const std::string& src) : SyntaxVisitor(t), model(m), text(src) {}
    void note(const DeclarationSymbol* sym, const SyntaxNode* n)
    {
        if (!sym || !n) return;
        auto tk = n->firstToken();
        if (tk == SyntaxToken::invalid()) return;
        unsigned ln = lineOf(text, tk.byteOffset_);
        auto it = declLine.find(sym);
        if (it == declLine.end() || ln < it->second) declLine[sym] = ln;
    }
    Action visitIdentifierDeclarator(const IdentifierDeclaratorSyntax* n) override { note(model->declarationBy(n), n); return Action::Visit; }
    Action visitStructOrUnionDeclaration(const StructOrUnionDeclarationSyntax* n) override { note(model->structOrUnionFor(n), n); return Action::Visit; }
    Action visitEnumDeclaration(const EnumDeclarationSyntax* n) override { note(model->enumFor(n), n); return Action::Visit; }
    Action visitEnumeratorDeclaration(const EnumeratorDeclarationSyntax* n) override { note(model->enumeratorFor(n), n); return Action::Visit; }
};

unsigned lineOf(const std::string& text, size_t off)
{
    return 1 + static_cast<unsigned>(std::count(text.begin(), text.begin() + std::min(off, text.size()), '\n'));
}

}  // namespace

static int scopesMain(const std::vector<std::string>&, std::istream& in, std::ostream& out)
{
    std::string line;
    ParseOptions opts;
    while (std::getline(in, line)) {
        auto w = splitWords(line);
        if (w.size() != 3) { out << "bad-case\n"; continue; }
        std::string text = unhex(w[2]);
        std::vector<std::pair<NameSpace, std::string>> queries;
        {
            std::string cur;
            auto flush = [&] {
                if (cur.size() > 2) queries.emplace_back(cur[0] == 't' ? NameSpace::Tags : cur[0] == 'm' ? NameSpace::Members : NameSpace::OrdinaryIdentifiers, cur.substr(2));
                cur.clear();
            };
            for (char c : w[1]) { if (c == ',') flush(); else cur.push_back(c); }
            flush();
        }
        Analysis a = analyse(text, opts, w[0][0] - '0');
        if (!a.tree->hasTranslationUnitAsRootNode()) { out << "no-unit\n"; continue; }
        // declaration symbol -> line of its declaring node
        DeclCollector dc(a.tree, a.model, text);
        dc.visit(a.tree->rootNode());
        auto& declLine = dc.declLine;
        UseCollector uc(a.tree);
        uc.visit(a.tree->rootNode());
        bool first = true;
        for (auto u : uc.uses) {
            auto scope = a.model->scopeOf(u);
            if (!first) out << " ; ";
            first = false;
            out << 'U' << lineOf(text, u->identifierToken().byteOffset_) << ':';
            if (!scope) { out << "no-scope"; continue; }
            bool f2 = true;
            for (auto& q : queries) {
                auto id = a.tree->findIdentifier(q.second.c_str(), q.second.size());
                const DeclarationSymbol* d = id ? scope->searchForDeclaration(id, q.first) : nullptr;
                if (!f2) out << ',';
                f2 = false;
                out << (q.first == NameSpace::Tags ? 't' : q.first == NameSpace::Members ? 'm' : 'o') << ':' << q.second << '=';
                if (!d) out << '-';
                else {
                    auto it = declLine.find(d);
                    if (it == declLine.end()) out << '?'; else out << it->second;
                }
            }
        }
        if (first) out << '-';
        out << " | diags=" << diagIds(a.tree) << "\n";
    }
    return 0;
}
PSYH_COMPONENT("scopes", scopesMain);
