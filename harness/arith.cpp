// C13: (a) the real static conversion functions on BasicTypeKind pairs, (b) typeInfoOf of every
// expression statement of a program.
//   "conv <L> <R>"       -> "<performArithmeticConversions(L,R)>"
//   "promo <K>"          -> "<performIntegerPromotion(K)>"
//   "type <hex program>" -> one "<type sexpr>" per expression statement, blank separated, then "|" diag ids
#include "sema_common.h"
#include "C/sema/TypeChecker.h"
#include "C/sema/TypeInfo.h"
#include "C/syntax/SyntaxVisitor.h"
#include "C/syntax/SyntaxNodes.h"
#include <csignal>
#include <csetjmp>

static const BasicTypeKind kAll[] = {
    BasicTypeKind::Char, BasicTypeKind::Char_S, BasicTypeKind::Char_U, BasicTypeKind::Short_S, BasicTypeKind::Short_U,
    BasicTypeKind::Int_S, BasicTypeKind::Int_U, BasicTypeKind::Long_S, BasicTypeKind::Long_U, BasicTypeKind::LongLong_S,
    BasicTypeKind::LongLong_U, BasicTypeKind::Bool, BasicTypeKind::Float, BasicTypeKind::Double, BasicTypeKind::LongDouble,
    BasicTypeKind::FloatComplex, BasicTypeKind::DoubleComplex, BasicTypeKind::LongDoubleComplex };

static bool kindByName(const std::string& n, BasicTypeKind& k)
{
    for (auto x : kAll) if (n == basicKindName(x)) { k = x; return true; }
    return false;
}

struct StmtCollector : SyntaxVisitor {
    using SyntaxVisitor::SyntaxVisitor;
    std::vector<const ExpressionStatementSyntax*> stmts;
    Action visitExpressionStatement(const ExpressionStatementSyntax* n) override { stmts.push_back(n); return Action::Skip; }
};

static int arithMain(const std::vector<std::string>&, std::istream& in, std::ostream& out)
{
    std::string line;
    while (std::getline(in, line)) {
        auto w = splitWords(line);
        if (w.empty()) { out << "bad-case\n"; continue; }
        if (w[0] == "conv" && w.size() == 3) {
            BasicTypeKind l, r;
            if (!kindByName(w[1], l) || !kindByName(w[2], r)) { out << "bad-case\n"; continue; }
            out << basicKindName(TypeChecker::performArithmeticConversions(l, r)) << "\n";
        } else if (w[0] == "promo" && w.size() == 2) {
            BasicTypeKind k;
            if (!kindByName(w[1], k)) { out << "bad-case\n"; continue; }
            out << basicKindName(TypeChecker::performIntegerPromotion(k)) << "\n";
        } else if (w[0] == "type" && w.size() == 2) {
            ParseOptions opts;
            Analysis a = analyse(unhex(w[1]), opts, P_Check);
            StmtCollector c(a.tree);
            c.visit(a.tree->rootNode());
            std::string s;
            for (auto st : c.stmts) {
                std::string t = "no-expr";
                if (st->expression()) {
                    TypeInfo ti = a.model->typeInfoOf(st->expression());
                    t = ti.origin() == TypeInfo::Origin::Error ? std::string("ERR") : typeSexpr(ti.type());
                }
                for (auto& ch : t) if (ch == ' ') ch = '_';
                if (!s.empty()) s += ' ';
                s += t;
            }
            out << (s.empty() ? "none" : s) << " | " << diagIds(a.tree) << "\n";
        } else out << "bad-case\n";
    }
    return 0;
}
PSYH_COMPONENT("arith", arithMain);
