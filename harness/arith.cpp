// C13: (a) the real static conversion functions on BasicTypeKind pairs, (b) typeInfoOf of every
// expression statement of a program.
//   "conv <L> <R>"       -> "<performArithmeticConversions(L,R)>"
//   "promo <K>"          -> "<performIntegerPromotion(K)>"
//   "type <hex program>" -> one "<type sexpr>" per expression statement, blank separated, then "|" diag ids
#include "sema_common.h"
#include "C/sema/TypeChecker.h"
#include "C/sema/TypeInfo.h"
#include "C/syntax/SyntaxVisitor.h"
#include "C/syntax/SyntaxNodes.h"
#include <csignal>
#include <csetjmp>

static const BasicTypeKind kAll[] = {
    BasicTypeKind::Char, BasicTypeKind::Char_S, BasicTypeKind::Char_U, BasicTypeKind::Short_S, BasicTypeKind::Short_U,
    BasicTypeKind::Int_S, BasicTypeKind::Int_U, BasicTypeKind::Long_S, BasicTypeKind::Long_U, BasicTypeKind::LongLong_S,
    BasicTypeKind::LongLong_U, BasicTypeKind::Bool, BasicTypeKind::Float, BasicTypeKind::Double, BasicTypeKind::LongDouble,
    BasicTypeKind::FloatComplex, BasicTypeKind::DoubleComplex, BasicTypeKind::LongDoubleComplex };

static bool kindByName(const std::string& n, BasicTypeKind& k)
{
    for (auto x : kAll) if (n == basicKindName(x)) { k = x; return true; }
    return false;
}

struct StmtCollector : SyntaxVisitor {
    using SyntaxVisitor::SyntaxVisitor;
    std::vector<const ExpressionStatementSyntax*> stmts;
    Action visitExpressionStatement(const ExpressionStatementSyntax* n) override { stmts.push_back(n); return Action::Skip; }
};

static int arithMain(const std::vector<std::string>&, std::istream& in, std::ostream& out)
{
    std::string line;
    while (std::getline(in, line)) {
        auto w = splitWords(line);
        if (w.empty()) { out << "bad-case\n"; continue; }
        if (w[0] == "conv" && w.size() == 3) {
            BasicTypeKind l, r;
            if (!kindByName(w[1], l) || !kindByName(w[2], r)) { out << "bad-case\n"; continue; }
            out << basicKindName(TypeChecker::performArithmeticConversions(l, r)) << "\n";
        } else if (w[0] == "promo" && w.size() == 2) {
            BasicTypeKind k;
            if (!kindByName(w[1], k)) { out << "bad-case\n"; continue; }
            out << basicKindName(TypeChecker::performIntegerPromotion(k)) << "\n";
        } else if ((w[0] == "type" && w.size() == 2) || (w[0] == "ptype" && w.size() == 3)) {
            ParseOptions opts;
            // ptype <platform> <text>: the compilation is created with CONFIGURED platform options (widths int/long/long long)
            PlatformOptions plat;
            bool configured = w[0] == "ptype";
            if (configured) {
                int ib = w[1] == "ip16" ? 16 : 32, lb = w[1] == "lp64" ? 64 : 32, llb = 64;
                typedef PlatformOptions::ArithmeticIntegerType T;
                auto smax = [](int b) { return b >= 64 ? 0x7fffffffffffffffULL : ((1ULL << (b - 1)) - 1); };
                auto umax = [](int b) { return b >= 64 ? 0xffffffffffffffffULL : ((1ULL << b) - 1); };
                plat.setMaxValueOf(T::Char, 0x7f); plat.setMaxValueOf(T::Char_S, 0x7f); plat.setMaxValueOf(T::Char_U, 0xff);
                plat.setMaxValueOf(T::Short_S, 0x7fff); plat.setMaxValueOf(T::Short_U, 0xffff);
                plat.setMaxValueOf(T::Int_S, smax(ib)); plat.setMaxValueOf(T::Int_U, umax(ib));
                plat.setMaxValueOf(T::Long_S, smax(lb)); plat.setMaxValueOf(T::Long_U, umax(lb));
                plat.setMaxValueOf(T::LongLong_S, smax(llb)); plat.setMaxValueOf(T::LongLong_U, umax(llb));
                plat.setMaxValueOf(T::Bool, 1);
            }
            Analysis a = analyse(unhex(w[configured ? 2 : 1]), opts, P_Check, SyntaxTree::SyntaxCategory::Any, TextCompleteness::Fragment, configured ? &plat : nullptr);
            StmtCollector c(a.tree);
            c.visit(a.tree->rootNode());
            std::string s;
            for (auto st : c.stmts) {
                std::string t = "no-expr";
                if (st->expression()) {
                    TypeInfo ti = a.model->typeInfoOf(st->expression());
                    t = ti.origin() == TypeInfo::Origin::Error ? std::string("ERR") : typeSexpr(ti.type());
                }
                for (auto& ch : t) if (ch == ' ') ch = '_';
                if (!s.empty()) s += ' ';
                s += t;
            }
            out << (s.empty() ? "none" : s) << " | " << diagIds(a.tree) << "\n";
        } else out << "bad-case\n";
    }
    return 0;
}
PSYH_COMPONENT("arith", arithMain);
