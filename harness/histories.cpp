// C15: call histories over several trees in ONE compilation / one process.
// line: "<ops> <hex text 0> <hex text 1> …"    ops (comma separated): a<i> addSyntaxTree, c<i> computeSemanticModel, q<i> semanticModel (+dump)
// answer: "<op>=<dump hash>:<dump> ; …" for every q op, then " | final " with a dump of every added tree
//   dump = tree kinds (pre-order) # diagnostics in order # declarations with types # expression TypeInfo, nothing address-dependent
#include "sema_common.h"
#include "C/syntax/SyntaxNodes.h"
#include "C/syntax/SyntaxVisitor.h"
#include "C/sema/TypeInfo.h"
#include <functional>

namespace {

struct Shape : SyntaxVisitor {
    const SemanticModel* model;
    std::string kinds, infos;
    Shape(const SyntaxTree* t, const SemanticModel* m) : SyntaxVisitor(t), model(m) {}
    bool preVisit(const SyntaxNode* n) override { kinds += kindStr(n->kind()); kinds += ' '; return true; }
    void info(const ExpressionSyntax* e)
    {
        auto ti = model->typeInfoOf(e);
        std::string t = typeSexpr(ti.type());
        for (auto& c : t) if (c == ' ') c = '_';
        infos += kindStr(e->kind()) + "=" + t + "/" + std::to_string(int(ti.origin())) + "/" + std::to_string(int(ti.undergoneConversion())) + " ";
    }
    Action visitBinaryExpression(const BinaryExpressionSyntax* n) override { info(n); return Action::Visit; }
    Action visitAssignmentExpression(const AssignmentExpressionSyntax* n) override { info(n); return Action::Visit; }
    Action visitIdentifierName(const IdentifierNameSyntax* n) override { info(n); return Action::Visit; }
    Action visitConstantExpression(const ConstantExpressionSyntax* n) override { info(n); return Action::Visit; }
    Action visitStringLiteralExpression(const StringLiteralExpressionSyntax* n) override { info(n); return Action::Visit; }
    Action visitCallExpression(const CallExpressionSyntax* n) override { info(n); return Action::Visit; }
    Action visitCastExpression(const CastExpressionSyntax* n) override { info(n); return Action::Visit; }
    Action visitPrefixUnaryExpression(const PrefixUnaryExpressionSyntax* n) override { info(n); return Action::Visit; }
    Action visitPostfixUnaryExpression(const PostfixUnaryExpressionSyntax* n) override { info(n); return Action::Visit; }
    Action visitMemberAccessExpression(const MemberAccessExpressionSyntax* n) override { info(n); return Action::Visit; }
    Action visitArraySubscriptExpression(const ArraySubscriptExpressionSyntax* n) override { info(n); return Action::Visit; }
    Action visitConditionalExpression(const ConditionalExpressionSyntax* n) override { info(n); return Action::Visit; }
    Action visitParenthesizedExpression(const ParenthesizedExpressionSyntax* n) override { info(n); return Action::Visit; }
};

std::string dumpOf(const SyntaxTree* tree, const SemanticModel* model)
{
    std::string s;
    Shape sh(tree, model);
    if (tree->rootNode()) sh.visit(tree->rootNode());
    s += sh.kinds + "# ";
    for (auto& d : tree->diagnostics()) s += d.descriptor().id() + "@" + std::to_string(d.location().lineSpan().span().start().line()) + " ";
    s += "# ";
    for (auto d : allDeclarations(model)) {
        std::string t = typeSexpr(declType(d));
        for (auto& c : t) if (c == ' ') c = '_';
        s += std::string(symKindName(d->kind())) + ":" + declName(d) + ":" + t + " ";
    }
    s += "# " + sh.infos;
    return s;
}

}  // namespace

static int historiesMain(const std::vector<std::string>&, std::istream& in, std::ostream& out)
{
    std::string line;
    ParseOptions opts;
    while (std::getline(in, line)) {
        auto w = splitWords(line);
        if (w.size() < 2) { out << "bad-case\n"; continue; }
        std::vector<std::string> texts;
        for (size_t i = 1; i < w.size(); ++i) texts.push_back(unhex(w[i]));
        std::vector<std::unique_ptr<SyntaxTree>> pending(texts.size());
        std::vector<const SyntaxTree*> raw(texts.size(), nullptr);
        std::vector<bool> added(texts.size(), false);
        for (size_t i = 0; i < texts.size(); ++i) {
            pending[i] = SyntaxTree::parseText(SourceText(texts[i]), TextPreprocessingState::Preprocessed, TextCompleteness::Fragment, opts, "t" + std::to_string(i) + ".c");
            raw[i] = pending[i].get();
        }
        auto comp = Compilation::create("psyh");
        std::string ops = w[0], cur, ans;
        ops.push_back(',');
        bool bad = false;
        for (char c : ops) {
            if (c != ',') { cur.push_back(c); continue; }
            if (cur.size() < 2) { cur.clear(); continue; }
            size_t i = std::stoul(cur.substr(1));
            if (i >= texts.size()) { bad = true; break; }
            switch (cur[0]) {
                case 'a': if (pending[i]) { comp->addSyntaxTree(std::move(pending[i])); added[i] = true; } break;
                case 'c': if (added[i]) comp->computeSemanticModel(raw[i]); break;
                case 'q':
                    if (added[i]) {
                        auto m = comp->semanticModel(raw[i]);
                        std::string d = m ? dumpOf(raw[i], m) : std::string("<no model>");
                        ans += cur + "=" + std::to_string(std::hash<std::string>{}(d) % 1000003) + ":" + d + " ; ";
                    }
                    break;
                default: bad = true;
            }
            cur.clear();
        }
        if (bad) { out << "bad-case\n"; continue; }
        out << (ans.empty() ? "- ; " : ans) << "| final";
        for (size_t i = 0; i < texts.size(); ++i)
            if (added[i]) { auto m = comp->semanticModel(raw[i]); out << " ; t" << i << "=" << (m ? dumpOf(raw[i], m) : std::string("<no model>")); }
        out << "\n";
    }
    return 0;
}
PSYH_COMPONENT("histories", historiesMain);
