/-!
# Model of `common/text/TextElementTable.h` + `TextElement` (property C18)

* `elements_[0..count_]` ↦ `elements : List Bytes` (index = identity of the element object; the stored
  text is the `strncpy` image of the inserted characters, as in `TextElement::TextElement`)
* `buckets_` with the intrusive `next_` chains ↦ `buckets : List (List Nat)` — one list of element
  indices per bucket, newest first; `bucketCount_ = buckets.length`, `buckets_ == nullptr` ↦ `[]`
* `ElemT::hashCode` ↦ a parameter `h : Bytes → Nat` (every theorem is for all `h`)
* `allocated_` / `realloc` growth is not observable and not modelled.
-/
namespace PsycheModel.TextTable

abbrev Bytes := List UInt8

/-- `std::strncpy(chars_, chars, size)`: copy up to the first NUL, pad with NULs. -/
def strncpyImage (w : Bytes) : Bytes :=
  let pre := w.takeWhile (fun b => b != 0)
  pre ++ List.replicate (w.length - pre.length) 0

/-- `!std::strncmp(a, b, n)` on two buffers of the same length `n`: stops at a common NUL. -/
def strncmpEq : Bytes → Bytes → Bool
  | [], [] => true
  | a :: as, b :: bs => if a ≠ b then false else if a = 0 then true else strncmpEq as bs
  | _, _ => false

/-- `elem->size() == size && !strncmp(elem->c_str(), chars, size)` -/
def elemEq (e w : Bytes) : Bool := e.length == w.length && strncmpEq e w

structure St where
  elements : List Bytes := []
  buckets : List (List Nat) := []

def init : St := {}

def push : List (List Nat) → Nat → Nat → List (List Nat)
  | [], _, _ => []
  | c :: cs, 0, i => (i :: c) :: cs
  | c :: cs, b + 1, i => c :: push cs b i

def chainAt (bs : List (List Nat)) (b : Nat) : List Nat := bs.getD b []

variable (h : Bytes → Nat)

/-- the `for (; elem; elem = elem->next_)` loop of `find` -/
def findIn (els : List Bytes) (w : Bytes) : List Nat → Option Nat
  | [] => none
  | i :: rest =>
    match els[i]? with
    | some e => if elemEq e w then some i else findIn els w rest
    | none => findIn els w rest

def find (s : St) (w : Bytes) : Option Nat :=
  if s.buckets.length = 0 then none
  else findIn s.elements w (chainAt s.buckets (h w % s.buckets.length))

/-- `rehash()`: double (or start at 4) and re-chain every element in index order. -/
def rehashFrom (els : List Bytes) (n : Nat) : List (List Nat) → Nat → List (List Nat)
  | bs, 0 => bs
  | bs, k + 1 =>
    let i := n - (k + 1)
    rehashFrom els n (push bs (h (els.getD i []) % bs.length) i) k

def rehash (els : List Bytes) (oldCount : Nat) : List (List Nat) :=
  let bc := if oldCount = 0 then 4 else oldCount * 2
  rehashFrom h els els.length (List.replicate bc []) els.length

def findOrInsert (s : St) (w : Bytes) : St × Nat :=
  match find h s w with
  | some i => (s, i)
  | none =>
    let idx := s.elements.length            -- `++count_`
    let e := strncpyImage w
    let els := s.elements ++ [e]
    if s.buckets.length = 0 ∨ idx * 5 ≥ s.buckets.length * 3 then
      ({ elements := els, buckets := rehash h els s.buckets.length }, idx)
    else
      ({ elements := els, buckets := push s.buckets (h e % s.buckets.length) idx }, idx)

/-- a history of `findOrInsert` calls: final state and the identities returned, in call order -/
def runFrom (s : St) : List Bytes → St × List Nat
  | [] => (s, [])
  | w :: t =>
    let r := findOrInsert h s w
    let q := runFrom r.1 t
    (q.1, r.2 :: q.2)

def run (ws : List Bytes) : St × List Nat := runFrom h init ws

def NulFree (w : Bytes) : Prop := ∀ b ∈ w, b ≠ 0

instance (w : Bytes) : Decidable (NulFree w) := by unfold NulFree; infer_instance

end PsycheModel.TextTable
