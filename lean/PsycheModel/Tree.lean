/-!
# Generic model of the syntax tree (properties C14, C03, C09)

A node has an ordered list of *holders* (`SyntaxNode::childNodesAndTokens()`): a token index (0 = no token),
a child node (possibly null), or a node list whose elements carry an optional delimiter token.
`firstToken` / `lastToken` / `findValidToken` (`SyntaxNode.cpp`), the list versions (`SyntaxNodeList.h`) and the
visitor protocol (`acceptVisitor`, `acceptVisitorInChildNodes`, list `acceptVisitor`) are transcribed.
The three types are mutually inductive (no nested `List`) so that every function is structurally recursive.
-/
namespace PsycheModel.Tree

mutual
inductive Tree where
  | mk (id : Nat) (kind : Nat) (hs : Holders)
inductive Holders where
  | nil
  | tok (i : Nat) (rest : Holders)
  | null (rest : Holders)                       -- a null child node
  | node (t : Tree) (rest : Holders)
  | list (es : Elems) (rest : Holders)
inductive Elems where
  | nil
  | cons (t : Tree) (delim : Nat) (rest : Elems)
end

instance : Inhabited Holders := ⟨.nil⟩
instance : Inhabited Elems := ⟨.nil⟩
instance : Inhabited Tree := ⟨.mk 0 0 .nil⟩

def orElse (a b : Option Nat) : Option Nat := match a with | some x => some x | none => b

mutual
/-- `SyntaxNode::firstToken()` = `findValidToken(childNodesAndTokens())` -/
def first : Tree → Option Nat
  | .mk _ _ hs => firstH hs
def firstH : Holders → Option Nat
  | .nil => none
  | .tok i rest => if i ≠ 0 then some i else firstH rest
  | .null rest => firstH rest
  | .node t rest => orElse (first t) (firstH rest)
  | .list es rest => orElse (firstE es) (firstH rest)
/-- `CoreSyntaxNodeList::firstToken()`: the first element that has a valid token -/
def firstE : Elems → Option Nat
  | .nil => none
  | .cons t _ rest => orElse (first t) (firstE rest)
end

mutual
/-- `SyntaxNode::lastToken()`: the holders in reverse order, children asked for their last token -/
def last : Tree → Option Nat
  | .mk _ _ hs => lastH hs
def lastH : Holders → Option Nat
  | .nil => none
  | .tok i rest => orElse (lastH rest) (if i ≠ 0 then some i else none)
  | .null rest => lastH rest
  | .node t rest => orElse (lastH rest) (last t)
  | .list es rest => orElse (lastH rest) (lastE es)
/-- `CoreSyntaxNodeList::lastToken()`: the last element that has a valid token -/
def lastE : Elems → Option Nat
  | .nil => none
  | .cons t _ rest => orElse (lastE rest) (last t)
end

mutual
/-- the token indices owned by the nodes of the subtree, in holder order (list delimiters belong to the list
structure, not to a node, and are listed by `allTokens` only) -/
def tokens : Tree → List Nat
  | .mk _ _ hs => tokensH hs
def tokensH : Holders → List Nat
  | .nil => []
  | .tok i rest => if i ≠ 0 then i :: tokensH rest else tokensH rest
  | .null rest => tokensH rest
  | .node t rest => tokens t ++ tokensH rest
  | .list es rest => tokensE es ++ tokensH rest
def tokensE : Elems → List Nat
  | .nil => []
  | .cons t _ rest => tokens t ++ tokensE rest
end

mutual
/-- every token of the subtree in source order, delimiters included (used by C03) -/
def allTokens : Tree → List Nat
  | .mk _ _ hs => allTokensH hs
def allTokensH : Holders → List Nat
  | .nil => []
  | .tok i rest => if i ≠ 0 then i :: allTokensH rest else allTokensH rest
  | .null rest => allTokensH rest
  | .node t rest => allTokens t ++ allTokensH rest
  | .list es rest => allTokensE es ++ allTokensH rest
def allTokensE : Elems → List Nat
  | .nil => []
  | .cons t d rest => allTokens t ++ (if d ≠ 0 then d :: allTokensE rest else allTokensE rest)
end

mutual
/-- the nodes of the subtree in pre-order (ids) -/
def nodes : Tree → List Nat
  | .mk id _ hs => id :: nodesH hs
def nodesH : Holders → List Nat
  | .nil => []
  | .tok _ rest => nodesH rest
  | .null rest => nodesH rest
  | .node t rest => nodes t ++ nodesH rest
  | .list es rest => nodesE es ++ nodesH rest
def nodesE : Elems → List Nat
  | .nil => []
  | .cons t _ rest => nodes t ++ nodesE rest
end

mutual
/-- all subtrees, pre-order -/
def subtrees : Tree → List Tree
  | .mk id k hs => .mk id k hs :: subtreesH hs
def subtreesH : Holders → List Tree
  | .nil => []
  | .tok _ rest => subtreesH rest
  | .null rest => subtreesH rest
  | .node t rest => subtrees t ++ subtreesH rest
  | .list es rest => subtreesE es ++ subtreesH rest
def subtreesE : Elems → List Tree
  | .nil => []
  | .cons t _ rest => subtrees t ++ subtreesE rest
end

/-! ## Visitor protocol -/

inductive Action where | visit | skip | quit
  deriving DecidableEq, Repr

mutual
/-- `SyntaxNode::acceptVisitor` for a visitor whose `preVisit` returns true and whose `visitX` return `Visit`
(a full traversal): returns the resulting action and the ids for which `preVisit` was called, in call order -/
def accept : Tree → Action × List Nat
  | .mk id _ hs =>
    -- preVisit(this) = true; dispatchVisit = Visit; acceptVisitorInChildNodes; postVisit
    let r := acceptH hs
    (r.1, id :: r.2)
/-- the loop of `acceptVisitorInChildNodes` -/
def acceptH : Holders → Action × List Nat
  | .nil => (.visit, [])
  | .tok _ rest => acceptH rest
  | .null rest => acceptH rest
  | .node t rest =>
    let r := accept t
    match r.1 with
    | .quit => (.quit, r.2)
    | .skip => (.visit, r.2)
    | .visit => let q := acceptH rest; (q.1, r.2 ++ q.2)
  | .list es rest =>
    let r := acceptE es
    match r.1 with
    | .quit => (.quit, r.2)
    | .skip => (.visit, r.2)
    | .visit => let q := acceptH rest; (q.1, r.2 ++ q.2)
/-- `CoreSyntaxNodeList::acceptVisitor` -/
def acceptE : Elems → Action × List Nat
  | .nil => (.visit, [])
  | .cons t _ rest =>
    let r := accept t
    match r.1 with
    | .quit => (.quit, r.2)
    | _ => let q := acceptE rest; (q.1, r.2 ++ q.2)
end

/-! ## Hypothesis (decidable; monitored on every real tree by the correspondence run) -/

/-- the property's sibling clause: tokens appear in strictly increasing source order along the holders -/
def Ordered (t : Tree) : Prop := (tokens t).Pairwise (· < ·)

instance (t : Tree) : Decidable (Ordered t) := by unfold Ordered; infer_instance

end PsycheModel.Tree
