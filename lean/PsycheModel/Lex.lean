import PsycheModel.Generated.SyntaxKind
/-!
# Model of the lexer (C/parser/Lexer.cpp)

The text is first cut into the *code points the lexer steps over* (`segment`): `Lexer::yyinput_CORE` looks at
the lead byte only, derives a number of trail bytes from its high bits and jumps over that many bytes (fewer
when the text ends first), whatever they are.  Every decision of the lexer looks at `yychar_`, the lead byte
of the current code point, and every movement goes through `yyinput`, so the lexer is a function of the list
of `Cp`s; the byte and UTF-16 extents of a token are the sums over the code points it consumed.

Each sub-lexer of Lexer.cpp is one function here, taking the remaining input and returning what remains after
it (`S → S`).  Loops whose body may consume more than one code point (`lexUntilQuote`, `lexSingleLineComment`,
the re-entry of `yylex_CORE` after a discarded comment, `Lexer::lex` itself) take a fuel argument; the callers
pass the length of the input, which always suffices because every iteration consumes at least one code point.

Not modelled: the continuation of a token split across two buffers (`syntaxK_splitTk`: in one buffer it is
only ever set when the text has ended, and the next token is then `EndOfFile` on either path), the Qt-Creator
`# expansion` marker lines (the model answers `none` for a text that has one), `matchingBracket_`,
line/column bookkeeping (C16), diagnostics.
-/
namespace PsycheModel.Lex
open PsycheModel.Generated (Kind)

/-- a code point as the lexer steps over it: its lead byte and all the bytes one `yyinput` jumps (lead included) -/
structure Cp where
  c : Nat
  bytes : List Nat
deriving DecidableEq, Repr

abbrev S := List Cp

/-- `trailBytesCurCP` of `yyinput_CORE`: 1 + the number of leading one bits of `(unsigned char)(lead << 2)` -/
def trail (b : Nat) : Nat :=
  let c := (b * 4) % 256
  if c < 128 then 1 else if c < 192 then 2 else if c < 224 then 3 else if c < 240 then 4
  else if c < 248 then 5 else if c < 252 then 6 else 7

def skipOf (b : Nat) : Nat := if 128 ≤ b then trail b else 0

/-- UTF-16 code units counted for one step -/
def Cp.units (p : Cp) : Nat := if 128 ≤ p.c ∧ 3 ≤ trail p.c then 2 else 1

def segGo : List Nat → Nat → List Nat → Nat → List Cp
  | [], lead, acc, _ => [⟨lead, acc.reverse⟩]
  | b :: r, lead, acc, k + 1 => segGo r lead (b :: acc) k
  | b :: r, lead, acc, 0 => ⟨lead, acc.reverse⟩ :: segGo r b [b] (skipOf b)

/-- the code points `yyinput` visits, from the start of the text -/
def segment : List Nat → S
  | [] => []
  | b :: r => segGo r b [b] (skipOf b)

def bytesOf (s : S) : List Nat := s.flatMap (·.bytes)
def unitsOf (s : S) : Nat := (s.map Cp.units).sum

/-! ## character classes (`<cctype>` in the "C" locale on `unsigned char`) -/
def isSpace (b : Nat) : Bool := b == 32 || (9 ≤ b && b ≤ 13)
def isDigit (b : Nat) : Bool := 48 ≤ b && b ≤ 57
def isAlpha (b : Nat) : Bool := (65 ≤ b && b ≤ 90) || (97 ≤ b && b ≤ 122)
def isAlnum (b : Nat) : Bool := isDigit b || isAlpha b
def isIdStart (b : Nat) : Bool := isAlpha b || b == 95 || b == 36 || 128 ≤ b
def isIdCont (b : Nat) : Bool := isAlnum b || b == 95 || b == 36 || 128 ≤ b
def isHexDigit (b : Nat) : Bool := isDigit b || (97 ≤ b && b ≤ 102) || (65 ≤ b && b ≤ 70)
def isOctDigit (b : Nat) : Bool := 48 ≤ b && b ≤ 55
def isBinDigit (b : Nat) : Bool := b == 48 || b == 49
def isBlank (b : Nat) : Bool := b != 10 && isSpace b
def isWordTail (b : Nat) : Bool := isAlnum b || b == 95
def isImag (b : Nat) : Bool := b == 105 || b == 106

/-- `yychar_` (0 once the text has ended) -/
def hd : S → Nat
  | [] => 0
  | c :: _ => c.c

/-- `yyinput()` -/
def step : S → S
  | [] => []
  | _ :: r => r

/-- `while (p(yychar_)) yyinput();` -/
def dw (p : Nat → Bool) (s : S) : S := s.dropWhile (fun c => p c.c)

/-! ## numeric constants -/

def intSuffix : Nat → S → S
  | 0, s => s
  | _ + 1, [] => []
  | n + 1, c :: r =>
    if c.c == 117 || c.c == 85 then
      (if hd r == 108 || hd r == 76 then intSuffix n r else r)
    else if c.c == 108 then
      let r1 := if hd r == 108 then step r else r
      if hd r1 == 117 || hd r1 == 85 then intSuffix n r1 else r1
    else if c.c == 76 then
      let r1 := if hd r == 76 then step r else r
      if hd r1 == 117 || hd r1 == 85 then intSuffix n r1 else r1
    else c :: r

/-- `lexIntegerOrFloating_AtFollowOfSuffix` -/
def afterSuffix (k : Kind) (s : S) : Kind × S :=
  if isWordTail (hd s) then (Kind.Error, dw isWordTail s) else (k, s)

/-- `lexIntegerOrImaginaryIntegerSuffix` -/
def intTail (s : S) : Kind × S :=
  if isImag (hd s) then afterSuffix .ImaginaryIntegerConstantToken (intSuffix 2 (step s))
  else
    let s1 := intSuffix 2 s
    if isImag (hd s1) then afterSuffix .ImaginaryIntegerConstantToken (step s1)
    else afterSuffix .IntegerConstantToken s1

def floatSuffix (s : S) : S :=
  if hd s == 102 || hd s == 108 || hd s == 70 || hd s == 76 then step s else s

/-- `lexFloatingOrImaginaryFloatingSuffix` -/
def floatTail (s : S) : Kind × S :=
  if isImag (hd s) then afterSuffix .ImaginaryFloatingConstantToken (floatSuffix (step s))
  else
    let s1 := floatSuffix s
    if isImag (hd s1) then afterSuffix .ImaginaryFloatingConstantToken (step s1)
    else afterSuffix .FloatingConstantToken s1

def sign (s : S) : S := if hd s == 43 || hd s == 45 then step s else s
def digitSeq (s : S) : S := dw isDigit s
def exponent (s : S) : S := if hd s == 101 || hd s == 69 then digitSeq (sign (step s)) else s
def binExponent (s : S) : S := if hd s == 112 || hd s == 80 then digitSeq (sign (step s)) else s
def afterPeriod (s : S) : Kind × S := floatTail (exponent (digitSeq s))
def atExponent (s : S) : Kind × S := floatTail (exponent s)

/-- the `while (yychar_)` loop of `lexIntegerOrFloatingConstant` -/
def decimal : S → Kind × S
  | [] => intTail []
  | c :: r =>
    if c.c == 46 then afterPeriod r
    else if c.c == 101 || c.c == 69 then atExponent (c :: r)
    else if !isDigit c.c then intTail (c :: r)
    else decimal r

/-- `lexIntegerOrFloatingConstant`, entered after the first digit `first` -/
def number (first : Nat) (r : S) : Kind × S :=
  if first == 48 then
    if hd r == 120 || hd r == 88 then
      let r1 := dw isHexDigit (step r)
      if hd r1 == 46 || hd r1 == 112 || hd r1 == 80 then
        let r2 := if hd r1 == 46 then dw isHexDigit (step r1) else r1
        floatTail (binExponent r2)
      else intTail r1
    else if hd r == 98 || hd r == 66 then intTail (dw isBinDigit (step r))
    else if isOctDigit (hd r) then
      let r1 := dw isOctDigit r
      if isDigit (hd r1) || hd r1 == 46 || hd r1 == 101 || hd r1 == 69 then decimal r1 else intTail r1
    else decimal r
  else decimal r

/-! ## quoted literals and comments -/

/-- `lexBackslash`, entered AT the backslash -/
def lexBackslash (s : S) : S :=
  match step s with
  | [] => []
  | c :: r' =>
    if !isSpace c.c then r'
    else
      match dw isBlank (c :: r') with
      | [] => []
      | d :: r2 => if d.c == 10 then dw isBlank r2 else d :: r2

/-- the loop of `lexUntilQuote` followed by the optional closing quote -/
def untilQuoteF (q : Nat) : Nat → S → S
  | 0, s => s
  | _ + 1, [] => []
  | f + 1, c :: r =>
    if c.c == q then r
    else if c.c == 10 then c :: r
    else if c.c == 92 then untilQuoteF q f (lexBackslash (c :: r))
    else untilQuoteF q f r

def untilQuote (q : Nat) (s : S) : S := untilQuoteF q (s.length + 1) s

/-- `lexSingleLineComment` -/
def lineCommentF : Nat → S → S
  | 0, s => s
  | _ + 1, [] => []
  | f + 1, c :: r =>
    if c.c == 10 then c :: r
    else if c.c == 92 then lineCommentF f (lexBackslash (c :: r))
    else lineCommentF f r

def lineComment (s : S) : S := lineCommentF (s.length + 1) s

/-- the `while (yychar_)` loop of a block comment and the step over the closing `/` -/
def blockEnd : S → S
  | [] => []
  | c :: r =>
    if c.c == 42 then
      (match r with
       | [] => []
       | d :: r' => if d.c == 47 then r' else blockEnd r)
    else blockEnd r

/-- the loop of `lexRawStringLiteral`: `n` bytes consumed so far, `dl` = delimLeng, `cand` = offset of delimCandidate -/
def rawGo (raw : List Nat) : S → Nat → Option Nat → Option Nat → S × Nat
  | [], n, _, _ => ([], n)
  | c :: r, n, dl, cand =>
    let n' := n + c.bytes.length
    if c.c == 40 && dl.isNone then rawGo raw r n' (some n) cand
    else if c.c == 41 then (if dl.isNone then (r, n') else rawGo raw r n' dl (some n'))
    else
      match dl with
      | none => if c.c == 92 || isSpace c.c then (c :: r, n) else rawGo raw r n' none cand
      | some d =>
        match cand with
        | none => rawGo raw r n' dl none
        | some k =>
          if c.c == 34 && d == n - k then (c :: r, n)
          else
            let x := raw.getD (n - k) 0     -- a `char`: bytes ≥ 128 are negative and never equal `yychar_`
            rawGo raw r n' dl (if c.c != x || 128 ≤ x then none else cand)

/-- `lexRawStringLiteral`: the remaining input and the lexeme text -/
def rawString (s : S) : S × List Nat :=
  let raw := bytesOf s
  let (s1, n) := rawGo raw s 0 none none
  (if hd s1 == 34 then step s1 else s1, raw.take n)

/-! ## one token -/

def charKind (prefix_ : Nat) : Kind :=
  if prefix_ == 76 then .CharacterConstant_L_Token else if prefix_ == 85 then .CharacterConstant_U_Token
  else if prefix_ == 117 then .CharacterConstant_u_Token else .CharacterConstantToken

def stringKind (prefix_ : Nat) : Kind :=
  if prefix_ == 76 then .StringLiteral_L_Token else if prefix_ == 85 then .StringLiteral_U_Token
  else if prefix_ == 117 then .StringLiteral_u_Token else if prefix_ == 56 then .StringLiteral_u8_Token
  else .StringLiteralToken

def rawKind (prefix_ : Nat) : Kind :=
  if prefix_ == 76 then .StringLiteral_LR_Token else if prefix_ == 85 then .StringLiteral_UR_Token
  else if prefix_ == 117 then .StringLiteral_uR_Token else if prefix_ == 56 then .StringLiteral_u8R_Token
  else .StringLiteral_R_Token

/-- what a call of the big `switch` produced -/
structure Out where
  kind : Kind
  rest : S
  /-- lexeme text when it is not the whole token (raw strings) -/
  lexeme : Option (List Nat) := none
  /-- spelling handed to the keyword recogniser (identifier-like tokens) -/
  word : Bool := false

def rawOut (prefix_ : Nat) (s : S) : Out :=
  let (r, lx) := rawString s
  { kind := rawKind prefix_, rest := r, lexeme := some lx }

/-- `lexIdentifier` -/
def ident (s : S) : Out := { kind := .IdentifierToken, rest := dw isIdCont s, word := true }

/-- the block comment after `/` `*` has been seen (`r` starts after the `*`): kind and the rest after the comment -/
def blockComment (r : S) : Kind × S :=
  if hd r == 42 || hd r == 33 then
    let r1 := step r
    if hd r == 42 && hd r1 == 47 then (.MultiLineCommentTrivia, step r1)          -- "/**/"
    else
      let r2 := if hd r1 == 60 then step r1 else r1
      let k := if hd r2 == 0 || isSpace (hd r2) then Kind.MultiLineDocumentationCommentTrivia else .MultiLineCommentTrivia
      (k, blockEnd r2)
  else if hd r == 46 then (.Keyword_ExtPSY_omission, blockEnd (dw (· == 46) r))
  else (.MultiLineCommentTrivia, blockEnd r)

/-- the `switch (ch)` of `yylex_CORE` for a `ch` that is neither white space nor a backslash; `r` = text after `ch` -/
def tokenAt (ch : Nat) (r : S) : Out :=
  let k1 (k : Kind) : Out := { kind := k, rest := r }
  let k2 (k : Kind) : Out := { kind := k, rest := step r }
  let k3 (k : Kind) : Out := { kind := k, rest := step (step r) }
  let y := hd r
  if ch == 34 then { kind := stringKind 0, rest := untilQuote 34 r }
  else if ch == 39 then { kind := charKind 0, rest := untilQuote 39 r }
  else if ch == 123 then k1 .OpenBraceToken
  else if ch == 125 then k1 .CloseBraceToken
  else if ch == 91 then k1 .OpenBracketToken
  else if ch == 93 then k1 .CloseBracketToken
  else if ch == 35 then (if y == 35 then k2 .HashHashToken else k1 .HashToken)
  else if ch == 40 then k1 .OpenParenToken
  else if ch == 41 then k1 .CloseParenToken
  else if ch == 59 then k1 .SemicolonToken
  else if ch == 58 then (if y == 62 then k2 .CloseBracketToken else k1 .ColonToken)
  else if ch == 46 then
    (if y == 46 && hd (step r) == 46 then k3 .EllipsisToken
     else if isDigit y then (let (k, s) := afterPeriod r; { kind := k, rest := s })
     else k1 .DotToken)
  else if ch == 63 then
    (if y == 63 && (hd (step r) == 40 || hd (step r) == 41 || hd (step r) == 60 || hd (step r) == 62) then
      (if hd (step r) == 40 then k3 .OpenBracketToken
       else if hd (step r) == 41 then k3 .CloseBracketToken
       else if hd (step r) == 60 then k3 .OpenBraceToken
       else k3 .CloseBraceToken)
     else k1 .QuestionToken)
  else if ch == 43 then (if y == 43 then k2 .PlusPlusToken else if y == 61 then k2 .PlusEqualsToken else k1 .PlusToken)
  else if ch == 45 then
    (if y == 45 then k2 .MinusMinusToken else if y == 61 then k2 .MinusEqualsToken
     else if y == 62 then k2 .ArrowToken else k1 .MinusToken)
  else if ch == 42 then (if y == 61 then k2 .AsteriskEqualsToken else k1 .AsteriskToken)
  else if ch == 47 then
    (if y == 47 then
      (let r1 := step r
       if hd r1 == 47 || hd r1 == 33 then { kind := .SingleLineDocumentationCommentTrivia, rest := lineComment (step r1) }
       else { kind := .SingleLineCommentTrivia, rest := lineComment r1 })
     else if y == 42 then (let (k, s) := blockComment (step r); { kind := k, rest := s })
     else if y == 61 then k2 .SlashEqualsToken
     else k1 .SlashToken)
  else if ch == 37 then
    (if y == 61 then k2 .PercentEqualsToken
     else if y == 62 then k2 .CloseBraceToken
     else if y == 58 then
      (let r1 := step r
       if hd r1 == 37 && hd (step r1) == 58 then { kind := .HashHashToken, rest := step (step r1) }
       else { kind := .HashToken, rest := r1 })
     else k1 .PercentToken)
  else if ch == 94 then (if y == 61 then k2 .CaretEqualsToken else k1 .CaretToken)
  else if ch == 38 then
    (if y == 38 then k2 .AmpersandAmpersandToken else if y == 61 then k2 .AmpersandEqualsToken else k1 .AmpersandToken)
  else if ch == 124 then (if y == 124 then k2 .BarBarToken else if y == 61 then k2 .BarEqualsToken else k1 .BarToken)
  else if ch == 126 then k1 .TildeToken
  else if ch == 33 then (if y == 61 then k2 .ExclamationEqualsToken else k1 .ExclamationToken)
  else if ch == 61 then (if y == 61 then k2 .EqualsEqualsToken else k1 .EqualsToken)
  else if ch == 60 then
    (if y == 60 then (if hd (step r) == 61 then k3 .LessThanLessThanEqualsToken else k2 .LessThanLessThanToken)
     else if y == 61 then k2 .LessThanEqualsToken
     else if y == 58 then k2 .OpenBracketToken
     else if y == 37 then k2 .OpenBraceToken
     else k1 .LessThanToken)
  else if ch == 62 then
    (if y == 62 then (if hd (step r) == 61 then k3 .GreaterThanGreaterThanEqualsToken else k2 .GreaterThanGreaterThanToken)
     else if y == 61 then k2 .GreaterThanEqualsToken
     else k1 .GreaterThanToken)
  else if ch == 44 then k1 .CommaToken
  else if ch == 76 || ch == 117 || ch == 85 || ch == 82 then
    (if y == 34 then (if ch == 82 then rawOut 0 (step r) else { kind := stringKind ch, rest := untilQuote 34 (step r) })
     else if ch != 82 && y == 39 then { kind := charKind ch, rest := untilQuote 39 (step r) }
     else if ch != 82 && y == 82 then
      (if hd (step r) == 34 then rawOut ch (step (step r)) else ident (step r))
     else if ch == 117 && y == 56 then
      (let r1 := step r
       if hd r1 == 34 then { kind := stringKind 56, rest := untilQuote 34 (step r1) }
       else if hd r1 == 39 then { kind := charKind 56, rest := untilQuote 39 (step r1) }
       else if hd r1 == 82 then
        (if hd (step r1) == 34 then rawOut 56 (step (step r1)) else ident (step r1))
       else ident r1)
     else ident r)
  else if isIdStart ch then ident r
  else if isDigit ch then (let (k, s) := number ch r; { kind := k, rest := s })
  else k1 .Error

def isComment (k : Kind) : Bool :=
  k matches .MultiLineCommentTrivia | .MultiLineDocumentationCommentTrivia | .SingleLineCommentTrivia
    | .SingleLineDocumentationCommentTrivia | .Keyword_ExtPSY_omission

def hasLexeme (k : Kind) : Bool :=
  k matches .IdentifierToken | .IntegerConstantToken | .FloatingConstantToken | .ImaginaryIntegerConstantToken
    | .ImaginaryFloatingConstantToken | .CharacterConstantToken | .CharacterConstant_L_Token
    | .CharacterConstant_u_Token | .CharacterConstant_U_Token | .StringLiteralToken | .StringLiteral_L_Token
    | .StringLiteral_u8_Token | .StringLiteral_u_Token | .StringLiteral_U_Token | .StringLiteral_R_Token
    | .StringLiteral_LR_Token | .StringLiteral_u8R_Token | .StringLiteral_uR_Token | .StringLiteral_UR_Token

structure Flags where
  sol : Bool := false
  ws : Bool := false
  joined : Bool := false
deriving DecidableEq, Repr

/-- a token as `yylex` leaves it: `start` = the text from its first code point on, `rest` = the text after it
(both are suffixes of the whole text; the extent of the token is what lies between them) -/
structure Tok where
  kind : Kind
  start : S
  rest : S
  flags : Flags
  lexeme : Option (List Nat)

/-- the code points consumed between `s` and its suffix `rest` -/
def consumed (s rest : S) : S := s.take (s.length - rest.length)

def Tok.cps (t : Tok) : S := consumed t.start t.rest

/-- byte offset and size of a token in a text of `total` bytes (what `psymodel lex` prints) -/
def Tok.off (total : Nat) (t : Tok) : Nat := total - (bytesOf t.start).length
def Tok.size (t : Tok) : Nat := (bytesOf t.cps).length

/-- lexer configuration: comments discarded?  kind of an identifier-like spelling (keyword tables + options, C17) -/
structure Cfg where
  discard : Bool
  idKind : List Nat → Kind

/-- `yylex_CORE` with its `goto LexEntry` re-entries: token start, outcome of the switch, flags.
`w` = `withinLogicalLine_`, which never survives a call. -/
def coreF (cfg : Cfg) : Nat → S → Bool → Flags → S × Out × Flags
  | 0, s, _, fl => (s, { kind := .EndOfFile, rest := s }, fl)
  | _ + 1, [], _, fl => ([], { kind := .EndOfFile, rest := [] }, fl)
  | f + 1, c :: r, w, fl =>
    if isSpace c.c then
      (if c.c == 10 then coreF cfg f r false { fl with sol := !w, joined := w }
       else coreF cfg f r w { fl with ws := true })
    else if c.c == 92 then coreF cfg f r true fl
    else
      let o := tokenAt c.c r
      if isComment o.kind && cfg.discard then coreF cfg f o.rest false fl
      else (c :: r, o, fl)

def mkTok (cfg : Cfg) (start : S) (o : Out) (fl : Flags) : Tok :=
  let kind := if o.word then cfg.idKind (bytesOf (consumed start o.rest)) else o.kind
  { kind := kind, start := start, rest := o.rest, flags := fl,
    lexeme := if hasLexeme kind then (match o.lexeme with | some l => some l | none => some (bytesOf (consumed start o.rest))) else none }

/-- `yylex` -/
def yylex (cfg : Cfg) (s : S) (fl : Flags) : Tok :=
  let (st, o, fl') := coreF cfg (s.length + 1) s false fl
  mkTok cfg st o fl'

/-- the rest of a directive line: tokens are dropped until one starts a line or the text ends; that token is returned -/
def skipLineF (cfg : Cfg) : Nat → Tok → Tok
  | 0, t => t
  | f + 1, t => if t.flags.sol || t.kind == .EndOfFile then t else skipLineF cfg f (yylex cfg t.rest {})

def expansionWord : List Nat := [101, 120, 112, 97, 110, 115, 105, 111, 110]

/-- `Lexer::lex` from `LexEntry` on, `t` being the token just lexed: (tokens added to the tree, comments kept).
`none` = the text has a `# expansion` marker line (not modelled). -/
def lexF (cfg : Cfg) : Nat → Tok → Option (List Tok × List Tok)
  | 0, _ => some ([], [])
  | f + 1, t =>
    if t.flags.sol && t.kind == .HashToken then
      let t1 := yylex cfg t.rest {}
      if !t1.flags.sol && t1.kind == .IdentifierToken && t1.lexeme == some expansionWord then none
      else lexF cfg f (skipLineF cfg (t1.start.length + 1) t1)            -- goto LexEntry
    else if t.kind == .EndOfFile then some ([t], [])
    else
      -- a comment is kept in `comments_`; everything but a plain comment is added to the tree (an omission marker is both)
      (lexF cfg f (yylex cfg t.rest {})).map (fun (ts, cs) =>
        (if isComment t.kind && t.kind != .Keyword_ExtPSY_omission then ts else t :: ts,
         if isComment t.kind then t :: cs else cs))

/-- the token stream of a text given as the code points the lexer steps over -/
def lexAll (cfg : Cfg) (s : S) : Option (List Tok × List Tok) :=
  lexF cfg (2 * s.length + 2) (yylex cfg s { sol := true })

/-- the token stream of a byte string (the lexer stops at the first NUL byte) -/
def lexText (cfg : Cfg) (text : List Nat) : Option (List Tok × List Tok) :=
  lexAll cfg (segment (text.takeWhile (· != 0)))

end PsycheModel.Lex
