import PsycheModel.Climb
import PsycheModel.Generated.Facts
/-! The climbing model instantiated with the operator table regenerated from the parser's source. -/
namespace PsycheModel.Climb
open PsycheModel.Generated

/-- the operator tokens of the generated table, in `Kind.all` order; operator `o` of the model is the `o`-th -/
def operatorTokens : List Kind := Kind.all.filter (fun k => Facts.precedenceOf k != 0)

def realPrec (o : Nat) : Nat :=
  match operatorTokens[o]? with
  | some k => Facts.precedenceOf k
  | none => 1

theorem realPrec_pos (o : Nat) : 1 ≤ realPrec o := by
  unfold realPrec
  cases h : operatorTokens[o]? with
  | none => exact Nat.le_refl _
  | some k =>
    have hm : k ∈ operatorTokens := List.mem_of_getElem? h
    unfold operatorTokens at hm
    rw [List.mem_filter] at hm
    have : Facts.precedenceOf k ≠ 0 := by simpa using hm.2
    simp only []
    omega

/-- the parser's table: `precedenceOf` and `isRightAssociative` as regenerated from the source -/
def realTbl : Tbl :=
  { prec := realPrec, ra := fun p => Facts.rightAssocLevels.contains p, pos := realPrec_pos,
    asg := (Facts.levelNames.lookup "Assignment").getD 2 }

end PsycheModel.Climb
