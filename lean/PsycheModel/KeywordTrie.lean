import PsycheModel.Generated.SyntaxKind
/-!
# The keyword trie of `C/parser/Keywords.cpp` as data, and its interpreter (property C17)

`Generated/Keywords.lean` (regenerated from the C++ on every run) contains one `Block` per
`recognizeN`/`translateN` function.  This file is the hand-written part: the data type, the option
record, and the 20-line interpreter that gives the if/else-if chains their C++ meaning.
-/
namespace PsycheModel.KeywordTrie
open PsycheModel.Generated

/-- every switch the trie may consult (LanguageExtensions + MacroTranslations) -/
inductive Flag where
  | extC_KandRStyle | extC_wchar_t_Keyword | extC_char8_t_Keyword | extC_char16_t_Keyword | extC_char32_t_Keyword
  | extGNU_AlternateKeywords | extGNU_Asm | extGNU_AttributeSpecifiers | extGNU_AttributeSpecifiersLLVM
  | extGNU_Alignment | extGNU_CompoundLiterals | extGNU_Conditionals | extGNU_DesignatedInitializers
  | extGNU_FunctionNames | extGNU_Complex | extGNU_StatementExpressions | extGNU_InternalBuiltins
  | extGNU_LabelsAsValues | extPSY_Generics | CPP_nullptr | nativeBooleans | NULLAsBuiltin
  | Translate_static_assert_AsKeyword | Translate_complex_AsKeyword | Translate_operatorNames
  | Translate_alignas_AsKeyword | Translate_alignof_AsKeyword | Translate_va_arg_AsKeyword
  | Translate_offsetof_AsKeyword | Translate_bool_AsKeyword | Translate_thread_local_AsKeyword
  deriving DecidableEq, Repr, Inhabited

def Flag.all : List Flag :=
  [.extC_KandRStyle, .extC_wchar_t_Keyword, .extC_char8_t_Keyword, .extC_char16_t_Keyword, .extC_char32_t_Keyword,
   .extGNU_AlternateKeywords, .extGNU_Asm, .extGNU_AttributeSpecifiers, .extGNU_AttributeSpecifiersLLVM,
   .extGNU_Alignment, .extGNU_CompoundLiterals, .extGNU_Conditionals, .extGNU_DesignatedInitializers,
   .extGNU_FunctionNames, .extGNU_Complex, .extGNU_StatementExpressions, .extGNU_InternalBuiltins,
   .extGNU_LabelsAsValues, .extPSY_Generics, .CPP_nullptr, .nativeBooleans, .NULLAsBuiltin,
   .Translate_static_assert_AsKeyword, .Translate_complex_AsKeyword, .Translate_operatorNames,
   .Translate_alignas_AsKeyword, .Translate_alignof_AsKeyword, .Translate_va_arg_AsKeyword,
   .Translate_offsetof_AsKeyword, .Translate_bool_AsKeyword, .Translate_thread_local_AsKeyword]

/-- `ParseOptions` as far as the lexer's identifier path reads it.  `std`: 0 = C89/90, 1 = C99, 2 = C11, 3 = C17/18. -/
structure Opts where
  std : Nat
  flag : Flag → Bool
  keywordRecognition : Bool

inductive Guard where
  | stdGE (n : Nat)
  | flag (f : Flag)
  deriving DecidableEq, Repr

def Guard.holds (o : Opts) : Guard → Bool
  | .stdGE n => decide (n ≤ o.std)
  | .flag f => o.flag f

abbrev Word := List Nat

mutual
inductive Block where
  | nil
  | ret (k : Kind)
  | chain (brs : Branches) (rest : Block)
inductive Branches where
  | nil
  | cons (pos : Nat) (ch : Nat) (gs : List Guard) (body : Block) (rest : Branches)
end

/-- `s[pos] == 'ch' && guards…` (a position outside the word never matches: see `InBounds`) -/
def cond (w : Word) (o : Opts) (pos ch : Nat) (gs : List Guard) : Bool :=
  (w[pos]? == some ch) && gs.all (·.holds o)

mutual
/-- statements of a block in sequence; `none` = control fell off the end of the block -/
def exec : Block → Word → Opts → Option Kind
  | .nil, _, _ => none
  | .ret k, _, _ => some k
  | .chain brs rest, w, o =>
    match execBrs brs w o with
    | some (some k) => some k
    | _ => exec rest w o
/-- an `if … else if …` chain: the first branch whose whole condition holds is taken, and no other -/
def execBrs : Branches → Word → Opts → Option (Option Kind)
  | .nil, _, _ => none
  | .cons p c gs body rest, w, o => if cond w o p c gs then some (exec body w o) else execBrs rest w o
end

def lookupLen : List (Nat × Block) → Nat → Option Block
  | [], _ => none
  | (n, b) :: t, m => if n = m then some b else lookupLen t m

/-- `Lexer::recognize` / `Lexer::translate`: `switch (n)` then the per-length function -/
def dispatch (table : List (Nat × Block)) (w : Word) (o : Opts) : Kind :=
  match lookupLen table w.length with
  | some b => (exec b w o).getD Kind.IdentifierToken
  | none => Kind.IdentifierToken

/-- the tail of `Lexer::lexIdentifier` -/
def lexIdentifierKind (recognizeT translateT : List (Nat × Block)) (w : Word) (o : Opts) : Kind :=
  if o.keywordRecognition then dispatch recognizeT w o
  else if o.flag .Translate_operatorNames then dispatch translateT w o
  else Kind.IdentifierToken

/-! ## Paths -/

structure Path where
  cs : List (Nat × Nat)     -- (position, character) tests, outermost first
  gs : List Guard
  kind : Kind
  deriving DecidableEq

mutual
def paths : Block → List Path
  | .nil => []
  | .ret k => [⟨[], [], k⟩]
  | .chain brs rest => pathsBrs brs ++ paths rest
def pathsBrs : Branches → List Path
  | .nil => []
  | .cons p c gs body rest =>
    (paths body).map (fun q => ⟨(p, c) :: q.cs, gs ++ q.gs, q.kind⟩) ++ pathsBrs rest
end

def Path.matches (q : Path) (w : Word) (o : Opts) : Bool :=
  q.cs.all (fun x => w[x.1]? == some x.2) && q.gs.all (·.holds o)

/-! ## Well-formedness (decidable; checked on the generated data by `decide`) -/

/-- what may follow an if-chain inside a block: nothing, the function's final `return IdentifierToken`,
or another if-chain (two consecutive `if` statements) -/
def tailOK : Block → Bool
  | .nil => true
  | .ret k => k == Kind.IdentifierToken
  | .chain _ _ => true

def brsHeads : Branches → List (Nat × Nat)
  | .nil => []
  | .cons p c _ _ rest => (p, c) :: brsHeads rest

/-- the (position, character) heads of the chains that follow in the same block -/
def restHeads : Block → List (Nat × Nat)
  | .nil => []
  | .ret _ => []
  | .chain brs rest => brsHeads brs ++ restHeads rest

/-- all heads test the same position, for pairwise different characters (no sibling can shadow another) -/
def headsOK : List (Nat × Nat) → Bool
  | [] => true
  | (p, c) :: t => t.all (fun x => x.1 == p && x.2 != c) && headsOK t

mutual
def wf : Block → Bool
  | .nil => true
  | .ret _ => true
  | .chain brs rest => wfBrs brs && headsOK (brsHeads brs ++ restHeads rest) && tailOK rest && wf rest
def wfBrs : Branches → Bool
  | .nil => true
  | .cons _ _ _ body rest => wf body && wfBrs rest
end

/-- the character tests of a keyword path spell positions `0,1,…` in order -/
def mkCs : List Nat → Nat → List (Nat × Nat)
  | [], _ => []
  | c :: t, s => (s, c) :: mkCs t (s + 1)

def Path.word (q : Path) : Word := q.cs.map (·.2)

/-- `InBounds` + completeness: the path tests exactly the positions `0 … n-1`, once each, in order -/
def Path.complete (q : Path) (n : Nat) : Bool := q.cs == mkCs q.word 0 && q.cs.length == n

end PsycheModel.KeywordTrie
