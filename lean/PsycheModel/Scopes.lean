/-!
# Model of the binder's scope protocol and of scope lookup (property C10)

Transcription of `Scope::searchForDeclaration / addDeclaration / encloseScope` (`C/sema/Scope.cpp`) and of the scope
handling of the declaration binder (`DeclarationBinder.cpp: pushNewScope / popScope / popAndStashScope / pushStashedScope /
finishDeclaration / visitCompoundStatement / visitIdentifierName`, `DeclarationBinder_Declarators.cpp:
visitArrayOrFunctionDeclarator`, `DeclarationBinder_End.cpp: visitFunctionDefinition_AtEnd`).

* the scopes kept by the semantic model ↦ a store `Nat → Scope` with a counter (`keepScope` appends and never removes);
* `Scope::decls_` (a map keyed by identifier and name space, the first declaration wins) ↦ an association list;
* `Scope::outerScope_` ↦ `outer : Option Nat`;  `scopes_` ↦ `stack` (head = top);  `stashedScope_` ↦ `stash`;
* `SemanticModel::setScopeOf(identifierName, scope)` ↦ `uses` (use number ↦ scope index).

Programs are abstracted to what matters for scoping: declarations and uses of `(name space, name)` keys, compound
statements, function declarations (prototype scope, then discarded) and function definitions (prototype scope stashed
and re-entered for the body, whose statements are visited without a further block scope).
-/
namespace PsycheModel.Scopes

/-- `(name space, identifier)`: 0 ordinary identifiers, 1 tags, 2 members (as `NameSpace`), identifier as a number -/
abbrev Key := Nat × Nat

structure Scope where
  outer : Option Nat := none
  decls : List (Key × Nat) := []        -- key ↦ declaration id, in insertion order
  deriving Repr, Inhabited

def find (k : Key) : List (Key × Nat) → Option Nat
  | [] => none
  | (k', d) :: rest => if k' = k then some d else find k rest

/-- `Scope::addDeclaration`: an existing entry for the key is kept (since the repair of forward-declared tags, a tag declaration WITH
members replaces an earlier one of the same tag without: the model has no member lists, and the generated programs never declare
one key twice in a scope - duplicate keys are outside the model) -/
def addFirstWins (ds : List (Key × Nat)) (k : Key) (d : Nat) : List (Key × Nat) :=
  match find k ds with
  | some _ => ds
  | none => ds ++ [(k, d)]

structure St where
  store : Nat → Scope := fun _ => {}
  n : Nat := 0                           -- number of scopes created
  stack : List Nat := []
  stash : Option Nat := none
  nextDecl : Nat := 0
  nextUse : Nat := 0
  uses : List (Nat × Nat × (Nat → Scope) × Nat) := []   -- (use number, recorded scope, GHOST: store and scope count at the time of the use)
  declScope : List (Nat × Nat) := []     -- (declaration id, scope it was added to), most recent first
  ok : Bool := true                      -- false once an assertion-guarded path was taken (empty stack, no stash)

/-- `Scope::searchForDeclaration`: this scope, then outward.  `fuel` bounds the walk (outer indices are smaller). -/
def lookup (store : Nat → Scope) : Nat → Nat → Key → Option Nat
  | 0, _, _ => none
  | fuel + 1, s, k =>
    match find k (store s).decls with
    | some d => some d
    | none =>
      match (store s).outer with
      | some o => lookup store fuel o k
      | none => none

def St.search (st : St) (s : Nat) (k : Key) : Option Nat := lookup st.store (s + 1) s k

/-! ## binder operations -/

def St.pushNew (st : St) (enclose : Bool) : St :=
  let o := if enclose then st.stack.head? else none
  { st with store := fun i => if i = st.n then { outer := o, decls := [] } else st.store i,
            n := st.n + 1, stack := st.n :: st.stack, ok := st.ok && (!enclose || !st.stack.isEmpty) }

def St.pop (st : St) : St := { st with stack := st.stack.tail, ok := st.ok && !st.stack.isEmpty }

def St.popAndStash (st : St) : St :=
  { st with stash := st.stack.head?, stack := st.stack.tail, ok := st.ok && !st.stack.isEmpty }

def St.pushStashed (st : St) : St :=
  match st.stash with
  | some s => { st with stack := s :: st.stack }
  | none => { st with ok := false }

/-- `finishDeclaration`: the declaration goes to the scope at the top -/
def St.addDecl (st : St) (k : Key) : St :=
  match st.stack with
  | [] => { st with ok := false, nextDecl := st.nextDecl + 1 }
  | top :: _ =>
    { st with store := fun i => if i = top then { st.store top with decls := addFirstWins (st.store top).decls k st.nextDecl } else st.store i,
              nextDecl := st.nextDecl + 1, declScope := (st.nextDecl, top) :: st.declScope }

/-- `visitIdentifierName`: `setScopeOf(node, scopes_.top())` -/
def St.recordUse (st : St) : St :=
  match st.stack with
  | [] => { st with ok := false, nextUse := st.nextUse + 1 }
  | top :: _ => { st with uses := (st.nextUse, top, st.store, st.n) :: st.uses, nextUse := st.nextUse + 1 }

/-! ## programs -/

/-- a parameter declaration; `inner` are the named parameters of the parameter's own function declarator (a callback
`int (*cb)(int x)` or `int g(int y)`), bound in a prototype scope of their own that nobody re-enters -/
structure Param where
  key : Key
  inner : List Key := []
  innerStashes : Bool := false       -- `int g(int y)`: the declarator's inner declarator is the identifier, so its scope is stashed
  deriving Repr, Inhabited

mutual
inductive Item where
  | decl (k : Key)                                          -- object / typedef / tag / enumerator / parameter-less function declaration
  | use                                                      -- an identifier expression (`visitIdentifierName`)
  | block (b : Items)                                       -- compound statement; also a `for` statement with its first clause
  | proto (k : Key) (params : List Param)                   -- function declaration with a parameter list
  | fundef (k : Key) (params : List Param) (body : Items)   -- function definition
inductive Items where
  | nil
  | cons (i : Item) (rest : Items)
end

def addKeys (st : St) : List Key → St
  | [] => st
  | k :: ks => addKeys (st.addDecl k) ks

/-- `visitParameterDeclaration`: the declarator (with the prototype scope of its own parameter list, if any) first, then
`finishDeclaration` adds the parameter to the scope at the top -/
def addParam (st : St) (p : Param) : St :=
  let st1 :=
    if p.inner.isEmpty then st
    else
      let s := addKeys (st.pushNew true) p.inner
      if p.innerStashes then s.popAndStash else s.pop
  st1.addDecl p.key

def addParams (st : St) : List Param → St
  | [] => st
  | p :: ps => addParams (addParam st p) ps

mutual
def runItem : Item → St → St
  | .decl k, st => st.addDecl k
  | .use, st => st.recordUse
  | .block b, st => (runItems b (st.pushNew true)).pop
  | .proto k ps, st => ((addParams (st.pushNew true) ps).popAndStash).addDecl k
  | .fundef k ps body, st =>
    (runItems body (((addParams (st.pushNew true) ps).popAndStash).addDecl k).pushStashed).pop
def runItems : Items → St → St
  | .nil, st => st
  | .cons i rest, st => runItems rest (runItem i st)
end

/-- `visitTranslationUnit`: file scope (not enclosed), the declarations, pop -/
def bindUnit (p : Items) : St := (runItems p (({} : St).pushNew false)).pop

/-- what the semantic model answers afterwards for use number `u` of key `k` -/
def St.resolve (st : St) (u : Nat) (k : Key) : Option Nat :=
  match st.uses.find? (·.1 = u) with
  | some (_, s, _, _) => st.search s k
  | none => none

/-! ## Specification: C11 6.2.1 — an environment of frames, innermost first, extended in source order -/

abbrev Env := List (List (Key × Nat))

def envFind (k : Key) : Env → Option Nat
  | [] => none
  | f :: rest => match find k f with
    | some d => some d
    | none => envFind k rest

def envAdd (e : Env) (k : Key) (d : Nat) : Env :=
  match e with
  | [] => []
  | f :: rest => addFirstWins f k d :: rest

structure CSt where
  env : Env := [[]]
  nextDecl : Nat := 0
  nextUse : Nat := 0
  res : List (Nat × Env) := []             -- (use number, environment at the point of use)

def CSt.addDecl (c : CSt) (k : Key) : CSt := { c with env := envAdd c.env k c.nextDecl, nextDecl := c.nextDecl + 1 }
/-- at a use the whole visible environment is recorded, so that any key can be asked for -/
def CSt.use (c : CSt) : CSt := { c with res := (c.nextUse, c.env) :: c.res, nextUse := c.nextUse + 1 }
def CSt.push (c : CSt) : CSt := { c with env := [] :: c.env }
def CSt.popF (c : CSt) : CSt := { c with env := c.env.tail }

def cKeys (c : CSt) : List Key → CSt
  | [] => c
  | k :: ks => cKeys (c.addDecl k) ks

/-- the names of a callback's own parameters live in a prototype scope that ends with its declarator: they only take
declaration numbers -/
def cParam (c : CSt) (p : Param) : CSt :=
  let c1 := if p.inner.isEmpty then c else (cKeys c.push p.inner).popF
  c1.addDecl p.key

def cParams (c : CSt) : List Param → CSt
  | [] => c
  | p :: ps => cParams (cParam c p) ps

mutual
def cItem : Item → CSt → CSt
  | .decl k, c => c.addDecl k
  | .use, c => c.use
  | .block b, c => (cItems b c.push).popF
  | .proto k ps, c => ((cParams c.push ps).popF).addDecl k
  | .fundef k ps body, c =>
    -- the function's name is declared in the enclosing scope before the body (it is visible in its own body);
    -- parameters and the outermost block of the body form one scope
    let c1 := (cParams c.push ps).popF.addDecl k
    -- re-enter a frame holding the parameters, with declaration ids as already assigned
    let frame := ((cParams c.push ps).env.headD [])
    (cItems body { c1 with env := frame :: c1.env }).popF
def cItems : Items → CSt → CSt
  | .nil, c => c
  | .cons i rest, c => cItems rest (cItem i c)
end

def cUnit (p : Items) : CSt := cItems p {}

/-- the declaration C selects for key `k` at use number `u` -/
def CSt.resolve (c : CSt) (u : Nat) (k : Key) : Option Nat :=
  match c.res.find? (·.1 = u) with
  | some (_, e) => envFind k e
  | none => none

end PsycheModel.Scopes
