/-!
# Decision model of the `cnip` driver (property C19)

`CommandLineParser::detectCommandOptions` (for the main command, not the `--` sub-command) and
`Driver::go` / `runCPP` / `runCFrontEnd` as pure functions.  Command-line words are `List Char` so that the
kernel can evaluate the string tests (`starts_with`, `ends_with`, `substr`).  Everything the driver learns
from outside (does the file exist, did preprocessing succeed, did the front end report a syntax / semantic
error for the file under the chosen configuration) is an explicit parameter `Env`.
-/
namespace PsycheModel.Cnip

abbrev Word := List Char

def startsWith (s p : Word) : Bool := p.isPrefixOf s

/-- `stdx::ends_with` -/
def endsWith (s suf : Word) : Bool := decide (s.length ≥ suf.length) && s.drop (s.length - suf.length) == suf

structure Opts where
  cFiles : List Word := []
  iFiles : List Word := []
  std : Word := "c17".toList
  syntaxOnly : Bool := false
  help : Bool := false
  dumpAST : Bool := false
  disambig : Word := "ah".toList
  pp : Word := "s".toList
  cc : Word := "gcc".toList
  comment : Word := "d".toList
  analysis : List Word := []
  deriving DecidableEq, Repr

inductive Err where
  | unhandledFilePath | expectedOption | expectedValue | unrecognizedOption
  deriving DecidableEq, Repr

/-- what one command-line word asks for: an update now, or an update that consumes the next word
(`valueAfter` / `valueAtOrAfter` with nothing attached) -/
inductive Action where
  | now (upd : Opts → Bool → Opts × Bool)
  | next (upd : Word → Opts → Bool → Opts × Bool)

def keep : Opts → Bool → Opts × Bool := fun o a => (o, a)

/-- `valueAtOrAfter(opt, name)` with `n = strlen(name)`: the value is the rest of the word, or the next word -/
def atOrAfter (opt : Word) (n : Nat) (upd : Word → Opts → Bool → Opts × Bool) : Action :=
  if opt.length = n then .next upd else .now (upd (opt.drop n))

/-- one iteration of the loop of `detectCommandOptions(cmdOpts, cmdArgs, 0, false)` on the word `s`
(`acc` = `acceptAsCFilePath`) -/
def classify (acc : Bool) (s : Word) : Except Err Action :=
  if s.head? ≠ some '-' then
    if endsWith s ".c".toList || endsWith s ".h".toList || acc then .ok (.now fun o a => ({ o with cFiles := o.cFiles ++ [s] }, a))
    else if endsWith s ".i".toList then .ok (.now fun o a => ({ o with iFiles := o.iFiles ++ [s] }, a))
    else .error .unhandledFilePath
  else
    let opt := s.drop 1
    if opt = [] then .error .expectedOption
    else if opt.head? = some 'I' then .ok (atOrAfter opt 1 fun _ => keep)
    else if startsWith opt "iquote".toList then .ok (atOrAfter opt 6 fun _ => keep)
    else if startsWith opt "isystem".toList then .ok (atOrAfter opt 7 fun _ => keep)
    else if startsWith opt "idirafter".toList then .ok (atOrAfter opt 9 fun _ => keep)
    else if opt = "nostdinc".toList then .ok (.now keep)
    else if opt.head? = some 'D' then .ok (atOrAfter opt 1 fun _ => keep)
    else if opt.head? = some 'U' then .ok (atOrAfter opt 1 fun _ => keep)
    else if startsWith opt "include".toList then .ok (atOrAfter opt 7 fun _ => keep)
    else if startsWith opt "imacros".toList then .ok (atOrAfter opt 7 fun _ => keep)
    else if opt = "undef".toList then .ok (.now keep)
    else if opt = "C".toList then .ok (.now keep)
    else if opt = "CC".toList then .ok (.now keep)
    else if startsWith opt "std=".toList then
      (if opt.length = 4 then .error .expectedValue else .ok (.now fun o a => ({ o with std := opt.drop 4 }, a)))
    else if startsWith opt "-std=".toList then .ok (atOrAfter opt 4 fun v o a => ({ o with std := v }, a))
    else if opt = "-std".toList then .ok (.next fun v o a => ({ o with std := v }, a))
    else if opt = "ansi".toList || opt = "-ansi".toList then .ok (.now keep)
    else if startsWith opt "x".toList then
      .ok (atOrAfter opt 1 fun v o _ => (o, v == "c".toList || v == "c-header".toList))
    else if opt = "fsyntax-only".toList || opt = "-syntax-only".toList then .ok (.now fun o a => ({ o with syntaxOnly := true }, a))
    else if opt = "help".toList || opt = "-help".toList then .ok (.now fun o a => ({ o with help := true }, a))
    else if opt = "dump-ast".toList then .ok (.now fun o a => ({ o with dumpAST := true }, a))
    else if opt = "disambiguation".toList then .ok (.next fun v o a => ({ o with disambig := v }, a))
    else if opt = "pp".toList then .ok (.next fun v o a => ({ o with pp := v }, a))
    else if opt = "cc".toList then .ok (.next fun v o a => ({ o with cc := v }, a))
    else if opt = "comment".toList then .ok (.next fun v o a => ({ o with comment := v }, a))
    else if opt = "analysis".toList then .ok (.next fun v o a => ({ o with analysis := o.analysis ++ [v] }, a))
    else .error .unrecognizedOption

def detect (o : Opts) (acc : Bool) : List Word → Except Err Opts
  | [] => .ok o
  | s :: rest =>
    match classify acc s with
    | .error e => .error e
    | .ok (.now u) => detect (u o acc).1 (u o acc).2 rest
    | .ok (.next u) =>
      match rest with
      | [] => .error .expectedValue
      | v :: rest' => detect (u v o acc).1 (u v o acc).2 rest'

/-! ## `Driver::go` -/

inductive Std where | C89_90 | C99 | C11 | C17_18
  deriving DecidableEq, Repr
inductive Disambig where | Algorithmic | Heuristic | AlgorithmicAndHeuristic | None
  deriving DecidableEq, Repr
inductive CommentMode where | KeepAll | KeepDocumentationOnly | Discard
  deriving DecidableEq, Repr

def stdOf (w : Word) : Option Std :=
  if w = "c89".toList || w = "c90".toList then some .C89_90
  else if w = "c99".toList then some .C99
  else if w = "c17".toList || w = "c18".toList then some .C17_18
  else if w = "c11".toList then some .C11
  else none

def disambigOf (w : Word) : Option Disambig :=
  if w = "a".toList then some .Algorithmic
  else if w = "h".toList then some .Heuristic
  else if w = "ah".toList then some .AlgorithmicAndHeuristic
  else if w = "none".toList then some .None
  else none

def commentOf (w : Word) : Option CommentMode :=
  if w = "ka".toList then some .KeepAll
  else if w = "kdo".toList then some .KeepDocumentationOnly
  else if w = "d".toList then some .Discard
  else none

structure Config where
  std : Std
  disambig : Disambig
  comment : CommentMode
  deriving DecidableEq, Repr

/-- what the world answers about one input file -/
structure FileFacts where
  exists_ : Bool
  ppOk : Config → Word → Bool              -- did preprocessing in mode `pp` succeed
  syntaxError : Config → Word → Bool       -- an Error-severity Syntax diagnostic under this configuration / pp mode
  semanticError : Config → Word → Bool     -- an Error-severity Binding/TypeResolution/TypeChecking diagnostic

inductive Outcome where
  | exit0
  | exit1 (msg : String)
  deriving DecidableEq, Repr

def Outcome.code : Outcome → Nat
  | .exit0 => 0
  | .exit1 _ => 1

/-- the per-file loop of `runCFrontEnd` -/
def frontEnd (cfg : Config) (o : Opts) (facts : Word → FileFacts) : List Word → Option String
  | [] => none
  | f :: rest =>
    if (facts f).syntaxError cfg o.pp then some "syntax error reported"
    else if o.syntaxOnly then frontEnd cfg o facts rest
    else if (facts f).semanticError cfg o.pp then some "semantic error reported"
    else frontEnd cfg o facts rest

/-- `Driver::go` after a successful `parseCommandLine` (no `--` sub-command) -/
def goOpts (o : Opts) (facts : Word → FileFacts) : Outcome :=
  if o.help then .exit0
  else
    let files := o.cFiles ++ o.iFiles
    if files = [] then .exit1 "no input files"
    else if files.any (fun f => !(facts f).exists_) then .exit1 "no such file"
    else
      -- runCPP
      let ppKnown := o.pp = "none".toList || o.pp = "s".toList || o.pp = "r".toList
      if !ppKnown then .exit1 "unrecognized preprocessing mode"
      else
        match stdOf o.std, disambigOf o.disambig, commentOf o.comment with
        | some s, some d, some c =>
          let cfg : Config := ⟨s, d, c⟩
          -- preprocessing of every .c file happens before the front end sees any file
          if o.pp ≠ "none".toList && o.cFiles.any (fun f => !(facts f).ppOk cfg o.pp) then
            -- (the C standard is only validated by runCFrontEnd, after runCPP: same exit status)
            .exit1 "preprocessing failed"
          else
            match frontEnd cfg o facts files with
            | some m => .exit1 m
            | none =>
              if o.analysis ≠ [] then .exit1 "cannot load analysis"     -- no analysis plugin is modelled
              else .exit0
        | none, _, _ => .exit1 "unsupported C Standard"
        | _, none, _ => .exit1 "unrecognized disambiguation mode"
        | _, _, none => .exit1 "unrecognized comment mode"

def go (argv : List Word) (facts : Word → FileFacts) : Outcome :=
  match detect {} false argv with
  | .error e => .exit1 (match e with
      | .unhandledFilePath => "unhandled file path" | .expectedOption => "expected option"
      | .expectedValue => "expected option value" | .unrecognizedOption => "unrecognized option")
  | .ok o => goOpts o facts

end PsycheModel.Cnip
