/-!
# Model of the struct / union / enum specifier parser (properties C04, C03, C01)

`C/parser/Parser_Declarations.cpp`, transcribed over an abstract token alphabet in which a (basic) type specifier is ONE token (`Tok.sp`;
the specifier lists are `Specifiers.lean`, a nested tag specifier is a specifier like any other), a declarator without a bit-field width is
one token (`Tok.dcl`; the declarators are `DeclParser.lean`) and a constant expression is one token (`Tok.e`; `Expr.lean`):

| model | C++ |
|---|---|
| `tag`     | `Parser::parseTagTypeSpecifier_AtFirst`: keyword, optional tag, optional `{` body `}` |
| `members` | its member loop with `Parser::parseStructDeclaration`, `parseSpecifierQualifierList` (basic specifiers), `parseDeclarationOrStructDeclaration_AtFollowOfSpecifiers` (`int ;` is an incomplete declaration) |
| `mds`     | `Parser::parseStructDeclaration_AtDeclarator` with the two bit-field branches of `Parser::parseDeclarator` (`m : 3`, `: 3`) |
| `enums`   | the same loop with `Parser::parseEnumerator`: each enumerator takes its own comma; one without is the last |

A body that does not parse cleanly is `none` (the C++ reports a diagnostic and recovers).  Only `members` needs a fuel (one unit per member).
-/
namespace PsycheModel.TagBody

inductive Tok where
  | ksu | kenum              -- `struct` / `union`, `enum`
  | id (n : Nat)             -- an identifier: a tag or an enumeration constant
  | sp (n : Nat)             -- a type specifier
  | dcl (n : Nat)            -- a declarator (no bit-field width)
  | e (n : Nat)              -- a constant expression
  | lb | rb | semi | comma | colon | eq
  deriving DecidableEq, Repr

/-- a member declarator -/
inductive MD where
  | plain (n : Nat)
  | bitfield (d : Option Nat) (w : Nat)
  deriving DecidableEq, Repr

inductive M where
  | incomplete (ss : List Nat)                 -- `int ;`
  | field (ss : List Nat) (ds : List MD)
  deriving DecidableEq, Repr

structure En where
  name : Nat
  val : Option Nat
  comma : Bool
  deriving DecidableEq, Repr

inductive T where
  | suRef (t : Nat)
  | su (t : Option Nat) (ms : List M)
  | enRef (t : Nat)
  | en (t : Option Nat) (es : List En)
  deriving DecidableEq, Repr

/-- `parseSpecifierQualifierList`: as many specifiers as there are -/
def specs : List Tok → List Nat × List Tok
  | .sp n :: r => (n :: (specs r).1, (specs r).2)
  | ts => ([], ts)

/-- `parseStructDeclaration_AtDeclarator`: declarators separated by commas, up to and including the `;` -/
def mds : List Tok → Option (List MD × List Tok)
  | .dcl n :: .colon :: .e w :: .comma :: r =>
    match mds r with
    | some (ds, r') => some (.bitfield (some n) w :: ds, r')
    | none => none
  | .dcl n :: .colon :: .e w :: .semi :: r => some ([.bitfield (some n) w], r)
  | .dcl n :: .comma :: r =>
    match mds r with
    | some (ds, r') => some (.plain n :: ds, r')
    | none => none
  | .dcl n :: .semi :: r => some ([.plain n], r)
  | .colon :: .e w :: .comma :: r =>
    match mds r with
    | some (ds, r') => some (.bitfield none w :: ds, r')
    | none => none
  | .colon :: .e w :: .semi :: r => some ([.bitfield none w], r)
  | _ => none                                     -- ExpectedFIRSTofDirectDeclarator / ExpectedFollowOfStructDeclarator

/-- `parseStructDeclaration` -/
def member (ts : List Tok) : Option (M × List Tok) :=
  match specs ts with
  | ([], _) => none                               -- ExpectedFIRSTofSpecifierQualifier
  | (ss, .semi :: r) => some (.incomplete ss, r)
  | (ss, r) =>
    match mds r with
    | some (ds, r') => some (.field ss ds, r')
    | none => none

/-- the member loop of `parseTagTypeSpecifier_AtFirst`, up to and including the `}` -/
def members : Nat → List Tok → Option (List M × List Tok)
  | 0, _ => none
  | _ + 1, .rb :: r => some ([], r)
  | f + 1, ts =>
    match member ts with
    | some (m, r) =>
      match members f r with
      | some (ms, r') => some (m :: ms, r')
      | none => none
    | none => none

/-- the same loop with `parseEnumerator`, up to and including the `}`: an enumerator takes its own comma; one without a comma is the
last of its list -/
def enums : List Tok → Option (List En × List Tok)
  | .rb :: r => some ([], r)
  | .id n :: .eq :: .e v :: .comma :: r =>
    match enums r with
    | some (es, r') => some (⟨n, some v, true⟩ :: es, r')
    | none => none
  | .id n :: .eq :: .e v :: .rb :: r => some ([⟨n, some v, false⟩], r)
  | .id n :: .comma :: r =>
    match enums r with
    | some (es, r') => some (⟨n, none, true⟩ :: es, r')
    | none => none
  | .id n :: .rb :: r => some ([⟨n, none, false⟩], r)
  | _ => none                                     -- ExpectedFIRSTofEnumerationConstant / expected `,` or `}`

/-- `parseTagTypeSpecifier_AtFirst` -/
def tag (fuel : Nat) : List Tok → Option (T × List Tok)
  | .ksu :: .lb :: r =>
    match members fuel r with
    | some (ms, r') => some (.su none ms, r')
    | none => none
  | .ksu :: .id t :: .lb :: r =>
    match members fuel r with
    | some (ms, r') => some (.su (some t) ms, r')
    | none => none
  | .ksu :: .id t :: r => some (.suRef t, r)
  | .kenum :: .lb :: r =>
    match enums r with
    | some (es, r') => some (.en none es, r')
    | none => none
  | .kenum :: .id t :: .lb :: r =>
    match enums r with
    | some (es, r') => some (.en (some t) es, r')
    | none => none
  | .kenum :: .id t :: r => some (.enRef t, r)
  | _ => none                                     -- ExpectedFollowOfStructOrUnionOrEnum

/-! ## The printing side -/
def ppMD : MD → List Tok
  | .plain n => [.dcl n]
  | .bitfield (some n) w => [.dcl n, .colon, .e w]
  | .bitfield none w => [.colon, .e w]
def ppMDs : List MD → List Tok
  | [] => [.semi]
  | [d] => ppMD d ++ [.semi]
  | d :: d' :: ds => ppMD d ++ .comma :: ppMDs (d' :: ds)
def ppM : M → List Tok
  | .incomplete ss => ss.map .sp ++ [.semi]
  | .field ss ds => ss.map .sp ++ ppMDs ds
def ppMs : List M → List Tok
  | [] => []
  | m :: ms => ppM m ++ ppMs ms
def ppEn (x : En) : List Tok :=
  .id x.name :: ((match x.val with | some v => [.eq, .e v] | none => []) ++ (if x.comma then [.comma] else []))
def ppEns : List En → List Tok
  | [] => []
  | x :: xs => ppEn x ++ ppEns xs
def ppTag : Option Nat → List Tok
  | some t => [.id t]
  | none => []
def pp : T → List Tok
  | .suRef t => [.ksu, .id t]
  | .su t ms => .ksu :: (ppTag t ++ .lb :: (ppMs ms ++ [.rb]))
  | .enRef t => [.kenum, .id t]
  | .en t es => .kenum :: (ppTag t ++ .lb :: (ppEns es ++ [.rb]))

/-- what the parser accepts without a diagnostic: every member has a specifier, a field has a declarator -/
def accM : M → Bool
  | .incomplete ss => !ss.isEmpty
  | .field ss ds => !ss.isEmpty && !ds.isEmpty
/-- the enumerators are separated by commas (the last one may have one too): 6.7.2.2 -/
def sepd : List En → Bool
  | [] => true
  | [_] => true
  | x :: y :: xs => x.comma && sepd (y :: xs)

def acc : T → Bool
  | .su _ ms => ms.all accM
  | .en _ es => sepd es
  | _ => true

/-- derivable from 6.7.2.1 / 6.7.2.2: additionally, the body is not empty and enumerators are separated by commas -/
def ok : T → Bool
  | .su _ ms => !ms.isEmpty && ms.all accM
  | .en _ es => !es.isEmpty && sepd es
  | _ => true

end PsycheModel.TagBody
