import PsycheModel.Props.C07Binder
import PsycheModel.Lemmas.DeclRoundTrip
import PsycheModel.Lemmas.DeclFuel
/-!
# C07 (continued) — from the TEXT of a declarator to its type: the declarator parser inverts the printer

`Props/C07Binder.lean` is about declarator TREES.  Here the trees come from token strings: the model of the declarator
parser (`PsycheModel/DeclParser.lean`: `parseDeclarator`, direct declarators, the suffix loop, parameter lists, the
speculative `( abstract-declarator )` and concrete-then-abstract parameter parses; tied to the real parser on every token
string up to length 4/5 and on random declarators and their mutations) is proved to give back every well-formed declarator
of any depth from its printed tokens, for both declarator forms, whatever follows.  Composed with the binder theorem:
the tokens the printer writes for ANY sequence of derivations make the front end (parser model, then binder model)
declare the name with exactly the derived type.
-/
namespace PsycheModel.DeclParser
open PsycheModel.Declarators

/-- **The parser inverts the printer** (completeness): every well-formed declarator `d` of form `form` (concrete or abstract),
of any nesting depth, with parameter lists of any length whose declarators are again arbitrary, followed by any tokens `k`
that can follow a declarator, is parsed back as exactly `d`, leaving exactly `k` — from some fuel on, for every fuel. -/
theorem parse_print (form : Form) (d : Decl) (k : List Tok) (hw : wf form d = true) (hk : Fol k = true) (hs : Stop k = true) :
    ∃ f0, ∀ f, f0 ≤ f → parseD form f (pr d k) = some (d, k) := by
  obtain ⟨f0, h0⟩ := (rt d form hw).2 k hk hs
  exact ⟨f0, fun f hf => parseD_le hf h0⟩

/-- … and (soundness) whatever the fuel, an answer on printed tokens is that answer: running out of fuel is the only other
outcome.  (The driver runs with fuel `2 * length + 2`; `parseDeclarator_fuel_free` below proves that this suffices for EVERY
token string - the real parser has no fuel.) -/
theorem parse_print_sound (form : Form) (d : Decl) (k : List Tok) (hw : wf form d = true) (hk : Fol k = true) (hs : Stop k = true)
    (f : Nat) (x : Decl × List Tok) (h : parseD form f (pr d k) = some x) : x = (d, k) := by
  obtain ⟨f0, h0⟩ := parse_print form d k hw hk hs
  exact parseD_fuel_irrelevant h (h0 f0 (Nat.le_refl _))

/-- **The fixed fuel of `parseDeclarator` never changes an answer** (`bnd`: an answer obtained with any fuel is obtained
with `2 * consumed + 2`): the model is the fuel-free recursive-descent parser, and a decision procedure. -/
theorem parseDeclarator_fuel_free (ts : List Tok) (f : Nat) (x : Decl × List Tok) (h : parseD .concrete f ts = some x) :
    parseDeclarator ts = some x := by
  obtain ⟨d, r⟩ := x
  exact parseD_concrete_fuel_bound h

theorem parseD_fuel_free (form : Form) (ts : List Tok) (f : Nat) (x : Decl × List Tok) (h : parseD form f ts = some x) :
    parseD form (2 * ts.length + 3) ts = some x := by
  obtain ⟨d, r⟩ := x
  exact parseD_fuel_bound h

/-- every answer leaves a rest no longer than its input (the parser only moves forward) -/
theorem parse_consumes (form : Form) (ts : List Tok) (f : Nat) (d : Decl) (r : List Tok) (h : parseD form f ts = some (d, r)) :
    r.length ≤ ts.length := parseD_consumes h

/-- … so `parseDeclarator` itself, with its fixed fuel, inverts the printer on every well-formed concrete declarator. -/
theorem parseDeclarator_print (d : Decl) (hw : wf .concrete d = true) :
    parseDeclarator (pr d [.stop]) = some (d, [.stop]) := by
  obtain ⟨f0, h0⟩ := parse_print .concrete d [.stop] hw rfl rfl
  exact parseDeclarator_fuel_free _ f0 _ (h0 f0 (Nat.le_refl _))

/-- **Whatever the parser returns is a declarator of C** (soundness, for EVERY token string, not only printed ones): a result
of `parseDeclarator` in either form is well-formed — its leaf is an identifier (concrete) or absent (abstract), a pointer
declarator directly under an array or function suffix is parenthesised, parentheses never wrap nothing, `...` follows a
parameter, every parameter declarator is again well-formed in one of the two forms. -/
theorem parse_result_wellformed (form : Form) (f : Nat) (ts : List Tok) (d : Decl) (r : List Tok)
    (h : parseD form f ts = some (d, r)) : wf form d = true := (snd f).d form ts d r h

/-- the speculative parses never change the outcome: a printed ABSTRACT declarator is not also a concrete one (so the
order "concrete first" of `parseParameterDeclaration` is immaterial) -/
theorem abstract_is_not_concrete (d : Decl) (k : List Tok) (hw : wf .abstract d = true) (hk : Fol k = true) (f : Nat) :
    parseD .concrete f (pr d k) = none := abstract_not_concrete d f k hw hk

/-! ### text → tree → type -/

/-- a derivation the printer can write: parameter declarators well-formed, `...` only after a parameter -/
def derivOK : Deriv → Bool
  | .fn ps ell => wfPs ps && (!ell || !psNil ps)
  | _ => true

theorem isPtr_eq (d : Decl) : isPtr d = d.isPtr := by cases d <;> rfl

theorem wf_parenIfPtr (d : Decl) (h : wf .concrete d = true) :
    wf .concrete (parenIfPtr d) = true ∧ isPtr (parenIfPtr d) = false := by
  unfold parenIfPtr
  cases d <;> simp_all [Decl.isPtr, wf, isPtr, isLeafAbstract]

theorem wf_build (n : String) : ∀ ds : List Deriv, (∀ x ∈ ds, derivOK x = true) → wf .concrete (build ds (.ident n)) = true
  | [], _ => rfl
  | .ptr qs :: ds, h => by
    simp only [build, wf]; exact wf_build n ds (fun x hx => h x (List.mem_cons_of_mem _ hx))
  | .arr :: ds, h => by
    have := wf_parenIfPtr _ (wf_build n ds (fun x hx => h x (List.mem_cons_of_mem _ hx)))
    simp [build, wf, this.1, this.2]
  | .fn ps ell :: ds, h => by
    have := wf_parenIfPtr _ (wf_build n ds (fun x hx => h x (List.mem_cons_of_mem _ hx)))
    have hd : derivOK (.fn ps ell) = true := h _ (List.mem_cons_self ..)
    simp only [derivOK, Bool.and_eq_true] at hd
    simp [build, wf, this.1, this.2, hd.1, hd.2]

/-- **From text to type.**  For every base type, every sequence of derivations of any length (pointers with any
qualifiers, arrays, functions with any well-formed parameter declarations) and every name: the tokens the printer writes
for the declarator are parsed (for every sufficient fuel) into a tree from which the binder declares that name with exactly
the derived type (adjusted in parameter context), leaving its stack as it found it. -/
theorem text_to_type (ctx : Ctx) (T : Ty) (hT : PlainBase T) (below : List Ty) (ds : List Deriv) (n : String)
    (hds : ∀ x ∈ ds, derivOK x = true) :
    ∃ f0 nested, ∀ f, f0 ≤ f →
      (parseD .concrete f (pr (build ds (.ident n)) [.stop])).bind (fun p => bindDeclaration ctx T [p.1] below) =
        some (below, ⟨ctx.kindOf (ctx.adj (applyDerivs ds T)), n, ctx.adj (applyDerivs ds T)⟩ :: nested) := by
  obtain ⟨f0, h0⟩ := parse_print .concrete (build ds (.ident n)) [.stop] (wf_build n ds hds) rfl rfl
  obtain ⟨nested, hb⟩ := bind_build ctx T hT below ds n
  exact ⟨f0, nested, fun f hf => by rw [h0 f hf]; exact hb⟩

/-- the same with the fixed fuel of `parseDeclarator`: no fuel in the statement -/
theorem text_to_type_fixed_fuel (ctx : Ctx) (T : Ty) (hT : PlainBase T) (below : List Ty) (ds : List Deriv) (n : String)
    (hds : ∀ x ∈ ds, derivOK x = true) :
    ∃ nested,
      (parseDeclarator (pr (build ds (.ident n)) [.stop])).bind (fun p => bindDeclaration ctx T [p.1] below) =
        some (below, ⟨ctx.kindOf (ctx.adj (applyDerivs ds T)), n, ctx.adj (applyDerivs ds T)⟩ :: nested) := by
  obtain ⟨nested, hb⟩ := bind_build ctx T hT below ds n
  exact ⟨nested, by rw [parseDeclarator_print _ (wf_build n ds hds)]; exact hb⟩

/-- non-vacuity: `(*fp[3])(int a, char *, ...)` printed, parsed and bound in file scope -/
example :
    let ps : Params := .cons "int" (.ident "a") (.cons "char" (.ptr [] .abstract) .nil)
    let d := build [.fn ps true, .ptr [], .arr] (.ident "fp")
    wf .concrete d = true ∧
    pr d [.stop] = [.lparen, .star, .ident "fp", .lbrack, .rbrack, .rparen, .lparen, .spec "int", .ident "a", .comma, .spec "char", .star,
                    .comma, .ellipsis, .rparen, .stop] ∧
    parseDeclarator (pr d [.stop]) = some (d, [.stop]) := by
  intro ps d
  exact ⟨rfl, rfl, rfl⟩

end PsycheModel.DeclParser
