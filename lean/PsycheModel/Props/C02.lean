import PsycheModel.Ownership
/-!
# C02 — Semantic analysis leaves no dangling results (the ownership logic)

For every set of holders of any size, with arbitrary sharing of type objects between them.  What is NOT provable here —
the frees themselves, destruction through base pointers, null dereferences, stack depth — is exercised by walking
everything reachable through the API under ASan+UBSan, NDEBUG and assertion builds.  Termination of typedef resolution on
cyclic names is `PsycheModel.Typedefs.resolve_noTd` (C12), the binder's stack discipline `bindDeclarators_eq_spec` (C07,
type stack) and `bindUnit_balanced` (C10, scope stack).
-/
namespace PsycheModel.Ownership

/-- **A visited holder never dangles**, whatever else shares its referent. -/
theorem visited_never_dangles (w : World) (refs : List Nat) (proc : List Bool) (i : Nat) (hp : proc[i]? = some true) :
    ¬ dangles w refs proc i := by
  rintro ⟨r, p, hr, hpp, hfree, _⟩
  rw [hp] at hpp
  injection hpp with hpp
  subst hpp
  unfold after at hfree
  by_cases hd : w.disc r = true
  · simp only [hd, Bool.and_self, if_true] at hfree
    rw [w.canon_kept] at hfree
    exact Bool.false_ne_true hfree
  · have : w.disc r = false := by simpa using hd
    simp [this] at hfree

/-- **An unvisited holder dangles exactly when it shares a discardable object with a visited one.** -/
theorem unvisited_dangles_iff (w : World) (refs : List Nat) (proc : List Bool) (i r : Nat) (hr : refs[i]? = some r)
    (hp : proc[i]? = some false) :
    dangles w refs proc i ↔ w.disc r = true ∧ ∃ j : Nat, refs[j]? = some r ∧ proc[j]? = some true := by
  constructor
  · rintro ⟨r', p, hr', hp', hfree⟩
    rw [hr] at hr'; injection hr' with hr'; subst hr'
    rw [hp] at hp'; injection hp' with hp'; subst hp'
    simpa [after, freed] using hfree
  · rintro ⟨hd, j, hj, hpj⟩
    exact ⟨r, false, hr, hp, by simpa [after, freed] using ⟨hd, j, hj, hpj⟩⟩

/-- **If the traversal visits every holder, nothing reachable dangles.** -/
theorem complete_traversal_no_dangling (w : World) (refs : List Nat) (proc : List Bool)
    (hall : ∀ (i : Nat) p, proc[i]? = some p → p = true) (i : Nat) : ¬ dangles w refs proc i := by
  intro h
  obtain ⟨r, p, hr, hp, hf⟩ := h
  have := hall i p hp
  subst this
  exact visited_never_dangles w refs proc i hp ⟨r, true, hr, hp, hf⟩

/-- … and an incomplete traversal is still safe when no discardable object is shared between a visited and an unvisited
holder (the situation of a function definition's own signature in the pinned tree: never visited, but its objects are its own) -/
theorem unshared_no_dangling (w : World) (refs : List Nat) (proc : List Bool)
    (hsep : ∀ (i j : Nat) r, refs[i]? = some r → refs[j]? = some r → w.disc r = true → proc[i]? = some false → proc[j]? = some true → False)
    (i : Nat) : ¬ dangles w refs proc i := by
  intro h
  obtain ⟨r, p, hr, hp, hf⟩ := h
  cases p with
  | true => exact visited_never_dangles w refs proc i hp ⟨r, true, hr, hp, hf⟩
  | false =>
    have := (unvisited_dangles_iff w refs proc i r hr hp).1 ⟨r, false, hr, hp, hf⟩
    obtain ⟨hd, j, hj, hpj⟩ := this
    exact hsep i j r hr hj hd hp hpj

/-- the shape of the defects found and repaired (unnamed bit-field / unnamed parameter / parameter under a pointer
declarator sharing `int` with a visited declarator) and of seeded change C02-a (one shared implicit-`int` object): two
holders of object 5, only the first visited — the second dangles -/
theorem C02_witness_shared_unvisited :
    let w : World := { disc := fun o => o == 5, canon := fun _ => 0, canon_kept := by intro _; rfl }
    dangles w [5, 5] [true, false] 1 := by
  refine ⟨5, false, rfl, rfl, ?_, 0, rfl, rfl⟩
  rfl

end PsycheModel.Ownership
