import PsycheModel.Compat
import PsycheModel.Props.C13
/-!
# C11 — Well-typed programs produce no error diagnostics (the part that is decision logic over types)

* arithmetic operators and compound assignments: whenever C11 6.5.5-6.5.9 / 6.5.16.2 give the operation a type, the model
  of the checker's operator dispatch gives one too (never rejects) — for all 18 arithmetic kinds, every ordered pair, every
  operator (corollary of the C13 equalities);
* type compatibility (6.2.7): every error-free type, of any depth, is compatible with itself as `typesAreCompatible`
  decides it, with qualifiers respected and with qualifiers ignored (the latter failed for a qualified pointer in the
  pinned tree - `int * const *x, * const *y; … x == y` was rejected - and holds since the repair of `typesAreCompatible`).
-/
namespace PsycheModel.Arith
open PsycheModel.Specifiers (BK)
open PsycheModel.ArithSpec

theorem valid_binary_never_rejected (op : Op) (l r : BK) (h : binSpec lp64 op l r ≠ none) : binType op l r ≠ none := by
  rw [binType_is_C11]; exact h

theorem valid_compound_assignment_never_rejected (op : Op) (l r : BK) (h : assignSpec op l r ≠ none) : assignType op l r ≠ none := by
  rw [assignType_is_C11]; exact h

/-- every arithmetic pair is accepted by `* / + - == !=`, every integer pair by `% << >>`, every real pair by `< > <= >=` -/
theorem operator_acceptance_table (l r : BK) :
    (∀ op ∈ [Op.mul, .div, .add, .sub, .eq, .ne], binType op l r ≠ none) ∧
    (isIntegerK l = true → isIntegerK r = true → ∀ op ∈ [Op.rem, .shl, .shr], binType op l r ≠ none) ∧
    (isRealK l = true → isRealK r = true → ∀ op ∈ [Op.lt, .gt, .le, .ge], binType op l r ≠ none) := by
  refine ⟨?_, ?_, ?_⟩
  · intro op hop
    simp only [List.mem_cons, List.mem_nil_iff, or_false] at hop
    rcases hop with h | h | h | h | h | h <;> subst h <;> simp [binType]
  · intro hl hr op hop
    simp only [List.mem_cons, List.mem_nil_iff, or_false] at hop
    rcases hop with h | h | h <;> subst h <;> simp [binType, hl, hr]
  · intro hl hr op hop
    simp only [List.mem_cons, List.mem_nil_iff, or_false] at hop
    rcases hop with h | h | h | h <;> subst h <;> simp [binType, hl, hr]

/-- plain `char` is an integer type (6.2.5p17) although neither a signed nor an unsigned integer type -/
theorem plain_char_is_integer : isIntegerK .Char = true ∧ isSignedK .Char = false ∧ isUnsignedK .Char = false := by decide

end PsycheModel.Arith

namespace PsycheModel.Compat

theorem unq_false (t : Ty) : unq false t = t := rfl
theorem unq_true (t : Ty) : unq true t = stripQ t := rfl
theorem stripQ_idem : ∀ t : Ty, stripQ (stripQ t) = stripQ t
  | .qual _ t => by simp only [stripQ]; exact stripQ_idem t
  | .basic _ | .void | .error | .tag _ _ | .ptr _ | .arr _ | .fn _ _ _ => rfl
theorem errorFree_stripQ : ∀ t : Ty, ErrorFree t → ErrorFree (stripQ t)
  | .qual _ t, h => by simp only [stripQ]; exact errorFree_stripQ t h
  | .basic _, h | .void, h | .error, h | .tag _ _, h | .ptr _, h | .arr _, h | .fn _ _ _, h => h

mutual
/-- **Reflexivity of compatibility** (6.2.7p1: a type is compatible with itself), qualifiers respected, for every
error-free type of any depth (pointers, arrays, functions with parameter lists of any length, qualifiers). -/
theorem core_refl : ∀ (t : Ty) (va : Bool), ErrorFree t → compatCore t t va false = true
  | .basic k, _, _ => by simp [compatCore]
  | .void, _, _ => by simp [compatCore]
  | .error, _, h => by simp [ErrorFree] at h
  | .tag k n, _, _ => by simp [compatCore]
  | .ptr t, va, h => by simp only [compatCore, unq_false]; exact core_refl t va h
  | .arr t, va, h => by simp only [compatCore, unq_false]; exact core_refl t va h
  | .fn r f ps, va, h => by
    have hr := core_refl r false h.1
    have hp := coreL_refl ps va h.2
    cases f <;> simp [compatCore, unq_false, hr, hp]
  | .qual q u, va, h => by
    have hu := core_refl u va h
    simp [compatCore, unq_false, hu]
theorem coreL_refl : ∀ (ts : TyList) (va : Bool), ErrorFreeL ts → compatL ts ts va false = true
  | .nil, _, _ => by simp [compatL]
  | .cons t rest, va, h => by simp [compatL, unq_false, core_refl t va h.1, coreL_refl rest va h.2]
end

theorem compat_refl (t : Ty) (va : Bool) (h : ErrorFree t) : compat t t va false = true := by
  simpa [compat, unq_false] using core_refl t va h

mutual
/-- … and **with the qualifiers ignored** (pointer comparison, conversion to `void *`): every error-free type is compatible
with itself and with itself stripped of qualifiers, at every depth.  (Before the repair of `typesAreCompatible` this
failed for a qualified pointer: only the qualifiers of the first type were dropped.) -/
theorem core_refl_iq : ∀ (t : Ty) (va : Bool), ErrorFree t → compatCore t (stripQ t) va true = true
  | .basic k, _, _ => by simp [compatCore, stripQ]
  | .void, _, _ => by simp [compatCore, stripQ]
  | .error, _, h => by simp [ErrorFree] at h
  | .tag k n, _, _ => by simp [compatCore, stripQ]
  | .ptr t, va, h => by simp only [stripQ, compatCore, unq_true]; exact core_refl_iq t va h
  | .arr t, va, h => by simp only [stripQ, compatCore, unq_true]; exact core_refl_iq t va h
  | .fn r f ps, va, h => by
    have hr := core_refl_iq r false h.1
    have hp := coreL_refl_iq ps va h.2
    cases f <;> simp [stripQ, compatCore, unq_true, hr, hp]
  | .qual q u, va, h => by
    have hu := core_refl_iq u va h
    simp only [stripQ, compatCore, if_true, unq_true, stripQ_idem]
    exact hu
theorem coreL_refl_iq : ∀ (ts : TyList) (va : Bool), ErrorFreeL ts → compatL ts ts va true = true
  | .nil, _, _ => by simp [compatL]
  | .cons t rest, va, h => by simp [compatL, unq_true, core_refl_iq t va h.1, coreL_refl_iq rest va h.2]
end

theorem compat_refl_ignoring_qualifiers (t : Ty) (va : Bool) (h : ErrorFree t) : compat t t va true = true := by
  simpa [compat, unq_true] using core_refl_iq t va h

/-- the former witness of the defect (`int * const *x, * const *y; … x == y`), now accepted -/
theorem C11_qualified_pointer_now_compatible :
    compat (.qual 1 (.ptr (.basic 5))) (.qual 1 (.ptr (.basic 5))) true true = true := by decide

/-- `void *` takes a pointer to a structure when void counts as any type (`void *vp = &st;`) -/
theorem void_matches_tag (k n : Nat) : compat .void (.tag k n) true true = true ∧ compat .void (.tag k n) true false = true := by
  simp [compat, unq, stripQ, compatCore]

/-- non-vacuity: `int (*)(const char *, struct S *)` -/
example : ErrorFree (.ptr (.fn (.basic 5) .nonEmpty (.cons (.ptr (.qual 1 (.basic 0))) (.cons (.ptr (.tag 0 7)) .nil)))) := by
  simp [ErrorFree, ErrorFreeL]

end PsycheModel.Compat
