import PsycheModel.Compat
import PsycheModel.Props.C13
/-!
# C11 — Well-typed programs produce no error diagnostics (the part that is decision logic over types)

* arithmetic operators and compound assignments: whenever C11 6.5.5-6.5.9 / 6.5.16.2 give the operation a type, the model
  of the checker's operator dispatch gives one too (never rejects) — for all 18 arithmetic kinds, every ordered pair, every
  operator (corollary of the C13 equalities);
* type compatibility (6.2.7): every error-free type, of any depth, is compatible with itself as `typesAreCompatible`
  decides it with qualifiers respected; with `ignoreQualifier` it is NOT so for a qualified pointer (witness, replayed on
  the implementation: `int * const *x, * const *y; … x == y` is rejected).
-/
namespace PsycheModel.Arith
open PsycheModel.Specifiers (BK)
open PsycheModel.ArithSpec

theorem valid_binary_never_rejected (op : Op) (l r : BK) (h : binSpec lp64 op l r ≠ none) : binType op l r ≠ none := by
  rw [binType_is_C11]; exact h

theorem valid_compound_assignment_never_rejected (op : Op) (l r : BK) (h : assignSpec op l r ≠ none) : assignType op l r ≠ none := by
  rw [assignType_is_C11]; exact h

/-- every arithmetic pair is accepted by `* / + - == !=`, every integer pair by `% << >>`, every real pair by `< > <= >=` -/
theorem operator_acceptance_table (l r : BK) :
    (∀ op ∈ [Op.mul, .div, .add, .sub, .eq, .ne], binType op l r ≠ none) ∧
    (isIntegerK l = true → isIntegerK r = true → ∀ op ∈ [Op.rem, .shl, .shr], binType op l r ≠ none) ∧
    (isRealK l = true → isRealK r = true → ∀ op ∈ [Op.lt, .gt, .le, .ge], binType op l r ≠ none) := by
  refine ⟨?_, ?_, ?_⟩
  · intro op hop
    simp only [List.mem_cons, List.mem_nil_iff, or_false] at hop
    rcases hop with h | h | h | h | h | h <;> subst h <;> simp [binType]
  · intro hl hr op hop
    simp only [List.mem_cons, List.mem_nil_iff, or_false] at hop
    rcases hop with h | h | h <;> subst h <;> simp [binType, hl, hr]
  · intro hl hr op hop
    simp only [List.mem_cons, List.mem_nil_iff, or_false] at hop
    rcases hop with h | h | h | h <;> subst h <;> simp [binType, hl, hr]

/-- plain `char` is an integer type (6.2.5p17) although neither a signed nor an unsigned integer type -/
theorem plain_char_is_integer : isIntegerK .Char = true ∧ isSignedK .Char = false ∧ isUnsignedK .Char = false := by decide

end PsycheModel.Arith

namespace PsycheModel.Compat

mutual
/-- **Reflexivity of compatibility** (6.2.7p1: a type is compatible with itself), qualifiers respected, for every
error-free type of any depth and either treatment of `void`. -/
theorem compat_refl : ∀ (t : Ty) (va : Bool), ErrorFree t → compat t t va false = true
  | .basic k, _, _ => by simp [compat]
  | .void, _, _ => by simp [compat]
  | .error, _, h => absurd h (by simp [ErrorFree])
  | .tag k n, _, _ => by simp [compat]
  | .ptr t, va, h => by simp only [compat]; exact compat_refl t va h
  | .arr t, va, h => by simp only [compat]; exact compat_refl t va h
  | .fn r f ps, va, h => by
    have hr := compat_refl r false h.1
    have hp := compatL_refl ps va h.2
    cases f <;> simp [compat, hr, hp]
  | .qual q u, va, h => by
    have hu := compat_refl u va h
    simp [compat, hu]
theorem compatL_refl : ∀ (ts : TyList) (va : Bool), ErrorFreeL ts → compatL ts ts va false = true
  | .nil, _, _ => by simp [compatL]
  | .cons t rest, va, h => by simp [compatL, compat_refl t va h.1, compatL_refl rest va h.2]
end

/-- with `ignoreQualifier` the relation is not reflexive: the left qualifier is stripped, the right one is not, and the
pointer case has no branch for a qualified right operand (`case TypeKind::Qualified: break;`) -/
theorem C11_witness_qualified_pointer :
    compat (.qual 1 (.ptr (.basic 5))) (.qual 1 (.ptr (.basic 5))) true true = false := by decide

/-- non-vacuity: `int (*)(const char *, struct S *)` -/
example : ErrorFree (.ptr (.fn (.basic 5) .nonEmpty (.cons (.ptr (.qual 1 (.basic 0))) (.cons (.ptr (.tag 0 7)) .nil)))) := by
  simp [ErrorFree, ErrorFreeL]

end PsycheModel.Compat
