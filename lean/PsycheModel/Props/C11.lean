import PsycheModel.Compat
import PsycheModel.Assign
import PsycheModel.Props.C13
/-!
# C11 — Well-typed programs produce no error diagnostics (the part that is decision logic over types)

* arithmetic operators and compound assignments: whenever C11 6.5.5-6.5.9 / 6.5.16.2 give the operation a type, the model
  of the checker's operator dispatch gives one too (never rejects) — for all 18 arithmetic kinds, every ordered pair, every
  operator (corollary of the C13 equalities);
* type compatibility (6.2.7): every error-free type, of any depth, is compatible with itself as `typesAreCompatible`
  decides it, with qualifiers respected and with qualifiers ignored (the latter failed for a qualified pointer in the
  pinned tree - `int * const *x, * const *y; … x == y` was rejected - and holds since the repair of `typesAreCompatible`).
-/
namespace PsycheModel.Arith
open PsycheModel.Specifiers (BK)
open PsycheModel.ArithSpec

theorem valid_binary_never_rejected (op : Op) (l r : BK) (h : binSpec lp64 op l r ≠ none) : binType op l r ≠ none := by
  rw [binType_is_C11]; exact h

theorem valid_compound_assignment_never_rejected (op : Op) (l r : BK) (h : assignSpec op l r ≠ none) : assignType op l r ≠ none := by
  rw [assignType_is_C11]; exact h

/-- every arithmetic pair is accepted by `* / + - == !=`, every integer pair by `% << >>`, every real pair by `< > <= >=` -/
theorem operator_acceptance_table (l r : BK) :
    (∀ op ∈ [Op.mul, .div, .add, .sub, .eq, .ne], binType op l r ≠ none) ∧
    (isIntegerK l = true → isIntegerK r = true → ∀ op ∈ [Op.rem, .shl, .shr], binType op l r ≠ none) ∧
    (isRealK l = true → isRealK r = true → ∀ op ∈ [Op.lt, .gt, .le, .ge], binType op l r ≠ none) := by
  refine ⟨?_, ?_, ?_⟩
  · intro op hop
    simp only [List.mem_cons, List.mem_nil_iff, or_false] at hop
    rcases hop with h | h | h | h | h | h <;> subst h <;> simp [binType]
  · intro hl hr op hop
    simp only [List.mem_cons, List.mem_nil_iff, or_false] at hop
    rcases hop with h | h | h <;> subst h <;> simp [binType, hl, hr]
  · intro hl hr op hop
    simp only [List.mem_cons, List.mem_nil_iff, or_false] at hop
    rcases hop with h | h | h | h <;> subst h <;> simp [binType, hl, hr]

/-- plain `char` is an integer type (6.2.5p17) although neither a signed nor an unsigned integer type -/
theorem plain_char_is_integer : isIntegerK .Char = true ∧ isSignedK .Char = false ∧ isUnsignedK .Char = false := by decide

end PsycheModel.Arith

namespace PsycheModel.Compat

theorem unq_false (t : Ty) : unq false t = t := rfl
theorem unq_true (t : Ty) : unq true t = stripQ t := rfl
theorem stripQ_idem : ∀ t : Ty, stripQ (stripQ t) = stripQ t
  | .qual _ t => by simp only [stripQ]; exact stripQ_idem t
  | .basic _ | .void | .error | .tag _ _ | .ptr _ | .arr _ | .fn _ _ _ => rfl
theorem errorFree_stripQ : ∀ t : Ty, ErrorFree t → ErrorFree (stripQ t)
  | .qual _ t, h => by simp only [stripQ]; exact errorFree_stripQ t h
  | .basic _, h | .void, h | .error, h | .tag _ _, h | .ptr _, h | .arr _, h | .fn _ _ _, h => h

mutual
/-- **Reflexivity of compatibility** (6.2.7p1: a type is compatible with itself), qualifiers respected, for every
error-free type of any depth (pointers, arrays, functions with parameter lists of any length, qualifiers). -/
theorem core_refl : ∀ (t : Ty) (va : Bool), ErrorFree t → compatCore t t va false = true
  | .basic k, _, _ => by simp [compatCore]
  | .void, _, _ => by simp [compatCore]
  | .error, _, h => by simp [ErrorFree] at h
  | .tag k n, _, _ => by simp [compatCore]
  | .ptr t, va, h => by simp only [compatCore, unq_false]; exact core_refl t va h
  | .arr t, va, h => by simp only [compatCore, unq_false]; exact core_refl t va h
  | .fn r f ps, va, h => by
    have hr := core_refl r false h.1
    have hp := coreL_refl ps va h.2
    cases f <;> simp [compatCore, unq_false, hr, hp]
  | .qual q u, va, h => by
    have hu := core_refl u va h
    simp [compatCore, unq_false, hu]
theorem coreL_refl : ∀ (ts : TyList) (va : Bool), ErrorFreeL ts → compatL ts ts va false = true
  | .nil, _, _ => by simp [compatL]
  | .cons t rest, va, h => by simp [compatL, unq_false, core_refl t va h.1, coreL_refl rest va h.2]
end

theorem compat_refl (t : Ty) (va : Bool) (h : ErrorFree t) : compat t t va false = true := by
  simpa [compat, unq_false] using core_refl t va h

mutual
/-- … and **with the qualifiers ignored** (pointer comparison, conversion to `void *`): every error-free type is compatible
with itself and with itself stripped of qualifiers, at every depth.  (Before the repair of `typesAreCompatible` this
failed for a qualified pointer: only the qualifiers of the first type were dropped.) -/
theorem core_refl_iq : ∀ (t : Ty) (va : Bool), ErrorFree t → compatCore t (stripQ t) va true = true
  | .basic k, _, _ => by simp [compatCore, stripQ]
  | .void, _, _ => by simp [compatCore, stripQ]
  | .error, _, h => by simp [ErrorFree] at h
  | .tag k n, _, _ => by simp [compatCore, stripQ]
  | .ptr t, va, h => by simp only [stripQ, compatCore, unq_true]; exact core_refl_iq t va h
  | .arr t, va, h => by simp only [stripQ, compatCore, unq_true]; exact core_refl_iq t va h
  | .fn r f ps, va, h => by
    have hr := core_refl_iq r false h.1
    have hp := coreL_refl_iq ps va h.2
    cases f <;> simp [stripQ, compatCore, unq_true, hr, hp]
  | .qual q u, va, h => by
    have hu := core_refl_iq u va h
    simp only [stripQ, compatCore, if_true, unq_true, stripQ_idem]
    exact hu
theorem coreL_refl_iq : ∀ (ts : TyList) (va : Bool), ErrorFreeL ts → compatL ts ts va true = true
  | .nil, _, _ => by simp [compatL]
  | .cons t rest, va, h => by simp [compatL, unq_true, core_refl_iq t va h.1, coreL_refl_iq rest va h.2]
end

theorem compat_refl_ignoring_qualifiers (t : Ty) (va : Bool) (h : ErrorFree t) : compat t t va true = true := by
  simpa [compat, unq_true] using core_refl_iq t va h

/-- the former witness of the defect (`int * const *x, * const *y; … x == y`), now accepted -/
theorem C11_qualified_pointer_now_compatible :
    compat (.qual 1 (.ptr (.basic 5))) (.qual 1 (.ptr (.basic 5))) true true = true := by decide

/-- `void *` takes a pointer to a structure when void counts as any type (`void *vp = &st;`) -/
theorem void_matches_tag (k n : Nat) : compat .void (.tag k n) true true = true ∧ compat .void (.tag k n) true false = true := by
  simp [compat, unq, stripQ, compatCore]

/-- non-vacuity: `int (*)(const char *, struct S *)` -/
example : ErrorFree (.ptr (.fn (.basic 5) .nonEmpty (.cons (.ptr (.qual 1 (.basic 0))) (.cons (.ptr (.tag 0 7)) .nil)))) := by
  simp [ErrorFree, ErrorFreeL]

end PsycheModel.Compat

/-! ## Simple assignment, argument passing (6.5.16.1p1): the model of `isTypeAssignableFromOtherType` (`PsycheModel/Assign.lean`).
No assignment the constraints allow is refused: -/
namespace PsycheModel.Assign
open PsycheModel.Compat

/-- the unqualified type an lvalue has, an enumerated type read as `int` -/
def core (t : Ty) : Ty := enumAsInt (stripQ t)

/-- **arithmetic ← arithmetic** (first case): whatever the kinds, qualifiers and enumerated types involved -/
theorem arithmetic_from_arithmetic (l r : Ty) (n : Bool) (hl : isArith (core l) = true) (hr : isArith (valueType r) = true) :
    assignableFrom l r n = true := by
  simp [assignableFrom, core] at *
  simp [hl, hr]

/-- **structure or union ← the same structure or union** (second case) -/
theorem struct_from_same_struct (k tg : Nat) (hk : k = 0 ∨ k = 1) (ql qr : List Nat) (n : Bool) :
    assignableFrom (ql.foldr Ty.qual (.tag k tg)) (qr.foldr Ty.qual (.tag k tg)) n = true := by
  have hs : ∀ qs : List Nat, stripQ (qs.foldr Ty.qual (.tag k tg)) = .tag k tg := by
    intro qs; induction qs with
    | nil => rfl
    | cons q qs ih => simpa [stripQ] using ih
  rcases hk with rfl | rfl <;>
    simp [assignableFrom, valueType, hs, enumAsInt, isArith, isBool, isSU, compat, unq, stripQ, compatCore]

/-- **pointer ← pointer to the same type, whatever qualifiers either pointee carries** (third case; the model, like the code, does not ask
that the left pointee has all the qualifiers of the right one: it accepts more than C, never less) -/
theorem pointer_from_pointer_to_same (u : Ty) (hu : ErrorFree u) (q1 q2 : List Nat) (n : Bool) :
    assignableFrom (.ptr (q1.foldr Ty.qual u)) (.ptr (q2.foldr Ty.qual u)) n = true := by
  have hs : ∀ qs : List Nat, stripQ (qs.foldr Ty.qual u) = stripQ u := by
    intro qs; induction qs with
    | nil => rfl
    | cons q qs ih => simpa [stripQ] using ih
  have hc : ∀ qs : List Nat, compatCore (qs.foldr Ty.qual u) (stripQ u) true true = true := by
    intro qs; induction qs with
    | nil => exact core_refl_iq u true hu
    | cons q qs ih => simp only [List.foldr_cons, compatCore, if_true, unq_true, stripQ_idem]; exact ih
  simp [assignableFrom, valueType, stripQ, enumAsInt, isArith, isBool, isSU, compat, unq, hs, hc]

/-- **pointer ← array of the same element type** (the array is converted to a pointer to its element, 6.3.2.1p3) -/
theorem pointer_from_array (u : Ty) (hu : ErrorFree u) (n : Bool) : assignableFrom (.ptr u) (.arr u) n = true := by
  have := core_refl_iq u true hu
  simp [assignableFrom, valueType, stripQ, enumAsInt, isArith, isBool, isSU, compat, unq, this]

/-- the non-qualifier part of a type is not the error type -/
def Known (t : Ty) : Prop := stripQ t ≠ .error

theorem void_left (t : Ty) (h : Known t) : compat .void t true true = true := by
  unfold compat
  simp only [unq_true]
  cases hs : stripQ t <;> simp_all [compatCore, Known]

theorem void_right : ∀ (t : Ty), Known t → compatCore t .void true true = true
  | .qual q u, h => by simp only [compatCore, if_true, unq_true, stripQ]; exact void_right u (by simpa [Known, stripQ] using h)
  | .basic _, _ | .void, _ | .tag _ _, _ | .ptr _, _ | .arr _, _ | .fn _ _ _, _ => by simp [compatCore]
  | .error, h => by simp [Known, stripQ] at h

/-- **pointer to void ↔ pointer to any type** (fourth case) -/
theorem void_pointer_both_ways (t : Ty) (h : Known t) (n : Bool) :
    assignableFrom (.ptr .void) (.ptr t) n = true ∧ assignableFrom (.ptr t) (.ptr .void) n = true := by
  have h1 := void_left t h
  have h2 := void_right t h
  constructor
  · simp [assignableFrom, valueType, stripQ, enumAsInt, isArith, isBool, isSU, h1]
  · simp [assignableFrom, valueType, stripQ, enumAsInt, isArith, isBool, isSU, compat, unq, h2]

/-- **pointer ← null pointer constant** (fifth case), of every integer type -/
theorem pointer_from_null_constant (a : Ty) (k : Nat) (hk : k ≤ 11) : assignableFrom (.ptr a) (.basic k) true = true := by
  simp [assignableFrom, valueType, stripQ, enumAsInt, isArith, isBool, isSU, isIntK, hk]

/-- **_Bool ← pointer** (sixth case; refused by the code until it was repaired) -/
theorem bool_from_pointer (a : Ty) (n : Bool) : assignableFrom (.basic 11) (.ptr a) n = true ∧ assignableFrom (.basic 11) (.arr a) n = true := by
  simp [assignableFrom, valueType, stripQ, enumAsInt, isArith, isBool, isPtr]

/-- what stays refused: a pointer from a non-null integer, an integer other than `_Bool` from a pointer, a structure from another one -/
example : assignableFrom (.ptr (.basic 5)) (.basic 5) false = false ∧ assignableFrom (.basic 5) (.ptr (.basic 5)) false = false ∧
    assignableFrom (.tag 0 1) (.tag 0 2) false = false ∧ assignableFrom (.tag 0 1) (.tag 1 1) false = false ∧
    assignableFrom (.ptr (.basic 5)) (.ptr (.basic 12)) false = false := by decide

end PsycheModel.Assign
