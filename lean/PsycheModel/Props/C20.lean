import PsycheModel.Lemmas.VMap
/-!
# C20 — VersionedMap restores exactly the contents of any earlier revision

Property theorems only (helper lemmas live in `Lemmas/VMap.lean`).  All statements are for every key
type with decidable equality, every value type and every *valid* history (each `switch r` names a
revision that exists when it is executed), of any length.
-/
namespace PsycheModel.VMap
variable {K V : Type} [DecidableEq K]

/-- every state reachable by a valid history satisfies the representation invariant -/
theorem run_inv (h : List (Op K V)) (hv : Valid h = true) : Inv (run h) :=
  (foldl_inv h (init : St K V) init_inv hv).1

/-- **C20, main statement.**  Let `p` be any earlier point of the history `p ++ t` and `r` the revision
that was current there.  Switching to `r` after the whole history makes the map contain exactly the
key/value pairs it contained at `p` (extensionally: every `find` gives the same answer). -/
theorem applyRevision_restores (p t : List (Op K V)) (hv : Valid (p ++ t) = true) (k : K) :
    (run (p ++ t ++ [Op.switch (run p).cur])).map.get k = (run p).map.get k := by
  unfold Valid at hv
  rw [validFrom_append, Bool.and_eq_true] at hv
  have hp1 : Inv (run p) := (foldl_inv p (init : St K V) init_inv hv.1).1
  obtain ⟨_, _, ht3⟩ := foldl_inv t (run p) hp1 hv.2
  have hrun : run (p ++ t ++ [Op.switch (run p).cur])
      = applyRevision (t.foldl step (run p)) (run p).cur := by
    simp [run, List.foldl_append, step]
  rw [hrun, hp1.mapOk k, ← ht3 (run p).cur hp1.curLe]
  rfl

/-- the switch is also recorded as the current revision -/
theorem applyRevision_sets_current (h : List (Op K V)) (r : Nat) :
    (run (h ++ [Op.switch r])).cur = r := by
  simp [run, List.foldl_append, step, applyRevision]

/-- **C20, empty initial revision.**  Switching to revision 0 after any valid history empties the map. -/
theorem revision_zero_is_empty (h : List (Op K V)) (k : K) :
    (run (h ++ [Op.switch 0])).map.get k = none := by
  simp [run, List.foldl_append, step, applyRevision, chain, findParent, replay, AMap.get]

/-- **C20, fresh revision numbers.**  An insertion creates a revision number strictly greater than
every revision that was current at any earlier point of the history. -/
theorem insert_creates_fresh_revision (p t : List (Op K V)) (hv : Valid (p ++ t) = true) (k : K) (v : V) :
    (run p).cur < (run (p ++ t ++ [Op.ins k v])).cur := by
  unfold Valid at hv
  rw [validFrom_append, Bool.and_eq_true] at hv
  have hp1 : Inv (run p) := (foldl_inv p (init : St K V) init_inv hv.1).1
  obtain ⟨_, ht2, _⟩ := foldl_inv t (run p) hp1 hv.2
  have h1 : (run (p ++ t ++ [Op.ins k v])).cur = (t.foldl step (run p)).cnt + 1 := by
    simp [run, List.foldl_append, step, insertOrAssign]
  have h2 := hp1.curLe
  omega

/-- **C20, insertions never alter what other revisions restore** (also across branches: the history may
switch back and insert again any number of times). -/
theorem insert_preserves_other_revisions (h : List (Op K V)) (hv : Valid h = true) (k : K) (v : V)
    (r : Nat) (hr : r ≤ (run h).cnt) (k' : K) :
    (run (h ++ [Op.ins k v] ++ [Op.switch r])).map.get k' = (run (h ++ [Op.switch r])).map.get k' := by
  have hi : Inv (run h) := run_inv h hv
  have h1 : run (h ++ [Op.ins k v] ++ [Op.switch r]) = applyRevision (insertOrAssign (run h) k v) r := by
    simp [run, List.foldl_append, step]
  have h2 : run (h ++ [Op.switch r]) = applyRevision (run h) r := by
    simp [run, List.foldl_append, step]
  rw [h1, h2]
  have := congrFun (content_ins (run h) k v hi hr) k'
  exact this

/-! ### Non-vacuity: a concrete branching history meets the hypotheses and exercises the theorem. -/

/-- `ins a; ins b; switch 1; ins c` then back to revision 3 — the history on which the pinned tree
restored `{a,b}` instead of `{a,c}` (defect D1, repaired by a `fix:` commit). -/
def sampleP : List (Op Nat Nat) := [.ins 1 10, .ins 2 20, .switch 1, .ins 3 30]
def sampleT : List (Op Nat Nat) := [.switch 2, .ins 1 11, .switch 0]

example : Valid (sampleP ++ sampleT) = true := by decide
example : (run sampleP).cur = 3 := by decide
example : ((run (sampleP ++ sampleT ++ [Op.switch 3])).map.get 1,
           (run (sampleP ++ sampleT ++ [Op.switch 3])).map.get 2,
           (run (sampleP ++ sampleT ++ [Op.switch 3])).map.get 3) = (some 10, none, some 30) := by decide

end PsycheModel.VMap
