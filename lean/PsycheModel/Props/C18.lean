import PsycheModel.Lemmas.TextTable
/-!
# C18 — Equal spellings share one lexeme object; different spellings never do

All theorems are for **every** hash function `h` (so every collision pattern, the 28-bit truncation of
the real hash and every growth/rehash threshold are covered at once) and every history of `findOrInsert`
calls with NUL-free words, of any length.  The identity of a lexeme object is its index in `elements`.
-/
namespace PsycheModel.TextTable
variable (h : Bytes → Nat)

/-- state reached from an invariant state by a history: invariant kept, `elements` only grows, and every
returned identity names an element whose text is the corresponding word (now and for ever after). -/
theorem runFrom_spec : ∀ (ws : List Bytes) (s : St), Inv h s → (∀ w ∈ ws, NulFree w) →
    Inv h (runFrom h s ws).1 ∧ (∃ t, (runFrom h s ws).1.elements = s.elements ++ t) ∧
    (runFrom h s ws).2.length = ws.length ∧
    ∀ a (ha : a < ws.length) (ha' : a < (runFrom h s ws).2.length),
      (runFrom h s ws).1.elements[(runFrom h s ws).2[a]]? = some ws[a] := by
  intro ws
  induction ws with
  | nil =>
    intro s hi _
    refine ⟨hi, ⟨[], by simp [runFrom]⟩, rfl, ?_⟩
    intro a ha; simp at ha
  | cons w t ih =>
    intro s hi hnf
    obtain ⟨hi1, ⟨t1, ht1⟩, hget⟩ := findOrInsert_spec h hi (hnf w (by simp))
    obtain ⟨hi2, ⟨t2, ht2⟩, hlen, hall⟩ := ih (findOrInsert h s w).1 hi1 (fun w' hw' => hnf w' (by simp [hw']))
    refine ⟨hi2, ⟨t1 ++ t2, ?_⟩, ?_, ?_⟩
    · simp only [runFrom]; rw [ht2, ht1, List.append_assoc]
    · simp only [runFrom, List.length_cons, hlen]
    · intro a ha ha'
      cases a with
      | zero =>
        simp only [runFrom, List.getElem_cons_zero]
        rw [ht2]
        obtain ⟨hlt, hv⟩ := List.getElem?_eq_some_iff.mp hget
        rw [List.getElem?_append_left hlt, List.getElem?_eq_getElem hlt, hv]
      | succ a =>
        simp only [runFrom, List.getElem_cons_succ]
        exact hall a (by simpa using ha) (by simpa [runFrom] using ha')

theorem runFrom_append (p t : List Bytes) : ∀ s : St, runFrom h s (p ++ t) =
    ((runFrom h (runFrom h s p).1 t).1, (runFrom h s p).2 ++ (runFrom h (runFrom h s p).1 t).2) := by
  induction p with
  | nil => intro s; simp [runFrom]
  | cons w p ih =>
    intro s
    simp only [List.cons_append, runFrom]
    rw [ih]

/-- **C18 (i): same object ⇔ same spelling.**  Two calls of any history return the same element
identity exactly when their words are bytewise equal, no matter how many distinct lexemes were
created in between and whatever the hash function does. -/
theorem same_object_iff_same_spelling (ws : List Bytes) (hnf : ∀ w ∈ ws, NulFree w)
    (a b : Nat) (ha : a < ws.length) (hb : b < ws.length)
    (ha' : a < (run h ws).2.length) (hb' : b < (run h ws).2.length) :
    (run h ws).2[a] = (run h ws).2[b] ↔ ws[a] = ws[b] := by
  obtain ⟨hi, _, _, hall⟩ := runFrom_spec h ws init (init_inv h) hnf
  have h1 := hall a ha ha'
  have h2 := hall b hb hb'
  constructor
  · intro heq
    have : (run h ws).1.elements[(run h ws).2[a]]? = (run h ws).1.elements[(run h ws).2[b]]? := by rw [heq]
    have h1' : (run h ws).1.elements[(run h ws).2[a]]? = some ws[a] := h1
    have h2' : (run h ws).1.elements[(run h ws).2[b]]? = some ws[b] := h2
    rw [h1', h2'] at this
    exact Option.some.inj this
  · intro heq
    obtain ⟨l1, e1⟩ := List.getElem?_eq_some_iff.mp h1
    obtain ⟨l2, e2⟩ := List.getElem?_eq_some_iff.mp h2
    have : (runFrom h init ws).1.elements[(runFrom h init ws).2[a]] =
        (runFrom h init ws).1.elements[(runFrom h init ws).2[b]] := by rw [e1, e2, heq]
    exact (List.getElem_inj hi.nd).mp this

/-- every call gets an answer (the result list is as long as the history) -/
theorem run_length (ws : List Bytes) (hnf : ∀ w ∈ ws, NulFree w) : (run h ws).2.length = ws.length :=
  (runFrom_spec h ws init (init_inv h) hnf).2.2.1

/-- **C18 (ii): a lexeme's text never changes after creation.**  Continuing any history `p` with any
history `t` leaves every element that existed after `p` in place, with the same text. -/
theorem text_never_changes (p t : List Bytes) (hnf : ∀ w ∈ p ++ t, NulFree w) (i : Nat)
    (hi : i < (run h p).1.elements.length) :
    (run h (p ++ t)).1.elements[i]? = (run h p).1.elements[i]? := by
  have hp := runFrom_spec h p init (init_inv h) (fun w hw => hnf w (by simp [hw]))
  have hsplit : run h (p ++ t) = ((runFrom h (run h p).1 t).1, (run h p).2 ++ (runFrom h (run h p).1 t).2) :=
    runFrom_append h p t init
  obtain ⟨_, ⟨t2, ht2⟩, _⟩ := runFrom_spec h t (run h p).1 hp.1 (fun w hw => hnf w (by simp [hw]))
  rw [hsplit]
  simp only []
  rw [ht2, List.getElem?_append_left hi]

/-- the text of the returned element is the spelling that was looked up -/
theorem returned_element_has_the_spelling (ws : List Bytes) (hnf : ∀ w ∈ ws, NulFree w) (a : Nat)
    (ha : a < ws.length) (ha' : a < (run h ws).2.length) :
    (run h ws).1.elements[(run h ws).2[a]]? = some ws[a] :=
  (runFrom_spec h ws init (init_inv h) hnf).2.2.2 a ha ha'

/-- **C18 (iii): lookup.**  After any history, `find` succeeds exactly on the words that were inserted,
and returns the identity of the element with that text. -/
theorem find_after_history (ws : List Bytes) (hnf : ∀ w ∈ ws, NulFree w) (w : Bytes) :
    (∀ i, find h (run h ws).1 w = some i → (run h ws).1.elements[i]? = some w) ∧
    (find h (run h ws).1 w = none → w ∉ (run h ws).1.elements) := by
  obtain ⟨hi, _, _, _⟩ := runFrom_spec h ws init (init_inv h) hnf
  exact ⟨fun i hf => find_some h hi hf, fun hf => find_none h hi hf⟩

/-- chains only ever contain identities of existing elements (no dangling `next_` link) -/
theorem chains_in_bounds (ws : List Bytes) (hnf : ∀ w ∈ ws, NulFree w) (b j : Nat)
    (hj : j ∈ chainAt (run h ws).1.buckets b) : j < (run h ws).1.elements.length :=
  (runFrom_spec h ws init (init_inv h) hnf).1.bound b j hj

/-! ### Why the NUL-free hypothesis is there, and that it is the only one

`strncmp`/`strncpy` stop at a NUL byte: two different words with an embedded NUL can share one element.
The lexer never produces such words (the source buffer is NUL-terminated, so no lexeme contains NUL);
the harness replays this witness on the real table to confirm that model and code agree on it. -/
def constHash : Bytes → Nat := fun _ => 0
theorem nul_witness : (run constHash [[97, 0, 98], [97, 0, 99]]).2 = [0, 0] := by decide

/-! ### Non-vacuity -/
example : (run constHash [[97], [98], [97], [97, 98], [98], [99], [100], [101], [97]]).2 = [0, 1, 0, 2, 1, 3, 4, 5, 0] := by
  decide
example : ∀ w ∈ [[97], [98], [97], [97, 98]], NulFree w := by decide

end PsycheModel.TextTable
