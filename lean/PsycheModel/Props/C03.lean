import PsycheModel.Unparse
/-!
# C03 — The syntax tree is lossless: unparsing reproduces the source tokens

For every tree (any shape and depth).  Hypotheses, both decidable and both evaluated on every real tree by the
correspondence run: the walk meets the tokens in source order (`OrderedAll`: the parser stored every token index in the
right holder) and it meets as many tokens as lie between the first and the last one (`nothing dropped`).
-/
namespace PsycheModel.Tree

/-- a strictly increasing list inside `[lo, hi)` has at most `hi - lo` elements -/
theorem length_le_of_strict : ∀ (l : List Nat) (lo hi : Nat), l.Pairwise (· < ·) → (∀ x ∈ l, lo ≤ x ∧ x < hi) → l.length ≤ hi - lo
  | [], _, _, _, _ => Nat.zero_le _
  | x :: xs, lo, hi, hp, hb => by
    have hx := hb x (by simp)
    have hp' := List.pairwise_cons.1 hp
    have := length_le_of_strict xs (x + 1) hi hp'.2 (fun y hy => ⟨hp'.1 y hy, (hb y (List.mem_cons_of_mem _ hy)).2⟩)
    simp only [List.length_cons]
    omega

/-- **Pigeonhole for token sequences**: a strictly increasing list of `n` indices inside `[a, a + n)` is exactly
`a, a+1, …, a+n-1` — nothing missing, nothing twice, nothing out of order. -/
theorem eq_range_of_strict : ∀ (n a : Nat) (l : List Nat), l.Pairwise (· < ·) → (∀ x ∈ l, a ≤ x ∧ x < a + n) → l.length = n →
    l = List.range' a n
  | 0, _, l, _, _, hl => by simp [List.length_eq_zero_iff.1 hl]
  | n + 1, a, [], _, _, hl => by simp at hl
  | n + 1, a, x :: xs, hp, hb, hl => by
    have hx := hb x (by simp)
    have hp' := List.pairwise_cons.1 hp
    have hlen : xs.length = n := by simpa using hl
    have hxs : ∀ y ∈ xs, x + 1 ≤ y ∧ y < a + (n + 1) := fun y hy => ⟨hp'.1 y hy, (hb y (List.mem_cons_of_mem _ hy)).2⟩
    have := length_le_of_strict xs (x + 1) (a + (n + 1)) hp'.2 hxs
    have hxa : x = a := by omega
    subst hxa
    have ih := eq_range_of_strict n (x + 1) xs hp'.2 (fun y hy => ⟨(hxs y hy).1, by have := (hxs y hy).2; omega⟩) hlen
    rw [ih]
    rfl

/-- **Lossless walk.**  If the walk is in source order and meets `n` tokens, all between token `a` and token `a + n - 1`,
then it meets exactly the source's token sequence `a … a + n - 1`. -/
theorem allTokens_eq_source (t : Tree) (a n : Nat) (hord : OrderedAll t)
    (hin : ∀ i ∈ allTokens t, a ≤ i ∧ i < a + n) (hcount : (allTokens t).length = n) :
    allTokens t = List.range' a n :=
  eq_range_of_strict n a (allTokens t) hord hin hcount

/-- **Unparsing reproduces the source tokens**: same spellings, same order, nothing dropped, nothing duplicated; the
end-of-file token is the only one not written. -/
theorem unparse_eq_source (isEOF : Nat → Bool) (spell sep : Nat → String) (t : Tree) (a n : Nat) (hord : OrderedAll t)
    (hin : ∀ i ∈ allTokens t, a ≤ i ∧ i < a + n) (hcount : (allTokens t).length = n) :
    unparse isEOF spell sep t = String.join (((List.range' a n).filter fun i => !isEOF i).map fun i => spell i ++ sep i) := by
  unfold unparse emitted
  rw [allTokens_eq_source t a n hord hin hcount]

/-- the written token sequence is determined by the tree's tokens alone: two trees over the same source range that both
satisfy the hypotheses unparse to the same text (shape of the tree, e.g. which reading an ambiguity took, is irrelevant) -/
theorem unparse_independent_of_shape (isEOF : Nat → Bool) (spell sep : Nat → String) (t t' : Tree) (a n : Nat)
    (h : OrderedAll t) (h' : OrderedAll t') (hin : ∀ i ∈ allTokens t, a ≤ i ∧ i < a + n) (hin' : ∀ i ∈ allTokens t', a ≤ i ∧ i < a + n)
    (hc : (allTokens t).length = n) (hc' : (allTokens t').length = n) :
    unparse isEOF spell sep t = unparse isEOF spell sep t' := by
  rw [unparse_eq_source isEOF spell sep t a n h hin hc, unparse_eq_source isEOF spell sep t' a n h' hin' hc']

/-- without the order hypothesis the conclusion fails: a node whose holders are swapped writes the tokens swapped -/
theorem C03_order_needed :
    allTokens (.mk 0 0 (.tok 2 (.tok 1 .nil))) = [2, 1] ∧ ¬ OrderedAll (.mk 0 0 (.tok 2 (.tok 1 .nil))) := by
  decide

/-- the premises are satisfiable: `f ( a , b ) ;`-like tree with a delimited list and a null child -/
example :
    let t : Tree := .mk 0 0 (.node (.mk 1 0 (.tok 1 (.tok 2 (.list (.cons (.mk 2 0 (.tok 3 .nil)) 4 (.cons (.mk 3 0 (.tok 5 .nil)) 0 .nil)) (.tok 6 .nil))))) (.null (.tok 7 .nil)))
    OrderedAll t ∧ (∀ i ∈ allTokens t, 1 ≤ i ∧ i < 1 + 7) ∧ (allTokens t).length = 7 ∧ allTokens t = List.range' 1 7 := by
  decide

end PsycheModel.Tree
