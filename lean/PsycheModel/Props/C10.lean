import PsycheModel.Lemmas.Scopes
/-!
# C10 — Identifiers resolve to the innermost visible declaration of their name space

About the model of `Scope` and of the binder's scope protocol (`PsycheModel/Scopes.lean`, tied to `Scope.cpp` /
`DeclarationBinder*.cpp` by the correspondence run).  Programs are arbitrary: any nesting depth, any number of
functions, callbacks with their own named parameters, names reused across name spaces and scopes.
-/
namespace PsycheModel.Scopes

theorem sim_init : Sim (({} : St).pushNew false) ({} : CSt) := by
  refine ⟨⟨?_, ?_, ?_, ?_⟩, rfl, rfl, rfl, ?_, rfl, ?_, ?_⟩
  · intro s hs o ho
    have : s = 0 := by simp [St.pushNew] at hs; omega
    subst this
    simp [St.pushNew] at ho
  · intro s hs; simp [St.pushNew] at hs ⊢; omega
  · simp [St.pushNew, Chain]
  · intro u s σ m hm; simp [St.pushNew] at hm
  · intro u s σ m hm; simp [St.pushNew] at hm
  · intro u e hm; simp at hm
  · intro u e e' hm; simp at hm

theorem step_unit (p : Items) : Step (({} : St).pushNew false) ({} : CSt) (runItems p (({} : St).pushNew false)) (cUnit p) :=
  step_runItems p sim_init (by simp)

/-- **Stack discipline.**  Binding any translation unit takes no assertion-guarded path (no pop of an empty stack, no
missing stash) and ends with the scope stack empty: every push is matched. -/
theorem bindUnit_balanced (p : Items) : (bindUnit p).stack = [] ∧ (bindUnit p).ok = true := by
  have h := step_unit p
  have hs : (runItems p (({} : St).pushNew false)).stack = [0] := by rw [h.stack]; rfl
  constructor
  · simp [bindUnit, St.pop, hs]
  · simp [bindUnit, St.pop, hs, h.sim.ok]

/-- **At the point of use the chain of scopes is C's environment.**  For every program and every identifier use in it: the
scope recorded for the use, searched in the store as it was then, answers every key `(name space, identifier)` exactly as
C's rule does (innermost enclosing block / prototype / file scope that declared the key *so far*, parameters visible in the
body, sibling and inner blocks and other name spaces never). -/
theorem use_time_lookup_is_C (p : Items) (u s : Nat) (σ : Nat → Scope) (m : Nat)
    (hu : (u, s, σ, m) ∈ (bindUnit p).uses) :
    ∃ e, (u, e) ∈ (cUnit p).res ∧ ∀ k, lookup σ (s + 1) s k = envFind k e :=
  (step_unit p).sim.uses u s σ m hu

/-- the C side numbers the uses uniquely, so `e` above is *the* environment of use `u` -/
theorem c_use_unique (p : Items) (u : Nat) (e e' : Env) (h : (u, e) ∈ (cUnit p).res) (h' : (u, e') ∈ (cUnit p).res) : e = e' :=
  (step_unit p).sim.resUniq u e e' h h'

/-- **The answer given afterwards.**  `SemanticModel::scopeOf(use)->searchForDeclaration(k)` is evaluated after binding, on
the final contents of the scopes.  It equals C's answer for every key for which no scope on the way declares the key *after*
the use although it did not before (`NoLate`) — the only way the two can differ (that case is the recorded finding
`late-declaration`, witnessed below). -/
theorem final_lookup_is_C (p : Items) (u s : Nat) (σ : Nat → Scope) (m : Nat)
    (hu : (u, s, σ, m) ∈ (bindUnit p).uses) :
    ∃ e, (u, e) ∈ (cUnit p).res ∧
      ∀ k, NoLate σ (bindUnit p).store k (s + 1) s → (bindUnit p).search s k = envFind k e := by
  have hstep := step_unit p
  obtain ⟨e, he, hl⟩ := hstep.sim.uses u s σ m hu
  obtain ⟨h1, _, h3, h4⟩ := hstep.sim.inv.usesOk u s σ m hu
  refine ⟨e, he, fun k hk => ?_⟩
  rw [← hl k]
  exact lookup_ext h3 h4 k (s + 1) s h1 hk

/-- a program in which every block declares before it is looked through satisfies `NoLate` trivially when the final store
*is* the store of the time: nothing was added -/
theorem noLate_refl (σ : Nat → Scope) (k : Key) : ∀ fuel s, NoLate σ σ k fuel s
  | 0, _ => trivial
  | fuel + 1, _ => fun h => ⟨h, fun o _ => noLate_refl σ k fuel o⟩

/-! ### the recorded finding, as a theorem about the model: late declarations are found -/

/-- `int a; void g(void){ a; int a; }`: the use resolves to the later inner declaration (id 2); C selects the outer one (id 0). -/
theorem C10_witness_late_declaration :
    let p : Items := .cons (.decl (0, 1)) (.cons (.fundef (0, 2) [] (.cons .use (.cons (.decl (0, 1)) .nil))) .nil)
    (bindUnit p).resolve 0 (0, 1) = some 2 ∧ (cUnit p).resolve 0 (0, 1) = some 0 := by
  decide

/-! ### non-vacuity: a program with shadowing, a callback parameter scope, sibling blocks and three name spaces -/

example :
    let p : Items :=
      .cons (.decl (0, 1)) (.cons (.decl (1, 1))
      (.cons (.fundef (0, 2) [{ key := (0, 3), inner := [(0, 1)], innerStashes := false }, { key := (0, 4) }]
        (.cons .use (.cons (.block (.cons (.decl (0, 1)) (.cons .use .nil))) (.cons (.block (.cons .use .nil)) .nil))))
      (.cons .use .nil)))
    ((bindUnit p).resolve 0 (0, 1), (bindUnit p).resolve 1 (0, 1), (bindUnit p).resolve 2 (0, 1), (bindUnit p).resolve 3 (0, 3),
      (bindUnit p).resolve 1 (1, 1), (bindUnit p).resolve 2 (0, 4)) = (some 0, some 6, some 0, none, some 1, some 4) := by
  decide

end PsycheModel.Scopes
