import PsycheModel.Lemmas.Specifiers
/-!
# C08 — Type-specifier multisets map to the basic types of C11 6.7.2

For **every** sequence of the eleven keywords, of any length and in any order, interleaved with any
qualifiers / storage-class specifiers: no invalid-type diagnostic ⇔ the keyword multiset is a row of the
table, and then the bound type is that row's type.  The finite part (the reachable (state, multiset) pairs —
43 of them — and their one-keyword successors) is evaluated by the kernel; induction over the sequence does
the rest.
-/
namespace PsycheModel.Specifiers

/-! ## Kernel-evaluated facts about the reachable table -/

/-- every sequence of five (hence more) keywords has already drawn a diagnostic -/
theorem reach5_empty : reach 5 = [] := by decide

def levels : List Nat := [0, 1, 2, 3, 4]

/-- on every reachable pair the verdict of `finish` agrees with the table -/
def verdictOK (p : St × List Kw) : Bool :=
  let o := finish p.1
  (p.2 == [] || ((!o.invalidType) == (rowOf p.2).isSome && (o.invalidType || some o.type == rowOf p.2)
    && !o.missingDefaultsToInt))

theorem reach_verdicts : levels.all (fun n => (reach n).all verdictOK) = true := by decide

/-- a keyword that draws the diagnostic makes the multiset non-viable (no row contains it) -/
theorem reach_steps : levels.all (fun n => (reach n).all (fun p => Kw.all.all (fun k =>
    !(step p.1 k).diag || !viable (ins k p.2)))) = true := by decide

theorem length_lt_5 {ks : List Kw} (h : (run ks, canon ks) ∈ reach ks.length) : ks.length ∈ levels := by
  rcases Nat.lt_or_ge ks.length 5 with hl | hl
  · have : ks.length = 0 ∨ ks.length = 1 ∨ ks.length = 2 ∨ ks.length = 3 ∨ ks.length = 4 := by omega
    simp only [levels, List.mem_cons, List.mem_nil_iff, or_false]
    exact this
  · rw [reach_empty_ge reach5_empty hl] at h; simp at h

/-- a sequence that drew a diagnostic has a multiset contained in no row -/
theorem diag_not_viable : ∀ (ks : List Kw), (run ks).diag = true → viable (canon ks) = false := by
  apply snoc_ind
  · intro h; simp [run, init] at h
  · intro ks k ih hd
    rw [canon_snoc]
    cases hprev : (run ks).diag with
    | true =>
      have := ih hprev
      cases hv : viable (ins k (canon ks)) with
      | false => rfl
      | true =>
        have h2 := viable_mono (a := canon ks) (b := ins k (canon ks))
          (fun j => by rw [count_ins]; omega) hv
        rw [this] at h2; cases h2
    | false =>
      have hm := mem_reach ks hprev
      have hl := length_lt_5 hm
      have hs := reach_steps
      simp only [List.all_eq_true] at hs
      have := hs _ hl _ hm k (mem_all k)
      rw [run_snoc] at hd
      simpa [hd] using this

theorem run_top_ne_none {ks : List Kw} (h : ks ≠ []) : (run ks).top ≠ none := by
  revert h
  apply snoc_ind (P := fun ks => ks ≠ [] → (run ks).top ≠ none)
  · intro h; exact absurd rfl h
  · intro ks k _ _; rw [run_snoc]; exact step_top_ne_none _ _

/-- **C08, main statement.**  For every non-empty keyword sequence: the invalid-type diagnostic is absent
exactly when the keyword multiset is a row of C11 6.7.2p2 (+ lone `_Complex`), in which case the bound
type is that row's type; and the missing-specifier diagnostic is not issued. -/
theorem specifiers_denote_rows (ks : List Kw) (hne : ks ≠ []) :
    ((finish (run ks)).invalidType = false ↔ (rowOf ks).isSome = true) ∧
    ((finish (run ks)).invalidType = false → some (finish (run ks)).type = rowOf ks) ∧
    (finish (run ks)).missingDefaultsToInt = false := by
  cases hd : (run ks).diag with
  | false =>
    have hm := mem_reach ks hd
    have hl := length_lt_5 hm
    have hv := reach_verdicts
    simp only [List.all_eq_true] at hv
    have := hv _ hl _ hm
    have hc : canon ks ≠ [] := by
      intro h
      have := count_canon ks
      cases ks with
      | nil => exact hne rfl
      | cons a t => have := this a; rw [h] at this; simp at this
    simp only [verdictOK, rowOf_canon, Bool.or_eq_true, beq_iff_eq, Bool.and_eq_true, Bool.not_eq_true'] at this
    rcases this with h | ⟨⟨h1, h2⟩, h3⟩
    · exact absurd h hc
    · refine ⟨?_, ?_, h3⟩
      · cases hi : (finish (run ks)).invalidType <;> simp [hi] at h1 ⊢ <;> simp [← h1]
      · intro hi
        rcases h2 with h2 | h2
        · rw [hi] at h2; cases h2
        · exact h2
  | true =>
    have hnv := diag_not_viable ks hd
    rw [viable_canon] at hnv
    have hrow : rowOf ks = none := by
      cases h : rowOf ks with
      | none => rfl
      | some t => rw [rowOf_some_viable h] at hnv; cases hnv
    have hinv : (finish (run ks)).invalidType = true := by
      unfold finish
      cases ht : (run ks).top with
      | none => exact hd
      | some t => simp [hd]
    have hmiss : (finish (run ks)).missingDefaultsToInt = false := by
      unfold finish
      cases ht : (run ks).top with
      | none => exact absurd ht (run_top_ne_none hne)
      | some t => rfl
    refine ⟨?_, ?_, hmiss⟩
    · simp [hinv, hrow]
    · intro h; rw [hinv] at h; cases h

/-- **A declaration without any type specifier is reported and treated as `int`.** -/
theorem no_specifier_defaults_to_int :
    finish (run []) = ⟨.basic .Int_S, false, true⟩ := by decide

/-- **Order independence**: two sequences with the same keyword multiset get the same verdict and, when
valid, the same type. -/
theorem order_independent (ks ks' : List Kw) (hne : ks ≠ []) (hp : ∀ k, ks.count k = ks'.count k) :
    (finish (run ks)).invalidType = (finish (run ks')).invalidType ∧
    ((finish (run ks)).invalidType = false → (finish (run ks)).type = (finish (run ks')).type) := by
  have hne' : ks' ≠ [] := by
    intro h; subst h
    cases ks with
    | nil => exact hne rfl
    | cons a t => have := hp a; simp at this
  have hrow : rowOf ks = rowOf ks' := by
    simp only [rowOf]
    congr 2
    funext r
    simp [sameMS, hp]
  obtain ⟨a1, a2, _⟩ := specifiers_denote_rows ks hne
  obtain ⟨b1, b2, _⟩ := specifiers_denote_rows ks' hne'
  rw [hrow] at a1 a2
  have heq : (finish (run ks)).invalidType = (finish (run ks')).invalidType := by
    cases h1 : (finish (run ks)).invalidType <;> cases h2 : (finish (run ks')).invalidType <;> simp_all
  refine ⟨heq, fun h => ?_⟩
  have h' := heq ▸ h
  have := (a2 h).trans (b2 h').symm
  exact Option.some.inj this

/-- **Interleaved qualifiers and storage-class specifiers do not matter**: the outcome of a specifier list
is the outcome of its type keywords alone (qualifiers are applied afterwards, on top of that type). -/
theorem qualifiers_and_storage_classes_are_transparent (specs : List Spec) :
    bindSpecifiers specs = finish (run (tyKws specs)) := rfl

theorem tyKws_append (a b : List Spec) : tyKws (a ++ b) = tyKws a ++ tyKws b := by
  induction a with
  | nil => rfl
  | cons x t ih => cases x <;> simp [tyKws, ih]

theorem interleaving_is_transparent (pre post : List Spec) (x : Spec) (hx : ∀ k, x ≠ .ty k) :
    bindSpecifiers (pre ++ x :: post) = bindSpecifiers (pre ++ post) := by
  unfold bindSpecifiers
  rw [tyKws_append, tyKws_append]
  cases x with
  | ty k => exact absurd rfl (hx k)
  | qual q => rfl
  | storage c => rfl

/-! ### Non-vacuity / sanity -/
example : finish (run [.unsigned, .long, .int, .long]) = ⟨.basic .LongLong_U, false, false⟩ := by decide
example : (finish (run [.int, .signed, .long, .long, .unsigned])).invalidType = true := by decide
example : (finish (run [.long, .complex])).invalidType = true := by decide
example : finish (run [.long, .complex, .double]) = ⟨.basic .LongDoubleComplex, false, false⟩ := by decide
example : (finish (run [.int, .void])).invalidType = true := by decide

end PsycheModel.Specifiers
