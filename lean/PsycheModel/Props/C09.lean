import PsycheModel.Disambig
import PsycheModel.Lemmas.Catalog
/-!
# C09 — Syntactic ambiguities are resolved and never left silently

On the generic tree model, for trees of any shape and depth and any strategy (`pick`).
-/
namespace PsycheModel.Tree

mutual
/-- **No ambiguity is left** when every visitor looks at all children of its node, wherever the ambiguity nodes are. -/
theorem disamb_ambigFree (pick : Nat → Bool) : ∀ t, ambWF t = true → ambigFree (disamb pick (fun _ => true) t) = true
  | .mk id k hs, hw => by
    simp only [ambWF, Bool.and_eq_true, Bool.or_eq_true, bne_iff_ne, ne_eq] at hw
    by_cases hk : k = 1
    · subst hk
      have h2 : twoAlternatives hs = true := by
        rcases hw.1 with h | h
        · exact absurd rfl h
        · exact h
      match hs, h2, hw.2 with
      | .node a (.node b .nil), _, hwh =>
        simp only [ambWFH, Bool.and_eq_true] at hwh
        unfold disamb
        simp only [if_true]
        split
        · exact disamb_ambigFree pick a hwh.1
        · exact disamb_ambigFree pick b hwh.2.1
    · unfold disamb
      simp only [hk, if_false, if_true, ambigFree, Bool.and_eq_true, bne_iff_ne, ne_eq, not_false_eq_true, true_and]
      exact disambH_ambigFree pick hs hw.2
theorem disambH_ambigFree (pick : Nat → Bool) : ∀ hs, ambWFH hs = true → ambigFreeH (disambH pick (fun _ => true) hs) = true
  | .nil, _ => rfl
  | .tok _ rest, hw => by simp only [disambH, ambigFreeH]; exact disambH_ambigFree pick rest (by simpa [ambWFH] using hw)
  | .null rest, hw => by simp only [disambH, ambigFreeH]; exact disambH_ambigFree pick rest (by simpa [ambWFH] using hw)
  | .node t rest, hw => by
    simp only [ambWFH, Bool.and_eq_true] at hw
    simp only [disambH, ambigFreeH, Bool.and_eq_true]
    exact ⟨disamb_ambigFree pick t hw.1, disambH_ambigFree pick rest hw.2⟩
  | .list es rest, hw => by
    simp only [ambWFH, Bool.and_eq_true] at hw
    simp only [disambH, ambigFreeH, Bool.and_eq_true]
    exact ⟨disambE_ambigFree pick es hw.1, disambH_ambigFree pick rest hw.2⟩
theorem disambE_ambigFree (pick : Nat → Bool) : ∀ es, ambWFE es = true → ambigFreeE (disambE pick (fun _ => true) es) = true
  | .nil, _ => rfl
  | .cons t _ rest, hw => by
    simp only [ambWFE, Bool.and_eq_true] at hw
    simp only [disambE, ambigFreeE, Bool.and_eq_true]
    exact ⟨disamb_ambigFree pick t hw.1, disambE_ambigFree pick rest hw.2⟩
end

/-- … and it is left, silently, below a node whose visitor does not look at its children (kind 7 here: the pinned
`visitCallExpression` for its arguments, `visitDeclarationStatement`, `visitArraySubscriptExpression` for the index) -/
theorem C09_witness_incomplete_traversal :
    let amb : Tree := .mk 2 1 (.node (.mk 3 0 (.tok 1 .nil)) (.node (.mk 4 0 (.tok 1 .nil)) .nil))
    let t : Tree := .mk 0 0 (.node (.mk 1 7 (.node amb .nil)) .nil)
    ambigFree (disamb (fun _ => true) (fun k => k != 7) t) = false ∧ ambigFree (disamb (fun _ => true) (fun _ => true) t) = true := by
  decide

mutual
/-- **Disambiguation never changes the token sequence** when both readings of every ambiguity cover the same tokens:
whatever the strategy picks and whichever children the visitors look at. -/
theorem toksA_disamb (pick : Nat → Bool) (descend : Nat → Bool) : ∀ t, sameToks t = true → toksA (disamb pick descend t) = toksA t
  | .mk id k hs, hs' => by
    simp only [sameToks, Bool.and_eq_true, Bool.or_eq_true, bne_iff_ne, ne_eq] at hs'
    by_cases hk : k = 1
    · subst hk
      have hag : alternativesAgree hs = true := by
        rcases hs'.1 with h | h
        · exact absurd rfl h
        · exact h
      match hs, hag, hs'.2 with
      | .node a (.node b r), hag, hst =>
        simp only [alternativesAgree, beq_iff_eq] at hag
        simp only [sameToksH, Bool.and_eq_true] at hst
        unfold disamb
        simp only [if_true]
        split
        · rw [toksA_disamb pick descend a hst.1]; simp [toksA]
        · rw [toksA_disamb pick descend b hst.2.1, ← hag]; simp [toksA]
      | .nil, _, _ => unfold disamb; rfl
      | .tok _ _, _, _ => unfold disamb; rfl
      | .null _, _, _ => unfold disamb; rfl
      | .list _ _, _, _ => unfold disamb; rfl
      | .node _ .nil, _, _ => unfold disamb; rfl
      | .node _ (.tok _ _), _, _ => unfold disamb; rfl
      | .node _ (.null _), _, _ => unfold disamb; rfl
      | .node _ (.list _ _), _, _ => unfold disamb; rfl
    · unfold disamb
      simp only [hk, if_false]
      split
      · have := toksAH_disamb pick descend hs hs'.2
        unfold toksA
        rw [if_neg hk, if_neg hk]
        exact this
      · rfl
theorem toksAH_disamb (pick : Nat → Bool) (descend : Nat → Bool) : ∀ hs, sameToksH hs = true → toksAH (disambH pick descend hs) = toksAH hs
  | .nil, _ => rfl
  | .tok i rest, h => by simp only [disambH, toksAH, toksAH_disamb pick descend rest (by simpa [sameToksH] using h)]
  | .null rest, h => by simp only [disambH, toksAH, toksAH_disamb pick descend rest (by simpa [sameToksH] using h)]
  | .node t rest, h => by
    simp only [sameToksH, Bool.and_eq_true] at h
    simp only [disambH, toksAH, toksA_disamb pick descend t h.1, toksAH_disamb pick descend rest h.2]
  | .list es rest, h => by
    simp only [sameToksH, Bool.and_eq_true] at h
    simp only [disambH, toksAH, toksAE_disamb pick descend es h.1, toksAH_disamb pick descend rest h.2]
theorem toksAE_disamb (pick : Nat → Bool) (descend : Nat → Bool) : ∀ es, sameToksE es = true → toksAE (disambE pick descend es) = toksAE es
  | .nil, _ => rfl
  | .cons t d rest, h => by
    simp only [sameToksE, Bool.and_eq_true] at h
    simp only [disambE, toksAE, toksA_disamb pick descend t h.1, toksAE_disamb pick descend rest h.2]
end

/-- non-vacuity: `f((T) - x)` with the ambiguity inside a call argument, both readings over tokens 3..6 -/
example :
    let cast : Tree := .mk 3 0 (.tok 3 (.tok 4 (.tok 5 (.tok 6 .nil))))
    let bin : Tree := .mk 4 0 (.node (.mk 5 0 (.tok 3 (.tok 4 (.tok 5 .nil)))) (.tok 6 .nil))
    let t : Tree := .mk 0 0 (.tok 1 (.tok 2 (.node (.mk 2 1 (.node cast (.node bin .nil))) (.tok 7 .nil))))
    ambWF t = true ∧ sameToks t = true ∧ toksA t = [1, 2, 3, 4, 5, 6, 7] ∧ ambigFree (disamb (fun _ => false) (fun _ => true) t) = true := by
  decide

end PsycheModel.Tree

/-! ## The decision: the name catalog against C's scoping -/
namespace PsycheModel.Catalog

/-- the empty catalog and the file scope -/
def cat0 : Cat := ⟨fun _ => none, fun _ => none⟩
def env0 : Env := [fun _ => none]

theorem sim0 : Sim cat0 env0 1 :=
  ⟨rfl, fun r k e h => by cases r <;> simp [cat0, Cat.get] at h, fun k r h => by simp [env0, lookup] at h,
   fun k _ r e h => by cases r <;> simp [cat0, Cat.get] at h⟩

/-- **Every ambiguity on a declared name is given the reading C's scoping gives it.**  For every program — any nesting of
blocks, any number of names, declarations and uses in any order, shadowing in inner blocks in either direction — that is valid
in the two respects that matter (a declaration does not give a name the other role in a scope where it already has one; a
declared name is used in its role): at every ambiguity, the decision taken on the copy of the catalog kept for it
(`disambiguateByDeclarationBefore`) is the role of the innermost declaration of the name in scope at that point — whatever
the rest of the block, or any sibling or inner block, declares or uses.  (Names that are not declared are left to the
correlation of uses over the block, which is a heuristic and not part of this statement.) -/
theorem catalog_decision_is_C (prog : Items) (hv : validItems env0 prog = true) :
    ∀ p ∈ runItems 1 cat0 env0 prog, ∀ r, p.2 = some r → p.1 = some r :=
  run_items_correct prog 1 cat0 env0 sim0 hv

/-- non-vacuity and the shape of the defect repaired in the pinned tree: `typedef int T0; void f(void) { (T0) - x; int T0; { (T0) - x; } }`:
the first ambiguity is a cast (the declaration that follows does not reach back), the second a subtraction -/
example :
    let prog : Items := .cons (.decl .ty 0) (.cons (.block (.cons (.amb 0) (.cons (.decl .nonTy 0) (.cons (.block (.cons (.amb 0) .nil)) .nil)))) .nil)
    validItems env0 prog = true ∧ runItems 1 cat0 env0 prog = [(some .ty, some .ty), (some .nonTy, some .nonTy)] := by
  decide

end PsycheModel.Catalog
