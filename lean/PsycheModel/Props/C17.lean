import PsycheModel.Lemmas.KeywordTable
import PsycheModel.Generated.Keywords
/-!
# C17 — Keywords are recognised exactly as the dialect and extensions prescribe

`Generated/Keywords.lean` is regenerated from `C/parser/Keywords.cpp` on every run; the four obligations
below are re-checked by the kernel (`decide`) against that data.  Everything else is generic and holds
for **all** words (any length, any bytes) and **all** option valuations — no enumeration of words or of
the 4 × 2³² option space is involved.
-/
namespace PsycheModel.KeywordTrie
open PsycheModel.Generated PsycheModel.KeywordSpec PsycheModel.Generated.Keywords

/-! ## Obligations on the generated data -/

/-- `recognize2 … recognize21`: no sibling shadowing, nothing after a nested chain, every keyword path tests
exactly the positions `0 … n-1` of an `n`-character word (so no character outside the word is read), distinct
`case` labels -/
theorem recognizeTable_ok : tableOK recognizeTable = true := by decide

theorem translateTable_ok : tableOK translateTable = true := by decide

/-- the trie spells exactly the specification table (same spellings, kinds and gates; nothing more) -/
theorem recognize_matches_spec : sameEntries (genEntries recognizeTable) keywords = true := by decide

theorem translate_matches_spec : sameEntries (genEntries translateTable) operatorNames = true := by decide

/-! ## The property -/

/-- `Lexer::recognize`: for every word and every option valuation, the word gets keyword kind `k` iff the
specification table has an entry with exactly that spelling and that kind whose gate holds. -/
theorem recognize_iff_spec (w : Word) (o : Opts) (k : Kind) (hk : k ≠ Kind.IdentifierToken) :
    dispatch recognizeTable w o = k ↔ ∃ e ∈ keywords, e.word = w ∧ e.kind = k ∧ e.holds o = true := by
  rw [dispatch_iff_entries recognizeTable recognizeTable_ok w o k hk]
  exact exists_entry_iff recognize_matches_spec w k o

theorem translate_iff_spec (w : Word) (o : Opts) (k : Kind) (hk : k ≠ Kind.IdentifierToken) :
    dispatch translateTable w o = k ↔ ∃ e ∈ operatorNames, e.word = w ∧ e.kind = k := by
  rw [dispatch_iff_entries translateTable translateTable_ok w o k hk]
  rw [exists_entry_iff translate_matches_spec w k o]
  constructor
  · rintro ⟨e, he, h1, h2, _⟩; exact ⟨e, he, h1, h2⟩
  · rintro ⟨e, he, h1, h2⟩
    refine ⟨e, he, h1, h2, ?_⟩
    have : ∀ f ∈ operatorNames, f.gate = [] := by decide
    simp [Entry.holds, this e he]

/-- **C17, main statement** (the tail of `Lexer::lexIdentifier`).  Under every option valuation a word is
lexed as a non-identifier kind `k` iff
* keyword recognition is on and `w` is spelled exactly like a keyword of kind `k` that the selected standard
  or an enabled extension defines, or
* keyword recognition is off, operator-name translation is on, and `w` is exactly an `<iso646.h>` spelling. -/
theorem lexIdentifier_kind (w : Word) (o : Opts) (k : Kind) (hk : k ≠ Kind.IdentifierToken) :
    lexIdentifierKind recognizeTable translateTable w o = k ↔
      (o.keywordRecognition = true ∧ ∃ e ∈ keywords, e.word = w ∧ e.kind = k ∧ e.holds o = true) ∨
      (o.keywordRecognition = false ∧ o.flag .Translate_operatorNames = true ∧
        ∃ e ∈ operatorNames, e.word = w ∧ e.kind = k) := by
  unfold lexIdentifierKind
  cases hr : o.keywordRecognition with
  | true => simp [recognize_iff_spec w o k hk]
  | false =>
    cases ht : o.flag .Translate_operatorNames with
    | true => simp [translate_iff_spec w o k hk]
    | false =>
      simp only [Bool.false_eq_true, if_false]
      constructor
      · intro h; exact absurd h.symm hk
      · rintro (⟨h, _⟩ | ⟨_, h, _⟩) <;> cases h

/-- **Every other word is an identifier**: in particular every proper prefix, every extension by one
character and every case variant of a keyword that is not itself a keyword spelling. -/
theorem other_words_are_identifiers (w : Word) (o : Opts)
    (hw : ∀ e ∈ keywords, e.word ≠ w) (hw' : ∀ e ∈ operatorNames, e.word ≠ w) :
    lexIdentifierKind recognizeTable translateTable w o = Kind.IdentifierToken := by
  apply Classical.byContradiction
  intro hne
  have := (lexIdentifier_kind w o _ hne).mp rfl
  rcases this with ⟨_, e, he, h1, _⟩ | ⟨_, _, e, he, h1, _⟩
  · exact hw e he h1
  · exact hw' e he h1

/-- a keyword spelling whose gate does not hold is an identifier (spellings are unique in the table) -/
def wordsDistinct : List Entry → Bool
  | [] => true
  | e :: t => t.all (fun f => f.word != e.word) && wordsDistinct t

theorem wordsDistinct_unique : ∀ (l : List Entry), wordsDistinct l = true →
    ∀ e ∈ l, ∀ f ∈ l, e.word = f.word → e = f := by
  intro l
  induction l with
  | nil => intro _ e he; simp at he
  | cons a t ih =>
    intro h e he f hf hw
    simp only [wordsDistinct, Bool.and_eq_true, List.all_eq_true, bne_iff_ne] at h
    rcases List.mem_cons.mp he with he1 | he1
    · rcases List.mem_cons.mp hf with hf1 | hf1
      · rw [he1, hf1]
      · rw [he1] at hw; exact absurd hw.symm (h.1 f hf1)
    · rcases List.mem_cons.mp hf with hf1 | hf1
      · rw [hf1] at hw; exact absurd hw (h.1 e he1)
      · exact ih h.2 e he1 f hf1 hw

set_option maxRecDepth 4000 in
theorem keywords_distinct : wordsDistinct keywords = true := by decide

theorem spellings_unique : ∀ e ∈ keywords, ∀ f ∈ keywords, e.word = f.word → e = f :=
  wordsDistinct_unique keywords keywords_distinct

theorem gated_off_is_identifier (e : Entry) (he : e ∈ keywords) (o : Opts) (hr : o.keywordRecognition = true)
    (hoff : e.holds o = false) :
    lexIdentifierKind recognizeTable translateTable e.word o = Kind.IdentifierToken := by
  apply Classical.byContradiction
  intro hne
  have := (lexIdentifier_kind e.word o _ hne).mp rfl
  rcases this with ⟨_, f, hf, h1, _, h3⟩ | ⟨h, _⟩
  · have := spellings_unique f hf e he h1
    subst this; rw [hoff] at h3; cases h3
  · rw [hr] at h; cases h

/-- **Recognition off**: every word is an identifier or, when that translation is enabled, an alternative
operator spelling. -/
theorem recognition_off (w : Word) (o : Opts) (hr : o.keywordRecognition = false) :
    lexIdentifierKind recognizeTable translateTable w o = Kind.IdentifierToken ∨
    (o.flag .Translate_operatorNames = true ∧
      ∃ e ∈ operatorNames, e.word = w ∧ e.kind = lexIdentifierKind recognizeTable translateTable w o) := by
  by_cases h : lexIdentifierKind recognizeTable translateTable w o = Kind.IdentifierToken
  · exact Or.inl h
  · right
    have := (lexIdentifier_kind w o _ h).mp rfl
    rcases this with ⟨h1, _⟩ | ⟨_, h2, h3⟩
    · rw [hr] at h1; cases h1
    · exact ⟨h2, h3⟩

/-! ### Non-vacuity / sanity on concrete valuations -/
def c11Defaults : Opts := { std := 2, flag := fun f => !(f matches .extC_KandRStyle | .extC_wchar_t_Keyword | .extC_char8_t_Keyword
                                 | .extC_char16_t_Keyword | .extC_char32_t_Keyword | .CPP_nullptr | .nativeBooleans),
                            keywordRecognition := true }
example : lexIdentifierKind recognizeTable translateTable w!"restrict" c11Defaults = Kind.Keyword_restrict := by decide
example : lexIdentifierKind recognizeTable translateTable w!"restrict" { c11Defaults with std := 0 } = Kind.IdentifierToken := by decide
example : lexIdentifierKind recognizeTable translateTable w!"restric" c11Defaults = Kind.IdentifierToken := by decide
example : lexIdentifierKind recognizeTable translateTable w!"thread_local" c11Defaults = Kind.Keyword__Thread_local := by decide
example : lexIdentifierKind recognizeTable translateTable w!"char16_t" c11Defaults = Kind.IdentifierToken := by decide
example : lexIdentifierKind recognizeTable translateTable w!"bitand" { c11Defaults with keywordRecognition := false } = Kind.AmpersandToken := by decide

end PsycheModel.KeywordTrie
