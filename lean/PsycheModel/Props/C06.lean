import PsycheModel.Lemmas.Climb
import PsycheModel.ExprSpec
import PsycheModel.ClimbReal
import PsycheModel.Lemmas.Rotate
import PsycheModel.Lemmas.Expr
import PsycheModel.Lemmas.ExprSound
import PsycheModel.Lemmas.ExprFuel
import PsycheModel.ExprReal
/-!
# C06 — Expression trees respect C operator precedence and associativity

The operator tables are REGENERATED from `Parser_Expressions.cpp` / `SyntaxFacts.h` on every run; the obligations
in the first section compare them with the C11 table cell by cell, over *all* `SyntaxKind` values (kernel
evaluation).  The second section is the climbing theorem, for expression trees of any size and depth.
-/
namespace PsycheModel.Climb
open PsycheModel.Generated PsycheModel.ExprSpec

set_option maxRecDepth 20000

/-! ## Generated obligations (all token kinds) -/

/-- `precedenceOf` is the C11 level of every token kind (0 for everything that is not an N-ary operator) -/
theorem precedence_table_is_C11 : Kind.all.all (fun k => Facts.precedenceOf k == levelOf k) = true := by decide

/-- `isRightAssociative` names exactly the levels whose productions are right-recursive (assignment, conditional) -/
theorem associativity_is_C11 :
    table.all (fun r => Facts.rightAssocLevels.contains (Facts.precedenceOf r.tok) == r.rightAssoc) = true := by decide

/-- **the node kind of each operation corresponds to its operator token** -/
theorem node_kind_matches_operator :
    Kind.all.all (fun k => Facts.kindOfNAry k == (match rowOf k with | some r => r.node | none => Kind.Error)) = true := by decide

/-- a token has a precedence iff the parser treats it as an N-ary operator (the inner loop's extra test is implied) -/
theorem operator_iff_precedence : Kind.all.all (fun k => Facts.isNAryOperator k == (Facts.precedenceOf k != 0)) = true := by decide

/-- assignment / binary / sequencing node construction follows the node kind -/
theorem node_class_matches : table.all (fun r =>
    (Facts.isKindOfAssignment r.node == (r.level == 2)) &&
    (Facts.isKindOfBinary r.node == (decide (4 ≤ r.level)))) = true := by decide

/-! ## The table as the model's parameter: `realTbl` in `PsycheModel/ClimbReal.lean` -/

/-- the level the rejection rule names is the C11 level of the assignment operators -/
theorem assignment_level_is_C11 : realTbl.asg = levelOf Kind.EqualsToken := by decide

/-! ## The climbing theorem -/

/-- **C06, main statement (binary, assignment and comma operators over atomic operands).**  For every table, every
expression tree `e` that the grammar derives at level `c` without parentheses (`WS`: tighter-binding operators
nested deeper, left-recursive levels grouped to the left, right-recursive ones to the right) and every following
token list on which the loop must stop (and which does not start with an assignment operator: after a completed
tighter operation the parser rejects that): parsing the unparenthesised printing of `e` yields exactly `e` and
leaves exactly the rest.  No bound on the size or depth of `e`.  The model includes the parser's rejection rule
"an assignment operator after a completed tighter operation fails"; `WS` asks, as 6.5.16 does, that the left
operand of an assignment be a unary-expression (an atom here), and the theorem shows the rule then never fires. -/
theorem parse_pp (T : Tbl) (c : Nat) (e : E) (stop : List Tok) (hws : WS T c e) (hstop : StopO T c stop)
    (hna : NA T stop) : ∃ fuel, parse T fuel c (pp e ++ stop) = some (e, stop) := by
  obtain ⟨f, hf⟩ := G_all T (spine e).2 stop (E.atom (spine e).1) c (spine_of_WS T hws) hstop hna
  refine ⟨f, ?_⟩
  rw [pp_spine e]
  simp only [List.cons_append, parse]
  rw [hf, build_spine]

/-- the same for the parser's own table -/
theorem parse_pp_real (c : Nat) (e : E) (stop : List Tok) (hws : WS realTbl c e) (hstop : StopO realTbl c stop)
    (hna : NA realTbl stop) : ∃ fuel, parse realTbl fuel c (pp e ++ stop) = some (e, stop) :=
  parse_pp realTbl c e stop hws hstop hna

/-- more fuel never changes a result (so the fuel is not part of the statement) -/
theorem parse_fuel_irrelevant (T : Tbl) {f f' c ts x} (h : parse T f c ts = some x) (hf : f ≤ f') : parse T f' c ts = some x := by
  cases ts with
  | nil => simp [parse] at h
  | cons t ts =>
    cases t with
    | atom n => simp only [parse] at h ⊢; exact atOp_mono T h hf
    | op o => simp [parse] at h

/-- printing determines the tree: two well-shaped trees with the same printing are equal (no other grouping of
the same tokens is derivable) -/
theorem pp_injective_on_WS (T : Tbl) (c : Nat) (e e' : E) (h : WS T c e) (h' : WS T c e') (hpp : pp e = pp e') : e = e' := by
  obtain ⟨f, hf⟩ := parse_pp T c e [] h trivial trivial
  obtain ⟨f', hf'⟩ := parse_pp T c e' [] h' trivial trivial
  have h1 := parse_fuel_irrelevant T hf (Nat.le_max_left f f')
  have h2 := parse_fuel_irrelevant T hf' (Nat.le_max_right f f')
  rw [List.append_nil] at h1 h2
  rw [hpp, h2] at h1
  injection h1 with h1
  exact (Prod.mk.inj h1).1.symm

/-! ### Non-vacuity (indices into `operatorTokens`: 0 `*`  1 `+`  13 `=`  24 `,` …) -/
-- a = b + c * d = e  with the real table: right-assoc `=`, `*` under `+`
def idx (k : Kind) : Nat := operatorTokens.idxOf k
def sampleE : E := .bin (idx .EqualsToken) (.atom 0) (.bin (idx .EqualsToken) (.bin (idx .PlusToken) (.atom 1) (.bin (idx .AsteriskToken) (.atom 2) (.atom 3))) (.atom 4))
-- (not derivable in C: the left operand of `=` must be unary) — and indeed the parser's rule rejects it; a derivable sample:
def sampleOK : E := .bin (idx .CommaToken) (.bin (idx .EqualsToken) (.atom 0) (.bin (idx .PlusToken) (.atom 1) (.bin (idx .AsteriskToken) (.atom 2) (.atom 3))))
  (.bin (idx .MinusToken) (.bin (idx .MinusToken) (.atom 4) (.atom 5)) (.atom 6))
example : parse realTbl 40 1 (pp sampleOK) = some (sampleOK, []) := by decide

end PsycheModel.Climb

namespace PsycheModel.Climb
/-- the rejection rule does fire outside the grammar: `a + b = c` is not an expression (6.5.16) and is refused -/
example : parse realTbl 40 1 [.atom 0, .op (idx .PlusToken), .atom 1, .op (idx .EqualsToken), .atom 2] = none := by decide
example : parse realTbl 40 1 [.atom 0, .op (idx .EqualsToken), .atom 1, .op (idx .PlusToken), .atom 2, .op (idx .EqualsToken), .atom 3] = none := by decide
end PsycheModel.Climb

/-! ## After disambiguation: the re-association of a cast/binary ambiguity kept as a binary expression -/
namespace PsycheModel.Rotate

/-- **The delivered tree is the one the C grammar derives.**  For every precedence table, every tree `t` the parser builds at
a cut-off level below all binary operators (what every expression slot provides) around ONE cast/binary ambiguity — which for
the parser is a single operand, under any number of prefix operators and casts, anywhere in a chain of left-associative
binary operators of any length and shape —, the three local rules of `Disambiguator::visitMaybeAmbiguousExpression` deliver
a tree that (1) holds exactly the tokens of `t` in their order, the ambiguity read as `l o r`, (2) has no ambiguity left and
(3) satisfies the shape conditions of the grammar at every node (`CS`: the conditions `WS` of the climbing theorem, with a
prefix operator applied to an operand only).  By `pp_injective_on_WS` that shape is unique for the token sequence. -/
theorem reassociation_is_C (prec : Nat → Nat) (c : Nat) (t : X) (h : PT prec c t) (hc : ∀ o, c ≤ prec o) :
    CS prec c (fix prec t).1 ∧ seq (fix prec t).1 = seq t := by
  obtain ⟨hs, _, hf, ht⟩ := fix_inv prec h
  refine ⟨?_, hs⟩
  cases hm : (fix prec t).2 with
  | false => exact (hf hm).1
  | true =>
    obtain ⟨o, a, b, heq, hca, hcb, _⟩ := ht hm
    rw [heq]
    exact .bin (hc o) (CS_mono prec (by omega) hca) (CS_mono prec (by omega) hcb)

/-- a tree without the ambiguity is left as it is -/
theorem fix_id_without_ambiguity (prec : Nat → Nat) : ∀ t : X, hasAmb t = false → fix prec t = (t, false)
  | .atom _, _ => rfl
  | .amb _ _ _, h => by simp [hasAmb] at h
  | .un u e, h => by simp [fix, fix_id_without_ambiguity prec e (by simpa [hasAmb] using h)]
  | .bin p l r, h => by
    have hh : hasAmb l = false ∧ hasAmb r = false := by simpa [hasAmb] using h
    simp [fix, fix_id_without_ambiguity prec l hh.1, fix_id_without_ambiguity prec r hh.2]

/-- non-vacuity, with `*` = 0 (level 13), `-` = 1 (level 12), `!` = 7: the parser's tree for `e * ! (a) - b * c` is
`(e * !AMB) * c`; delivered: `(e * !(a)) - (b * c)` -/
example :
    let prec : Nat → Nat := fun o => if o = 0 then 13 else 12
    let t : X := .bin 0 (.bin 0 (.atom 0) (.un 7 (.amb 1 (.atom 1) (.atom 2)))) (.atom 3)
    PT prec 1 t ∧ fix prec t = (.bin 1 (.bin 0 (.atom 0) (.un 7 (.atom 1))) (.bin 0 (.atom 2) (.atom 3)), true) := by
  refine ⟨?_, by decide⟩
  exact .bin (by decide) (.bin (by decide) .atom (.un rfl (.amb rfl rfl rfl rfl)) rfl) .atom rfl

end PsycheModel.Rotate

/-! ## All layers: N-ary operators with the conditional operator, casts, prefix and postfix operators, subscripts, member
access, calls with argument lists and parentheses (`PsycheModel/Expr.lean`) -/
namespace PsycheModel.Expr
open PsycheModel.Generated

set_option maxRecDepth 20000

/-- 6.5.3p1 as a table: `++ --` take a unary-expression, `& * + - ~ !` a cast-expression (`&&`: GNU address of a label, parsed like them); no other token is a prefix operator -/
def prefixSpec : Kind → Option Bool
  | .PlusPlusToken | .MinusMinusToken => some true
  | .AmpersandToken | .AsteriskToken | .PlusToken | .MinusToken | .TildeToken | .ExclamationToken | .AmpersandAmpersandToken => some false
  | _ => none

/-- generated obligation: the prefix-operator cases of `parseExpressionWithPrecedenceUnary`, with the operand parser each names, are C11's -/
theorem prefix_operand_table_is_C11 : Kind.all.all (fun k => Facts.prefixOperand k == prefixSpec k) = true := by decide
/-- generated obligation: no operator of C11 carries an extra guard in front of its operand parser - only GNU's label address `&&` does (its
operand must be an identifier since the parser was repaired), which the model keeps as lenient as the operand parser -/
theorem only_label_address_is_guarded : Facts.prefixGuarded.all (fun k => k == .AmpersandAmpersandToken) = true := by decide
/-- … and the postfix loop continues on `++ --` (6.5.2p1), `[`, `(`, `.` and `->` only -/
theorem postfix_tokens_are_C11 :
    Facts.postfixIncDec = [.PlusPlusToken, .MinusMinusToken] ∧ Facts.memberAccess = [.DotToken, .ArrowToken] ∧
    Facts.subscriptOpen = [.OpenBracketToken] ∧ Facts.callOpen = [.OpenParenToken] := by decide

/-- **C06, all layers.**  For every operator table satisfying the five sanity conditions (`Tbl.Sane`; discharged for the
tables regenerated from the source by `realT_sane`), every expression tree `e` the C11 grammar derives (`ok`: every operand at
the level its production names - `cond ? expression : conditional-expression`, unary-expression on the left of an assignment
and under `++`/`--`, cast-expression under the other prefix operators and a cast, postfix-expression under postfix operators,
assignment-expressions as call arguments, full expressions in parentheses, subscripts and the middle of `?:`), every cutoff
level `c ≥ 1` at which `e` is derivable, and every following token list that ends the expression (an operator below the
cutoff that is not an assignment operator, or no operator, and no `[ ( . -> ++ --`): parsing the printing of `e` - with no
parentheses other than the tree's own `paren` nodes - yields exactly `e` and leaves exactly the rest.  No bound on size or
depth.  The model includes the parser's rejection rule; the theorem shows it never fires on a derivable tree. -/
theorem expr_parse_pp (T : Tbl) (hT : T.Sane) (c : Nat) (e : E) (rest : List Tok) (hok : ok T e = true)
    (hlv : atLevel T c e = true) (hc : 1 ≤ c) (hso : StopO T c rest) (hna : NA T rest) (hsp : StopP T rest) :
    ∃ fuel, nary T fuel c (pp T e ++ rest) = some (e, rest) :=
  (all T hT (pp T e).length).N e c rest (Nat.le_refl _) hok hlv hc hso hna hsp

/-- a whole expression (`parseExpression`): every derivable tree, followed by nothing -/
theorem expression_parse_pp (T : Tbl) (hT : T.Sane) (e : E) (hok : ok T e = true) :
    ∃ fuel, nary T fuel 1 (pp T e) = some (e, []) := by
  have := expr_parse_pp T hT 1 e [] hok (atLevel_one T hT e hok) (Nat.le_refl _) (stopO_zero T (Nat.le_refl _) rfl)
    (NA_nil T hT) trivial
  simpa using this

/-- the same for the parser's own tables -/
theorem expression_parse_pp_real (e : E) (hok : ok realT e = true) : ∃ fuel, nary realT fuel 1 (pp realT e) = some (e, []) :=
  expression_parse_pp realT realT_sane e hok

/-- more fuel never changes a result -/
theorem nary_fuel_irrelevant (T : Tbl) {f f' c ts x} (h : nary T f c ts = some x) (hf : f ≤ f') : nary T f' c ts = some x :=
  (le_of_le T hf).nary _ _ _ h

/-- printing determines the tree: two derivable trees with the same printing are equal - no other grouping of the same tokens
is derivable (unambiguity of the grammar by levels, as a corollary of the parser being a function) -/
theorem pp_injective_on_ok (T : Tbl) (hT : T.Sane) (e e' : E) (h : ok T e = true) (h' : ok T e' = true) (hpp : pp T e = pp T e') :
    e = e' := by
  obtain ⟨f, hf⟩ := expression_parse_pp T hT e h
  obtain ⟨f', hf'⟩ := expression_parse_pp T hT e' h'
  have h1 := nary_fuel_irrelevant T hf (Nat.le_max_left f f')
  have h2 := nary_fuel_irrelevant T hf' (Nat.le_max_right f f')
  rw [hpp, h2] at h1
  injection h1 with h1
  exact (Prod.mk.inj h1).1.symm

/-! ### The converse: whatever the parser accepts -/

/-- **Nothing dropped, duplicated or reordered.**  For any tables with a single comma token: whenever a parse succeeds - at any
level, with any fuel, on ANY token list - the tokens it consumed are exactly the printing of the tree it returns. -/
theorem parse_consumes_printing (T : Tbl) (hc : ∀ o, T.comma o = true → o = T.commaTok) {f c : Nat} {ts : List Tok} {e : E} {rest : List Tok}
    (h : nary T f c ts = some (e, rest)) : ts = pp T e ++ rest :=
  (snd_all T hc f).nary _ _ _ _ h

/-- **Whatever parses is derivable.**  For sane tables with a right-associative assignment level: the tree of every successful
parse at a cutoff `c ≥ 1` is derivable by the grammar at level `c` (`okW`: the grammar predicate `ok` with the one leniency of
the parser - C++ and model alike - that the left operand of an assignment may be any cast-expression), and the parse stopped at
a token below the cutoff. -/
theorem parse_result_derivable (T : Tbl) (hT : T.Sane) (hra : T.ra T.asg = true) {f c : Nat} {ts : List Tok} {e : E} {rest : List Tok}
    (h : nary T f c ts = some (e, rest)) (hc : 1 ≤ c) : okW T e = true ∧ atLevel T c e = true ∧ hprec T rest < c :=
  (shp_all T hT hra f).nary _ _ _ _ h hc

/-- **Bounded recursion; the model as a decision procedure.**  For ANY tables: every successful parse consumes at least one
token, and whatever any fuel yields on a token list, fuel `4 · length + 3` yields: the recursion depth of the expression parser
(eight mutually recursive functions, two of them loops that re-enter each other on the same token) is bounded by four times the
number of tokens, and running the model with that fuel decides acceptance. -/
theorem nary_fuel_bound (T : Tbl) {f c : Nat} {ts : List Tok} {x : E × List Tok} (h : nary T f c ts = some x) :
    nary T (4 * ts.length + 3) c ts = some x := (bound_all T ts.length).bN c ts x f (Nat.le_refl _) h
theorem nary_consumes (T : Tbl) {f c : Nat} {ts : List Tok} {e : E} {rest : List Tok} (h : nary T f c ts = some (e, rest)) :
    rest.length < ts.length := (consE_all T f).cN c ts e rest h

/-- the round trip with the fuel named -/
theorem expression_parse_pp_fuel (T : Tbl) (hT : T.Sane) (e : E) (hok : ok T e = true) :
    nary T (4 * (pp T e).length + 3) 1 (pp T e) = some (e, []) := by
  obtain ⟨f, hf⟩ := expression_parse_pp T hT e hok
  exact nary_fuel_bound T hf

/-- the strict grammar implies the lenient one -/
theorem okW_of_ok (T : Tbl) : ∀ e : E, ok T e = true → okW T e = true
  | .atom _, _ => rfl
  | .bin o l r, h => by
    simp only [ok, Bool.and_eq_true, decide_eq_true_eq, Bool.or_eq_true, bne_iff_ne, ne_eq] at h
    obtain ⟨⟨⟨⟨⟨h1, hl⟩, hr⟩, hasg⟩, hokl⟩, hokr⟩ := h
    simp only [okW, Bool.and_eq_true, decide_eq_true_eq, Bool.or_eq_true, bne_iff_ne, ne_eq]
    exact ⟨⟨⟨⟨⟨h1, hl⟩, hr⟩, hasg.imp id (isCast_of_isUnary l)⟩, okW_of_ok T l hokl⟩, okW_of_ok T r hokr⟩
  | .cond c t f, h => by
    simp only [ok, Bool.and_eq_true, Bool.or_eq_true, bne_iff_ne, ne_eq] at h
    obtain ⟨⟨⟨⟨⟨hl, hr⟩, hasg⟩, hokl⟩, hokt⟩, hokr⟩ := h
    simp only [okW, Bool.and_eq_true, Bool.or_eq_true, bne_iff_ne, ne_eq]
    exact ⟨⟨⟨⟨⟨hl, hr⟩, hasg.imp id (isCast_of_isUnary c)⟩, okW_of_ok T c hokl⟩, okW_of_ok T t hokt⟩, okW_of_ok T f hokr⟩
  | .condG c f, h => by
    simp only [ok, Bool.and_eq_true, Bool.or_eq_true, bne_iff_ne, ne_eq] at h
    obtain ⟨⟨⟨⟨hl, hr⟩, hasg⟩, hokl⟩, hokr⟩ := h
    simp only [okW, Bool.and_eq_true, Bool.or_eq_true, bne_iff_ne, ne_eq]
    exact ⟨⟨⟨⟨hl, hr⟩, hasg.imp id (isCast_of_isUnary c)⟩, okW_of_ok T c hokl⟩, okW_of_ok T f hokr⟩
  | .paren e, h => by simp only [ok] at h; simp only [okW]; exact okW_of_ok T e h
  | .cast e, h => by
    simp only [ok, Bool.and_eq_true] at h; simp only [okW, Bool.and_eq_true]; exact ⟨h.1, okW_of_ok T e h.2⟩
  | .pre o e, h => by
    simp only [ok, Bool.and_eq_true] at h; simp only [okW, Bool.and_eq_true]; exact ⟨h.1, okW_of_ok T e h.2⟩
  | .post o e, h => by
    simp only [ok, Bool.and_eq_true] at h; simp only [okW, Bool.and_eq_true]; exact ⟨h.1, okW_of_ok T e h.2⟩
  | .idx e i, h => by
    simp only [ok, Bool.and_eq_true] at h; simp only [okW, Bool.and_eq_true]; exact ⟨⟨h.1.1, okW_of_ok T e h.1.2⟩, okW_of_ok T i h.2⟩
  | .mem d e n, h => by
    simp only [ok, Bool.and_eq_true] at h; simp only [okW, Bool.and_eq_true]; exact ⟨h.1, okW_of_ok T e h.2⟩
  | .call f as, h => by
    simp only [ok, Bool.and_eq_true] at h; simp only [okW, Bool.and_eq_true]
    exact ⟨⟨h.1.1, okW_of_ok T f h.1.2⟩, okWArgs_of_okArgs T as h.2⟩
where
  okWArgs_of_okArgs (T : Tbl) : ∀ as : List E, okArgs T as = true → okWArgs T as = true
    | [], _ => rfl
    | a :: as, h => by
      simp only [okArgs, Bool.and_eq_true] at h; simp only [okWArgs, Bool.and_eq_true]
      exact ⟨⟨h.1.1, okW_of_ok T a h.1.2⟩, okWArgs_of_okArgs T as h.2⟩

/-- **The parser's tables: a whole expression.**  `parseExpression` accepts a token list and returns `e` only if the list is
the printing of `e` and `e` is derivable (leniently); and it accepts the printing of every (strictly) derivable `e`, returning `e`. -/
theorem real_expression_sound {f : Nat} {ts : List Tok} {e : E} (h : nary realT f 1 ts = some (e, [])) :
    ts = pp realT e ∧ okW realT e = true := by
  have h1 := parse_consumes_printing realT realT_comma_unique h
  have h2 := parse_result_derivable realT realT_sane realT_asg_right_assoc h (Nat.le_refl _)
  exact ⟨by simpa using h1, h2.1⟩

/-! ### Non-vacuity, with the real tables -/
def ix (k : Kind) : Nat := opTokens.idxOf k

mutual
def E.beq : E → E → Bool
  | .atom n, .atom m => n == m
  | .bin o l r, .bin o' l' r' => o == o' && E.beq l l' && E.beq r r'
  | .cond c t f, .cond c' t' f' => E.beq c c' && E.beq t t' && E.beq f f'
  | .condG c f, .condG c' f' => E.beq c c' && E.beq f f'
  | .paren e, .paren e' => E.beq e e'
  | .cast e, .cast e' => E.beq e e'
  | .pre o e, .pre o' e' => o == o' && E.beq e e'
  | .post o e, .post o' e' => o == o' && E.beq e e'
  | .idx e i, .idx e' i' => E.beq e e' && E.beq i i'
  | .mem d e n, .mem d' e' n' => d == d' && E.beq e e' && n == n'
  | .call f as, .call f' as' => E.beq f f' && E.beqL as as'
  | _, _ => false
def E.beqL : List E → List E → Bool
  | [], [] => true
  | a :: as, b :: bs => E.beq a b && E.beqL as bs
  | _, _ => false
end

/-- `x = a || b ? c , d : ! (T) ++ p ++ [ i ] ( u , v = w ) -> m * - q` -/
def sample : E :=
  .bin (ix .EqualsToken) (.atom 0)
    (.cond (.bin (ix .BarBarToken) (.atom 1) (.atom 2)) (.bin (ix .CommaToken) (.atom 3) (.atom 4))
      (.bin (ix .AsteriskToken)
        (.pre (ix .ExclamationToken) (.cast (.pre (ix .PlusPlusToken)
          (.mem 1 (.call (.idx (.post (ix .PlusPlusToken) (.atom 5)) (.atom 6)) [.atom 7, .bin (ix .EqualsToken) (.atom 8) (.atom 9)]) 10))))
        (.pre (ix .MinusToken) (.atom 11))))
example : ok realT sample = true := by decide
example : (match nary realT 60 1 (pp realT sample) with | some (e, []) => E.beq e sample | _ => false) = true := by decide
/-- the rejection rule fires outside the grammar: `a ? b : c = d` and `a + b = c` are refused, `a = b ? c : d = e` is not derivable either -/
example : (nary realT 40 1 [.atom 0, .q, .atom 1, .colon, .atom 2, .op (ix .EqualsToken), .atom 3]).isNone = true := by decide
example : (nary realT 40 1 [.atom 0, .op (ix .PlusToken), .atom 1, .op (ix .EqualsToken), .atom 2]).isNone = true := by decide
/-- conditional operators group to the right, and a comma needs parentheses in a call argument -/
example : (match nary realT 40 1 [.atom 0, .q, .atom 1, .colon, .atom 2, .q, .atom 3, .colon, .atom 4] with
    | some (e, []) => E.beq e (.cond (.atom 0) (.atom 1) (.cond (.atom 2) (.atom 3) (.atom 4))) | _ => false) = true := by decide
example : ok realT (.call (.atom 0) [.bin (ix .CommaToken) (.atom 1) (.atom 2)]) = false := by decide
/-- the parser's leniency is real: `( T ) a = b` parses, to a tree that is `okW` but not `ok` -/
example : (match nary realT 40 1 [.lp, .ty, .rp, .atom 0, .op (ix .EqualsToken), .atom 1] with
    | some (e, []) => okW realT e && !ok realT e | _ => false) = true := by decide

end PsycheModel.Expr
