import PsycheModel.ArithSpec
/-!
# C13 — Expression types follow C11 promotions, conversions and constant typing
-/
namespace PsycheModel.Arith
open PsycheModel.Specifiers (BK)
open PsycheModel.ArithSpec

/-- **Integer promotions**: for every basic type -/
theorem intPromote_is_C11 (k : BK) (hk : isIntegerK k = true) : intPromote k = promote lp64 k := by
  cases k <;> first | rfl | (simp [isIntegerK] at hk)

/-- **Usual arithmetic conversions**: for every ordered pair of the 18 arithmetic types -/
theorem arithConv_is_C11 (l r : BK) : arithConv l r = usualArith lp64 l r := by
  cases l <;> cases r <;> rfl

/-- **Binary operators** `* / % + - << >> < <= > >= == !=`: result type (or rejection) for every pair -/
theorem binType_is_C11 (op : Op) (l r : BK) : binType op l r = binSpec lp64 op l r := by
  cases op <;> simp only [binType, binSpec, arithConv_is_C11]
  all_goals (cases l <;> cases r <;> rfl)

/-- **Compound assignments**: the type of the left operand -/
theorem assignType_is_C11 (op : Op) (l r : BK) : assignType op l r = assignSpec op l r := by
  cases op <;> rfl

/-- shifts take the promoted left operand's type; comparisons yield `int` (the property's wording) -/
theorem shift_takes_promoted_left (l r : BK) (hl : isIntegerK l = true) (hr : isIntegerK r = true) :
    binType .shl l r = some (promote lp64 l) ∧ binType .shr l r = some (promote lp64 l) := by
  simp [binType, hl, hr, intPromote_is_C11 l hl]

theorem comparison_yields_int (op : Op) (hop : op ∈ [Op.lt, .gt, .le, .ge, .eq, .ne]) (l r : BK)
    (hl : isRealK l = true) (hr : isRealK r = true) : binType op l r = some .Int_S := by
  simp only [List.mem_cons, List.mem_nil_iff, or_false] at hop
  rcases hop with rfl | rfl | rfl | rfl | rfl | rfl <;> simp [binType, hl, hr]

/-! ## Integer constants — unbounded in the value -/

theorem maxOf_is_platform (k : BK) (hk : isIntegerK k = true) : maxOf k = maxVal lp64 k := by
  cases k <;> first | decide | (simp [isIntegerK] at hk)

theorem candidates_are_table (octOrHex : Bool) (s : Suffix) : candidates octOrHex s = table641 octOrHex s := by
  cases s <;> rfl

theorem candidates_integer (octOrHex : Bool) (s : Suffix) : ∀ k ∈ candidates octOrHex s, isIntegerK k = true := by
  cases octOrHex <;> cases s <;> decide

/-- `selectTypeForValue` returns the first candidate that represents the value, whenever one does — for every
value (no bound) and every candidate list of integer kinds. -/
theorem selectType_firstFit (v : Nat) : ∀ (l : List BK), (∀ k ∈ l, isIntegerK k = true) → ∀ t,
    firstFit lp64 v l = some t → selectType v l = t := by
  intro l
  induction l with
  | nil => intro _ t h; simp [firstFit] at h
  | cons k rest ih =>
    intro hint t h
    have hk := maxOf_is_platform k (hint k (by simp))
    simp only [firstFit, List.find?_cons] at h
    cases rest with
    | nil =>
      by_cases hv : v ≤ maxVal lp64 k
      · simp [hv] at h; simp [selectType, h]
      · simp [hv] at h
    | cons k2 rest2 =>
      by_cases hv : v ≤ maxVal lp64 k
      · simp [hv] at h
        subst h
        simp [selectType, hk, hv]
      · simp only [hv, decide_false] at h
        simp only [selectType, hk, if_neg hv]
        exact ih (fun k' hk' => hint k' (List.mem_cons_of_mem _ hk')) t h

/-- **Integer constant typing**: for every base, suffix and value that some type of the 6.4.4.1 list can
represent, the constant has the first such type. -/
theorem intConstType_is_C11 (octOrHex : Bool) (s : Suffix) (v : Nat) (t : BK)
    (h : firstFit lp64 v (table641 octOrHex s) = some t) : intConstType octOrHex s v = t := by
  unfold intConstType
  rw [← candidates_are_table] at h
  exact selectType_firstFit v _ (candidates_integer octOrHex s) t h

/-- **… on EVERY configured platform**: whatever table of maxima the platform options hold (`mx`), as long as it is the table of some
platform `p` (any widths), the constant has the first type of the 6.4.4.1 list that represents its value on `p`. -/
theorem selectTypeM_firstFit (p : Platform) (mx : BK → Nat) (hmx : ∀ k, isIntegerK k = true → mx k = maxVal p k) (v : Nat) :
    ∀ (l : List BK), (∀ k ∈ l, isIntegerK k = true) → ∀ t, firstFit p v l = some t → selectTypeM mx v l = t := by
  intro l
  induction l with
  | nil => intro _ t h; simp [firstFit] at h
  | cons k rest ih =>
    intro hint t h
    have hk := hmx k (hint k (by simp))
    simp only [firstFit, List.find?_cons] at h
    cases rest with
    | nil =>
      by_cases hv : v ≤ maxVal p k
      · simp [hv] at h; simp [selectTypeM, h]
      · simp [hv] at h
    | cons k2 rest2 =>
      by_cases hv : v ≤ maxVal p k
      · simp [hv] at h
        subst h
        simp [selectTypeM, hk, hv]
      · simp only [hv, decide_false] at h
        simp only [selectTypeM, hk, if_neg hv]
        exact ih (fun k' hk' => hint k' (List.mem_cons_of_mem _ hk')) t h

theorem intConstTypeM_is_C11 (p : Platform) (mx : BK → Nat) (hmx : ∀ k, isIntegerK k = true → mx k = maxVal p k)
    (octOrHex : Bool) (s : Suffix) (v : Nat) (t : BK)
    (h : firstFit p v (table641 octOrHex s) = some t) : intConstTypeM mx octOrHex s v = t := by
  unfold intConstTypeM
  rw [← candidates_are_table] at h
  exact selectTypeM_firstFit p mx hmx v _ (candidates_integer octOrHex s) t h

/-- the default platform is the instance `mx := maxOf`, `p := lp64` -/
theorem intConstType_is_default_instance (octOrHex : Bool) (s : Suffix) (v : Nat) :
    intConstType octOrHex s v = intConstTypeM maxOf octOrHex s v := by
  unfold intConstType intConstTypeM
  generalize candidates octOrHex s = l
  induction l with
  | nil => rfl
  | cons k rest ih => cases rest with
    | nil => rfl
    | cons k2 r2 => simp only [selectType, selectTypeM]; rw [ih]

/-- non-vacuity on a 32-bit `long`: `0x100000000` is `long long`, `4294967296u` is `unsigned long long`, `2147483648` is `long long` -/
example : intConstTypeM (maxVal ilp32) true .none 0x100000000 = .LongLong_S ∧ intConstTypeM (maxVal ilp32) false .u 4294967296 = .LongLong_U ∧
    intConstTypeM (maxVal ilp32) false .none 2147483648 = .LongLong_S ∧ intConstTypeM (maxVal ilp32) true .none 0x80000000 = .Int_U := by decide

/-- every value up to `ULLONG_MAX` has a type when the list ends in `unsigned long long` -/
theorem firstFit_total (octOrHex : Bool) (s : Suffix) (v : Nat) (hv : v ≤ 18446744073709551615)
    (hlist : BK.LongLong_U ∈ table641 octOrHex s) : (firstFit lp64 v (table641 octOrHex s)).isSome = true := by
  simp only [firstFit, List.find?_isSome]
  refine ⟨.LongLong_U, hlist, ?_⟩
  have : maxVal lp64 .LongLong_U = 18446744073709551615 := by decide
  simp [this, hv]

/-! ## Suffix / prefix decoding — for every spelling -/

/-- characters that are neither a suffix/prefix letter nor `8` do not disturb the scan -/
def neutral (c : Char) : Bool := c != 'l' && c != 'L' && c != 'u' && c != 'U' && c != 'f' && c != 'F'

theorem scan_neutral_cons (fl : Flags) (c : Char) (rest : List Char) (hc : neutral c = true) :
    scan fl (c :: rest) = scan fl rest := by
  simp only [neutral, Bool.and_eq_true, bne_iff_ne, ne_eq] at hc
  obtain ⟨⟨⟨⟨⟨h1, h2⟩, h3⟩, h4⟩, h5⟩, h6⟩ := hc
  rw [scan.eq_def]
  split <;> simp_all

/-- the digits of an integer constant (decimal, octal, or hexadecimal with the `0x` prefix) never contain
`l L u U`; hexadecimal digits may contain `f F`, which only touches the floating flag -/
def intNeutral (c : Char) : Bool := c != 'l' && c != 'L' && c != 'u' && c != 'U'

/-- the floating flag never influences the other flags -/
theorem scan_f_irrelevant (s : List Char) : ∀ (fl : Flags) (b : Bool),
    ∃ b', scan { fl with f := b } s = { scan fl s with f := b' } := by
  intro fl
  fun_induction scan fl s with
  | case1 fl => intro b; exact ⟨b, rfl⟩
  | case2 fl rest ih => intro b; simpa [scan] using ih b
  | case3 fl rest _ ih => intro b; rw [scan]; simpa using ih b; all_goals assumption
  | case4 fl rest ih => intro b; simpa [scan] using ih b
  | case5 fl rest _ ih => intro b; rw [scan]; simpa using ih b; all_goals assumption
  | case6 fl rest ih => intro b; simpa [scan] using ih b
  | case7 fl rest _ ih => intro b; rw [scan]; simpa using ih b; all_goals assumption
  | case8 fl rest ih => intro b; simpa [scan] using ih b
  | case9 fl rest ih => intro b; simpa [scan] using ih true
  | case10 fl rest ih => intro b; simpa [scan] using ih true
  | case11 fl c rest _ _ _ _ _ _ _ _ _ ih => intro b; rw [scan]; simpa using ih b; all_goals assumption

theorem intSuffix_f (fl : Flags) (b : Bool) : intSuffix { fl with f := b } = intSuffix fl := rfl

theorem scan_intNeutral_cons (fl : Flags) (c : Char) (rest : List Char) (hc : intNeutral c = true) :
    scan fl (c :: rest) = scan fl rest ∨ scan fl (c :: rest) = scan { fl with f := true } rest := by
  simp only [intNeutral, Bool.and_eq_true, bne_iff_ne, ne_eq] at hc
  obtain ⟨⟨⟨h1, h2⟩, h3⟩, h4⟩ := hc
  rw [scan.eq_def]
  split <;> simp_all

/-- the digit part of an integer constant does not disturb the suffix decoding -/
theorem intSuffix_digits (digits : List Char) (hd : ∀ c ∈ digits, intNeutral c = true) : ∀ (fl : Flags) (suffix : List Char),
    intSuffix (scan fl (digits ++ suffix)) = intSuffix (scan fl suffix) := by
  induction digits with
  | nil => intro fl suffix; rfl
  | cons c rest ih =>
    intro fl suffix
    have hrest : ∀ c ∈ rest, intNeutral c = true := fun c' hc' => hd c' (List.mem_cons_of_mem _ hc')
    rcases scan_intNeutral_cons fl c (rest ++ suffix) (hd c (by simp)) with h | h
    · rw [List.cons_append, h]; exact ih hrest fl suffix
    · rw [List.cons_append, h, ih hrest]
      obtain ⟨b', hb'⟩ := scan_f_irrelevant suffix fl true
      rw [hb', intSuffix_f]

/-- the integer suffixes of 6.4.4.1 with the class they denote -/
def intSuffixes : List (List Char × Suffix) := [
  ([], .none), (['u'], .u), (['U'], .u), (['l'], .l), (['L'], .l),
  (['u', 'l'], .lu), (['u', 'L'], .lu), (['U', 'l'], .lu), (['U', 'L'], .lu),
  (['l', 'u'], .lu), (['l', 'U'], .lu), (['L', 'u'], .lu), (['L', 'U'], .lu),
  (['l', 'l'], .ll), (['L', 'L'], .ll),
  (['u', 'l', 'l'], .llu), (['u', 'L', 'L'], .llu), (['U', 'l', 'l'], .llu), (['U', 'L', 'L'], .llu),
  (['l', 'l', 'u'], .llu), (['l', 'l', 'U'], .llu), (['L', 'L', 'u'], .llu), (['L', 'L', 'U'], .llu)]

theorem intSuffixes_decoded : intSuffixes.all (fun p => intSuffix (scan {} p.1) == p.2) = true := by decide

/-- **Suffix decoding**: for every digit string (decimal, octal, `0x…` — anything without `l L u U`) followed
by any suffix of the grammar, `representationSuffix` is the suffix that was written. -/
theorem int_suffix_decoding (digits : List Char) (hd : ∀ c ∈ digits, intNeutral c = true)
    (sfx : List Char × Suffix) (hs : sfx ∈ intSuffixes) : intSuffix (scan {} (digits ++ sfx.1)) = sfx.2 := by
  rw [intSuffix_digits digits hd]
  have := intSuffixes_decoded
  simp only [List.all_eq_true, beq_iff_eq] at this
  exact this sfx hs

/-- floating constants: the significand/exponent characters of a decimal floating constant are neutral -/
theorem scan_neutral (digits : List Char) (hd : ∀ c ∈ digits, neutral c = true) (fl : Flags) (suffix : List Char) :
    scan fl (digits ++ suffix) = scan fl suffix := by
  induction digits with
  | nil => rfl
  | cons c rest ih =>
    rw [List.cons_append, scan_neutral_cons fl c _ (hd c (by simp))]
    exact ih (fun c' hc' => hd c' (List.mem_cons_of_mem _ hc'))

/-- **Floating constants**: `f`/`F` → float, `l`/`L` → long double, none → double -/
theorem float_suffix_decoding (digits : List Char) (hd : ∀ c ∈ digits, neutral c = true) :
    floatConstType (scan {} (digits ++ [])) = .Double ∧
    floatConstType (scan {} (digits ++ ['f'])) = .Float ∧ floatConstType (scan {} (digits ++ ['F'])) = .Float ∧
    floatConstType (scan {} (digits ++ ['l'])) = .LongDouble ∧ floatConstType (scan {} (digits ++ ['L'])) = .LongDouble := by
  simp only [scan_neutral digits hd]
  decide

/-! ### hexadecimal constants: `f` and `F` among the digits -/

theorem maskHexF_append_p (m : List Char) (hm : ∀ c ∈ m, c ≠ 'p' ∧ c ≠ 'P') (c : Char) (hc : c = 'p' ∨ c = 'P') (rest : List Char) :
    maskHexF (m ++ c :: rest) = (m.map fun x => if x = 'f' ∨ x = 'F' then '0' else x) ++ c :: rest := by
  induction m with
  | nil => simp [maskHexF, hc]
  | cons x xs ih =>
    have hx := hm x (by simp)
    have : ¬ (x = 'p' ∨ x = 'P') := by simp [hx.1, hx.2]
    simp only [List.cons_append, maskHexF, this, if_false, List.map_cons]
    rw [ih (fun c' hc' => hm c' (List.mem_cons_of_mem _ hc'))]

/-- a mantissa character of a hexadecimal floating constant: a hexadecimal digit, the point, or the `x` of the prefix -/
def hexMantissaChar (c : Char) : Bool :=
  c.isDigit || c == '.' || c == 'x' || c == 'X' || c == 'a' || c == 'b' || c == 'c' || c == 'd' || c == 'e' || c == 'f' ||
  c == 'A' || c == 'B' || c == 'C' || c == 'D' || c == 'E' || c == 'F'

theorem masked_neutral (c : Char) (h : hexMantissaChar c = true) : neutral (if c = 'f' ∨ c = 'F' then '0' else c) = true := by
  by_cases hf : c = 'f' ∨ c = 'F'
  · simp [hf, neutral]
  · simp only [hf, if_false]
    simp only [not_or] at hf
    simp only [neutral, Bool.and_eq_true, bne_iff_ne, ne_eq]
    simp only [hexMantissaChar, Bool.or_eq_true, beq_iff_eq] at h
    refine ⟨⟨⟨⟨⟨?_, ?_⟩, ?_⟩, ?_⟩, hf.1⟩, hf.2⟩ <;> (intro hc; subst hc; simp [Char.isDigit] at h) <;> simp_all

/-- **Hexadecimal floating constants**: whatever hexadecimal digits the mantissa holds — `f` and `F` included —, the type
follows the suffix written after the binary exponent: none → double, `f`/`F` → float, `l`/`L` → long double.
(`0x1.fp3` was typed `float` in the pinned tree.) -/
theorem hex_float_suffix_decoding (mant expo : List Char) (hm : ∀ c ∈ mant, hexMantissaChar c = true)
    (he : ∀ c ∈ expo, neutral c = true) (pc : Char) (hp : pc = 'p' ∨ pc = 'P') :
    let body := '0' :: 'x' :: mant ++ pc :: expo
    floatConstType (scanNum (body ++ [])) = .Double ∧
    floatConstType (scanNum (body ++ ['f'])) = .Float ∧ floatConstType (scanNum (body ++ ['F'])) = .Float ∧
    floatConstType (scanNum (body ++ ['l'])) = .LongDouble ∧ floatConstType (scanNum (body ++ ['L'])) = .LongDouble := by
  intro body
  have hnp : ∀ c ∈ ('0' :: 'x' :: mant), c ≠ 'p' ∧ c ≠ 'P' := by
    intro c hc
    have hmc : hexMantissaChar c = true := by
      simp only [List.mem_cons] at hc
      rcases hc with rfl | rfl | hc
      · decide
      · decide
      · exact hm c hc
    constructor <;> (intro h; subst h; simp [hexMantissaChar, Char.isDigit] at hmc)
  have key : ∀ sfx : List Char, scanNum (body ++ sfx) = scan {} (expo ++ sfx) := by
    intro sfx
    have hb : body ++ sfx = ('0' :: 'x' :: mant) ++ pc :: (expo ++ sfx) := by simp [body]
    have hhex : isHexSpelling (body ++ sfx) = true := by simp [body, isHexSpelling]
    unfold scanNum
    rw [hhex, if_pos rfl, hb, maskHexF_append_p _ hnp pc hp]
    have hneutral : ∀ c ∈ (('0' :: 'x' :: mant).map fun x => if x = 'f' ∨ x = 'F' then '0' else x), neutral c = true := by
      intro c hc
      simp only [List.mem_map] at hc
      obtain ⟨x, hx, rfl⟩ := hc
      apply masked_neutral
      simp only [List.mem_cons] at hx
      rcases hx with rfl | rfl | hx
      · decide
      · decide
      · exact hm x hx
    rw [scan_neutral _ hneutral]
    have hpn : neutral pc = true := by rcases hp with rfl | rfl <;> decide
    rw [scan_neutral_cons _ pc _ hpn]
  simp only [key, scan_neutral expo he]
  decide

/-- **Character constants**: the type follows the prefix, whatever the characters between the quotes are
(`'u'`, `'L'`, `'U'` are plain `int` constants). -/
theorem char_const_types (body : List Char) :
    charConstType ('\'' :: body) = .Int_S ∧ charConstType ('L' :: '\'' :: body) = .Int_S ∧
    charConstType ('u' :: '\'' :: body) = .Short_U ∧ charConstType ('U' :: '\'' :: body) = .Int_U := by
  simp [charConstType, List.takeWhile, scan]

/-! ### Non-vacuity / sanity -/
example : arithConv .Float .Double = .Double ∧ arithConv .Long_U .LongLong_S = .LongLong_U ∧
    arithConv .Short_U .Char = .Int_S ∧ arithConv .FloatComplex .LongDouble = .LongDoubleComplex := by decide
example : intConstType false .none 2147483648 = .Long_S ∧ intConstType true .none 2147483648 = .Int_U ∧
    intConstType true .none 0xFFFFFFFFFFFFFFFF = .Long_U := by decide
example : intSuffix (scan {} "0x1Full".toList) = .llu := by decide
example : floatConstType (scanNum "0x1.fp3".toList) = .Double ∧ floatConstType (scanNum "0xfp1f".toList) = .Float ∧
    floatConstType (scanNum "0XF.Fp-2L".toList) = .LongDouble ∧ intSuffix (scanNum "0xFFul".toList) = .lu := by decide

end PsycheModel.Arith
