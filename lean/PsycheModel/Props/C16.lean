import PsycheModel.Lemmas.Positions
/-!
# C16 — Reported positions track the text they refer to

All statements are for every text (as a sequence of code units, `true` = line break), every offset in it,
every `k`.  `model_is_scan` (Lemmas) shows that the front end's computation (vector of line starts, binary
search, subtraction) equals the left-to-right scan `scanPos`; the relational laws are proved on the scan and
transferred.
-/
namespace PsycheModel.Positions

theorem scanFrom_append (a b : List Bool) (n : Nat) : ∀ (l c : Nat),
    scanFrom l c (a ++ b) (a.length + n) = scanFrom (scanFrom l c a a.length).1 (scanFrom l c a a.length).2 b n := by
  induction a with
  | nil => intro l c; simp [scanFrom]
  | cons x t ih =>
    intro l c
    have e : t.length + 1 + n = (t.length + n) + 1 := by omega
    cases x <;> simp only [List.cons_append, List.length_cons, e, scanFrom, ih]

theorem scanFrom_breaks (k : Nat) : ∀ (l c : Nat), scanFrom l c (List.replicate k true) k = (l + k, if k = 0 then c else 0) := by
  induction k with
  | zero => intro l c; simp [scanFrom]
  | succ k ih =>
    intro l c
    simp only [List.replicate_succ, scanFrom, ih]
    refine Prod.ext (by simp; omega) ?_
    by_cases h : k = 0 <;> simp [h]

theorem scanFrom_blanks (k : Nat) : ∀ (l c : Nat), scanFrom l c (List.replicate k false) k = (l, c + k) := by
  induction k with
  | zero => intro l c; simp [scanFrom]
  | succ k ih => intro l c; simp only [List.replicate_succ, scanFrom, ih]; refine Prod.ext rfl (by simp; omega)

theorem scanFrom_shift_aux : ∀ (u : List Bool) (n l c : Nat),
    (scanFrom l c u n).1 = l + (scanFrom 0 0 u n).1 ∧
    (scanFrom l c u n).2 = if (scanFrom 0 0 u n).1 = 0 then c + (scanFrom 0 0 u n).2 else (scanFrom 0 0 u n).2 := by
  intro u
  induction u with
  | nil => intro n l c; cases n <;> simp [scanFrom]
  | cons x t ih =>
    intro n l c
    cases n with
    | zero => simp [scanFrom]
    | succ n =>
      cases x with
      | true =>
        obtain ⟨a1, a2⟩ := ih n (l + 1) 0
        obtain ⟨b1, b2⟩ := ih n 1 0
        simp only [scanFrom, Nat.zero_add]
        have hne : (scanFrom 1 0 t n).1 ≠ 0 := by rw [b1]; omega
        refine ⟨by rw [a1, b1]; omega, ?_⟩
        rw [a2, b2, if_neg hne]
      | false =>
        obtain ⟨a1, a2⟩ := ih n l (c + 1)
        obtain ⟨b1, b2⟩ := ih n 0 1
        simp only [scanFrom, Nat.zero_add]
        rw [Nat.zero_add] at b1
        refine ⟨by rw [a1, b1], ?_⟩
        rw [a2, b1, b2]
        by_cases h : (scanFrom 0 0 t n).1 = 0 <;> simp [h]; omega

/-- starting the scan at `(l, c)` instead of `(0, 0)` shifts the line by `l`, and the column by `c` as long as
no line break has been passed -/
theorem scanFrom_shift (u : List Bool) (n l c : Nat) :
    scanFrom l c u n = (l + (scanFrom 0 0 u n).1,
      if (scanFrom 0 0 u n).1 = 0 then c + (scanFrom 0 0 u n).2 else (scanFrom 0 0 u n).2) :=
  Prod.ext (scanFrom_shift_aux u n l c).1 (scanFrom_shift_aux u n l c).2

theorem scanFrom_suffix (pre post post' : List Bool) : ∀ (n l c : Nat), n ≤ pre.length →
    scanFrom l c (pre ++ post) n = scanFrom l c (pre ++ post') n := by
  induction pre with
  | nil => intro n l c h; have : n = 0 := by simpa using h
           subst this; simp [scanFrom]
  | cons x t ih =>
    intro n l c h
    cases n with
    | zero => simp [scanFrom]
    | succ n =>
      have hn : n ≤ t.length := by simp at h; omega
      cases x <;> simp only [List.cons_append, scanFrom, ih n _ _ hn]

/-! ## The relational laws, on the scan -/

/-- **k line breaks inserted at a line boundary before the token move its line by exactly k and leave its column
unchanged.**  `a` ends at a line boundary, the token starts `n` units into `b`. -/
theorem scan_insert_line_breaks (a b : List Bool) (n k : Nat) (hb : (scanPos a a.length).2 = 0) :
    scanPos (a ++ List.replicate k true ++ b) (a.length + k + n) =
      ((scanPos (a ++ b) (a.length + n)).1 + k, (scanPos (a ++ b) (a.length + n)).2) := by
  unfold scanPos at *
  rw [List.append_assoc, Nat.add_assoc, scanFrom_append, scanFrom_append a b]
  have hk : k + n = (List.replicate k true).length + n := by simp
  rw [hk, scanFrom_append, List.length_replicate, scanFrom_breaks, hb]
  simp only []
  rw [scanFrom_shift b n ((scanFrom 0 0 a a.length).1 + k), scanFrom_shift b n (scanFrom 0 0 a a.length).1]
  refine Prod.ext (by simp; omega) ?_
  by_cases h : k = 0 <;> simp [h]

/-- **k blanks inserted before the token on its own line move its column by exactly k and leave its line
unchanged.**  No line break lies between the insertion point and the token. -/
theorem scan_insert_blanks (a b : List Bool) (n k : Nat) (hline : (scanPos b n).1 = 0) :
    scanPos (a ++ List.replicate k false ++ b) (a.length + k + n) =
      ((scanPos (a ++ b) (a.length + n)).1, (scanPos (a ++ b) (a.length + n)).2 + k) := by
  unfold scanPos at *
  rw [List.append_assoc, Nat.add_assoc, scanFrom_append, scanFrom_append a b]
  have hk : k + n = (List.replicate k false).length + n := by simp
  rw [hk, scanFrom_append, List.length_replicate, scanFrom_blanks]
  simp only []
  rw [scanFrom_shift b n _ ((scanFrom 0 0 a a.length).2 + k), scanFrom_shift b n _ (scanFrom 0 0 a a.length).2]
  simp only [hline, if_true]
  refine Prod.ext rfl (by simp; omega)

/-- **text after the token never affects its position** -/
theorem scan_ignores_text_after (pre post post' : List Bool) (off : Nat) (h : off ≤ pre.length) :
    scanPos (pre ++ post) off = scanPos (pre ++ post') off :=
  scanFrom_suffix pre post post' off 0 0 h

/-- **line markers**: the line distance between a marker and a later token — which is what `computePosition`
adds to the number the marker names — does not depend on how much text precedes the marker -/
theorem scan_line_distance_ignores_text_before (p u : List Bool) (dOff off : Nat) :
    (scanPos (p ++ u) (p.length + off)).1 - (scanPos (p ++ u) (p.length + dOff)).1 =
      (scanPos u off).1 - (scanPos u dOff).1 := by
  unfold scanPos
  rw [scanFrom_append, scanFrom_append, scanFrom_shift u off, scanFrom_shift u dOff]
  simp only []
  omega

/-! ## Transfer to the front end's computation -/

/-- `computePosition`: physical line re-based on the governing directive, physical column -/
theorem position_eq (u : List Bool) (dirs : List Directive) (off : Nat) (h : off ≤ u.length)
    (hd : (directiveFor dirs off).offset ≤ u.length) :
    position u dirs off =
      ((scanPos u off).1 + (directiveFor dirs off).lineno - ((scanPos u (directiveFor dirs off).offset).1 + 1),
       (scanPos u off).2) := by
  have h1 := model_is_scan u off h
  have h2 := model_is_scan u _ hd
  unfold position
  simp only []
  rw [← h1, ← h2]

/-- without line markers (only the initial record `(0, 1)`) the reported position is the scan position -/
theorem position_plain (u : List Bool) (off : Nat) (h : off ≤ u.length) :
    position u [⟨0, 1⟩] off = scanPos u off := by
  have hd : directiveFor [⟨0, 1⟩] off = ⟨0, 1⟩ := by
    unfold directiveFor
    by_cases h0 : 0 < off <;> simp [List.takeWhile, h0]
  rw [position_eq u _ off h (by rw [hd]; exact Nat.zero_le _), hd]
  simp [scanPos, scanFrom]

/-- `SyntaxToken::location()` is the scan position with 1-based lines -/
theorem tokenLocation_eq (u : List Bool) (off : Nat) (h : off ≤ u.length) :
    tokenLocation u off = ((scanPos u off).1 + 1, (scanPos u off).2) := by
  have h1 := model_is_scan u off h
  unfold tokenLocation
  simp only []
  rw [← h1]
  refine Prod.ext rfl ?_
  simp only [colOf]
  by_cases h0 : off = 0 <;> simp [h0]

/-- **C16 for diagnostics/tokens without markers, in the front end's own terms**: inserting `k` line breaks
at a line boundary before a token moves the line `computePosition` reports by `k` and keeps the column. -/
theorem computePosition_insert_line_breaks (a b : List Bool) (n k : Nat) (hn : n ≤ b.length)
    (hb : (scanPos a a.length).2 = 0) :
    position (a ++ List.replicate k true ++ b) [⟨0, 1⟩] (a.length + k + n) =
      ((position (a ++ b) [⟨0, 1⟩] (a.length + n)).1 + k, (position (a ++ b) [⟨0, 1⟩] (a.length + n)).2) := by
  rw [position_plain _ _ (by simp; omega), position_plain _ _ (by simp; omega)]
  exact scan_insert_line_breaks a b n k hb

theorem computePosition_insert_blanks (a b : List Bool) (n k : Nat) (hn : n ≤ b.length) (hline : (scanPos b n).1 = 0) :
    position (a ++ List.replicate k false ++ b) [⟨0, 1⟩] (a.length + k + n) =
      ((position (a ++ b) [⟨0, 1⟩] (a.length + n)).1, (position (a ++ b) [⟨0, 1⟩] (a.length + n)).2 + k) := by
  rw [position_plain _ _ (by simp; omega), position_plain _ _ (by simp; omega)]
  exact scan_insert_blanks a b n k hline

theorem computePosition_ignores_text_after (pre post post' : List Bool) (off : Nat) (h : off ≤ pre.length) :
    position (pre ++ post) [⟨0, 1⟩] off = position (pre ++ post') [⟨0, 1⟩] off := by
  rw [position_plain _ _ (by simp; omega), position_plain _ _ (by simp; omega)]
  exact scan_ignores_text_after pre post post' off h

/-! ### Non-vacuity -/
-- "ab\n  c" : token c at offset 5 -> line 1, column 2; a marker `# 100` on line 0 would give 100
example : position [false, false, true, false, false, false] [⟨0, 1⟩] 5 = (1, 2) := by decide
example : position [false, true, false, true, false] [⟨0, 1⟩, ⟨2, 100⟩] 4 = (100, 0) := by decide
example : (scanPos [false, false, true] 3).2 = 0 := by decide

end PsycheModel.Positions
