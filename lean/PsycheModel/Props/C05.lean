import PsycheModel.Lemmas.Lex
import PsycheModel.LexSpec
import PsycheModel.Lemmas.LexConf
import PsycheModel.Lemmas.LexNum
/-!
# C05 — Tokenisation follows the C11 lexical grammar

Part A (this section): for EVERY byte string, every configuration and every keyword table, the token stream of the
lexer model tiles the text — each token's extent is a stretch of the text, the extents come in increasing order without
overlap and inside the text, the bytes of a token are the source bytes of its extent, the stream ends with exactly one
end-of-file token, and that token sits at the end of the text.
-/
namespace PsycheModel.Props.C05
open PsycheModel.Lex PsycheModel.Generated

/-- cutting the text into the code points `yyinput` steps over loses and invents nothing — for all byte strings,
well-formed UTF-8 or not -/
theorem segmentation_is_lossless (text : List Nat) : bytesOf (segment text) = text := bytesOf_segment text

theorem bytesOf_append (a b : S) : bytesOf (a ++ b) = bytesOf a ++ bytesOf b := by simp [bytesOf]

theorem consumed_append {s rest : S} (h : rest <:+ s) : consumed s rest ++ rest = s :=
  List.suffix_iff_eq_append.1 h

theorem bytesOf_suffix {a b : S} (h : a <:+ b) : bytesOf a <:+ bytesOf b := by
  obtain ⟨p, rfl⟩ := h
  rw [bytesOf_append]; exact List.suffix_append _ _

/-- **the bytes of a token are the source bytes of its extent**: the text is `before ++ token ++ after`, with
`before` as long as the token's offset -/
theorem token_bytes_are_source (whole : S) (t : Tok) (h1 : t.start <:+ whole) (h2 : t.rest <:+ t.start) :
    ∃ before, bytesOf whole = before ++ bytesOf t.cps ++ bytesOf t.rest ∧
      before.length = t.off (bytesOf whole).length ∧ (bytesOf t.cps).length = t.size := by
  obtain ⟨p, hp⟩ := h1
  refine ⟨bytesOf p, ?_, ?_, rfl⟩
  · rw [← hp, bytesOf_append, List.append_assoc]
    congr 1
    show bytesOf t.start = bytesOf (consumed t.start t.rest) ++ bytesOf t.rest
    rw [← bytesOf_append, consumed_append h2]
  · unfold Tok.off; rw [← hp, bytesOf_append]; simp

/-- extents in increasing order, without overlap, inside a text of `total` bytes, from offset `lo` on -/
def Ordered (total : Nat) : Nat → List Tok → Prop
  | _, [] => True
  | lo, t :: ts => lo ≤ t.off total ∧ t.off total + t.size ≤ total ∧ Ordered total (t.off total + t.size) ts

theorem ordered_of_chain (whole : S) : ∀ (ts : List Tok) (b : S), b <:+ whole → ChainFrom b ts →
    Ordered (bytesOf whole).length ((bytesOf whole).length - (bytesOf b).length) ts := by
  intro ts
  induction ts with
  | nil => intro b _ _; trivial
  | cons t ts ih =>
    intro b hb hc
    obtain ⟨h1, h2, h3⟩ := hc
    have hsw : t.start <:+ whole := h1.trans hb
    have hrw : t.rest <:+ whole := h2.trans hsw
    have e : bytesOf t.start = bytesOf t.cps ++ bytesOf t.rest := by
      rw [← bytesOf_append, Tok.cps, consumed_append h2]
    have l1 := (bytesOf_suffix h1).length_le
    have l2 := (bytesOf_suffix hsw).length_le
    have l3 : (bytesOf t.start).length = t.size + (bytesOf t.rest).length := by rw [e]; simp [Tok.size]
    have key : t.off (bytesOf whole).length + t.size = (bytesOf whole).length - (bytesOf t.rest).length := by
      unfold Tok.off; omega
    refine ⟨by unfold Tok.off; omega, by rw [key]; omega, ?_⟩
    rw [key]
    exact ih t.rest hrw h3

/-- **Main theorem of part A.**  For every text (as the code points the lexer steps over), every configuration: -/
theorem tokens_tile_the_text (cfg : Cfg) (s : S) (ts cs : List Tok) (h : lexAll cfg s = some (ts, cs)) :
    -- the tokens' extents are increasing, disjoint and inside the text
    Ordered (bytesOf s).length 0 ts ∧
    -- each token's bytes are the source bytes at its extent
    (∀ t ∈ ts, ∃ before, bytesOf s = before ++ bytesOf t.cps ++ bytesOf t.rest ∧ before.length = t.off (bytesOf s).length) ∧
    -- kept comments lie inside the text too
    (∀ c ∈ cs, ∃ before, bytesOf s = before ++ bytesOf c.cps ++ bytesOf c.rest ∧ before.length = c.off (bytesOf s).length) ∧
    -- the stream ends with an end-of-file token and has no other
    (∃ ts' e, ts = ts' ++ [e] ∧ e.kind = .EndOfFile ∧ ∀ x ∈ ts', x.kind ≠ .EndOfFile) := by
  unfold lexAll at h
  have hy := yylex_good cfg s { sol := true }
  have hc := lexF_chain cfg _ _ ts cs hy.2 h
  have hchain : ChainFrom s ts := hc.1.mono hy.1
  have hends := lexF_ends cfg _ _ ts cs hy.2 (by have := hy.1.length_le; omega) h
  refine ⟨?_, ?_, ?_, hends⟩
  · simpa using ordered_of_chain s ts s (List.suffix_refl _) hchain
  · -- membership: walk the chain
    have aux : ∀ (ts : List Tok) (b : S), b <:+ s → ChainFrom b ts → ∀ t ∈ ts, t.start <:+ s ∧ t.rest <:+ t.start := by
      intro ts
      induction ts with
      | nil => intro b _ _ t ht; cases ht
      | cons x xs ih =>
        intro b hb hcx t ht
        obtain ⟨h1, h2, h3⟩ := hcx
        rcases List.mem_cons.1 ht with rfl | ht
        · exact ⟨h1.trans hb, h2⟩
        · exact ih x.rest (h2.trans (h1.trans hb)) h3 t ht
    intro t ht
    obtain ⟨a, b⟩ := aux ts s (List.suffix_refl _) hchain t ht
    obtain ⟨before, e1, e2, _⟩ := token_bytes_are_source s t a b
    exact ⟨before, e1, e2⟩
  · intro c hcm
    obtain ⟨a, b⟩ := hc.2 c hcm
    obtain ⟨before, e1, e2, _⟩ := token_bytes_are_source s c (b.trans hy.1) a
    exact ⟨before, e1, e2⟩

/-! ## Part B — conformance to C11 6.4 -/
open PsycheModel.LexSpec

/-- the lexer, started on the first character of `p ++ r`, reads exactly `p` and gives it its kind -/
def ReadsAs (p : List Nat) (k : Kind) (r : S) : Prop :=
  match p with
  | [] => False
  | ch :: w => (tokenAt ch (asS w ++ r)).kind = k ∧ (tokenAt ch (asS w ++ r)).rest = r ∧ (tokenAt ch (asS w ++ r)).word = false

macro "punct_tac" : tactic => `(tactic| (
  intro r h hdot
  try simp [extensions, longer, punctuators] at h
  rcases r with _ | ⟨c1, _ | ⟨c2, _ | ⟨c3, r⟩⟩⟩ <;> (try simp [startsWith] at h) <;> (try simp [hd] at hdot) <;>
    simp [ReadsAs, tokenAt, hd, step, asS, asS.asciiCp', hdot, h] <;> (try (repeat' split) <;> simp_all <;> omega)))

set_option maxHeartbeats 1000000 in
/-- **6.4.6, longest match.**  For every punctuator `p` of C11 (digraphs included) and EVERY continuation `r` of the text
that does not turn `p` into a longer lexical element (a longer punctuator, a comment opener, a digit after a period),
the lexer reads `p`, all of `p` and nothing more, and gives it the kind of `p`. -/
theorem punctuator_longest_match : ∀ e ∈ punctuators, ∀ r : S,
    (∀ x ∈ extensions e.1, startsWith (r.map (·.c)) x = false) → (e.1 = [46] → isDigit (hd r) = false) →
    ReadsAs e.1 e.2 r := by
  intro e he
  simp only [punctuators, List.mem_cons, List.not_mem_nil, or_false] at he
  rcases he with rfl | rfl | rfl | rfl | rfl | rfl | rfl | rfl | rfl | rfl | rfl | rfl | rfl | rfl | rfl | rfl | rfl | rfl | rfl | rfl | rfl | rfl | rfl | rfl | rfl | rfl | rfl | rfl | rfl | rfl | rfl | rfl | rfl | rfl | rfl | rfl | rfl | rfl | rfl | rfl | rfl | rfl | rfl | rfl | rfl | rfl | rfl | rfl | rfl | rfl | rfl | rfl | rfl | rfl | rfl | rfl | rfl | rfl
  all_goals punct_tac

/-- **6.4.2.1, identifiers.**  An identifier start followed by identifier characters - of ANY number, ASCII or not - up to a character that
is none (and no quote: `L"…"`, `u8'…'` are literals) is read as one identifier-like word, all of it and nothing more (which keyword, if any,
it is is C17's subject). -/
theorem identifier_is_one_word (c0 : Nat) (cs r : S) (h0 : isIdStart c0 = true) (hcs : ∀ c ∈ cs, isIdCont c.c = true)
    (hr : isIdCont (hd r) = false) (hq1 : hd r ≠ 34) (hq2 : hd r ≠ 39) :
    (tokenAt c0 (cs ++ r)).kind = .IdentifierToken ∧ (tokenAt c0 (cs ++ r)).rest = r ∧ (tokenAt c0 (cs ++ r)).word = true := by
  rw [identifier_reads c0 cs r h0 hcs hr hq1 hq2]
  exact ⟨rfl, rfl, rfl⟩

/-- **6.4.4.1, decimal integer constants.**  For every non-zero digit, every digit sequence of ANY length, each of the 23 integer-suffix
spellings (or none) and every continuation that does not continue a word (and, without a suffix, does not begin a fraction), the lexer
reads the constant, all of it and nothing more, as one integer constant. -/
theorem decimal_integer_constant (d0 : Nat) (ds : S) (sfx : List Nat) (r : S)
    (h0 : isDigit d0 = true) (hnz : d0 ≠ 48) (hds : ∀ c ∈ ds, isDigit c.c = true) (hs : sfx ∈ intSuffixes)
    (hr : isWordTail (hd r) = false) (hdot : sfx = [] → hd r ≠ 46) :
    (tokenAt d0 (ds ++ (asS sfx ++ r))).kind = .IntegerConstantToken ∧ (tokenAt d0 (ds ++ (asS sfx ++ r))).rest = r := by
  rw [decimal_constant_reads d0 ds sfx r h0 hnz hds hs hr hdot]
  exact ⟨rfl, rfl⟩

/-- **6.4.4.1, hexadecimal integer constants.**  `0x` / `0X`, hexadecimal digits of ANY number, each suffix spelling (or none), up to a
character that does not continue a word (and, without a suffix, is no period - a hexadecimal floating constant): one integer constant. -/
theorem hexadecimal_integer_constant (x : Nat) (hx : x = 120 ∨ x = 88) (hs : S) (sfx : List Nat) (r : S)
    (hhs : ∀ c ∈ hs, isHexDigit c.c = true) (hsf : sfx ∈ intSuffixes) (hr : isWordTail (hd r) = false) (hdot : sfx = [] → hd r ≠ 46) :
    (tokenAt 48 ((⟨x, [x]⟩ : Cp) :: (hs ++ (asS sfx ++ r)))).kind = .IntegerConstantToken ∧
    (tokenAt 48 ((⟨x, [x]⟩ : Cp) :: (hs ++ (asS sfx ++ r)))).rest = r := by
  rw [hex_constant_reads x hx hs sfx r hhs hsf hr hdot]
  exact ⟨rfl, rfl⟩

/-- non-vacuity: `12345ull;`, `7)` and `u8x+` -/
example : (tokenAt 49 (asS w!"2345" ++ (asS w!"ull" ++ asS w!";"))).kind = .IntegerConstantToken ∧
    (tokenAt 49 (asS w!"2345" ++ (asS w!"ull" ++ asS w!";"))).rest = asS w!";" ∧ (tokenAt 55 (asS w!")")).kind = .IntegerConstantToken ∧
    (tokenAt 117 (asS w!"8x" ++ asS w!"+")).rest = asS w!"+" := by
  decide

end PsycheModel.Props.C05
