import PsycheModel.Compilation
/-!
# C15 — Results are deterministic and each tree's model is independent of the others

About the bookkeeping model (`PsycheModel/Compilation.lean`): for every history of calls, over any number of trees.
-/
namespace PsycheModel.Compilation

variable {M : Type}

theorem step_agree (analyse : Nat → M) (t : Nat) (s s' : St M) (h : Agree t s s') (op : Op) :
    Agree t (step analyse s op) (if op.tree = t then step analyse s' op else s') := by
  obtain ⟨ha, hd, hm⟩ := h
  cases op with
  | add u =>
    simp only [Op.tree]
    by_cases hut : u = t
    · subst hut
      simp only [if_true, step]
      by_cases hin : u ∈ s.added
      · have hin' : u ∈ s'.added := ha.1 hin
        simp only [hin, hin', if_true]
        exact ⟨ha, hd, hm⟩
      · have hin' : ¬ u ∈ s'.added := fun h => hin (ha.2 h)
        simp only [hin, hin', if_false]
        exact ⟨by simp, by simp, hm⟩
    · simp only [hut, if_false, step]
      by_cases hin : u ∈ s.added
      · simp only [hin, if_true]; exact ⟨ha, hd, hm⟩
      · simp only [hin, if_false]
        have htu : t ≠ u := fun h => hut h.symm
        refine ⟨?_, ?_, hm⟩
        · simp only [List.mem_cons, htu, false_or]; exact ha
        · simp only [htu, if_false]; exact hd
  | compute u =>
    simp only [Op.tree]
    by_cases hut : u = t
    · subst hut
      simp only [if_true, step]
      by_cases hc : u ∈ s.added ∧ s.dirty u = true
      · have hc' : u ∈ s'.added ∧ s'.dirty u = true := ⟨ha.1 hc.1, by rw [← hd]; exact hc.2⟩
        simp only [hc, hc', and_self, if_true]
        exact ⟨ha, by simp, by simp⟩
      · have hc' : ¬ (u ∈ s'.added ∧ s'.dirty u = true) := fun h => hc ⟨ha.2 h.1, by rw [hd]; exact h.2⟩
        simp only [hc, hc', if_false]
        exact ⟨ha, hd, hm⟩
    · simp only [hut, if_false, step]
      by_cases hc : u ∈ s.added ∧ s.dirty u = true
      · simp only [hc, and_self, if_true]
        have htu : t ≠ u := fun h => hut h.symm
        exact ⟨ha, by simp only [htu, if_false]; exact hd, by simp only [htu, if_false]; exact hm⟩
      · simp only [hc, if_false]; exact ⟨ha, hd, hm⟩
  | query u =>
    have : (if (Op.query u).tree = t then step analyse s' (.query u) else s') = s' := by simp [step]
    rw [this]
    exact ⟨ha, hd, hm⟩

/-- **Independence.**  What a history leaves for tree `t` (added or not, dirty or not, its model) is what the
sub-history of the calls that name `t` leaves — whatever other trees were added, in whatever order, whenever their
models were computed. -/
theorem run_agree (analyse : Nat → M) (t : Nat) : ∀ (ops : List Op) (s s' : St M), Agree t s s' →
    Agree t (run analyse s ops) (run analyse s' (ops.filter fun op => op.tree = t))
  | [], _, _, h => h
  | op :: ops, s, s', h => by
    have h1 := step_agree analyse t s s' h op
    by_cases ht : op.tree = t
    · simp only [ht, if_true] at h1
      simp only [run, List.filter, ht, decide_true]
      exact run_agree analyse t ops _ _ h1
    · simp only [ht, if_false] at h1
      simp only [run, List.filter, ht, decide_false]
      exact run_agree analyse t ops _ _ h1

theorem model_independent_of_other_trees (analyse : Nat → M) (t : Nat) (ops : List Op) :
    (run analyse {} ops).model t = (run analyse {} (ops.filter fun op => op.tree = t)).model t :=
  (run_agree analyse t ops {} {} ⟨Iff.rfl, rfl, rfl⟩).2.2

/-- the model of a tree is never anything but absent or `analyse t`: it is a function of the tree alone -/
theorem model_is_analyse (analyse : Nat → M) (t : Nat) : ∀ (ops : List Op) (s : St M),
    (s.model t = none ∨ s.model t = some (analyse t)) →
    ((run analyse s ops).model t = none ∨ (run analyse s ops).model t = some (analyse t))
  | [], _, h => h
  | op :: ops, s, h => by
    apply model_is_analyse analyse t ops
    cases op with
    | add u => simp only [step]; split <;> exact h
    | compute u =>
      simp only [step]
      split
      · by_cases htu : t = u
        · subst htu; right; simp
        · simp only [htu, if_false]; exact h
      · exact h
    | query u => exact h

/-- a tree that is added and not dirty has its model computed -/
def Inv (analyse : Nat → M) (s : St M) : Prop := ∀ t, t ∈ s.added → s.dirty t = false → s.model t = some (analyse t)

theorem inv_step (analyse : Nat → M) (s : St M) (h : Inv analyse s) (op : Op) : Inv analyse (step analyse s op) := by
  intro t hin hd
  cases op with
  | add u =>
    simp only [step] at hin hd ⊢
    by_cases hu : u ∈ s.added
    · simp only [hu, if_true] at hin hd ⊢; exact h t hin hd
    · simp only [hu, if_false] at hin hd ⊢
      by_cases htu : t = u
      · subst htu; simp at hd
      · simp only [htu, if_false] at hd
        rcases List.mem_cons.1 hin with h1 | h1
        · exact absurd h1 htu
        · exact h t h1 hd
  | compute u =>
    simp only [step] at hin hd ⊢
    by_cases hc : u ∈ s.added ∧ s.dirty u = true
    · simp only [hc, and_self, if_true] at hin hd ⊢
      by_cases htu : t = u
      · subst htu; simp
      · simp only [htu, if_false] at hd ⊢; exact h t hin hd
    · simp only [hc, if_false] at hin hd ⊢; exact h t hin hd
  | query u => exact h t hin hd

theorem inv_run (analyse : Nat → M) : ∀ (ops : List Op) (s : St M), Inv analyse s → Inv analyse (run analyse s ops)
  | [], _, h => h
  | op :: ops, s, h => inv_run analyse ops _ (inv_step analyse s h op)

theorem run_append (analyse : Nat → M) : ∀ (a b : List Op) (s : St M), run analyse s (a ++ b) = run analyse (run analyse s a) b
  | [], _, _ => rfl
  | x :: xs, b, s => by simp only [List.cons_append, run]; exact run_append analyse xs b _

theorem after_add_compute (analyse : Nat → M) (t : Nat) (s : St M) :
    t ∈ (step analyse (step analyse s (.add t)) (.compute t)).added ∧
      (step analyse (step analyse s (.add t)) (.compute t)).dirty t = false := by
  by_cases hin : t ∈ s.added
  · have h1 : step analyse s (.add t) = s := by simp [step, hin]
    rw [h1]
    by_cases hd : s.dirty t = true
    · simp [step, hin, hd]
    · have hd' : s.dirty t = false := by simpa using hd
      simp [step, hin, hd']
  · simp [step, hin]

theorem stays_clean (analyse : Nat → M) (t : Nat) : ∀ (ops : List Op) (s : St M), t ∈ s.added → s.dirty t = false →
    t ∈ (run analyse s ops).added ∧ (run analyse s ops).dirty t = false
  | [], _, h, hd => ⟨h, hd⟩
  | op :: ops, s, h, hd => by
    apply stays_clean analyse t ops
    · cases op with
      | add u => simp only [step]; split; exact h; exact List.mem_cons_of_mem _ h
      | compute u => simp only [step]; split <;> exact h
      | query u => exact h
    · cases op with
      | add u =>
        simp only [step]
        split
        · exact hd
        · rename_i hu
          have : t ≠ u := fun e => hu (e ▸ h)
          simp only [this, if_false]; exact hd
      | compute u =>
        simp only [step]
        split
        · by_cases htu : t = u
          · simp [htu]
          · simp only [htu, if_false]; exact hd
        · exact hd
      | query u => exact hd

/-- **Computed once, stable for ever; asking again changes nothing.**  After `addSyntaxTree(t); computeSemanticModel(t)` at
any point of any history, the model of `t` is `analyse t`, and it still is after every continuation (further additions,
computations of other trees, repeated computations and queries of `t`). -/
theorem computed_model (analyse : Nat → M) (t : Nat) (pre post : List Op) :
    (run analyse {} (pre ++ [.add t, .compute t] ++ post)).model t = some (analyse t) := by
  have hinv0 : Inv analyse ({} : St M) := by intro u hu; simp at hu
  have hinv := inv_run analyse (pre ++ [.add t, .compute t] ++ post) {} hinv0
  have hmid := after_add_compute analyse t (run analyse {} pre)
  have hfin := stays_clean analyse t post _ hmid.1 hmid.2
  have heq : run analyse {} (pre ++ [.add t, .compute t] ++ post) =
      run analyse (step analyse (step analyse (run analyse {} pre) (.add t)) (.compute t)) post := by
    rw [run_append, run_append]; rfl
  rw [heq] at hinv ⊢
  exact hinv t hfin.1 hfin.2

/-- non-vacuity: three trees, interleaved calls -/
example : (run (fun t => t * 10) {} [.add 1, .add 2, .compute 2, .query 1, .add 3, .compute 1, .compute 2, .compute 3, .add 1]).model 1 = some 10 := by
  decide

end PsycheModel.Compilation
