import PsycheModel.Typedefs
/-!
# C12 — Typedef names resolve to their declared synonym and basic types are canonical

About the model in `PsycheModel/Typedefs.lean` (tied to `TypeCanonicalizer.cpp` / `TypedefNameTypeResolver.cpp` by the
correspondence run).  Types are arbitrary: any derivation depth, any parameter lists; typedef environments are
arbitrary acyclic ones (chains of any length), and arbitrary ones for totality.
-/
namespace PsycheModel.Typedefs

/-! ### canonical singletons -/

mutual
theorem canonicalize_canonical (look : Nat → Option Nat) : ∀ t, Canonical (canonicalize look t)
  | .basic _ _ => rfl
  | .void _ => rfl
  | .error => trivial
  | .tag _ => trivial
  | .td _ => trivial
  | .tdName name => by
    simp only [canonicalize]
    cases look name <;> trivial
  | .ptr t => canonicalize_canonical look t
  | .arr t => canonicalize_canonical look t
  | .fn r ps _ => ⟨canonicalize_canonical look r, canonicalizeL_canonical look ps⟩
  | .qual _ _ t => canonicalize_canonical look t
theorem canonicalizeL_canonical (look : Nat → Option Nat) : ∀ ts, CanonicalL (canonicalizeL look ts)
  | .nil => trivial
  | .cons t rest => ⟨canonicalize_canonical look t, canonicalizeL_canonical look rest⟩
end

/-- a typedef name is bound to exactly the declaration the scope search selects (C10 says which one that is) -/
theorem canonicalize_tdName (look : Nat → Option Nat) (name d : Nat) (h : look name = some d) :
    canonicalize look (.tdName name) = .td d := by
  simp [canonicalize, h]

/-- an unknown name gives the error type, never a dangling typedef-name type -/
theorem canonicalize_unknown (look : Nat → Option Nat) (name : Nat) (h : look name = none) :
    canonicalize look (.tdName name) = .error := by
  simp [canonicalize, h]

/-! ### resolution ends at a non-typedef type, for every environment (also cyclic ones) -/

theorem noTd_requal (c v : Bool) (r : Ty) (h : NoTd r) : NoTd (requal c v r) := by
  unfold requal
  split
  · simpa [NoTd] using h
  · simpa [NoTd] using h

mutual
theorem mapTd_noTd (f : Nat → Ty) (hf : ∀ n, NoTd (f n)) : ∀ t, NoTd (mapTd f t)
  | .basic _ _ => trivial
  | .void _ => trivial
  | .error => trivial
  | .tag _ => trivial
  | .td n => hf n
  | .tdName _ => trivial
  | .ptr t => mapTd_noTd f hf t
  | .arr t => mapTd_noTd f hf t
  | .fn r ps _ => ⟨mapTd_noTd f hf r, mapTdL_noTd f hf ps⟩
  | .qual c v t => noTd_requal c v _ (mapTd_noTd f hf t)
theorem mapTdL_noTd (f : Nat → Ty) (hf : ∀ n, NoTd (f n)) : ∀ ts, NoTdL (mapTdL f ts)
  | .nil => trivial
  | .cons t rest => ⟨mapTd_noTd f hf t, mapTdL_noTd f hf rest⟩
end

/-- **Totality and no leftover.**  For every environment (cyclic or not), every fuel and every type, `resolve` returns a
type in which no typedef name occurs; a typedef defined in terms of itself ends in the error type when the fuel runs out. -/
theorem resolve_noTd (env : Nat → Option Ty) : ∀ fuel t, NoTd (resolve env fuel t)
  | 0, t => mapTd_noTd (fun _ => Ty.error) (fun _ => (trivial : NoTd Ty.error)) t
  | fuel + 1, t => mapTd_noTd _ (fun n => by
      cases h : env n with
      | none => exact (trivial : NoTd Ty.error)
      | some u => exact resolve_noTd env fuel u) t

/-! ### on acyclic environments the result is what the chain denotes -/

mutual
theorem rankLt_mono (rank : Nat → Nat) {b b' : Nat} (h : b ≤ b') : ∀ t, RankLt rank b t → RankLt rank b' t
  | .basic _ _, _ => trivial
  | .void _, _ => trivial
  | .error, _ => trivial
  | .tag _, _ => trivial
  | .td _, hr => Nat.lt_of_lt_of_le hr h
  | .tdName _, hr => hr
  | .ptr t, hr => rankLt_mono rank h t hr
  | .arr t, hr => rankLt_mono rank h t hr
  | .fn r ps _, hr => ⟨rankLt_mono rank h r hr.1, rankLtL_mono rank h ps hr.2⟩
  | .qual _ _ t, hr => rankLt_mono rank h t hr
theorem rankLtL_mono (rank : Nat → Nat) {b b' : Nat} (h : b ≤ b') : ∀ ts, RankLtL rank b ts → RankLtL rank b' ts
  | .nil, _ => trivial
  | .cons t rest, hr => ⟨rankLt_mono rank h t hr.1, rankLtL_mono rank h rest hr.2⟩
end

mutual
theorem mapTd_expands (env : Nat → Option Ty) (rank : Nat → Nat) (b : Nat) (f : Nat → Ty)
    (hf : ∀ n, rank n < b → Expands env (.td n) (f n)) : ∀ t, RankLt rank b t → Expands env t (mapTd f t)
  | .basic k c, _ => .basic k c
  | .void c, _ => .void c
  | .error, _ => .error
  | .tag n, _ => .tag n
  | .td n, hr => hf n hr
  | .tdName _, hr => absurd hr (by simp [RankLt])
  | .ptr t, hr => .ptr (mapTd_expands env rank b f hf t hr)
  | .arr t, hr => .arr (mapTd_expands env rank b f hf t hr)
  | .fn r ps _, hr => .fn (mapTd_expands env rank b f hf r hr.1) (mapTdL_expands env rank b f hf ps hr.2)
  | .qual _ _ t, hr => .qual (mapTd_expands env rank b f hf t hr)
theorem mapTdL_expands (env : Nat → Option Ty) (rank : Nat → Nat) (b : Nat) (f : Nat → Ty)
    (hf : ∀ n, rank n < b → Expands env (.td n) (f n)) : ∀ ts, RankLtL rank b ts → ExpandsL env ts (mapTdL f ts)
  | .nil, _ => .nil
  | .cons t rest, hr => .cons (mapTd_expands env rank b f hf t hr.1) (mapTdL_expands env rank b f hf rest hr.2)
end

/-- **Resolution = chain expansion.**  For every acyclic typedef environment (every typedef defined in terms of typedefs
of smaller rank: chains of any length, any fan-out), every type whose typedef names have rank below the fuel resolves to
the type the chain denotes: derivations written along the chain are kept, qualifiers accumulate (6.7.3p5), the end is a
non-typedef type. -/
theorem resolve_expands (env : Nat → Option Ty) (rank : Nat → Nat) (hR : Ranked env rank) :
    ∀ fuel t, RankLt rank fuel t → Expands env t (resolve env fuel t)
  | 0, t, hr => mapTd_expands env rank 0 _ (fun n h => absurd h (Nat.not_lt_zero _)) t hr
  | fuel + 1, t, hr => by
    apply mapTd_expands env rank (fuel + 1) _ _ t hr
    intro n hn
    obtain ⟨u, hu, hru⟩ := hR n
    simp only [hu]
    exact .td hu (resolve_expands env rank hR fuel u (rankLt_mono rank (by omega) u hru))

/-! ### concrete chains (non-vacuity; the qualifier rule) -/

/-- `typedef const int CI; typedef volatile CI VCI; typedef VCI *PV;` : `PV` is pointer to const volatile int -/
example :
    let env : Nat → Option Ty := fun n => match n with
      | 0 => some (.qual true false (.basic 5 true)) | 1 => some (.qual false true (.td 0)) | _ => some (.ptr (.td 1))
    resolve env 3 (.td 2) = .ptr (.qual true true (.basic 5 true)) := by
  rfl

/-- the rule the pinned code had (take the inner operand, drop the inner qualifiers) is not what the chain denotes:
with it `volatile CI` would be `volatile int`; the denotation keeps `const` -/
theorem C12_witness_qualifier_accumulation :
    requal false true (.qual true false (.basic 5 true)) = .qual true true (.basic 5 true) ∧
    (.qual true true (.basic 5 true) : Ty) ≠ .qual false true (.basic 5 true) := by
  constructor
  · rfl
  · intro h; injection h with h1; exact absurd h1 (by decide)

/-- a typedef in terms of itself: error type, no divergence -/
example : resolve (fun _ => some (.ptr (.td 0))) 2 (.td 0) = .ptr (.ptr .error) := by rfl

end PsycheModel.Typedefs
