import PsycheModel.Tree
import PsycheModel.Generated.NodeClasses
/-!
# C14 — Node extents nest and traversal reaches every node exactly once

For every tree (any shape, any depth, null children, missing tokens, empty or hollow lists).  `firstToken` /
`lastToken` are the first / last token of the subtree unconditionally; the enclosure statements additionally use
`Ordered` — the property's own sibling clause, which is the parser's obligation and is evaluated on every real tree
by the correspondence run.
-/
namespace PsycheModel.Tree

theorem orElse_none_right (a : Option Nat) : orElse a none = a := by cases a <;> rfl

theorem head?_append_of (l r : List Nat) : (l ++ r).head? = orElse l.head? r.head? := by
  cases l <;> simp [orElse]

theorem getLast?_append_of (l r : List Nat) : (l ++ r).getLast? = orElse r.getLast? l.getLast? := by
  rw [List.getLast?_append]
  cases r.getLast? <;> simp [orElse]

mutual
theorem first_eq_head : ∀ (t : Tree), first t = (tokens t).head?
  | .mk _ _ hs => by simp only [first, tokens]; exact firstH_eq_head hs
theorem firstH_eq_head : ∀ (hs : Holders), firstH hs = (tokensH hs).head?
  | .nil => rfl
  | .tok i rest => by
    simp only [firstH, tokensH]
    by_cases hi : i = 0
    · subst hi; simp only [ne_eq, not_true_eq_false, if_false]; exact firstH_eq_head rest
    · simp [hi]
  | .null rest => by simp only [firstH, tokensH]; exact firstH_eq_head rest
  | .node t rest => by simp only [firstH, tokensH, head?_append_of, first_eq_head t, firstH_eq_head rest]
  | .list es rest => by simp only [firstH, tokensH, head?_append_of, firstE_eq_head es, firstH_eq_head rest]
theorem firstE_eq_head : ∀ (es : Elems), firstE es = (tokensE es).head?
  | .nil => rfl
  | .cons t _ rest => by simp only [firstE, tokensE, head?_append_of, first_eq_head t, firstE_eq_head rest]
end

mutual
theorem last_eq_getLast : ∀ (t : Tree), last t = (tokens t).getLast?
  | .mk _ _ hs => by simp only [last, tokens]; exact lastH_eq_getLast hs
theorem lastH_eq_getLast : ∀ (hs : Holders), lastH hs = (tokensH hs).getLast?
  | .nil => rfl
  | .tok i rest => by
    have ih := lastH_eq_getLast rest
    simp only [lastH, tokensH, ih]
    by_cases hi : i = 0
    · subst hi; simp [orElse_none_right]
    · simp only [ne_eq, hi, not_false_eq_true, if_true]
      have := getLast?_append_of [i] (tokensH rest)
      simpa using this.symm
  | .null rest => by simp only [lastH, tokensH]; exact lastH_eq_getLast rest
  | .node t rest => by simp only [lastH, tokensH, getLast?_append_of, last_eq_getLast t, lastH_eq_getLast rest]
  | .list es rest => by simp only [lastH, tokensH, getLast?_append_of, lastE_eq_getLast es, lastH_eq_getLast rest]
theorem lastE_eq_getLast : ∀ (es : Elems), lastE es = (tokensE es).getLast?
  | .nil => rfl
  | .cons t _ rest => by simp only [lastE, tokensE, getLast?_append_of, last_eq_getLast t, lastE_eq_getLast rest]
end

/-- **A node that owns at least one token never reports an invalid extent.** -/
theorem owns_token_valid_extent (t : Tree) (ht : tokens t ≠ []) :
    first t ≠ none ∧ last t ≠ none := by
  rw [first_eq_head t, last_eq_getLast t]
  cases hl : tokens t with
  | nil => exact absurd hl ht
  | cons a l => simp

/-! ## Enclosure -/

mutual
theorem tokens_sublist : ∀ (t d : Tree), d ∈ subtrees t → (tokens d).Sublist (tokens t)
  | .mk id k hs, d, h => by
    simp only [subtrees, List.mem_cons] at h
    rcases h with rfl | h
    · exact List.Sublist.refl _
    · simp only [tokens]; exact tokensH_sublist hs d h
theorem tokensH_sublist : ∀ (hs : Holders) (d : Tree), d ∈ subtreesH hs → (tokens d).Sublist (tokensH hs)
  | .nil, d, h => by simp [subtreesH] at h
  | .tok i rest, d, h => by
    simp only [subtreesH] at h
    have := tokensH_sublist rest d h
    simp only [tokensH]
    by_cases hi : i = 0
    · subst hi; simpa using this
    · simp only [ne_eq, hi, not_false_eq_true, if_true]; exact List.Sublist.cons _ this
  | .null rest, d, h => by simp only [subtreesH] at h; simp only [tokensH]; exact tokensH_sublist rest d h
  | .node t rest, d, h => by
    simp only [subtreesH, List.mem_append] at h
    simp only [tokensH]
    rcases h with h | h
    · exact (tokens_sublist t d h).trans (List.sublist_append_left _ _)
    · exact (tokensH_sublist rest d h).trans (List.sublist_append_right _ _)
  | .list es rest, d, h => by
    simp only [subtreesH, List.mem_append] at h
    simp only [tokensH]
    rcases h with h | h
    · exact (tokensE_sublist es d h).trans (List.sublist_append_left _ _)
    · exact (tokensH_sublist rest d h).trans (List.sublist_append_right _ _)
theorem tokensE_sublist : ∀ (es : Elems) (d : Tree), d ∈ subtreesE es → (tokens d).Sublist (tokensE es)
  | .nil, d, h => by simp [subtreesE] at h
  | .cons t _ rest, d, h => by
    simp only [subtreesE, List.mem_append] at h
    simp only [tokensE]
    rcases h with h | h
    · exact (tokens_sublist t d h).trans (List.sublist_append_left _ _)
    · exact (tokensE_sublist rest d h).trans (List.sublist_append_right _ _)
end

theorem head_le_of_pairwise : ∀ {l : List Nat} {a x : Nat}, l.Pairwise (· < ·) → l.head? = some a → x ∈ l → a ≤ x := by
  intro l a x hp hh hx
  cases l with
  | nil => simp at hx
  | cons b t =>
    simp only [List.head?_cons, Option.some.injEq] at hh
    subst hh
    rcases List.mem_cons.mp hx with rfl | hx
    · exact Nat.le_refl _
    · exact Nat.le_of_lt ((List.pairwise_cons.mp hp).1 x hx)

theorem le_getLast_of_pairwise : ∀ {l : List Nat} {b x : Nat}, l.Pairwise (· < ·) → l.getLast? = some b → x ∈ l → x ≤ b := by
  intro l
  induction l with
  | nil => intro b x _ _ hx; simp at hx
  | cons c t ih =>
    intro b x hp hl hx
    cases t with
    | nil =>
      simp only [List.getLast?_singleton, Option.some.injEq] at hl
      simp only [List.mem_singleton] at hx
      omega
    | cons c2 t2 =>
      rw [List.getLast?_cons_cons] at hl
      have hp' := (List.pairwise_cons.mp hp)
      rcases List.mem_cons.mp hx with rfl | hx
      · have hb : b ∈ c2 :: t2 := List.mem_of_getLast? hl
        exact Nat.le_of_lt (hp'.1 b hb)
      · exact ih hp'.2 hl hx

/-- **The first and last token of a node enclose the first and last tokens of all its descendants**, at any
depth. -/
theorem extents_enclose_descendants (t d : Tree) (hd : d ∈ subtrees t) (ho : Ordered t)
    (a b a' b' : Nat) (h1 : first t = some a) (h2 : last t = some b) (h3 : first d = some a') (h4 : last d = some b') :
    a ≤ a' ∧ b' ≤ b := by
  rw [first_eq_head t] at h1
  rw [last_eq_getLast t] at h2
  rw [first_eq_head d] at h3
  rw [last_eq_getLast d] at h4
  have hsub := tokens_sublist t d hd
  have ha' : a' ∈ tokens t := hsub.subset (List.mem_of_mem_head? h3)
  have hb' : b' ∈ tokens t := hsub.subset (List.mem_of_getLast? h4)
  exact ⟨head_le_of_pairwise ho h1 ha', le_getLast_of_pairwise ho h2 hb'⟩

/-- the order hypothesis is inherited by every subtree (so it can be checked once, at the root) -/
theorem ordered_subtree (t d : Tree) (hd : d ∈ subtrees t) (ho : Ordered t) : Ordered d :=
  List.Pairwise.sublist (tokens_sublist t d hd) ho

/-- the reported extent of a node is the minimum and maximum of the tokens of its subtree -/
theorem extent_is_min_max (t : Tree) (ho : Ordered t) (a b : Nat)
    (h1 : first t = some a) (h2 : last t = some b) : ∀ x ∈ tokens t, a ≤ x ∧ x ≤ b := by
  intro x hx
  rw [first_eq_head t] at h1
  rw [last_eq_getLast t] at h2
  exact ⟨head_le_of_pairwise ho h1 hx, le_getLast_of_pairwise ho h2 hx⟩

/-! ## Traversal -/

mutual
theorem accept_nodes : ∀ (t : Tree), accept t = (.visit, nodes t)
  | .mk id _ hs => by simp only [accept, nodes, acceptH_nodes hs]
theorem acceptH_nodes : ∀ (hs : Holders), acceptH hs = (.visit, nodesH hs)
  | .nil => rfl
  | .tok _ rest => by simp only [acceptH, nodesH, acceptH_nodes rest]
  | .null rest => by simp only [acceptH, nodesH, acceptH_nodes rest]
  | .node t rest => by simp only [acceptH, nodesH, accept_nodes t, acceptH_nodes rest]
  | .list es rest => by simp only [acceptH, nodesH, acceptE_nodes es, acceptH_nodes rest]
theorem acceptE_nodes : ∀ (es : Elems), acceptE es = (.visit, nodesE es)
  | .nil => rfl
  | .cons t _ rest => by simp only [acceptE, nodesE, accept_nodes t, acceptE_nodes rest]
end

/-- **A full visitor traversal from the root reaches each node exactly once and only nodes of that tree**:
`preVisit` is called on exactly the pre-order sequence of the tree's nodes — the same number of times as the
node occurs in the tree (once, when node identities are distinct), and on nothing else. -/
theorem traversal_reaches_each_node_once (t : Tree) : (accept t).2 = nodes t ∧ (accept t).1 = .visit := by
  rw [accept_nodes]; exact ⟨rfl, rfl⟩

theorem visited_exactly_once (t : Tree) (hnd : (nodes t).Nodup) (id : Nat) :
    (id ∈ nodes t → (accept t).2.count id = 1) ∧ (id ∉ nodes t → (accept t).2.count id = 0) := by
  rw [accept_nodes]
  rw [List.Nodup.count hnd]
  exact ⟨fun h => by simp [h], fun h => by simp [h]⟩

/-! ### Non-vacuity: `x = a + b` with a null child, a missing token and an empty list -/
def sample : Tree :=
  .mk 0 1 (.node (.mk 1 2 (.tok 0 (.tok 1 .nil))) (.tok 2 (.node (.mk 2 3 (.node (.mk 3 2 (.tok 3 .nil)) (.tok 4 (.null
    (.list (.cons (.mk 4 2 (.tok 5 .nil)) 6 (.cons (.mk 5 2 (.tok 7 .nil)) 0 .nil)) (.list .nil .nil)))))) .nil)))
example : Ordered sample ∧ first sample = some 1 ∧ last sample = some 7 ∧
    (accept sample).2 = [0, 1, 2, 3, 4, 5] := by decide

end PsycheModel.Tree

/-! ## Generated obligations on the node classes (regenerated from `SyntaxNodes*.h`, `SyntaxVisitor.h`, `SyntaxNode.h`) -/
namespace PsycheModel.Generated.NodeClasses
open PsycheModel.Generated

set_option maxRecDepth 40000

/-- a class that stands for one syntax kind is named like that kind -/
theorem one_kind_classes_name_their_kind : classes.all (fun c => c.2.2 != 1 || (Kind.ofName? c.1).isSome) = true := by decide

/-- class names are pairwise distinct, and every base class is `SyntaxNode` or declared earlier (the hierarchy is a forest) -/
def basesEarlier : List (String × String × Nat) → List String → Bool
  | [], _ => true
  | c :: rest, seen => (c.2.1 == "SyntaxNode" || seen.contains c.2.1) && !seen.contains c.1 && basesEarlier rest (c.1 :: seen)
theorem hierarchy_is_a_forest : basesEarlier classes [] = true := by decide

/-- the visitor has a `visitX` for exactly the classes that stand for syntax kinds, and `SyntaxNode` a down-cast `asX` for every class -/
theorem visits_are_the_concrete_classes :
    (classes.all (fun c => (c.2.2 != 0) == visited.contains c.1) && visited.all (fun v => classes.any (fun c => c.1 == v))) = true := by decide
theorem every_class_has_a_downcast : classes.all (fun c => downcasts.contains c.1) = true ∧ downcasts.all (fun d => classes.any (fun c => c.1 == d)) = true := by decide

end PsycheModel.Generated.NodeClasses
