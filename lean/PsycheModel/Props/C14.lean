import PsycheModel.Tree
/-!
# C14 — Node extents nest and traversal reaches every node exactly once

For every tree (any shape, any depth, null children, missing tokens, empty lists) that satisfies the two
decidable hypotheses monitored on real trees: `listsOK` (a node list that owns tokens owns some in its first and
in its last element — the only ones `firstToken`/`lastToken` of a list look at) and, for the enclosure
statements, `Ordered` (the property's own sibling clause).
-/
namespace PsycheModel.Tree

theorem orElse_none_right (a : Option Nat) : orElse a none = a := by cases a <;> rfl

theorem head?_append_of (l r : List Nat) : (l ++ r).head? = orElse l.head? r.head? := by
  cases l <;> simp [orElse]

theorem getLast?_append_of (l r : List Nat) : (l ++ r).getLast? = orElse r.getLast? l.getLast? := by
  rw [List.getLast?_append]
  cases r.getLast? <;> simp [orElse]

mutual
theorem first_eq_head : ∀ (t : Tree), listsOK t = true → first t = (tokens t).head?
  | .mk _ _ hs, h => by simp only [first, tokens]; exact firstH_eq_head hs (by simpa [listsOK] using h)
theorem firstH_eq_head : ∀ (hs : Holders), listsOKH hs = true → firstH hs = (tokensH hs).head?
  | .nil, _ => rfl
  | .tok i rest, h => by
    simp only [firstH, tokensH]
    by_cases hi : i = 0
    · subst hi; simp only [ne_eq, not_true_eq_false, if_false]; exact firstH_eq_head rest (by simpa [listsOKH] using h)
    · simp [hi]
  | .null rest, h => by simp only [firstH, tokensH]; exact firstH_eq_head rest (by simpa [listsOKH] using h)
  | .node t rest, h => by
    simp only [listsOKH, Bool.and_eq_true] at h
    simp only [firstH, tokensH, head?_append_of, first_eq_head t h.1, firstH_eq_head rest h.2]
  | .list es rest, h => by
    simp only [listsOKH, Bool.and_eq_true] at h
    simp only [firstH, tokensH, head?_append_of, firstE_eq_head es h.1.1.1 h.1.2, firstH_eq_head rest h.2]
theorem firstE_eq_head : ∀ (es : Elems), headOK es = true → listsOKE es = true → firstE es = (tokensE es).head?
  | .nil, _, _ => rfl
  | .cons t _ rest, hh, hl => by
    simp only [listsOKE, Bool.and_eq_true] at hl
    simp only [headOK, Bool.or_eq_true, Bool.not_eq_true', List.isEmpty_eq_false_iff, List.isEmpty_iff] at hh
    simp only [firstE, tokensE, head?_append_of, first_eq_head t hl.1]
    rcases hh with hh | hh
    · cases ht : tokens t with
      | nil => exact absurd ht hh
      | cons a l => simp [orElse]
    · simp [hh, orElse_none_right]
end

mutual
theorem last_eq_getLast : ∀ (t : Tree), listsOK t = true → last t = (tokens t).getLast?
  | .mk _ _ hs, h => by simp only [last, tokens]; exact lastH_eq_getLast hs (by simpa [listsOK] using h)
theorem lastH_eq_getLast : ∀ (hs : Holders), listsOKH hs = true → lastH hs = (tokensH hs).getLast?
  | .nil, _ => rfl
  | .tok i rest, h => by
    have ih := lastH_eq_getLast rest (by simpa [listsOKH] using h)
    simp only [lastH, tokensH, ih]
    by_cases hi : i = 0
    · subst hi; simp [orElse_none_right]
    · simp only [ne_eq, hi, not_false_eq_true, if_true]
      have := getLast?_append_of [i] (tokensH rest)
      simpa using this.symm
  | .null rest, h => by simp only [lastH, tokensH]; exact lastH_eq_getLast rest (by simpa [listsOKH] using h)
  | .node t rest, h => by
    simp only [listsOKH, Bool.and_eq_true] at h
    simp only [lastH, tokensH, getLast?_append_of, last_eq_getLast t h.1, lastH_eq_getLast rest h.2]
  | .list es rest, h => by
    simp only [listsOKH, Bool.and_eq_true] at h
    simp only [lastH, tokensH, getLast?_append_of, lastE_eq_getLast es h.1.1.2 h.1.2, lastH_eq_getLast rest h.2]
theorem lastE_eq_getLast : ∀ (es : Elems), lastOK es = true → listsOKE es = true → lastE es = (tokensE es).getLast?
  | .nil, _, _ => rfl
  | .cons t _ .nil, _, hl => by
    simp only [listsOKE, Bool.and_eq_true] at hl
    simp [lastE, tokensE, last_eq_getLast t hl.1]
  | .cons t d (.cons t2 d2 rest2), hh, hl => by
    simp only [listsOKE, Bool.and_eq_true] at hl
    simp only [lastOK, Bool.and_eq_true, Bool.or_eq_true, Bool.not_eq_true', List.isEmpty_eq_false_iff, List.isEmpty_iff] at hh
    have ih := lastE_eq_getLast (.cons t2 d2 rest2) hh.1 (by simp only [listsOKE, Bool.and_eq_true]; exact hl.2)
    have e : lastE (.cons t d (.cons t2 d2 rest2)) = lastE (.cons t2 d2 rest2) := rfl
    have e2 : tokensE (.cons t d (.cons t2 d2 rest2)) = tokens t ++ tokensE (.cons t2 d2 rest2) := rfl
    rw [e, ih, e2, getLast?_append_of]
    have h2 := hh.2
    generalize tokensE (.cons t2 d2 rest2) = X at *
    rcases h2 with h2 | h2
    · cases X with
      | nil => exact absurd rfl h2
      | cons a l => cases hg : (a :: l).getLast? with
        | none => simp at hg
        | some v => rfl
    · rw [h2]; simp [orElse_none_right]
end

/-- **A node that owns at least one token never reports an invalid extent.** -/
theorem owns_token_valid_extent (t : Tree) (h : listsOK t = true) (ht : tokens t ≠ []) :
    first t ≠ none ∧ last t ≠ none := by
  rw [first_eq_head t h, last_eq_getLast t h]
  cases hl : tokens t with
  | nil => exact absurd hl ht
  | cons a l => simp

/-! ## Enclosure -/

mutual
theorem tokens_sublist : ∀ (t d : Tree), d ∈ subtrees t → (tokens d).Sublist (tokens t)
  | .mk id k hs, d, h => by
    simp only [subtrees, List.mem_cons] at h
    rcases h with rfl | h
    · exact List.Sublist.refl _
    · simp only [tokens]; exact tokensH_sublist hs d h
theorem tokensH_sublist : ∀ (hs : Holders) (d : Tree), d ∈ subtreesH hs → (tokens d).Sublist (tokensH hs)
  | .nil, d, h => by simp [subtreesH] at h
  | .tok i rest, d, h => by
    simp only [subtreesH] at h
    have := tokensH_sublist rest d h
    simp only [tokensH]
    by_cases hi : i = 0
    · subst hi; simpa using this
    · simp only [ne_eq, hi, not_false_eq_true, if_true]; exact List.Sublist.cons _ this
  | .null rest, d, h => by simp only [subtreesH] at h; simp only [tokensH]; exact tokensH_sublist rest d h
  | .node t rest, d, h => by
    simp only [subtreesH, List.mem_append] at h
    simp only [tokensH]
    rcases h with h | h
    · exact (tokens_sublist t d h).trans (List.sublist_append_left _ _)
    · exact (tokensH_sublist rest d h).trans (List.sublist_append_right _ _)
  | .list es rest, d, h => by
    simp only [subtreesH, List.mem_append] at h
    simp only [tokensH]
    rcases h with h | h
    · exact (tokensE_sublist es d h).trans (List.sublist_append_left _ _)
    · exact (tokensH_sublist rest d h).trans (List.sublist_append_right _ _)
theorem tokensE_sublist : ∀ (es : Elems) (d : Tree), d ∈ subtreesE es → (tokens d).Sublist (tokensE es)
  | .nil, d, h => by simp [subtreesE] at h
  | .cons t _ rest, d, h => by
    simp only [subtreesE, List.mem_append] at h
    simp only [tokensE]
    rcases h with h | h
    · exact (tokens_sublist t d h).trans (List.sublist_append_left _ _)
    · exact (tokensE_sublist rest d h).trans (List.sublist_append_right _ _)
end

theorem head_le_of_pairwise : ∀ {l : List Nat} {a x : Nat}, l.Pairwise (· < ·) → l.head? = some a → x ∈ l → a ≤ x := by
  intro l a x hp hh hx
  cases l with
  | nil => simp at hx
  | cons b t =>
    simp only [List.head?_cons, Option.some.injEq] at hh
    subst hh
    rcases List.mem_cons.mp hx with rfl | hx
    · exact Nat.le_refl _
    · exact Nat.le_of_lt ((List.pairwise_cons.mp hp).1 x hx)

theorem le_getLast_of_pairwise : ∀ {l : List Nat} {b x : Nat}, l.Pairwise (· < ·) → l.getLast? = some b → x ∈ l → x ≤ b := by
  intro l
  induction l with
  | nil => intro b x _ _ hx; simp at hx
  | cons c t ih =>
    intro b x hp hl hx
    cases t with
    | nil =>
      simp only [List.getLast?_singleton, Option.some.injEq] at hl
      simp only [List.mem_singleton] at hx
      omega
    | cons c2 t2 =>
      rw [List.getLast?_cons_cons] at hl
      have hp' := (List.pairwise_cons.mp hp)
      rcases List.mem_cons.mp hx with rfl | hx
      · have hb : b ∈ c2 :: t2 := List.mem_of_getLast? hl
        exact Nat.le_of_lt (hp'.1 b hb)
      · exact ih hp'.2 hl hx

mutual
theorem listsOK_subtree : ∀ (t d : Tree), listsOK t = true → d ∈ subtrees t → listsOK d = true
  | .mk id k hs, d, h, hd => by
    simp only [subtrees, List.mem_cons] at hd
    rcases hd with rfl | hd
    · exact h
    · exact listsOKH_subtree hs d (by simpa [listsOK] using h) hd
theorem listsOKH_subtree : ∀ (hs : Holders) (d : Tree), listsOKH hs = true → d ∈ subtreesH hs → listsOK d = true
  | .nil, d, _, hd => by simp [subtreesH] at hd
  | .tok _ rest, d, h, hd => listsOKH_subtree rest d (by simpa [listsOKH] using h) (by simpa [subtreesH] using hd)
  | .null rest, d, h, hd => listsOKH_subtree rest d (by simpa [listsOKH] using h) (by simpa [subtreesH] using hd)
  | .node t rest, d, h, hd => by
    simp only [listsOKH, Bool.and_eq_true] at h
    simp only [subtreesH, List.mem_append] at hd
    rcases hd with hd | hd
    · exact listsOK_subtree t d h.1 hd
    · exact listsOKH_subtree rest d h.2 hd
  | .list es rest, d, h, hd => by
    simp only [listsOKH, Bool.and_eq_true] at h
    simp only [subtreesH, List.mem_append] at hd
    rcases hd with hd | hd
    · exact listsOKE_subtree es d h.1.2 hd
    · exact listsOKH_subtree rest d h.2 hd
theorem listsOKE_subtree : ∀ (es : Elems) (d : Tree), listsOKE es = true → d ∈ subtreesE es → listsOK d = true
  | .nil, d, _, hd => by simp [subtreesE] at hd
  | .cons t _ rest, d, h, hd => by
    simp only [listsOKE, Bool.and_eq_true] at h
    simp only [subtreesE, List.mem_append] at hd
    rcases hd with hd | hd
    · exact listsOK_subtree t d h.1 hd
    · exact listsOKE_subtree rest d h.2 hd
end

/-- **The first and last token of a node enclose the first and last tokens of all its descendants**, at any
depth. -/
theorem extents_enclose_descendants (t d : Tree) (hd : d ∈ subtrees t) (hl : listsOK t = true) (ho : Ordered t)
    (a b a' b' : Nat) (h1 : first t = some a) (h2 : last t = some b) (h3 : first d = some a') (h4 : last d = some b') :
    a ≤ a' ∧ b' ≤ b := by
  have hld := listsOK_subtree t d hl hd
  rw [first_eq_head t hl] at h1
  rw [last_eq_getLast t hl] at h2
  rw [first_eq_head d hld] at h3
  rw [last_eq_getLast d hld] at h4
  have hsub := tokens_sublist t d hd
  have ha' : a' ∈ tokens t := hsub.subset (List.mem_of_mem_head? h3)
  have hb' : b' ∈ tokens t := hsub.subset (List.mem_of_getLast? h4)
  exact ⟨head_le_of_pairwise ho h1 ha', le_getLast_of_pairwise ho h2 hb'⟩

/-- the order hypothesis is inherited by every subtree (so it can be checked once, at the root) -/
theorem ordered_subtree (t d : Tree) (hd : d ∈ subtrees t) (ho : Ordered t) : Ordered d :=
  List.Pairwise.sublist (tokens_sublist t d hd) ho

/-- the reported extent of a node is the minimum and maximum of the tokens of its subtree -/
theorem extent_is_min_max (t : Tree) (hl : listsOK t = true) (ho : Ordered t) (a b : Nat)
    (h1 : first t = some a) (h2 : last t = some b) : ∀ x ∈ tokens t, a ≤ x ∧ x ≤ b := by
  intro x hx
  rw [first_eq_head t hl] at h1
  rw [last_eq_getLast t hl] at h2
  exact ⟨head_le_of_pairwise ho h1 hx, le_getLast_of_pairwise ho h2 hx⟩

/-! ## Traversal -/

mutual
theorem accept_nodes : ∀ (t : Tree), accept t = (.visit, nodes t)
  | .mk id _ hs => by simp only [accept, nodes, acceptH_nodes hs]
theorem acceptH_nodes : ∀ (hs : Holders), acceptH hs = (.visit, nodesH hs)
  | .nil => rfl
  | .tok _ rest => by simp only [acceptH, nodesH, acceptH_nodes rest]
  | .null rest => by simp only [acceptH, nodesH, acceptH_nodes rest]
  | .node t rest => by simp only [acceptH, nodesH, accept_nodes t, acceptH_nodes rest]
  | .list es rest => by simp only [acceptH, nodesH, acceptE_nodes es, acceptH_nodes rest]
theorem acceptE_nodes : ∀ (es : Elems), acceptE es = (.visit, nodesE es)
  | .nil => rfl
  | .cons t _ rest => by simp only [acceptE, nodesE, accept_nodes t, acceptE_nodes rest]
end

/-- **A full visitor traversal from the root reaches each node exactly once and only nodes of that tree**:
`preVisit` is called on exactly the pre-order sequence of the tree's nodes — the same number of times as the
node occurs in the tree (once, when node identities are distinct), and on nothing else. -/
theorem traversal_reaches_each_node_once (t : Tree) : (accept t).2 = nodes t ∧ (accept t).1 = .visit := by
  rw [accept_nodes]; exact ⟨rfl, rfl⟩

theorem visited_exactly_once (t : Tree) (hnd : (nodes t).Nodup) (id : Nat) :
    (id ∈ nodes t → (accept t).2.count id = 1) ∧ (id ∉ nodes t → (accept t).2.count id = 0) := by
  rw [accept_nodes]
  rw [List.Nodup.count hnd]
  exact ⟨fun h => by simp [h], fun h => by simp [h]⟩

/-! ### Non-vacuity: `x = a + b` with a null child, a missing token and an empty list -/
def sample : Tree :=
  .mk 0 1 (.node (.mk 1 2 (.tok 0 (.tok 1 .nil))) (.tok 2 (.node (.mk 2 3 (.node (.mk 3 2 (.tok 3 .nil)) (.tok 4 (.null
    (.list (.cons (.mk 4 2 (.tok 5 .nil)) 6 (.cons (.mk 5 2 (.tok 7 .nil)) 0 .nil)) (.list .nil .nil)))))) .nil)))
example : listsOK sample = true ∧ Ordered sample ∧ first sample = some 1 ∧ last sample = some 7 ∧
    (accept sample).2 = [0, 1, 2, 3, 4, 5] := by decide

end PsycheModel.Tree
