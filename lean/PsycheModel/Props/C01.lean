import PsycheModel.ParserProtocol
import PsycheModel.Generated.Recovery
import PsycheModel.ParseNet
/-!
# C01 — Syntax analysis is total and memory-safe (the part that is logic)

Proved here, for every token vector that ends in the `EndOfFile` sentinel and every sequence of parser steps:
the cursor never passes the sentinel (so `peek()` never indexes outside the vector), the panic-mode recovery loops
terminate and stop at a stop token or after consuming a terminator, look-ahead scans stay inside the vector, the
member loop always advances, and the shared nesting counter bounds the recursion depth.  What is *not* provable
here — C++ object lifetime, null dereferences in node construction, stack depth, running time — is exercised by the
sanitizer sweeps of the check.
-/
namespace PsycheModel.ParserProtocol
open PsycheModel.Generated

theorem wf_length {ts : Toks} (h : WellFormed ts) : 0 < ts.length := by
  obtain ⟨body, rfl, _⟩ := h; simp

theorem wf_eof {ts : Toks} (h : WellFormed ts) : ts[eofIdx ts]? = some Kind.EndOfFile := by
  obtain ⟨body, rfl, _⟩ := h; simp [eofIdx]

theorem wf_eof_only {ts : Toks} (h : WellFormed ts) {i : Nat} (hi : ts[i]? = some Kind.EndOfFile) : i = eofIdx ts := by
  obtain ⟨body, rfl, hb⟩ := h
  simp only [eofIdx, List.length_append, List.length_singleton, Nat.add_sub_cancel]
  rcases Nat.lt_or_ge i body.length with hlt | hge
  · rw [List.getElem?_append_left hlt] at hi
    exact absurd (List.mem_of_getElem? hi) hb
  · rcases Nat.eq_or_lt_of_le hge with heq | hgt
    · exact heq.symm
    · rw [List.getElem?_eq_none (by simp; omega)] at hi; cases hi

/-- **`consume()` never moves past the sentinel, and never moves backwards** -/
theorem consume_bounds {ts : Toks} (h : WellFormed ts) {cur : Nat} (hc : cur ≤ eofIdx ts) :
    cur ≤ consume ts cur ∧ consume ts cur ≤ eofIdx ts := by
  unfold consume
  split
  · exact ⟨Nat.le_refl _, hc⟩
  · rename_i hne
    rcases Nat.eq_or_lt_of_le hc with heq | hlt
    · exact absurd (heq ▸ wf_eof h) hne
    · omega

/-- a consumed token really is consumed unless the cursor is on the sentinel -/
theorem consume_advances {ts : Toks} {cur : Nat} (hne : ts[cur]? ≠ some Kind.EndOfFile) : consume ts cur = cur + 1 := by
  simp [consume, hne]

theorem matchTok_bounds {ts : Toks} (h : WellFormed ts) {cur : Nat} (hc : cur ≤ eofIdx ts) (k : Kind) :
    cur ≤ (matchTok ts cur k).1 ∧ (matchTok ts cur k).1 ≤ eofIdx ts := by
  unfold matchTok
  split
  · exact consume_bounds h hc
  · split
    · exact consume_bounds h hc
    · exact ⟨Nat.le_refl _, hc⟩

theorem skipTo_bounds {ts : Toks} (h : WellFormed ts) (k : Kind) : ∀ (fuel cur : Nat), cur ≤ eofIdx ts →
    cur ≤ skipTo ts k fuel cur ∧ skipTo ts k fuel cur ≤ eofIdx ts := by
  intro fuel
  induction fuel with
  | zero => intro cur hc; exact ⟨Nat.le_refl _, hc⟩
  | succ f ih =>
    intro cur hc
    simp only [skipTo]
    split
    · exact ⟨Nat.le_refl _, hc⟩
    · split
      · exact ⟨Nat.le_refl _, hc⟩
      · have hb := consume_bounds h hc
        have := ih (consume ts cur) hb.2
        exact ⟨Nat.le_trans hb.1 this.1, this.2⟩

theorem ignoreLoop_bounds {ts : Toks} (h : WellFormed ts) (stop skipRet : List Kind) : ∀ (fuel cur : Nat), cur ≤ eofIdx ts →
    cur ≤ ignoreLoop ts stop skipRet fuel cur ∧ ignoreLoop ts stop skipRet fuel cur ≤ eofIdx ts := by
  intro fuel
  induction fuel with
  | zero => intro cur hc; exact ⟨Nat.le_refl _, hc⟩
  | succ f ih =>
    intro cur hc
    simp only [ignoreLoop]
    split
    · exact ⟨Nat.le_refl _, hc⟩
    · split
      · exact ⟨Nat.le_refl _, hc⟩
      · split
        · exact consume_bounds h hc
        · have hb := consume_bounds h hc
          have := ih (consume ts cur) hb.2
          exact ⟨Nat.le_trans hb.1 this.1, this.2⟩

/-- **Cursor invariant**: after any sequence of parser steps the cursor is still on a token of the vector -/
theorem step_bounds {ts : Toks} (h : WellFormed ts) {cur : Nat} (hc : cur ≤ eofIdx ts) (op : Op) : step ts cur op ≤ eofIdx ts := by
  cases op with
  | consume => exact (consume_bounds h hc).2
  | matchTok k => exact (matchTok_bounds h hc k).2
  | skipTo k => exact (skipTo_bounds h k _ cur hc).2
  | ignore stop skipRet => exact (ignoreLoop_bounds h stop skipRet _ cur hc).2
  | backtrackTo saved => simp only [step]; split <;> omega

theorem run_bounds {ts : Toks} (h : WellFormed ts) (ops : List Op) : ∀ cur, cur ≤ eofIdx ts → ops.foldl (step ts) cur ≤ eofIdx ts := by
  induction ops with
  | nil => intro cur hc; exact hc
  | cons op rest ih => intro cur hc; exact ih _ (step_bounds h hc op)

/-- **`peek()` never reads outside the token vector** (the parser starts at index 1 ≤ sentinel, or 0 for an empty text) -/
theorem peek_in_bounds {ts : Toks} (h : WellFormed ts) (ops : List Op) (start : Nat) (hs : start ≤ eofIdx ts) :
    (peek? ts (ops.foldl (step ts) start) 1).isSome = true := by
  have hb := run_bounds h ops start hs
  have hl := wf_length h
  unfold peek?
  simp only [Nat.add_sub_cancel]
  rw [List.getElem?_eq_getElem (by unfold eofIdx at hb; omega)]
  rfl

/-- **Backtracking restores a cursor not beyond the current one** -/
theorem backtrack_le (ts : Toks) (cur saved : Nat) : step ts cur (.backtrackTo saved) ≤ cur := by
  simp only [step]; split <;> omega

/-- **Every recovery loop ends on one of its stop tokens or right after a token of its skip-and-return set**, provided
the sentinel is a stop token (generated obligation below) — it cannot run out of fuel, i.e. the C++ `while (true)`
terminates -/
theorem ignoreLoop_stops {ts : Toks} (h : WellFormed ts) (stop skipRet : List Kind) (heof : Kind.EndOfFile ∈ stop) :
    ∀ (fuel cur : Nat), cur ≤ eofIdx ts → eofIdx ts - cur < fuel →
      (∃ k ∈ stop, ts[ignoreLoop ts stop skipRet fuel cur]? = some k) ∨
      (∃ c, cur ≤ c ∧ ignoreLoop ts stop skipRet fuel cur = c + 1 ∧ ∃ k ∈ skipRet, ts[c]? = some k) := by
  intro fuel
  induction fuel with
  | zero => intro cur _ hf; omega
  | succ f ih =>
    intro cur hc hf
    have hl := wf_length h
    have hlt : cur < ts.length := by unfold eofIdx at hc; omega
    simp only [ignoreLoop, List.getElem?_eq_getElem hlt]
    by_cases hs : ts[cur] ∈ stop
    · simp only [hs, if_true]
      exact Or.inl ⟨ts[cur], hs, List.getElem?_eq_getElem hlt⟩
    · simp only [hs, if_false]
      have hne : ts[cur]? ≠ some Kind.EndOfFile := by
        rw [List.getElem?_eq_getElem hlt]
        intro he; injection he with he; exact hs (he ▸ heof)
      have hadv := consume_advances hne
      by_cases hk : ts[cur] ∈ skipRet
      · simp only [hk, if_true]
        exact Or.inr ⟨cur, Nat.le_refl _, hadv, ts[cur], hk, List.getElem?_eq_getElem hlt⟩
      · simp only [hk, if_false]
        have hne' : cur ≠ eofIdx ts := fun he => hne (he ▸ wf_eof h)
        rw [hadv]
        rcases ih (cur + 1) (by omega) (by omega) with hA | ⟨c, hc1, hc2, hc3⟩
        · exact Or.inl hA
        · exact Or.inr ⟨c, by omega, hc2, hc3⟩

/-- **Look-ahead scans stay inside the vector**: `scanAhead` only ever inspects indices up to the sentinel -/
theorem scanAhead_in_bounds {ts : Toks} (h : WellFormed ts) (cur : Nat) (stops : List Kind) : ∀ (fuel la : Nat),
    cur + la - 1 ≤ eofIdx ts → cur + scanAhead ts cur stops fuel la - 1 ≤ eofIdx ts := by
  intro fuel
  induction fuel with
  | zero => intro la hla; exact hla
  | succ f ih =>
    intro la hla
    simp only [scanAhead]
    cases hp : peek? ts cur la with
    | none => exact hla
    | some c =>
      simp only []
      split
      · exact hla
      · rename_i hcont
        apply ih
        have hne : ts[cur + la - 1]? ≠ some Kind.EndOfFile := by
          unfold peek? at hp
          rw [hp]; intro he; injection he with he; exact hcont (Or.inl he)
        have : cur + la - 1 ≠ eofIdx ts := fun he => hne (he ▸ wf_eof h)
        omega

/-- **The member loop always advances**: whatever the member parser does (as long as it never moves the cursor
backwards or past the sentinel), the loop's cursor stays in bounds and never decreases -/
theorem memberLoop_bounds {ts : Toks} (h : WellFormed ts) (parseMember : Nat → Nat × Bool) (stop skipRet : List Kind)
    (hpm : ∀ c, c ≤ eofIdx ts → c ≤ (parseMember c).1 ∧ (parseMember c).1 ≤ eofIdx ts) :
    ∀ (fuel cur : Nat), cur ≤ eofIdx ts →
      cur ≤ (memberLoop ts parseMember stop skipRet fuel cur).1 ∧ (memberLoop ts parseMember stop skipRet fuel cur).1 ≤ eofIdx ts ∧
      (memberLoop ts parseMember stop skipRet fuel cur).2 ≤ fuel := by
  intro fuel
  induction fuel with
  | zero => intro cur hc; exact ⟨Nat.le_refl _, hc, Nat.le_refl _⟩
  | succ f ih =>
    intro cur hc
    simp only [memberLoop]
    split
    · have := consume_bounds h hc; exact ⟨this.1, this.2, by omega⟩
    · have hp := hpm cur hc
      split
      · split
        · exact ⟨hp.1, hp.2, by omega⟩
        · have := ih (parseMember cur).1 hp.2
          exact ⟨Nat.le_trans hp.1 this.1, this.2.1, by simp; omega⟩
      · have hi := ignoreLoop_bounds h stop skipRet (ts.length - (parseMember cur).1) (parseMember cur).1 hp.2
        split
        · exact ⟨Nat.le_trans hp.1 hi.1, hi.2, by omega⟩
        · have := ih _ hi.2
          exact ⟨Nat.le_trans (Nat.le_trans hp.1 hi.1) this.1, this.2.1, by simp; omega⟩

/-- with one unit of fuel per remaining token (plus one) the loop ends through one of its own exits: the number
of iterations is bounded by the number of tokens left, because every continuing iteration moves the cursor -/
theorem memberLoop_iterations {ts : Toks} (h : WellFormed ts) (parseMember : Nat → Nat × Bool) (stop skipRet : List Kind)
    (hpm : ∀ c, c ≤ eofIdx ts → c ≤ (parseMember c).1 ∧ (parseMember c).1 ≤ eofIdx ts) :
    ∀ (fuel cur : Nat), cur ≤ eofIdx ts →
      (memberLoop ts parseMember stop skipRet fuel cur).2 ≤ eofIdx ts - cur + 1 := by
  intro fuel
  induction fuel with
  | zero => intro cur _; simp [memberLoop]
  | succ f ih =>
    intro cur hc
    simp only [memberLoop]
    split
    · simp
    · have hp := hpm cur hc
      split
      · split
        · simp
        · rename_i hgt
          have := ih (parseMember cur).1 hp.2
          simp only []; omega
      · have hi := ignoreLoop_bounds h stop skipRet (ts.length - (parseMember cur).1) (parseMember cur).1 hp.2
        split
        · simp
        · rename_i hcont
          have := ih _ hi.2
          simp only []
          have : cur < ignoreLoop ts stop skipRet (ts.length - (parseMember cur).1) (parseMember cur).1 := by
            have := not_or.mp hcont; omega
          omega

/-! ## Nesting limit -/

/-- **The shared nesting counter bounds the recursion depth by the declared limit; exceeding it is the only way
to get the exception** -/
theorem descend_bounded (limit : Nat) : ∀ (bs : List Bool) (d d' : Nat), d ≤ limit → descend limit d bs = some d' → d' ≤ limit := by
  intro bs
  induction bs with
  | nil => intro d d' hd h; simp [descend] at h; omega
  | cons b rest ih =>
    intro d d' hd h
    cases b with
    | true =>
      simp only [descend] at h
      split at h
      · cases h
      · exact ih (d + 1) d' (by omega) h
    | false =>
      simp only [descend] at h
      exact ih (d - 1) d' (by omega) h

theorem descend_throws_beyond_limit (limit : Nat) : descend limit 0 (List.replicate (limit + 1) true) = none := by
  have : ∀ n d, d + n = limit + 1 → d ≤ limit → descend limit d (List.replicate n true) = none := by
    intro n
    induction n with
    | zero => intro d h1 h2; omega
    | succ n ih =>
      intro d h1 h2
      simp only [List.replicate_succ, descend]
      split
      · rfl
      · exact ih (d + 1) (by omega) (by omega)
  exact this (limit + 1) 0 (by omega) (by omega)

/-! ## Generated obligation: the sentinel stops every recovery loop -/

theorem recovery_loops_stop_at_eof : Recovery.all.all (fun r => r.2.1.contains Kind.EndOfFile) = true := by decide

/-! ### Non-vacuity -/
def sampleToks : Toks := [.Keyword_enum, .IdentifierToken, .OpenBraceToken, .IdentifierToken, .IntegerConstantToken, .CloseBraceToken,
  .SemicolonToken, .Keyword_union, .EndOfFile]
example : WellFormed sampleToks := ⟨sampleToks.dropLast, by decide, by decide⟩
example : ignoreLoop sampleToks Recovery.ignoreMemberDeclaration_stop Recovery.ignoreMemberDeclaration_skipReturn 9 4 = 5 := by decide
example : [Op.consume, .consume, .skipTo .CloseBraceToken, .consume, .consume, .consume, .consume, .consume, .consume].foldl (step sampleToks) 0 = 8 := by
  decide

end PsycheModel.ParserProtocol

/-! ## Malformed input is answered with diagnostics: the net under the parser's failures -/
namespace PsycheModel.ParseNet

theorem failed_of_noted : ∀ (ops : List Op) (s : St), (s.failed.isSome = true ∨ notedOutside s ops = true) →
    (ops.foldl step s).failed.isSome = true
  | [], s, h => by
    rcases h with h | h
    · exact h
    · simp [notedOutside] at h
  | op :: rest, s, h => by
    simp only [List.foldl_cons]
    apply failed_of_noted rest (step s op)
    rcases h with h | h
    · left
      cases op <;> simp only [step] <;> (try split) <;> simp_all
    · simp only [notedOutside, Bool.or_eq_true] at h
      rcases h with h | h
      · left
        cases op with
        | note tk =>
          have hb : s.bt = 0 := by simpa using h
          cases hf : s.failed with
          | some x => simp [step, hf]
          | none => simp [step, hf, hb]
        | diag => simp at h
        | push => simp at h
        | pop => simp at h
      · right; exact h

/-- **Whenever a rule gave up on a construct outside every speculative parse, the finished parse has at least one
diagnostic** — whatever else happened: however many rules failed silently, however many diagnostics were swallowed while a
backtracker was alive, in any interleaving. -/
theorem failure_is_diagnosed (ops : List Op) (h : notedOutside {} ops = true) : 1 ≤ (finish (run ops)).diags := by
  have hf := failed_of_noted ops {} (.inr h)
  unfold finish run
  by_cases hd : (ops.foldl step {}).diags = 0
  · simp [hf, hd]
  · have : (if ((ops.foldl step {}).failed.isSome && decide ((ops.foldl step {}).diags = 0)) = true then
        { (ops.foldl step {}) with diags := 1 } else ops.foldl step {}) = ops.foldl step {} := by simp [hd]
    rw [this]
    omega

/-- … and the net adds nothing to a parse that has diagnostics of its own, nor to one without failures -/
theorem net_is_silent_otherwise (s : St) (h : s.failed = none ∨ 1 ≤ s.diags) : finish s = s := by
  unfold finish
  rcases h with h | h
  · simp [h]
  · have : ¬ s.diags = 0 := by omega
    simp [this]

/-- non-vacuity: a diagnostic swallowed under a backtracker, then the construct noted after it is discarded -/
example : notedOutside {} [.push, .diag, .note 3, .pop, .note 5] = true ∧ (run [.push, .diag, .note 3, .pop, .note 5]).diags = 0 ∧
    (finish (run [.push, .diag, .note 3, .pop, .note 5])) = { diags := 1, failed := some 5, bt := 0 } := by decide

end PsycheModel.ParseNet
