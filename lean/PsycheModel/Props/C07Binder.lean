import PsycheModel.Lemmas.Declarators
/-!
# C07 — A declarator yields exactly the C type it spells

Statements are about the model of the binder's type stack (`PsycheModel/Declarators.lean`, tied to
`DeclarationBinder_Declarators.cpp` by the correspondence run on real declarator trees) and hold for declarators of
any shape and nesting depth, parameter lists of any length (with their own declarators, recursively), and any number
of declarators per declaration.
-/
namespace PsycheModel.Declarators

/-- what the specifiers may leave on the stack: a type that `popTypesUntilNonDerivedDeclaratorType` stops at and that is
not an array (basic, void, tag, typedef-name types and their qualified versions) -/
structure PlainBase (T : Ty) : Prop where
  stop : ∀ below, popUntil (T :: below) = T :: below
  notArr : ∀ e, T ≠ .arr e

theorem plainBase_base (s : String) : PlainBase (.base s) := ⟨fun _ => rfl, by intro e; simp⟩
theorem plainBase_qual_base (q : Quals) (s : String) : PlainBase (.qual q (.base s)) :=
  ⟨fun _ => by simp [popUntil, Ty.isDerived], by intro e; simp⟩

/-- **Main theorem.**  For every declaration context, every plain base type, every list of declarators of any shape and
any stack `below` the declaration: the binder terminates normally, leaves the stack exactly as it found it, and binds —
in this order — for each declarator the symbol kind, the name written in the declarator and the type obtained by applying
its derivations inside-out to the *unmodified* base type (parameters adjusted per 6.7.6.3p7-8 and flagged), followed by the
symbols of the parameter declarations it contains. -/
theorem bindDeclarators_eq_spec (ctx : Ctx) (T : Ty) (hT : PlainBase T) (below : List Ty) :
    ∀ ds : List Decl, bindDeclarators ctx ds (T :: below) = some (T :: below, specSyms ctx T ds)
  | [] => rfl
  | d :: ds => by
    obtain ⟨st1, h1, h2, h3⟩ := visitD_spec ctx d T below (topOK_of_not_arr hT.notArr)
    cases st1 with
    | nil => simp at h2
    | cons ty tl =>
      simp only [List.head?_cons, Option.some.injEq] at h2
      subst h2
      have ih := bindDeclarators_eq_spec ctx T hT below ds
      simp only [bindDeclarators, h1, h3, hT.stop, ih, specSyms]

theorem bindDeclaration_eq_spec (ctx : Ctx) (T : Ty) (hT : PlainBase T) (below : List Ty) (ds : List Decl) :
    bindDeclaration ctx T ds below = some (below, specSyms ctx T ds) := by
  simp [bindDeclaration, bindDeclarators_eq_spec ctx T hT below ds]

/-- every declarator of a declaration sees the unmodified base type: the symbols of `T d₁, …, dₙ;` are those of the
separate declarations `T d₁; …; T dₙ;` -/
theorem specSyms_append (ctx : Ctx) (T : Ty) (ds es : List Decl) :
    specSyms ctx T (ds ++ es) = specSyms ctx T ds ++ specSyms ctx T es := by
  induction ds with
  | nil => rfl
  | cons d ds ih => simp [specSyms, ih]

theorem declarators_independent (ctx : Ctx) (T : Ty) (hT : PlainBase T) (below : List Ty) (ds es : List Decl) :
    (bindDeclaration ctx T (ds ++ es) below).map (·.2) =
      (do let a ← bindDeclaration ctx T ds below; let b ← bindDeclaration ctx T es below; pure (a.2 ++ b.2)) := by
  simp [bindDeclaration_eq_spec _ _ hT, specSyms_append]

/-- a function's parameter symbols and parameter types follow the same rule, adjusted -/
theorem parameters_eq_spec (ps : Params) : visitPs ps = some (denotePs ps, symsOfPs ps) := visitPs_spec ps

/-! ### redundant parentheses -/

mutual
theorem denote_strip : ∀ (d : Decl) (T : Ty), denote (strip d) T = denote d T
  | .ident _, _ => rfl
  | .abstract, _ => rfl
  | .paren d, T => by simpa [strip, denote] using denote_strip d T
  | .bitfield d, T => by simpa [strip, denote] using denote_strip d T
  | .ptr qs d, T => by simpa [strip, denote] using denote_strip d _
  | .arr d, T => by simpa [strip, denote] using denote_strip d _
  | .fn d ps ell, T => by simp only [strip, denote, denotePs_strip ps]; exact denote_strip d _
theorem denotePs_strip : ∀ (ps : Params), denotePs (stripPs ps) = denotePs ps
  | .nil => rfl
  | .cons b d rest => by simp only [stripPs, denotePs, denote_strip d, denotePs_strip rest]
end

mutual
theorem nestedOf_strip : ∀ (d : Decl) (T : Ty), nestedOf (strip d) T = nestedOf d T
  | .ident _, _ => rfl
  | .abstract, _ => rfl
  | .paren d, T => by simpa [strip, nestedOf] using nestedOf_strip d T
  | .bitfield d, T => by simpa [strip, nestedOf] using nestedOf_strip d T
  | .ptr qs d, T => by simpa [strip, nestedOf] using nestedOf_strip d _
  | .arr d, T => by simpa [strip, nestedOf] using nestedOf_strip d _
  | .fn d ps ell, T => by
    simp only [strip, nestedOf, denotePs_strip ps, symsOfPs_strip ps]; rw [nestedOf_strip d]
theorem symsOfPs_strip : ∀ (ps : Params), symsOfPs (stripPs ps) = symsOfPs ps
  | .nil => rfl
  | .cons b d rest => by simp only [stripPs, symsOfPs, denote_strip d, nestedOf_strip d, symsOfPs_strip rest]
end

theorem specSyms_strip (ctx : Ctx) (T : Ty) (ds : List Decl) : specSyms ctx T (ds.map strip) = specSyms ctx T ds := by
  induction ds with
  | nil => rfl
  | cons d ds ih => simp [specSyms, denote_strip, nestedOf_strip, ih]

/-- **Redundant parentheses never change what is bound** — anywhere in the declarators or in their parameter lists. -/
theorem parentheses_irrelevant (ctx : Ctx) (T : Ty) (hT : PlainBase T) (below : List Ty) (ds : List Decl) :
    bindDeclaration ctx T (ds.map strip) below = bindDeclaration ctx T ds below := by
  simp [bindDeclaration_eq_spec _ _ hT, specSyms_strip]

/-! ### the inverse printer: every type has a declarator, and the binder gives it back -/

theorem denote_parenIfPtr (d : Decl) (T : Ty) : denote (parenIfPtr d) T = denote d T := by
  unfold parenIfPtr; split <;> simp [denote]

theorem nestedOf_parenIfPtr (d : Decl) (T : Ty) : nestedOf (parenIfPtr d) T = nestedOf d T := by
  unfold parenIfPtr; split <;> simp [nestedOf]

theorem denote_build (inner : Decl) : ∀ (ds : List Deriv) (B : Ty),
    denote (build ds inner) B = denote inner (applyDerivs ds B)
  | [], _ => rfl
  | .ptr qs :: ds, B => by simp only [build, denote, applyDerivs, Deriv.apply]; exact denote_build inner ds _
  | .arr :: ds, B => by
    simp only [build, denote, denote_parenIfPtr, applyDerivs, Deriv.apply]; exact denote_build inner ds _
  | .fn ps ell :: ds, B => by
    simp only [build, denote, denote_parenIfPtr, applyDerivs, Deriv.apply]; exact denote_build inner ds _

/-- **Round trip through the declarator syntax**: for every base type and every sequence of pointer (with any qualifiers),
array and function (with any parameter declarations) derivations, of any length, the declarator the printer builds around
the name `n` makes the binder declare `n` with exactly that derived type; in a parameter list the array / function
adjustment applies on top. -/
theorem bind_build (ctx : Ctx) (T : Ty) (hT : PlainBase T) (below : List Ty) (ds : List Deriv) (n : String) :
    ∃ nested, bindDeclaration ctx T [build ds (.ident n)] below =
      some (below, ⟨ctx.kindOf (ctx.adj (applyDerivs ds T)), n, ctx.adj (applyDerivs ds T)⟩ :: nested) := by
  refine ⟨nestedOf (build ds (.ident n)) T ++ [], ?_⟩
  simp [bindDeclaration_eq_spec _ _ hT, specSyms, denote_build, denote]

/-- qualifiers written after a `*` qualify that pointer and nothing else -/
theorem qualifier_level (qs : List Qual) (ds : List Deriv) (B : Ty) (n : String) :
    denote (build (ds ++ [.ptr qs]) (.ident n)) B = (n, qualify qs (.ptr .none (applyDerivs ds B))) := by
  rw [denote_build]
  have : ∀ (ds : List Deriv) (B : Ty), applyDerivs (ds ++ [.ptr qs]) B = qualify qs (.ptr .none (applyDerivs ds B)) := by
    intro ds
    induction ds with
    | nil => intro B; rfl
    | cons d ds ih => intro B; simp only [List.cons_append, applyDerivs, ih]
  simp [denote, this]

/-- parameter adjustment as the property words it -/
theorem param_array_adjusted (b : String) (ds : List Deriv) (n : String) :
    ∃ syms, visitPs (.cons b (build (ds ++ [.arr]) (.ident n)) .nil) =
      some ([.ptr .arr (applyDerivs ds (.base b))], syms) := by
  have : ∀ (ds : List Deriv) (B : Ty), applyDerivs (ds ++ [.arr]) B = .arr (applyDerivs ds B) := by
    intro ds
    induction ds with
    | nil => intro B; rfl
    | cons d ds ih => intro B; simp only [List.cons_append, applyDerivs, ih]
  refine ⟨symsOfPs (.cons b (build (ds ++ [.arr]) (.ident n)) .nil), ?_⟩
  rw [visitPs_spec]; simp [denotePs, denote_build, denote, this, adjust]

/-! ### the premises are satisfiable and the statements are not vacuous -/

/-- `int (*fp[3])(char a[2], int f(void), ...), *p;` -/
example :
    bindDeclaration .object (.base "int")
      [ .fn (.paren (.ptr [] (.arr (.ident "fp"))))
          (.cons "char" (.arr (.ident "a")) (.cons "int" (.fn (.ident "f") (.cons "void" .abstract .nil) false) .nil)) true,
        .ptr [.const] (.ident "p") ] [] =
    some ([],
      [ ⟨.variable, "fp", .arr (.ptr .none (.fn (.base "int")
            [.ptr .arr (.base "char"), .ptr .fn (.fn (.base "int") [.base "void"] false)] true))⟩,
        ⟨.parameter, "a", .ptr .arr (.base "char")⟩,
        ⟨.parameter, "f", .ptr .fn (.fn (.base "int") [.base "void"] false)⟩,
        ⟨.parameter, "", .base "void"⟩,
        ⟨.variable, "p", .qual { c := true } (.ptr .none (.base "int"))⟩ ]) := by
  rfl

example : PlainBase (.qual { c := true } (.base "int")) := plainBase_qual_base _ _

end PsycheModel.Declarators
