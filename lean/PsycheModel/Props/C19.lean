import PsycheModel.Cnip
/-!
# C19 — The cnip driver's exit status and options reflect what the front end found
-/
namespace PsycheModel.Cnip

def docStd : List Word := ["c89".toList, "c90".toList, "c99".toList, "c11".toList, "c17".toList, "c18".toList]
def docDisambig : List Word := ["a".toList, "h".toList, "ah".toList, "none".toList]
def docComment : List Word := ["d".toList, "ka".toList, "kdo".toList]
def docPP : List Word := ["s".toList, "r".toList, "none".toList]

/-- the option values listed by `-help` -/
def Documented (o : Opts) : Prop :=
  o.std ∈ docStd ∧ o.disambig ∈ docDisambig ∧ o.comment ∈ docComment ∧ o.pp ∈ docPP

/-- **Every documented value is accepted and selects the behaviour it names.** -/
theorem documented_values_select_their_behaviour :
    stdOf "c89".toList = some .C89_90 ∧ stdOf "c90".toList = some .C89_90 ∧ stdOf "c99".toList = some .C99 ∧
    stdOf "c11".toList = some .C11 ∧ stdOf "c17".toList = some .C17_18 ∧ stdOf "c18".toList = some .C17_18 ∧
    disambigOf "a".toList = some .Algorithmic ∧ disambigOf "h".toList = some .Heuristic ∧
    disambigOf "ah".toList = some .AlgorithmicAndHeuristic ∧ disambigOf "none".toList = some .None ∧
    commentOf "d".toList = some .Discard ∧ commentOf "ka".toList = some .KeepAll ∧
    commentOf "kdo".toList = some .KeepDocumentationOnly := by decide

theorem documented_config (o : Opts) (h : Documented o) :
    ∃ cfg : Config, stdOf o.std = some cfg.std ∧ disambigOf o.disambig = some cfg.disambig ∧
      commentOf o.comment = some cfg.comment := by
  obtain ⟨h1, h2, h3, _⟩ := h
  have a : ∀ w ∈ docStd, (stdOf w).isSome = true := by decide
  have b : ∀ w ∈ docDisambig, (disambigOf w).isSome = true := by decide
  have c : ∀ w ∈ docComment, (commentOf w).isSome = true := by decide
  obtain ⟨s, hs⟩ := Option.isSome_iff_exists.mp (a _ h1)
  obtain ⟨d, hd⟩ := Option.isSome_iff_exists.mp (b _ h2)
  obtain ⟨m, hm⟩ := Option.isSome_iff_exists.mp (c _ h3)
  exact ⟨⟨s, d, m⟩, hs, hd, hm⟩

theorem frontEnd_none (cfg : Config) (o : Opts) (facts : Word → FileFacts) : ∀ files : List Word,
    frontEnd cfg o facts files = none ↔
      ∀ f ∈ files, (facts f).syntaxError cfg o.pp = false ∧ (o.syntaxOnly = true ∨ (facts f).semanticError cfg o.pp = false) := by
  intro files
  induction files with
  | nil => simp [frontEnd]
  | cons f rest ih =>
    simp only [frontEnd, List.mem_cons, forall_eq_or_imp]
    cases hs : (facts f).syntaxError cfg o.pp with
    | true => simp
    | false =>
      cases hso : o.syntaxOnly with
      | true => simp [ih, hso]
      | false =>
        cases hse : (facts f).semanticError cfg o.pp with
        | true => simp
        | false => simp [ih, hso]

/-- **C19, exit-status law.**  For every combination of documented option values, every non-empty list of
existing input files and every behaviour of the outside world: cnip exits with status zero exactly when
preprocessing succeeded and the front end reported no error for any file under that configuration (semantic
errors only count without `-fsyntax-only`). -/
theorem exit_status_law (o : Opts) (facts : Word → FileFacts) (hdoc : Documented o)
    (hhelp : o.help = false) (hana : o.analysis = [])
    (hfiles : o.cFiles ++ o.iFiles ≠ []) (hex : ∀ f ∈ o.cFiles ++ o.iFiles, (facts f).exists_ = true) :
    ∃ cfg : Config, stdOf o.std = some cfg.std ∧ disambigOf o.disambig = some cfg.disambig ∧
      commentOf o.comment = some cfg.comment ∧
      ((goOpts o facts).code = 0 ↔
        ((o.pp = "none".toList ∨ ∀ f ∈ o.cFiles, (facts f).ppOk cfg o.pp = true) ∧
         ∀ f ∈ o.cFiles ++ o.iFiles, (facts f).syntaxError cfg o.pp = false ∧
            (o.syntaxOnly = true ∨ (facts f).semanticError cfg o.pp = false))) := by
  obtain ⟨cfg, h1, h2, h3⟩ := documented_config o hdoc
  refine ⟨cfg, h1, h2, h3, ?_⟩
  have hpp : (o.pp = "none".toList || o.pp = "s".toList || o.pp = "r".toList) = true := by
    have := hdoc.2.2.2
    simp only [docPP, List.mem_cons, List.mem_nil_iff, or_false] at this
    rcases this with h | h | h <;> simp [h]
  have hexist : (o.cFiles ++ o.iFiles).any (fun f => !(facts f).exists_) = false := by
    rw [List.any_eq_false]
    intro f hf; simp [hex f hf]
  unfold goOpts
  simp only [hhelp, Bool.false_eq_true, if_false, hfiles, hexist, hpp, Bool.not_true, h1, h2, h3]
  have hcfg : (⟨cfg.std, cfg.disambig, cfg.comment⟩ : Config) = cfg := by cases cfg; rfl
  rw [hcfg]
  by_cases hnone : o.pp = "none".toList
  · simp only [hnone, ne_eq, not_true_eq_false, decide_false, Bool.false_and, Bool.false_eq_true, if_false, true_or, true_and]
    rw [← hnone]
    cases hfe : frontEnd cfg o facts (o.cFiles ++ o.iFiles) with
    | none =>
      simp only [hana, ne_eq, not_true_eq_false, if_false, Outcome.code, true_iff]
      exact (frontEnd_none cfg o facts _).mp hfe
    | some m =>
      simp only [Outcome.code]
      constructor
      · intro h; cases h
      · intro h; rw [(frontEnd_none cfg o facts _).mpr h] at hfe; cases hfe
  · simp only [ne_eq, hnone, not_false_eq_true, decide_true, Bool.true_and, false_or]
    by_cases hppall : o.cFiles.any (fun f => !(facts f).ppOk cfg o.pp) = true
    · simp only [hppall, if_true, Outcome.code]
      constructor
      · intro h; cases h
      · rintro ⟨hall, _⟩
        rw [List.any_eq_true] at hppall
        obtain ⟨f, hf, hb⟩ := hppall
        simp [hall f hf] at hb
    · simp only [hppall, Bool.false_eq_true, if_false]
      have hall : ∀ f ∈ o.cFiles, (facts f).ppOk cfg o.pp = true := by
        intro f hf
        rw [Bool.not_eq_true, List.any_eq_false] at hppall
        simpa using hppall f hf
      cases hfe : frontEnd cfg o facts (o.cFiles ++ o.iFiles) with
      | none =>
        simp only [hana, ne_eq, not_true_eq_false, if_false, Outcome.code, true_iff]
        exact ⟨hall, (frontEnd_none cfg o facts _).mp hfe⟩
      | some m =>
        simp only [Outcome.code]
        constructor
        · intro h; cases h
        · rintro ⟨_, h⟩; rw [(frontEnd_none cfg o facts _).mpr h] at hfe; cases hfe

/-- **Malformed command lines are answered with a message and a non-zero status.** -/
theorem malformed_command_line (argv : List Word) (facts : Word → FileFacts) (e : Err)
    (h : detect {} false argv = .error e) : ∃ msg, go argv facts = .exit1 msg ∧ msg ≠ "" := by
  unfold go
  rw [h]
  cases e <;> exact ⟨_, rfl, by decide⟩

/-- an option value that `-help` does not list is rejected with a message and status 1 -/
theorem undocumented_value_rejected (o : Opts) (facts : Word → FileFacts) (hhelp : o.help = false)
    (hbad : stdOf o.std = none ∨ disambigOf o.disambig = none ∨ commentOf o.comment = none ∨
      (o.pp ≠ "none".toList ∧ o.pp ≠ "s".toList ∧ o.pp ≠ "r".toList)) :
    (goOpts o facts).code = 1 := by
  unfold goOpts
  simp only [hhelp, Bool.false_eq_true, if_false]
  split
  · rfl
  · split
    · rfl
    · split
      · rfl
      · rcases hbad with h | h | h | h
        · simp [h, Outcome.code]
        · cases hs : stdOf o.std <;> simp [h, Outcome.code]
        · cases hs : stdOf o.std <;> cases hd : disambigOf o.disambig <;> simp [h, Outcome.code]
        · rename_i hk
          exfalso
          apply hk
          have a := h.1
          have b := h.2.1
          have c := h.2.2
          simp only [Bool.not_eq_true', Bool.or_eq_false_iff, decide_eq_false_iff_not]
          exact ⟨⟨a, b⟩, c⟩

/-- the exit status is 0 or 1, never anything else (no signal, no other code, in the model) -/
theorem exit_is_0_or_1 (argv : List Word) (facts : Word → FileFacts) :
    (go argv facts).code = 0 ∨ (go argv facts).code = 1 := by
  cases go argv facts <;> simp [Outcome.code]

/-! ## Decoding of documented command lines -/

inductive DocArg where
  | std (i : Fin 6) | disambig (i : Fin 4) | comment (i : Fin 3) | pp (i : Fin 3)
  | syntaxOnly | dumpAst
  | cfile (name : Word)      -- a path `name.c`

def render : DocArg → List Word
  | .std i => ["-std=".toList ++ docStd[i]]
  | .disambig i => ["-disambiguation".toList, docDisambig[i]]
  | .comment i => ["-comment".toList, docComment[i]]
  | .pp i => ["-pp".toList, docPP[i]]
  | .syntaxOnly => ["-fsyntax-only".toList]
  | .dumpAst => ["-dump-ast".toList]
  | .cfile n => [n ++ ".c".toList]

def applyArg (o : Opts) : DocArg → Opts
  | .std i => { o with std := docStd[i] }
  | .disambig i => { o with disambig := docDisambig[i] }
  | .comment i => { o with comment := docComment[i] }
  | .pp i => { o with pp := docPP[i] }
  | .syntaxOnly => { o with syntaxOnly := true }
  | .dumpAst => { o with dumpAST := true }
  | .cfile n => { o with cFiles := o.cFiles ++ [n ++ ".c".toList] }

def okName (a : DocArg) : Prop :=
  match a with
  | .cfile n => (n ++ ".c".toList).head? ≠ some '-'
  | _ => True

theorem endsWith_append (n suf : Word) : endsWith (n ++ suf) suf = true := by
  simp [endsWith]

theorem detect_render (a : DocArg) (ha : okName a) (o : Opts) (acc : Bool) (rest : List Word) :
    detect o acc (render a ++ rest) = detect (applyArg o a) acc rest := by
  cases a with
  | std i =>
    match i with
    | ⟨0, _⟩ => rfl
    | ⟨1, _⟩ => rfl
    | ⟨2, _⟩ => rfl
    | ⟨3, _⟩ => rfl
    | ⟨4, _⟩ => rfl
    | ⟨5, _⟩ => rfl
  | disambig i =>
    simp only [render, List.cons_append, List.nil_append, detect, applyArg]
    rfl
  | comment i =>
    simp only [render, List.cons_append, List.nil_append, detect, applyArg]
    rfl
  | pp i =>
    simp only [render, List.cons_append, List.nil_append, detect, applyArg]
    rfl
  | syntaxOnly => simp only [render, List.cons_append, List.nil_append, detect, applyArg]; rfl
  | dumpAst => simp only [render, List.cons_append, List.nil_append, detect, applyArg]; rfl
  | cfile n =>
    simp only [okName] at ha
    simp only [render, List.cons_append, List.nil_append, detect, classify, ha, ne_eq, not_false_eq_true, if_true,
      endsWith_append, Bool.true_or, applyArg]

/-- **Every command line made of documented options with documented values and `.c` files is decoded
without error, into exactly the options it spells** (later occurrences override earlier ones). -/
theorem documented_command_lines_decode (args : List DocArg) (hok : ∀ a ∈ args, okName a) : ∀ (o : Opts) (acc : Bool),
    detect o acc (args.flatMap render) = .ok (args.foldl applyArg o) := by
  induction args with
  | nil => intro o acc; rfl
  | cons a rest ih =>
    intro o acc
    rw [List.flatMap_cons, detect_render a (hok a (by simp)), List.foldl_cons]
    exact ih (fun b hb => hok b (List.mem_cons_of_mem _ hb)) _ _

theorem applyArg_documented (o : Opts) (a : DocArg) (h : Documented o) : Documented (applyArg o a) := by
  obtain ⟨h1, h2, h3, h4⟩ := h
  cases a with
  | std i => exact ⟨List.getElem_mem _, h2, h3, h4⟩
  | disambig i => exact ⟨h1, List.getElem_mem _, h3, h4⟩
  | comment i => exact ⟨h1, h2, List.getElem_mem _, h4⟩
  | pp i => exact ⟨h1, h2, h3, List.getElem_mem _⟩
  | syntaxOnly => exact ⟨h1, h2, h3, h4⟩
  | dumpAst => exact ⟨h1, h2, h3, h4⟩
  | cfile n => exact ⟨h1, h2, h3, h4⟩

theorem defaults_documented : Documented ({} : Opts) := by
  refine ⟨?_, ?_, ?_, ?_⟩ <;> decide

theorem foldl_documented (args : List DocArg) : ∀ o, Documented o → Documented (args.foldl applyArg o) := by
  induction args with
  | nil => intro o h; exact h
  | cons a rest ih => intro o h; exact ih _ (applyArg_documented o a h)

/-! ### Non-vacuity -/
def sampleFacts : Word → FileFacts := fun _ => ⟨true, fun _ _ => true, fun _ _ => false, fun _ _ => true⟩
example : (go ["-std=c99".toList, "-comment".toList, "ka".toList, "-pp".toList, "none".toList, "a.c".toList] sampleFacts).code = 1 := by decide
example : (go ["-std=c99".toList, "-fsyntax-only".toList, "-pp".toList, "none".toList, "a.c".toList] sampleFacts).code = 0 := by decide
example : (go ["-comment".toList] sampleFacts) = .exit1 "expected option value" := by decide

end PsycheModel.Cnip
