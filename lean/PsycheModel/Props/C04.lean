import PsycheModel.StmtCtx
import PsycheModel.Lemmas.GuessRole
import PsycheModel.Lemmas.Stmt
import PsycheModel.Lemmas.Init
import PsycheModel.Lemmas.Expr
import PsycheModel.ExprReal
/-!
# C04 — Every valid C11 translation unit is accepted by the parser (the fragments that are proved)

Statement contexts: for statements nested to ANY depth, the parser reports a `case`/`default`/`continue`/`break`
placement diagnostic exactly when C11 forbids the placement — so no valid nesting is ever rejected (and no invalid one
accepted).  The expression fragment is C06's theorem (a printed derivable tree parses back: acceptance), the
declarator fragment C07's inverse printer together with the parser-tree comparison of its run.
-/
namespace PsycheModel.StmtCtx

theorem add_loop (c : Ctx) : (c.add .loop).inSwitch = c.inSwitch ∧ (c.add .loop).inLoop = true := by
  cases c <;> decide

theorem add_switch (c : Ctx) : (c.add .switch).inSwitch = true ∧ (c.add .switch).inLoop = c.inLoop := by
  cases c <;> decide

mutual
/-- **The context diagnostics are exactly C11's constraints**, for every statement of any nesting depth and every context. -/
theorem diag_iff_invalid : ∀ (s : Stmt) (c : Ctx), diag c s = !valid c.inSwitch c.inLoop s
  | .other, _ => rfl
  | .brk, c => by cases c <;> rfl
  | .cont, c => by cases c <;> rfl
  | .case s, c => by
    have ih := diag_iff_invalid s c
    cases c <;> simp [diag, valid, ih, Ctx.inSwitch, Ctx.inLoop]
  | .dflt s, c => by
    have ih := diag_iff_invalid s c
    cases c <;> simp [diag, valid, ih, Ctx.inSwitch, Ctx.inLoop]
  | .label s, c => by simp only [diag, valid]; exact diag_iff_invalid s c
  | .loop s, c => by
    have ih := diag_iff_invalid s (c.add .loop)
    simp only [diag, valid, ih, (add_loop c).1, (add_loop c).2]
  | .switch s, c => by
    have ih := diag_iff_invalid s (c.add .switch)
    simp only [diag, valid, ih, (add_switch c).1, (add_switch c).2]
  | .ifs s, c => by simp only [diag, valid]; exact diag_iff_invalid s c
  | .ifelse s t, c => by
    simp only [diag, valid, diag_iff_invalid s c, diag_iff_invalid t c]
    cases valid c.inSwitch c.inLoop s <;> cases valid c.inSwitch c.inLoop t <;> rfl
  | .block ss, c => by simp only [diag, valid]; exact diagL_iff_invalid ss c
theorem diagL_iff_invalid : ∀ (ss : Stmts) (c : Ctx), diagL c ss = !validL c.inSwitch c.inLoop ss
  | .nil, _ => rfl
  | .cons s rest, c => by
    simp only [diagL, validL, diag_iff_invalid s c, diagL_iff_invalid rest c]
    cases valid c.inSwitch c.inLoop s <;> cases validL c.inSwitch c.inLoop rest <;> rfl
end

/-- **No valid function body is rejected**: a body starts in context `None`. -/
theorem valid_body_accepted (s : Stmt) (h : valid false false s = true) : diag .none s = false := by
  rw [diag_iff_invalid]; simp [Ctx.inSwitch, Ctx.inLoop, h]

/-- the case the suite never reaches: a third construct inside a switch-in-loop keeps both enclosing kinds -/
example : diag .none (.switch (.case (.loop (.block (.cons (.switch (.case .cont)) (.cons (.case .brk) .nil)))))) = false := by decide

end PsycheModel.StmtCtx

/-! ## `guessRoleOfIdentifier`: when is the symbol-table-free guess the reading C takes? -/

namespace PsycheModel.DeclTokens
open PsycheModel.Declarators PsycheModel.GuessRole

/-- a parenthesised group that starts with `*` or `(` opens a declarator: the identifier before it names a type
(the sub-case repaired by commit `4d00643`) -/
theorem guess_group_star_or_paren (ctx : DeclCtx) (kr : Bool) (hctx : ctx ≠ .parameter) (t : K) (ht : t = .star ∨ t = .lparen)
    (rest : List K) : guess ctx kr (.lparen :: t :: rest) = .typedefName := by
  rcases ht with h | h <;> subst h <;> simp [guess, hctx]

/-- **The look-ahead over a whole parenthesised group**: if the group `g` is balanced, holds no semicolon and does not start
with `*` or `(`, the answer depends on `g` only through the running `check`: typedef name iff it ends at -1, i.e. iff the
group is "one identifier, stars and parentheses, nothing else". -/
theorem guess_group (ctx : DeclCtx) (kr : Bool) (hctx : ctx ≠ .parameter) (g rest : List K) (hwf : wf g 0 = true)
    (hhead : g.head? ≠ some .star ∧ g.head? ≠ some .lparen) :
    guess ctx kr (.lparen :: (g ++ .rparen :: rest)) = if foldCheck g 0 = -1 then .typedefName else .declarator := by
  have hscan := scan_wf g 0 1 0 (.rparen :: rest) hwf (Nat.le_refl 1)
  have hh : (g ++ K.rparen :: rest).head? ≠ some .star ∧ (g ++ K.rparen :: rest).head? ≠ some .lparen := by
    cases g with
    | nil => simp
    | cons x xs => simpa using hhead
  simp only [guess, hctx, if_false, hh.1, hh.2, or_self]
  simp only [Nat.add_zero] at hscan
  rw [hscan]
  simp [scan]

/-- a group that starts with a type specifier, qualifier … (anything but an identifier, `*`, `(`) is a parameter list: the
identifier before it is the function being declared with implicit `int` -/
theorem guess_parameter_list (ctx : DeclCtx) (kr : Bool) (hctx : ctx ≠ .parameter) (t : K) (g rest : List K)
    (ht : t ≠ .ident ∧ t ≠ .star ∧ t ≠ .lparen ∧ t ≠ .rparen) (hwf : wf (t :: g) 0 = true) :
    guess ctx kr (.lparen :: ((t :: g) ++ .rparen :: rest)) = .declarator := by
  rw [guess_group ctx kr hctx (t :: g) rest hwf (by simp [ht.2.1, ht.2.2.1])]
  have h1 : (1 : Int) ≤ foldCheck (t :: g) 0 := by
    have : foldCheck (t :: g) 0 = foldCheck g 1 := by
      cases t <;> simp_all [foldCheck]
    rw [this]; exact foldCheck_pos g 1 (Int.le_refl 1)
  have : ¬ foldCheck (t :: g) 0 = -1 := by omega
  simp [this]

/-- declarators for which the guess is guaranteed: led by the identifier itself or by `*`, or — through array / function
suffixes — by a parenthesis that holds the bare identifier or starts with `*` or `(` -/
def safe : Decl → Bool
  | .ident _ => true
  | .abstract => false
  | .ptr _ _ => true
  | .paren (.ident _) => true
  | .paren d => (toks d).head? == some .star || (toks d).head? == some .lparen
  | .bitfield d => safe d
  | .arr d => safe d
  | .fn d _ _ => safe d

/-- **The guess is right on every safe declarator**, of any depth, whatever follows it: in `T d …` the identifier `T` is
taken for a typedef name.  (`T x`, `T *p`, `T (*fp)(int)`, `T (*(*f)(void))[3]`, `T x[2][3]`, `T (x)`, `T ((*p))` …) -/
theorem guess_safe (kr : Bool) : ∀ (d : Decl) (rest : List K), safe d = true → guess .unspecified kr (toks d ++ rest) = .typedefName
  | .ident _, _, _ => by simp [toks, guess]
  | .abstract, _, h => by simp [safe] at h
  | .ptr qs d, _, _ => by simp [toks, guess]
  | .paren (.ident n), rest, _ => by
    have := guess_group .unspecified kr (by decide) [.ident] rest rfl (by decide)
    simpa [toks, foldCheck] using this
  | .paren .abstract, _, h => by simp [safe, toks] at h
  | .paren (.ptr qs d), rest, _ => by simp [toks, guess]
  | .paren (.paren d), rest, _ => by simp [toks, guess]
  | .paren (.bitfield d), rest, h => by
    have h' : (toks (.bitfield d)).head? = some .star ∨ (toks (.bitfield d)).head? = some .lparen := by simpa [safe] using h
    cases hd : toks (.bitfield d) with
    | nil => simp [hd] at h'
    | cons x xs =>
      simp only [hd, List.head?_cons, Option.some.injEq] at h'
      simp only [toks] at hd
      simp only [toks, hd, List.cons_append]
      exact guess_group_star_or_paren .unspecified kr (by decide) x h' _
  | .paren (.arr d), rest, h => by
    have h' : (toks (.arr d)).head? = some .star ∨ (toks (.arr d)).head? = some .lparen := by simpa [safe] using h
    cases hd : toks (.arr d) with
    | nil => simp [hd] at h'
    | cons x xs =>
      simp only [hd, List.head?_cons, Option.some.injEq] at h'
      simp only [toks] at hd
      simp only [toks, hd, List.cons_append]
      exact guess_group_star_or_paren .unspecified kr (by decide) x h' _
  | .paren (.fn d ps ell), rest, h => by
    have h' : (toks (.fn d ps ell)).head? = some .star ∨ (toks (.fn d ps ell)).head? = some .lparen := by simpa [safe] using h
    cases hd : toks (.fn d ps ell) with
    | nil => simp [hd] at h'
    | cons x xs =>
      simp only [hd, List.head?_cons, Option.some.injEq] at h'
      simp only [toks] at hd
      simp only [toks, hd, List.cons_append]
      exact guess_group_star_or_paren .unspecified kr (by decide) x h' _
  | .bitfield d, rest, h => by simpa [toks] using guess_safe kr d rest (by simpa [safe] using h)
  | .arr d, rest, h => by
    have := guess_safe kr d ([.lbrack, .other, .rbrack] ++ rest) (by simpa [safe] using h)
    simpa [toks, List.append_assoc] using this
  | .fn d ps ell, rest, h => by
    have := guess_safe kr d ((.lparen :: (toksPs ps ++ ((if ell then [.comma, .other] else []) ++ [.rparen]))) ++ rest) (by simpa [safe] using h)
    simpa [toks, List.append_assoc] using this

/-- **… and here it is wrong** (the recorded blind spot, C07 `blind:typedef-base-paren-suffix`): `T (x[3]);` — a parenthesis
holding an identifier with a suffix — is taken for an implicit-`int` function declarator; `T (f(int a));` happens to come
out right because the parameter's name brings `check` back to -1, `T (f(int));` does not. -/
theorem C04_witness_blind_spot :
    guess .unspecified false (toks (.paren (.arr (.ident "x"))) ++ [.semicolon]) = .declarator ∧
    guess .unspecified false (toks (.paren (.fn (.ident "f") (.cons "int" (.ident "a") .nil) false)) ++ [.semicolon]) = .typedefName ∧
    guess .unspecified false (toks (.paren (.fn (.ident "f") (.cons "int" .abstract .nil) false)) ++ [.semicolon]) = .declarator := by
  decide

/-- the other direction: `f(int a, char *b) {`, `f() {`, `f(void);` — the identifier is the function being declared -/
example : guess .unspecified false (toks (.fn .abstract (.cons "int" (.ident "a") (.cons "char" (.ptr [] (.ident "b")) .nil)) false) ++ [.lbrace]) = .declarator := by
  decide

end PsycheModel.DeclTokens

/-! ## Statements: every derivable statement is accepted, and parsed to the tree the grammar gives it -/
namespace PsycheModel.Stmt

/-- **Acceptance and shape of statements.**  On the transcription of `parseStatement` / `parseCompoundStatement_AtFirst` and the ten
`parse…Statement_AtFirst` functions (expressions and keyword-started declarations abstracted to one token each): every statement
tree of any size and depth that is derivable as written (`ok`: the first sub-statement of an `if … else` does not end in an `if`
without `else`, 6.8.4.1p3), printed and followed by ANY tokens - which must not begin with `else` if the statement ends in an `if`
without `else` - is parsed back to exactly that tree, leaving exactly those tokens: labels, `case`/`default`, compound statements
with any number of items, `if` with and without `else` (the `else` goes with the nearest `if`), `switch`, `while`, `do`, `for` with
every combination of its three clauses, `goto`, `continue`, `break`, `return` with and without a value. -/
theorem statement_parse_pp (s : S) (rest : List Tok) (hok : ok s = true) (hne : openEnd s = true → NoElse rest) :
    ∃ fuel, stmt fuel (pp s ++ rest) = some (s, rest) := rt s rest hok hne

/-- a compound statement is complete in itself: followed by anything -/
theorem block_parse_pp (xs : List S) (rest : List Tok) (hok : okItems xs = true) :
    ∃ fuel, stmt fuel (pp (.block xs) ++ rest) = some (.block xs, rest) :=
  rt (.block xs) rest (by simpa [ok] using hok) (fun h => by simp [openEnd] at h)

/-- more fuel never changes a result -/
theorem stmt_fuel_irrelevant {f f' : Nat} {ts x} (h : stmt f ts = some x) (hf : f ≤ f') : stmt f' ts = some x :=
  (le_of_le hf).stmt _ _ h

/-- **Bounded recursion, and the model as a decision procedure.**  Every successful parse consumes at least one token, and whatever
ANY fuel yields on a token list, fuel `2 · length + 1` yields: the recursion depth of the statement parser is bounded by (twice) the
number of tokens, and running the model with that fuel decides acceptance. -/
theorem stmt_fuel_bound (ts : List Tok) {f : Nat} {x : S × List Tok} (h : stmt f ts = some x) :
    stmt (2 * ts.length + 1) ts = some x := (fuel_bound ts.length).1 ts (Nat.le_refl _) f x h
theorem stmt_consumes {f : Nat} {ts : List Tok} {s : S} {rest : List Tok} (h : stmt f ts = some (s, rest)) : rest.length < ts.length :=
  (cons_all f).stmt ts s rest h

/-- the round trip with the fuel named -/
theorem statement_parse_pp_fuel (s : S) (rest : List Tok) (hok : ok s = true) (hne : openEnd s = true → NoElse rest) :
    stmt (2 * (pp s ++ rest).length + 1) (pp s ++ rest) = some (s, rest) := by
  obtain ⟨f, hf⟩ := statement_parse_pp s rest hok hne
  exact stmt_fuel_bound _ hf

/-- **the dangling `else`**: `if (a) if (b) s; else t;` is the tree whose INNER `if` has the `else` -/
example : (match stmt 10 [.kif, .lp, .e 0, .rp, .kif, .lp, .e 1, .rp, .e 2, .semi, .kelse, .e 3, .semi] with
    | some (s, []) => S.beq s (.ite 0 (.itel 1 (.expr 2) (.expr 3))) | _ => false) = true := by decide
/-- … so the other tree is not derivable as written (it needs braces), and `ok` says so -/
example : ok (.itel 0 (.ite 1 (.expr 2)) (.expr 3)) = false ∧ ok (.itel 0 (.block [.ite 1 (.expr 2)]) (.expr 3)) = true := by decide
/-- non-vacuity: `L: for (d; e; ) { case e: if (e) do ; while (e); else return; default: break; }` -/
example : ok (.label 7 (.for_ (.decl 0) (some 1) none (.block [.case 2 (.itel 3 (.do_ .empty 4) (.ret none)), .dflt .brk]))) = true := by decide

end PsycheModel.Stmt

/-! ## Expressions: every derivable expression is accepted (C06's all-layers theorem, read as acceptance) -/
namespace PsycheModel.Expr
/-- with the parser's own tables, every expression tree the C11 grammar derives is accepted by the model of `parseExpression` -/
theorem valid_expression_accepted (e : E) (hok : ok realT e = true) : ∃ fuel, (nary realT fuel 1 (pp realT e)).isSome = true := by
  obtain ⟨f, hf⟩ := (all realT realT_sane (pp realT e).length).N e 1 [] (Nat.le_refl _) hok (atLevel_one realT realT_sane e hok)
    (Nat.le_refl _) (stopO_zero realT (Nat.le_refl _) rfl) (NA_nil realT realT_sane) trivial
  exact ⟨f, by simpa using congrArg Option.isSome hf⟩
end PsycheModel.Expr
