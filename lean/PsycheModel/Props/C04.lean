import PsycheModel.StmtCtx
import PsycheModel.Lemmas.GuessRole
import PsycheModel.Lemmas.Stmt
import PsycheModel.Lemmas.Init
import PsycheModel.Lemmas.TagBody
import PsycheModel.Lemmas.Declaration
import PsycheModel.Lemmas.Expr
import PsycheModel.ExprReal
/-!
# C04 — Every valid C11 translation unit is accepted by the parser (the fragments that are proved)

Statement contexts: for statements nested to ANY depth, the parser reports a `case`/`default`/`continue`/`break`
placement diagnostic exactly when C11 forbids the placement — so no valid nesting is ever rejected (and no invalid one
accepted).  The expression fragment is C06's theorem (a printed derivable tree parses back: acceptance), the
declarator fragment C07's inverse printer together with the parser-tree comparison of its run.
-/
namespace PsycheModel.StmtCtx

theorem add_loop (c : Ctx) : (c.add .loop).inSwitch = c.inSwitch ∧ (c.add .loop).inLoop = true := by
  cases c <;> decide

theorem add_switch (c : Ctx) : (c.add .switch).inSwitch = true ∧ (c.add .switch).inLoop = c.inLoop := by
  cases c <;> decide

mutual
/-- **The context diagnostics are exactly C11's constraints**, for every statement of any nesting depth and every context. -/
theorem diag_iff_invalid : ∀ (s : Stmt) (c : Ctx), diag c s = !valid c.inSwitch c.inLoop s
  | .other, _ => rfl
  | .brk, c => by cases c <;> rfl
  | .cont, c => by cases c <;> rfl
  | .case s, c => by
    have ih := diag_iff_invalid s c
    cases c <;> simp [diag, valid, ih, Ctx.inSwitch, Ctx.inLoop]
  | .dflt s, c => by
    have ih := diag_iff_invalid s c
    cases c <;> simp [diag, valid, ih, Ctx.inSwitch, Ctx.inLoop]
  | .label s, c => by simp only [diag, valid]; exact diag_iff_invalid s c
  | .loop s, c => by
    have ih := diag_iff_invalid s (c.add .loop)
    simp only [diag, valid, ih, (add_loop c).1, (add_loop c).2]
  | .switch s, c => by
    have ih := diag_iff_invalid s (c.add .switch)
    simp only [diag, valid, ih, (add_switch c).1, (add_switch c).2]
  | .ifs s, c => by simp only [diag, valid]; exact diag_iff_invalid s c
  | .ifelse s t, c => by
    simp only [diag, valid, diag_iff_invalid s c, diag_iff_invalid t c]
    cases valid c.inSwitch c.inLoop s <;> cases valid c.inSwitch c.inLoop t <;> rfl
  | .block ss, c => by simp only [diag, valid]; exact diagL_iff_invalid ss c
theorem diagL_iff_invalid : ∀ (ss : Stmts) (c : Ctx), diagL c ss = !validL c.inSwitch c.inLoop ss
  | .nil, _ => rfl
  | .cons s rest, c => by
    simp only [diagL, validL, diag_iff_invalid s c, diagL_iff_invalid rest c]
    cases valid c.inSwitch c.inLoop s <;> cases validL c.inSwitch c.inLoop rest <;> rfl
end

/-- **No valid function body is rejected**: a body starts in context `None`. -/
theorem valid_body_accepted (s : Stmt) (h : valid false false s = true) : diag .none s = false := by
  rw [diag_iff_invalid]; simp [Ctx.inSwitch, Ctx.inLoop, h]

/-- the case the suite never reaches: a third construct inside a switch-in-loop keeps both enclosing kinds -/
example : diag .none (.switch (.case (.loop (.block (.cons (.switch (.case .cont)) (.cons (.case .brk) .nil)))))) = false := by decide

end PsycheModel.StmtCtx

/-! ## `guessRoleOfIdentifier`: when is the symbol-table-free guess the reading C takes? -/

namespace PsycheModel.DeclTokens
open PsycheModel.Declarators PsycheModel.GuessRole

/-- a parenthesised group that starts with `*` or `(` opens a declarator: the identifier before it names a type
(the sub-case repaired by commit `4d00643`) -/
theorem guess_group_star_or_paren (ctx : DeclCtx) (kr : Bool) (hctx : ctx ≠ .parameter) (t : K) (ht : t = .star ∨ t = .lparen)
    (rest : List K) : guess ctx kr (.lparen :: t :: rest) = .typedefName := by
  rcases ht with h | h <;> subst h <;> simp [guess, hctx]

/-- **The look-ahead over a whole parenthesised group**: if the group `g` is balanced, holds no semicolon and does not start
with `*` or `(`, the answer depends on `g` only through the running `check`: typedef name iff it ends at -1, i.e. iff the
group is "one identifier, stars and parentheses, nothing else". -/
theorem guess_group (ctx : DeclCtx) (kr : Bool) (hctx : ctx ≠ .parameter) (g rest : List K) (hwf : wf g 0 = true)
    (hhead : g.head? ≠ some .star ∧ g.head? ≠ some .lparen) :
    guess ctx kr (.lparen :: (g ++ .rparen :: rest)) = if foldCheck g 0 = -1 then .typedefName else .declarator := by
  have hscan := scan_wf g 0 1 0 (.rparen :: rest) hwf (Nat.le_refl 1)
  have hh : (g ++ K.rparen :: rest).head? ≠ some .star ∧ (g ++ K.rparen :: rest).head? ≠ some .lparen := by
    cases g with
    | nil => simp
    | cons x xs => simpa using hhead
  simp only [guess, hctx, if_false, hh.1, hh.2, or_self]
  simp only [Nat.add_zero] at hscan
  rw [hscan]
  simp [scan]

/-- a group that starts with a type specifier, qualifier … (anything but an identifier, `*`, `(`) is a parameter list: the
identifier before it is the function being declared with implicit `int` -/
theorem guess_parameter_list (ctx : DeclCtx) (kr : Bool) (hctx : ctx ≠ .parameter) (t : K) (g rest : List K)
    (ht : t ≠ .ident ∧ t ≠ .star ∧ t ≠ .lparen ∧ t ≠ .rparen) (hwf : wf (t :: g) 0 = true) :
    guess ctx kr (.lparen :: ((t :: g) ++ .rparen :: rest)) = .declarator := by
  rw [guess_group ctx kr hctx (t :: g) rest hwf (by simp [ht.2.1, ht.2.2.1])]
  have h1 : (1 : Int) ≤ foldCheck (t :: g) 0 := by
    have : foldCheck (t :: g) 0 = foldCheck g 1 := by
      cases t <;> simp_all [foldCheck]
    rw [this]; exact foldCheck_pos g 1 (Int.le_refl 1)
  have : ¬ foldCheck (t :: g) 0 = -1 := by omega
  simp [this]

/-- declarators for which the guess is guaranteed: led by the identifier itself or by `*`, or — through array / function
suffixes — by a parenthesis that holds the bare identifier or starts with `*` or `(` -/
def safe : Decl → Bool
  | .ident _ => true
  | .abstract => false
  | .ptr _ _ => true
  | .paren (.ident _) => true
  | .paren d => (toks d).head? == some .star || (toks d).head? == some .lparen
  | .bitfield d => safe d
  | .arr d => safe d
  | .fn d _ _ => safe d

/-- **The guess is right on every safe declarator**, of any depth, whatever follows it: in `T d …` the identifier `T` is
taken for a typedef name.  (`T x`, `T *p`, `T (*fp)(int)`, `T (*(*f)(void))[3]`, `T x[2][3]`, `T (x)`, `T ((*p))` …) -/
theorem guess_safe (kr : Bool) : ∀ (d : Decl) (rest : List K), safe d = true → guess .unspecified kr (toks d ++ rest) = .typedefName
  | .ident _, _, _ => by simp [toks, guess]
  | .abstract, _, h => by simp [safe] at h
  | .ptr qs d, _, _ => by simp [toks, guess]
  | .paren (.ident n), rest, _ => by
    have := guess_group .unspecified kr (by decide) [.ident] rest rfl (by decide)
    simpa [toks, foldCheck] using this
  | .paren .abstract, _, h => by simp [safe, toks] at h
  | .paren (.ptr qs d), rest, _ => by simp [toks, guess]
  | .paren (.paren d), rest, _ => by simp [toks, guess]
  | .paren (.bitfield d), rest, h => by
    have h' : (toks (.bitfield d)).head? = some .star ∨ (toks (.bitfield d)).head? = some .lparen := by simpa [safe] using h
    cases hd : toks (.bitfield d) with
    | nil => simp [hd] at h'
    | cons x xs =>
      simp only [hd, List.head?_cons, Option.some.injEq] at h'
      simp only [toks] at hd
      simp only [toks, hd, List.cons_append]
      exact guess_group_star_or_paren .unspecified kr (by decide) x h' _
  | .paren (.arr d), rest, h => by
    have h' : (toks (.arr d)).head? = some .star ∨ (toks (.arr d)).head? = some .lparen := by simpa [safe] using h
    cases hd : toks (.arr d) with
    | nil => simp [hd] at h'
    | cons x xs =>
      simp only [hd, List.head?_cons, Option.some.injEq] at h'
      simp only [toks] at hd
      simp only [toks, hd, List.cons_append]
      exact guess_group_star_or_paren .unspecified kr (by decide) x h' _
  | .paren (.fn d ps ell), rest, h => by
    have h' : (toks (.fn d ps ell)).head? = some .star ∨ (toks (.fn d ps ell)).head? = some .lparen := by simpa [safe] using h
    cases hd : toks (.fn d ps ell) with
    | nil => simp [hd] at h'
    | cons x xs =>
      simp only [hd, List.head?_cons, Option.some.injEq] at h'
      simp only [toks] at hd
      simp only [toks, hd, List.cons_append]
      exact guess_group_star_or_paren .unspecified kr (by decide) x h' _
  | .bitfield d, rest, h => by simpa [toks] using guess_safe kr d rest (by simpa [safe] using h)
  | .arr d, rest, h => by
    have := guess_safe kr d ([.lbrack, .other, .rbrack] ++ rest) (by simpa [safe] using h)
    simpa [toks, List.append_assoc] using this
  | .fn d ps ell, rest, h => by
    have := guess_safe kr d ((.lparen :: (toksPs ps ++ ((if ell then [.comma, .other] else []) ++ [.rparen]))) ++ rest) (by simpa [safe] using h)
    simpa [toks, List.append_assoc] using this

/-- **… and here it is wrong** (the recorded blind spot, C07 `blind:typedef-base-paren-suffix`): `T (x[3]);` — a parenthesis
holding an identifier with a suffix — is taken for an implicit-`int` function declarator; `T (f(int a));` happens to come
out right because the parameter's name brings `check` back to -1, `T (f(int));` does not. -/
theorem C04_witness_blind_spot :
    guess .unspecified false (toks (.paren (.arr (.ident "x"))) ++ [.semicolon]) = .declarator ∧
    guess .unspecified false (toks (.paren (.fn (.ident "f") (.cons "int" (.ident "a") .nil) false)) ++ [.semicolon]) = .typedefName ∧
    guess .unspecified false (toks (.paren (.fn (.ident "f") (.cons "int" .abstract .nil) false)) ++ [.semicolon]) = .declarator := by
  decide

/-- the other direction: `f(int a, char *b) {`, `f() {`, `f(void);` — the identifier is the function being declared -/
example : guess .unspecified false (toks (.fn .abstract (.cons "int" (.ident "a") (.cons "char" (.ptr [] (.ident "b")) .nil)) false) ++ [.lbrace]) = .declarator := by
  decide

end PsycheModel.DeclTokens

/-! ## Statements: every derivable statement is accepted, and parsed to the tree the grammar gives it -/
namespace PsycheModel.Stmt

/-- **Acceptance and shape of statements.**  On the transcription of `parseStatement` / `parseCompoundStatement_AtFirst` and the ten
`parse…Statement_AtFirst` functions (expressions and keyword-started declarations abstracted to one token each): every statement
tree of any size and depth that is derivable as written (`ok`: the first sub-statement of an `if … else` does not end in an `if`
without `else`, 6.8.4.1p3), printed and followed by ANY tokens - which must not begin with `else` if the statement ends in an `if`
without `else` - is parsed back to exactly that tree, leaving exactly those tokens: labels, `case`/`default`, compound statements
with any number of items, `if` with and without `else` (the `else` goes with the nearest `if`), `switch`, `while`, `do`, `for` with
every combination of its three clauses, `goto`, `continue`, `break`, `return` with and without a value. -/
theorem statement_parse_pp (s : S) (rest : List Tok) (hok : ok s = true) (hne : openEnd s = true → NoElse rest) :
    ∃ fuel, stmt fuel (pp s ++ rest) = some (s, rest) := rt s rest hok hne

/-- a compound statement is complete in itself: followed by anything -/
theorem block_parse_pp (xs : List S) (rest : List Tok) (hok : okItems xs = true) :
    ∃ fuel, stmt fuel (pp (.block xs) ++ rest) = some (.block xs, rest) :=
  rt (.block xs) rest (by simpa [ok] using hok) (fun h => by simp [openEnd] at h)

/-- more fuel never changes a result -/
theorem stmt_fuel_irrelevant {f f' : Nat} {ts x} (h : stmt f ts = some x) (hf : f ≤ f') : stmt f' ts = some x :=
  (le_of_le hf).stmt _ _ h

/-- **Bounded recursion, and the model as a decision procedure.**  Every successful parse consumes at least one token, and whatever
ANY fuel yields on a token list, fuel `2 · length + 1` yields: the recursion depth of the statement parser is bounded by (twice) the
number of tokens, and running the model with that fuel decides acceptance. -/
theorem stmt_fuel_bound (ts : List Tok) {f : Nat} {x : S × List Tok} (h : stmt f ts = some x) :
    stmt (2 * ts.length + 1) ts = some x := (fuel_bound ts.length).1 ts (Nat.le_refl _) f x h
theorem stmt_consumes {f : Nat} {ts : List Tok} {s : S} {rest : List Tok} (h : stmt f ts = some (s, rest)) : rest.length < ts.length :=
  (cons_all f).stmt ts s rest h

/-- the round trip with the fuel named -/
theorem statement_parse_pp_fuel (s : S) (rest : List Tok) (hok : ok s = true) (hne : openEnd s = true → NoElse rest) :
    stmt (2 * (pp s ++ rest).length + 1) (pp s ++ rest) = some (s, rest) := by
  obtain ⟨f, hf⟩ := statement_parse_pp s rest hok hne
  exact stmt_fuel_bound _ hf

/-- **the dangling `else`**: `if (a) if (b) s; else t;` is the tree whose INNER `if` has the `else` -/
example : (match stmt 10 [.kif, .lp, .e 0, .rp, .kif, .lp, .e 1, .rp, .e 2, .semi, .kelse, .e 3, .semi] with
    | some (s, []) => S.beq s (.ite 0 (.itel 1 (.expr 2) (.expr 3))) | _ => false) = true := by decide
/-- … so the other tree is not derivable as written (it needs braces), and `ok` says so -/
example : ok (.itel 0 (.ite 1 (.expr 2)) (.expr 3)) = false ∧ ok (.itel 0 (.block [.ite 1 (.expr 2)]) (.expr 3)) = true := by decide
/-- non-vacuity: `L: for (d; e; ) { case e: if (e) do ; while (e); else return; default: break; }` -/
example : ok (.label 7 (.for_ (.decl 0) (some 1) none (.block [.case 2 (.itel 3 (.do_ .empty 4) (.ret none)), .dflt .brk]))) = true := by decide

end PsycheModel.Stmt

/-! ## Expressions: every derivable expression is accepted (C06's all-layers theorem, read as acceptance) -/
/-! ## Initializers (6.7.9): the model of `parseInitializer` and the functions under it (`PsycheModel/Init.lean`) -/
namespace PsycheModel.Init

/-- **Every derivable initializer is accepted, with its own tree**: braces to any depth, designations of any length, a trailing comma
or none, whatever follows. -/
theorem initializer_parse_pp (i : I) (rest : List Tok) (hok : ok true i = true) :
    ∃ f, init f (pp i ++ rest) = some (i, rest) := rt i rest hok

/-- **… and nothing else is** (soundness, for EVERY token string): an answer is a derivable initializer and the tokens consumed are its
printing - `{ }`, `{ , }`, `{ 1, , }`, `.m 1`, `[2] 3`, `. = 1` are all refused. -/
theorem initializer_parse_sound (f : Nat) (ts : List Tok) (i : I) (r : List Tok) (h : init f ts = some (i, r)) :
    ts = pp i ++ r ∧ ok true i = true := (snd_all f).init ts i r h

/-- the fuel only bounds the recursion: `3 · length + 1` reproduces whatever any fuel yields -/
theorem init_fuel_bound (ts : List Tok) {f : Nat} {x : I × List Tok} (h : init f ts = some x) :
    init (3 * ts.length + 1) ts = some x := (fuel_bound ts.length).1 ts (Nat.le_refl _) f x h

theorem init_fuel_irrelevant {ts : List Tok} {f g : Nat} {x y : I × List Tok} (hx : init f ts = some x) (hy : init g ts = some y) : x = y := by
  have h1 := init_fuel_bound ts hx
  have h2 := init_fuel_bound ts hy
  rw [h1] at h2; exact Option.some.inj h2

/-- no fuel in the statement: the driver's parser (fuel `3 · length + 1`) inverts the printing -/
theorem initializer_parse_pp_fuel (i : I) (rest : List Tok) (hok : ok true i = true) :
    init (3 * (pp i ++ rest).length + 1) (pp i ++ rest) = some (i, rest) := by
  obtain ⟨f, hf⟩ := initializer_parse_pp i rest hok
  exact init_fuel_bound _ hf

/-- printing is injective on derivable initializers -/
theorem init_pp_injective (a b : I) (ha : ok true a = true) (hb : ok true b = true) (h : pp a = pp b) : a = b := by
  have h1 := initializer_parse_pp_fuel a [] ha
  have h2 := initializer_parse_pp_fuel b [] hb
  rw [h] at h1
  rw [h1] at h2
  exact (Prod.mk.inj (Option.some.inj h2)).1

/-- every answer consumes at least one token -/
theorem init_consumes_token {f : Nat} {ts : List Tok} {i : I} {r : List Tok} (h : init f ts = some (i, r)) : r.length < ts.length :=
  init_consumes h

/-- non-vacuity: `{ .a = 1, [2] = { 3 }, 4, }` -/
example :
    let i : I := .brace [.desig [.field 0] (.expr 1), .desig [.index 2] (.brace [.expr 3] false), .expr 4] true
    ok true i = true ∧
    pp i = [.lb, .dot, .id 0, .eq, .e 1, .comma, .lk, .e 2, .rk, .eq, .lb, .e 3, .rb, .comma, .e 4, .comma, .rb] ∧
    (init (3 * (pp i).length + 1) (pp i)).map (fun p => I.beq p.1 i && p.2.isEmpty) = some true := by
  intro i
  exact ⟨rfl, rfl, by decide⟩

/-- the refused shapes -/
example : init 50 [.lb, .rb] = none ∧ init 50 [.lb, .comma, .rb] = none ∧ init 50 [.lb, .e 1, .comma, .comma, .rb] = none ∧
    init 50 [.lb, .dot, .id 0, .e 1, .rb] = none ∧ init 50 [.lb, .dot, .eq, .e 1, .rb] = none := by decide

end PsycheModel.Init

/-! ## struct / union / enum specifiers (6.7.2.1, 6.7.2.2): the model of `parseTagTypeSpecifier_AtFirst` and the loops under it
(`PsycheModel/TagBody.lean`) -/
namespace PsycheModel.TagBody

theorem ppM_length_pos (m : M) : 0 < (ppM m).length := by
  cases m with
  | incomplete ss => simp [ppM]
  | field ss ds =>
    have : 0 < (ppMDs ds).length := by
      match ds with
      | [] => simp [ppMDs]
      | [d] => simp [ppMDs]
      | d :: d' :: r => simp [ppMDs]; omega
    simp [ppM]; omega

theorem ppMs_length (ms : List M) : ms.length ≤ (ppMs ms).length := by
  induction ms with
  | nil => simp
  | cons m ms ih => have := ppM_length_pos m; simp [ppMs]; omega

theorem ok_acc (t : T) (h : ok t = true) : acc t = true := by
  cases t <;> simp_all [ok, acc]

/-- **Every specifier C11 derives is accepted, with its own tree** (any number of members, declarators, bit-fields, enumerators; with
or without a tag; a trailing comma or none) - the fuel being the number of tokens, as in the driver. -/
theorem tag_parse_pp (t : T) (rest : List Tok) (hok : ok t = true)
    (hrest : (∃ tg, t = .suRef tg ∨ t = .enRef tg) → NoLb rest) :
    tag (pp t ++ rest).length (pp t ++ rest) = some (t, rest) := by
  refine TagBody.tag_pp t rest _ (ok_acc t hok) ?_ hrest
  intro tg ms e
  subst e
  have := ppMs_length ms
  simp [pp]; omega

/-- **Whatever is accepted is a printing** (soundness, for EVERY token string and fuel): the tokens consumed are the printing of the
tree, every member has a specifier and every field a declarator. -/
theorem tag_parse_sound (f : Nat) (ts : List Tok) (t : T) (r : List Tok) (h : tag f ts = some (t, r)) :
    ts = pp t ++ r ∧ acc t = true := TagBody.tag_sound f ts t r h

theorem ref_rest_noLb (f : Nat) (tg : Nat) (r : List Tok) :
    (tag f (.ksu :: .id tg :: r) = some (.suRef tg, r) → NoLb r) ∧ (tag f (.kenum :: .id tg :: r) = some (.enRef tg, r) → NoLb r) := by
  match r with
  | [] => exact ⟨fun _ => trivial, fun _ => trivial⟩
  | .lb :: r' =>
    constructor
    · intro h; exfalso; simp only [tag] at h; split at h <;> simp_all
    · intro h; exfalso; simp only [tag] at h; split at h <;> simp_all
  | .ksu :: _ | .kenum :: _ | .id _ :: _ | .sp _ :: _ | .dcl _ :: _ | .e _ :: _ | .rb :: _
  | .semi :: _ | .comma :: _ | .colon :: _ | .eq :: _ => exact ⟨fun _ => trivial, fun _ => trivial⟩

/-- the fuel (one unit per member) only bounds the loop: the number of tokens reproduces whatever any fuel yields -/
theorem tag_fuel_free (f : Nat) (ts : List Tok) (x : T × List Tok) (h : tag f ts = some x) : tag ts.length ts = some x := by
  obtain ⟨t, r⟩ := x
  obtain ⟨h1, h2⟩ := TagBody.tag_sound f ts t r h
  have hr : (∃ tg, t = .suRef tg ∨ t = .enRef tg) → NoLb r := by
    rintro ⟨tg, rfl | rfl⟩
    · subst h1; exact (ref_rest_noLb f tg r).1 (by simpa [pp] using h)
    · subst h1; exact (ref_rest_noLb f tg r).2 (by simpa [pp] using h)
  rw [h1]
  refine TagBody.tag_pp t r _ h2 ?_ hr
  intro tg ms e
  subst e
  have := ppMs_length ms
  simp [pp]; omega

/-- **The parser accepts a little more than C11 derives** (witnesses; counted on the real parser by the check): an empty enumerator
list and an empty member list (the latter a GNU extension) - without a diagnostic.  Enumerators without a comma between them were a
third case until the parser was repaired (`enum e { A B }`); they are refused now, by the model as by the parser. -/
theorem accepts_more_than_C11 :
    (tag 9 [.kenum, .id 0, .lb, .rb] = some (.en (some 0) [], []) ∧ ok (.en (some 0) []) = false) ∧
    (tag 9 [.ksu, .id 0, .lb, .rb] = some (.su (some 0) [], []) ∧ ok (.su (some 0) []) = false) ∧
    tag 9 [.kenum, .id 0, .lb, .id 1, .id 2, .rb] = none ∧ tag 9 [.kenum, .lb, .id 1, .eq, .e 0, .id 2, .comma, .rb] = none := by decide

/-- … and that is all: an accepted specifier with a non-empty body is derivable -/
theorem accepted_nonempty_is_C11 (f : Nat) (ts : List Tok) (t : T) (r : List Tok) (h : tag f ts = some (t, r))
    (hne : ∀ tg, t ≠ .su tg [] ∧ t ≠ .en tg []) : ok t = true := by
  have ha := (TagBody.tag_sound f ts t r h).2
  cases t with
  | suRef _ => rfl
  | enRef _ => rfl
  | su tg ms =>
    cases ms with
    | nil => exact absurd rfl (hne tg).1
    | cons m ms' => simpa [ok, acc] using ha
  | en tg es =>
    cases es with
    | nil => exact absurd rfl (hne tg).2
    | cons x xs => simpa [ok, acc] using ha

/-- non-vacuity: `struct s { int x, *p : 3; unsigned : 2; int ; }` and `enum e { A, B = 1, C, }` -/
example :
    let t : T := .su (some 0) [.field [1] [.plain 2, .bitfield (some 3) 4], .field [5] [.bitfield none 6], .incomplete [7]]
    let u : T := .en (some 0) [⟨1, none, true⟩, ⟨2, some 3, true⟩, ⟨4, none, true⟩]
    ok t = true ∧ ok u = true ∧ tag (pp t).length (pp t) = some (t, []) ∧ tag (pp u).length (pp u) = some (u, []) := by
  intro t u
  exact ⟨rfl, rfl, by decide, by decide⟩

end PsycheModel.TagBody

/-! ## Declarations above the declarators (6.7, 6.9.1): the model of `parseDeclarationOrFunctionDefinition` (`PsycheModel/Declaration.lean`) -/
namespace PsycheModel.Declaration
open PsycheModel.Declarators

/-- **Whatever the model accepts prints back, and every accepted shape is accepted** (no fuel: the loops are structural). -/
theorem declaration_parse_pp (r : R) (rest : List Tok) (h : acc r = true) : declaration (pp r ++ rest) = some (r, rest) :=
  Declaration.declaration_pp r rest h

theorem declaration_parse_sound (ts : List Tok) (r : R) (rest : List Tok) (h : declaration ts = some (r, rest)) :
    ts = pp r ++ rest ∧ acc r = true := Declaration.declaration_sound ts r rest h

/-- C's type constraints on a declarator as far as they matter here (6.7.6.3p1, 6.7.6.2p1): what a function derivation is applied to is the
name itself or a pointer (no function returning a function or an array, no array of functions); no bit-field, no abstract declarator -/
def wfType : Decl → Bool
  | .ident _ => true
  | .abstract => false
  | .bitfield _ => false
  | .paren d => wfType d
  | .ptr _ d => wfType d
  | .arr d => wfType d
  | .fn d _ _ => wfType d && (match unparen d with | .ident _ => true | .ptr _ _ => true | _ => false)

theorem fnNextToName_unparen (b : Bool) : ∀ d : Decl, fnNextToName b d = fnNextToName b (unparen d)
  | .paren d => by simp only [fnNextToName, unparen]; exact fnNextToName_unparen b d
  | .ident _ | .abstract | .ptr _ _ | .arr _ | .fn _ _ _ | .bitfield _ => by simp [unparen]

theorem wfType_unparen : ∀ d : Decl, wfType d = true → wfType (unparen d) = true
  | .paren d, h => by simp only [unparen]; exact wfType_unparen d (by simpa [wfType] using h)
  | .ident _, h | .abstract, h | .ptr _ _, h | .arr _, h | .fn _ _ _, h | .bitfield _, h => by simpa [unparen] using h

theorem unparen_not_paren : ∀ (e x : Decl), unparen e ≠ .paren x
  | .paren e, x => by simp only [unparen]; exact unparen_not_paren e x
  | .ident _, _ | .abstract, _ | .ptr _ _, _ | .arr _, _ | .fn _ _ _, _ | .bitfield _, _ => by simp [unparen]

/-- **The `=` switch never refuses a valid initializer**: a declarator that satisfies C's type constraints and declares an OBJECT (the
derivation next to the name is not a function, 6.7.9p3) is one the parser lets be initialized - whatever its depth and parentheses. -/
theorem object_declarator_may_be_initialized (d : Decl) (hwf : wfType d = true) (hobj : isFunDef d = false) : initOK d = true := by
  unfold initOK
  have hw := wfType_unparen d hwf
  have ho : fnNextToName false (unparen d) = false := by rw [← fnNextToName_unparen]; exact hobj
  cases hu : unparen d with
  | ident n => rfl
  | ptr q x => rfl
  | arr x => rfl
  | abstract => rw [hu] at hw; simp [wfType] at hw
  | bitfield x => rw [hu] at hw; simp [wfType] at hw
  | paren x => exact absurd hu (unparen_not_paren d x)
  | fn inner ps e =>
    rw [hu] at hw ho
    simp only [wfType, Bool.and_eq_true] at hw
    cases hi : unparen inner with
    | ptr q x => simp [hi]
    | ident n =>
      exfalso
      simp only [fnNextToName] at ho
      rw [fnNextToName_unparen, hi] at ho
      simp [fnNextToName] at ho
    | abstract | bitfield _ | paren _ | arr _ | fn _ _ _ => rw [hi] at hw; simp at hw

/-- … so every declaration C11 derives from these pieces is accepted with its own tree: specifiers, then init-declarators whose
initialized declarators declare objects, then `;` - or one function declarator and a body. -/
theorem valid_declaration_accepted (ss : List Spec) (ids : List ID) (rest : List Tok) (hss : ss ≠ []) (hne : ids ≠ [])
    (hos : okSpecs ss = true) (hids : ∀ x ∈ ids, x.init.isSome = true → wfType x.d = true ∧ isFunDef x.d = false) :
    declaration (pp (if hasTypedef ss then .typedefDecl ss ids else .varDecl ss ids) ++ rest) =
      some (if hasTypedef ss then .typedefDecl ss ids else .varDecl ss ids, rest) := by
  apply declaration_parse_pp
  have hok : ids.all okID = true := by
    simp only [List.all_eq_true]
    intro x hx
    cases hi : x.init with
    | none => simp [okID, hi]
    | some i =>
      obtain ⟨h1, h2⟩ := hids x hx (by simp [hi])
      simp [okID, object_declarator_may_be_initialized x.d h1 h2]
  by_cases htd : hasTypedef ss = true
  · simp [htd, acc, hok, hss, hne, hos]
  · simp [htd, acc, hok, hss, hne, hos]

/-- **The specifiers come in any order (6.7p1)**: a specifier list with ONE type specifier - a keyword or a tag declaration - anywhere among
any number of other specifiers (storage classes, qualifiers, function and alignment specifiers) before AND after it is a list the loop
delivers; so `struct S { … } static const x;` is accepted like `static const struct S { … } x;`. -/
theorem one_type_specifier_anywhere (before after : List Spec) (t : Spec) (hb : noType before = true) (ha : noType after = true) :
    okSpecs (before ++ t :: after) = true := by
  induction before with
  | nil =>
    cases t with
    | tagd n => simpa [okSpecs] using ha
    | kw n | tdef | ty n =>
      simp only [List.nil_append, okSpecs]
      clear hb
      induction after with
      | nil => rfl
      | cons a as ih => cases a <;> simp_all [okSpecs, noType]
  | cons b bs ih => cases b <;> simp_all [okSpecs, noType]

theorem noType_with_tag (bs post : List Spec) (n : Nat) : noType (bs ++ .tagd n :: post) = false := by
  induction bs with
  | nil => rfl
  | cons b bs ih => cases b <;> simp [noType, ih]

/-- … and a type specifier AFTER a tag declaration is what the loop stops at (`struct x { int y; } int z;` is diagnosed: the parser's own
test 0434): no accepted declaration has one -/
theorem no_type_specifier_after_tag_declaration (ts : List Tok) (r : R) (rest : List Tok) (h : declaration ts = some (r, rest))
    (pre post : List Spec) (n : Nat) (t : Spec)
    (hs : (match r with | .incomplete ss | .typedefDecl ss _ | .varDecl ss _ | .funDef ss _ _ => ss) = pre ++ .tagd n :: post) (ht : t ∈ post) :
    (∃ k, t = .kw k) ∨ t = .tdef := by
  have ha := (declaration_parse_sound ts r rest h).2
  have hk : okSpecs (pre ++ .tagd n :: post) = true := by
    rw [← hs]
    cases r <;> simp only [acc, Bool.and_eq_true] at ha <;> simp [ha]
  have hpost : noType post = true := by
    clear hs
    induction pre with
    | nil => simpa [okSpecs] using hk
    | cons b bs ih => cases b <;> simp_all [okSpecs, noType_with_tag]
  clear hk hs
  induction post with
  | nil => simp at ht
  | cons a as ih =>
    cases a with
    | kw k => simp only [noType] at hpost; rcases List.mem_cons.mp ht with rfl | h' ; exact .inl ⟨k, rfl⟩; exact ih h' hpost
    | tdef => simp only [noType] at hpost; rcases List.mem_cons.mp ht with rfl | h' ; exact .inr rfl; exact ih h' hpost
    | ty k => simp [noType] at hpost
    | tagd k => simp [noType] at hpost

/-- **Translation units (6.9)**: every sequence of accepted external declarations (declarations, function definitions, stray `;`) is parsed
back to exactly that sequence, to the end of the text - with the number of declarations as fuel (the C++ loops until the end-of-file token). -/
theorem unit_parse_pp (rs : List R) (h : rs.all accU = true) : unit (rs.length + 1) (ppU rs) = some rs :=
  Declaration.unit_pp rs _ h (Nat.lt_succ_self _)

/-- … and whatever the unit loop answers is the printing of accepted declarations, one per unit of fuel -/
theorem unit_parse_sound (f : Nat) (ts : List Tok) (rs : List R) (h : unit f ts = some rs) :
    ts = ppU rs ∧ rs.all accU = true := ⟨(Declaration.unit_sound f ts rs h).1, (Declaration.unit_sound f ts rs h).2.1⟩

/-- the fuel only bounds the loop: the number of tokens (+ 1) reproduces whatever any fuel yields -/
theorem unit_fuel_free (f : Nat) (ts : List Tok) (rs : List R) (h : unit f ts = some rs) : unit (ts.length + 1) ts = some rs := by
  obtain ⟨h1, h2, _⟩ := Declaration.unit_sound f ts rs h
  have hlen : ∀ xs : List R, xs.length ≤ (ppU xs).length := by
    intro xs
    induction xs with
    | nil => simp [ppU]
    | cons r xs ih =>
      have hp : 0 < (pp r).length := by cases r <;> simp [pp] <;> omega
      simp only [ppU, List.length_cons, List.length_append]; omega
  have hlen := hlen rs
  rw [h1]
  exact Declaration.unit_pp rs _ h2 (by omega)

/-- 6.7.9p3 the other way round, as far as the parser goes: a plain function declarator with an initializer is refused -/
theorem function_declarator_takes_no_initializer (n : String) (ps : Params) (e : Bool) (qs : List Qual) :
    initOK (.fn (.ident n) ps e) = false ∧ initOK (.paren (.fn (.paren (.ident n)) ps e)) = false ∧
    initOK (.fn (.paren (.ptr qs (.ident n))) ps e) = true := by
  simp [initOK, unparen]

/-- non-vacuity: `typedef int T, *PT;`, `int x = 1, (*fp)(void) = 0, a[2];`, `int *f(void) { }`; and the refused `int f(void) = 0;`,
`int x, f(void) { }`, `int *f(void) = 0 { }` (the last one was accepted by the parser until it was repaired) -/
example :
    (declaration [.tdef, .sp 0, .dcl (.ident "T"), .comma, .dcl (.ptr [] (.ident "PT")), .semi]).isSome = true ∧
    (declaration [.sp 0, .dcl (.ident "x"), .eq, .ini 1, .comma, .dcl (.fn (.paren (.ptr [] (.ident "fp"))) .nil false), .eq, .ini 0, .comma,
        .dcl (.arr (.ident "a")), .semi]).isSome = true ∧
    (declaration [.sp 0, .dcl (.ptr [] (.fn (.ident "f") .nil false)), .body 0]).isSome = true ∧
    (declaration [.sp 0, .dcl (.fn (.ident "f") .nil false), .eq, .ini 0, .semi]).isNone = true ∧
    (declaration [.sp 0, .dcl (.ident "x"), .comma, .dcl (.fn (.ident "f") .nil false), .body 0]).isNone = true ∧
    (declaration [.sp 0, .dcl (.ptr [] (.fn (.ident "f") .nil false)), .eq, .ini 0, .body 0]).isNone = true := by
  simp [declaration, specs, idl, initOK, isFunDef, fnNextToName, unparen, hasTypedef]

/-- does the list contain a tag declaration? -/
def hasTag : List Spec → Bool
  | [] => false
  | .tagd _ :: _ => true
  | _ :: r => hasTag r

/-- the rest does not begin with a specifier the loop still takes AFTER a tag declaration -/
def NoSpecT : List Tok → Prop
  | .sp _ :: _ => False
  | .tdef :: _ => False
  | _ => True

theorem specsT_maximal : ∀ ts : List Tok, NoSpecT (specsT ts).2
  | [] => trivial
  | .sp _ :: r => by simp only [specsT]; exact specsT_maximal r
  | .tdef :: r => by simp only [specsT]; exact specsT_maximal r
  | .ty _ :: _ | .tagd _ :: _ | .dcl _ :: _ | .eq :: _ | .ini _ :: _ | .comma :: _ | .semi :: _ | .body _ :: _ => trivial

/-- **The specifier loop is greedy**: it stops only at a token it cannot take - before a tag declaration, at the first token that is no
specifier at all; after one, at the first token that is not a non-type specifier.  (So the split of a declaration into specifiers and
declarators is decided by the tokens alone.) -/
theorem specs_maximal : ∀ ts : List Tok,
    (hasTag (specs ts).1 = false → NoSpec (specs ts).2) ∧ (hasTag (specs ts).1 = true → NoSpecT (specs ts).2)
  | [] => ⟨fun _ => trivial, fun _ => trivial⟩
  | .sp _ :: r => by simp only [specs, hasTag]; exact specs_maximal r
  | .tdef :: r => by simp only [specs, hasTag]; exact specs_maximal r
  | .ty _ :: r => by simp only [specs, hasTag]; exact specs_maximal r
  | .tagd _ :: r => by
    simp only [specs, hasTag]
    exact ⟨fun h => by simp at h, fun _ => specsT_maximal r⟩
  | .dcl _ :: _ | .eq :: _ | .ini _ :: _ | .comma :: _ | .semi :: _ | .body _ :: _ => ⟨fun _ => trivial, fun h => by simp [specs, hasTag] at h⟩

/-- non-vacuity: `struct S { … } static const s;`, `struct T { … } typedef TT;`, `static struct S { … } const *p;` accepted; `struct x { … } int z;`
and two tag declarations refused -/
example :
    (declaration [.tagd 0, .sp 0, .sp 1, .dcl (.ident "s"), .semi]).isSome = true ∧
    (declaration [.tagd 0, .tdef, .dcl (.ident "TT"), .semi]).isSome = true ∧
    (declaration [.sp 0, .tagd 0, .sp 1, .dcl (.ptr [] (.ident "p")), .semi]).isSome = true ∧
    (declaration [.ty 0, .tagd 0, .dcl (.ident "z"), .semi]).isSome = true ∧
    (declaration [.tagd 0, .ty 0, .dcl (.ident "z"), .semi]).isNone = true ∧
    (declaration [.tagd 0, .tagd 1, .dcl (.ident "z"), .semi]).isNone = true := by
  simp [declaration, specs, specsT, idl, hasTypedef]

end PsycheModel.Declaration

/-! ## FIRST sets, REGENERATED from the source on every run (`translators/facts.py` -> `Generated/Facts.lean`): whatever keyword
`parseDeclarationSpecifiers` takes as a specifier must send a statement - and the first clause of a `for` - to the declaration parser
(6.8.2: a block item is a declaration or a statement; 6.8.5: the first clause of a `for` may be a declaration).  `_Alignas` was missing from
both lists on the pinned tree: `{ _Alignas(8) int z; }` drew "expected expression" (repaired). -/
namespace PsycheModel.Generated.Facts
open PsycheModel.Generated

/-- the project's own quantifier extension and the storage-class keyword a `for` clause cannot carry meaningfully are set aside -/
def blockDeclExempt : List Kind := [.Keyword_ExtPSY__Exists, .Keyword_ExtPSY__Forall]

theorem every_specifier_keyword_begins_a_block_declaration :
    declSpecStart.all (fun k => stmtDeclStart.contains k || blockDeclExempt.contains k) = true := by decide

theorem every_specifier_keyword_begins_a_for_declaration :
    declSpecStart.all (fun k => forDeclStart.contains k || blockDeclExempt.contains k) = true := by decide

/-- … and the two statement-level lists agree up to `_Static_assert` (a declaration, but not one a `for` clause takes) -/
theorem statement_and_for_lists_agree :
    stmtDeclStart.all (fun k => forDeclStart.contains k || k == .Keyword__Static_assert) = true ∧
    forDeclStart.all (fun k => stmtDeclStart.contains k) = true := by decide

/-- after `(`, every keyword a specifier-qualifier list may begin with starts a type name (cast, compound literal); storage classes, attributes and
asm labels aside -/
theorem every_type_keyword_starts_a_type_name :
    specQualStart.all (fun k => castTypeStart.contains k || [Kind.Keyword_ExtGNU___asm__, .Keyword_ExtGNU___attribute__, .Keyword_static].contains k) = true := by decide

/-- generated obligation: every statement keyword of 6.8 (and `{`) is handed to the rule of its own statement - the rule the statement model
`Stmt.stmt` transcribes under that keyword -/
theorem statement_dispatch_is_C11 :
    stmtDispatch = [(.OpenBraceToken, "parseCompoundStatement_AtFirst"), (.Keyword_if, "parseIfStatement_AtFirst"),
      (.Keyword_switch, "parseSwitchStatement_AtFirst"), (.Keyword_case, "parseLabeledStatement_AtFirst"),
      (.Keyword_default, "parseLabeledStatement_AtFirst"), (.Keyword_while, "parseWhileStatement_AtFirst"), (.Keyword_do, "parseDoStatement_AtFirst"),
      (.Keyword_for, "parseForStatement_AtFirst"), (.Keyword_goto, "parseGotoStatement_AtFirst"), (.Keyword_continue, "parseContinueStatement_AtFirst"),
      (.Keyword_break, "parseBreakStatement_AtFirst"), (.Keyword_return, "parseReturnStatement_AtFirst")] := by decide

end PsycheModel.Generated.Facts

namespace PsycheModel.Expr
/-- with the parser's own tables, every expression tree the C11 grammar derives is accepted by the model of `parseExpression` -/
theorem valid_expression_accepted (e : E) (hok : ok realT e = true) : ∃ fuel, (nary realT fuel 1 (pp realT e)).isSome = true := by
  obtain ⟨f, hf⟩ := (all realT realT_sane (pp realT e).length).N e 1 [] (Nat.le_refl _) hok (atLevel_one realT realT_sane e hok)
    (Nat.le_refl _) (stopO_zero realT (Nat.le_refl _) rfl) (NA_nil realT realT_sane) trivial
  exact ⟨f, by simpa using congrArg Option.isSome hf⟩
end PsycheModel.Expr
