import PsycheModel.StmtCtx
/-!
# C04 — Every valid C11 translation unit is accepted by the parser (the fragments that are proved)

Statement contexts: for statements nested to ANY depth, the parser reports a `case`/`default`/`continue`/`break`
placement diagnostic exactly when C11 forbids the placement — so no valid nesting is ever rejected (and no invalid one
accepted).  The expression fragment is C06's theorem (a printed derivable tree parses back: acceptance), the
declarator fragment C07's inverse printer together with the parser-tree comparison of its run.
-/
namespace PsycheModel.StmtCtx

theorem add_loop (c : Ctx) : (c.add .loop).inSwitch = c.inSwitch ∧ (c.add .loop).inLoop = true := by
  cases c <;> decide

theorem add_switch (c : Ctx) : (c.add .switch).inSwitch = true ∧ (c.add .switch).inLoop = c.inLoop := by
  cases c <;> decide

mutual
/-- **The context diagnostics are exactly C11's constraints**, for every statement of any nesting depth and every context. -/
theorem diag_iff_invalid : ∀ (s : Stmt) (c : Ctx), diag c s = !valid c.inSwitch c.inLoop s
  | .other, _ => rfl
  | .brk, c => by cases c <;> rfl
  | .cont, c => by cases c <;> rfl
  | .case s, c => by
    have ih := diag_iff_invalid s c
    cases c <;> simp [diag, valid, ih, Ctx.inSwitch, Ctx.inLoop]
  | .dflt s, c => by
    have ih := diag_iff_invalid s c
    cases c <;> simp [diag, valid, ih, Ctx.inSwitch, Ctx.inLoop]
  | .label s, c => by simp only [diag, valid]; exact diag_iff_invalid s c
  | .loop s, c => by
    have ih := diag_iff_invalid s (c.add .loop)
    simp only [diag, valid, ih, (add_loop c).1, (add_loop c).2]
  | .switch s, c => by
    have ih := diag_iff_invalid s (c.add .switch)
    simp only [diag, valid, ih, (add_switch c).1, (add_switch c).2]
  | .ifs s, c => by simp only [diag, valid]; exact diag_iff_invalid s c
  | .ifelse s t, c => by
    simp only [diag, valid, diag_iff_invalid s c, diag_iff_invalid t c]
    cases valid c.inSwitch c.inLoop s <;> cases valid c.inSwitch c.inLoop t <;> rfl
  | .block ss, c => by simp only [diag, valid]; exact diagL_iff_invalid ss c
theorem diagL_iff_invalid : ∀ (ss : Stmts) (c : Ctx), diagL c ss = !validL c.inSwitch c.inLoop ss
  | .nil, _ => rfl
  | .cons s rest, c => by
    simp only [diagL, validL, diag_iff_invalid s c, diagL_iff_invalid rest c]
    cases valid c.inSwitch c.inLoop s <;> cases validL c.inSwitch c.inLoop rest <;> rfl
end

/-- **No valid function body is rejected**: a body starts in context `None`. -/
theorem valid_body_accepted (s : Stmt) (h : valid false false s = true) : diag .none s = false := by
  rw [diag_iff_invalid]; simp [Ctx.inSwitch, Ctx.inLoop, h]

/-- the case the suite never reaches: a third construct inside a switch-in-loop keeps both enclosing kinds -/
example : diag .none (.switch (.case (.loop (.block (.cons (.switch (.case .cont)) (.cons (.case .brk) .nil)))))) = false := by decide

end PsycheModel.StmtCtx
