import PsycheModel.Lex
import PsycheModel.KeywordSpec
/-!
# C11 6.4 as data and predicates (the specification side of C05)
-/
namespace PsycheModel.LexSpec
open PsycheModel.Generated (Kind)
open PsycheModel.Lex

/-- 6.4.6 Punctuators, with the digraphs of 6.4.6p3 (same kinds as the tokens they stand for), plus the four
bracket/brace trigraphs the lexer knows -/
def punctuators : List (List Nat × Kind) := [
  (w!"[", .OpenBracketToken), (w!"]", .CloseBracketToken), (w!"(", .OpenParenToken), (w!")", .CloseParenToken),
  (w!"{", .OpenBraceToken), (w!"}", .CloseBraceToken), (w!".", .DotToken), (w!"->", .ArrowToken),
  (w!"++", .PlusPlusToken), (w!"--", .MinusMinusToken), (w!"&", .AmpersandToken), (w!"*", .AsteriskToken),
  (w!"+", .PlusToken), (w!"-", .MinusToken), (w!"~", .TildeToken), (w!"!", .ExclamationToken),
  (w!"/", .SlashToken), (w!"%", .PercentToken), (w!"<<", .LessThanLessThanToken), (w!">>", .GreaterThanGreaterThanToken),
  (w!"<", .LessThanToken), (w!">", .GreaterThanToken), (w!"<=", .LessThanEqualsToken), (w!">=", .GreaterThanEqualsToken),
  (w!"==", .EqualsEqualsToken), (w!"!=", .ExclamationEqualsToken), (w!"^", .CaretToken), (w!"|", .BarToken),
  (w!"&&", .AmpersandAmpersandToken), (w!"||", .BarBarToken), (w!"?", .QuestionToken), (w!":", .ColonToken),
  (w!";", .SemicolonToken), (w!"...", .EllipsisToken), (w!"=", .EqualsToken), (w!"*=", .AsteriskEqualsToken),
  (w!"/=", .SlashEqualsToken), (w!"%=", .PercentEqualsToken), (w!"+=", .PlusEqualsToken), (w!"-=", .MinusEqualsToken),
  (w!"<<=", .LessThanLessThanEqualsToken), (w!">>=", .GreaterThanGreaterThanEqualsToken), (w!"&=", .AmpersandEqualsToken),
  (w!"^=", .CaretEqualsToken), (w!"|=", .BarEqualsToken), (w!",", .CommaToken), (w!"#", .HashToken), (w!"##", .HashHashToken),
  (w!"<:", .OpenBracketToken), (w!":>", .CloseBracketToken), (w!"<%", .OpenBraceToken), (w!"%>", .CloseBraceToken),
  (w!"%:", .HashToken), (w!"%:%:", .HashHashToken),
  (w!"??(", .OpenBracketToken), (w!"??)", .CloseBracketToken), (w!"??<", .OpenBraceToken), (w!"??>", .CloseBraceToken)]

/-- the lexical elements that can extend a punctuator: the longer punctuators and the two comment openers
(a digit after a period — `.5` is a pp-number — is a separate side condition) -/
def longer : List (List Nat) := punctuators.map (·.1) ++ [w!"//", w!"/*"]

/-- what must not follow `p` for `p` to be the longest match -/
def extensions (p : List Nat) : List (List Nat) :=
  (longer.filter (fun q => p.isPrefixOf q && p.length < q.length)).map (·.drop p.length)

/-- does the text start with `x`? -/
def startsWith : List Nat → List Nat → Bool
  | _, [] => true
  | [], _ :: _ => false
  | b :: r, a :: x => b == a && startsWith r x

/-- ASCII text as code points -/
def asS (w : List Nat) : S := w.map asciiCp'
where asciiCp' (b : Nat) : Cp := ⟨b, [b]⟩

end PsycheModel.LexSpec
