/-!
# Model of type canonicalisation and typedef-name resolution (property C12)

* `canonicalize` ↦ `TypeCanonicalizer::canonicalize` (`C/sema/TypeCanonicalizer.cpp`): every holder of a type is
  rewritten — array element, function return and parameters, pointer referent, qualified operand; basic and void
  leaves are replaced by the compilation's canonical objects (`canon := true`); a typedef name is looked up
  (`look`, the scope search of C10) and replaced by the introduced type of the declaration found, or by the error type.
* `resolve` ↦ `TypedefNameTypeResolver::resolve` (`C/sema/TypedefNameTypeResolver.cpp`), as a function returning the
  rewritten type: recursion through the structure and through `declaration()->synonymizedType()`; a qualified type whose
  operand resolves to a qualified type takes over its qualifiers and its operand; the guard against a typedef defined
  in terms of itself is the fuel (0 ↦ error type).
-/
namespace PsycheModel.Typedefs

mutual
inductive Ty where
  | basic (k : Nat) (canon : Bool)        -- `BasicType`; `canon`: it is the compilation's canonical object
  | void (canon : Bool)
  | error
  | tag (n : Nat)                          -- a tag type bound to declaration `n`
  | td (n : Nat)                           -- a typedef-name type bound to typedef declaration `n`
  | tdName (name : Nat)                    -- a typedef-name type as the binder leaves it: only the identifier
  | ptr (t : Ty)
  | arr (t : Ty)
  | fn (r : Ty) (ps : TyList) (variadic : Bool)
  | qual (c v : Bool) (t : Ty)
inductive TyList where
  | nil
  | cons (t : Ty) (rest : TyList)
end

instance : Inhabited Ty := ⟨.error⟩

/-! ## canonicalisation -/

mutual
def canonicalize (look : Nat → Option Nat) : Ty → Ty
  | .basic k _ => .basic k true
  | .void _ => .void true
  | .error => .error
  | .tag n => .tag n
  | .td n => .td n
  | .tdName name => match look name with | some d => .td d | none => .error
  | .ptr t => .ptr (canonicalize look t)
  | .arr t => .arr (canonicalize look t)
  | .fn r ps v => .fn (canonicalize look r) (canonicalizeL look ps) v
  | .qual c v t => .qual c v (canonicalize look t)
def canonicalizeL (look : Nat → Option Nat) : TyList → TyList
  | .nil => .nil
  | .cons t rest => .cons (canonicalize look t) (canonicalizeL look rest)
end

mutual
/-- every basic / void leaf is the canonical object and no unbound typedef name is left -/
def Canonical : Ty → Prop
  | .basic _ c => c = true
  | .void c => c = true
  | .error => True
  | .tag _ => True
  | .td _ => True
  | .tdName _ => False
  | .ptr t => Canonical t
  | .arr t => Canonical t
  | .fn r ps _ => Canonical r ∧ CanonicalL ps
  | .qual _ _ t => Canonical t
def CanonicalL : TyList → Prop
  | .nil => True
  | .cons t rest => Canonical t ∧ CanonicalL rest
end

/-! ## resolution -/

/-- a qualified type over an operand that resolved to `r` -/
def requal (c v : Bool) (r : Ty) : Ty :=
  match r with
  | .qual c' v' u => .qual (c || c') (v || v') u
  | _ => .qual c v r

mutual
/-- the structural part of `resolve`; `f` says what a typedef name stands for -/
def mapTd (f : Nat → Ty) : Ty → Ty
  | .basic k c => .basic k c
  | .void c => .void c
  | .error => .error
  | .tag n => .tag n
  | .td n => f n
  | .tdName _ => .error                       -- `if (!tydefDecl) return canonicalErrorType()`
  | .ptr t => .ptr (mapTd f t)
  | .arr t => .arr (mapTd f t)
  | .fn r ps v => .fn (mapTd f r) (mapTdL f ps) v
  | .qual c v t => requal c v (mapTd f t)
def mapTdL (f : Nat → Ty) : TyList → TyList
  | .nil => .nil
  | .cons t rest => .cons (mapTd f t) (mapTdL f rest)
end

/-- `env d` = the (canonicalised) synonymized type of typedef declaration `d` -/
def resolve (env : Nat → Option Ty) : Nat → Ty → Ty
  | 0, t => mapTd (fun _ => .error) t
  | fuel + 1, t => mapTd (fun n => match env n with | some u => resolve env fuel u | none => .error) t

/-! ## Specification: what a type denotes once its typedef names are read through (C11 6.7.8, 6.7.3p5) -/

mutual
/-- `Expands env t r`: `t` denotes `r`, a type without typedef names; derivations are kept, qualifiers accumulate -/
inductive Expands (env : Nat → Option Ty) : Ty → Ty → Prop where
  | basic (k c) : Expands env (.basic k c) (.basic k c)
  | void (c) : Expands env (.void c) (.void c)
  | error : Expands env .error .error
  | tag (n) : Expands env (.tag n) (.tag n)
  | td {n u r} : env n = some u → Expands env u r → Expands env (.td n) r
  | ptr {t r} : Expands env t r → Expands env (.ptr t) (.ptr r)
  | arr {t r} : Expands env t r → Expands env (.arr t) (.arr r)
  | fn {t r ps rs v} : Expands env t r → ExpandsL env ps rs → Expands env (.fn t ps v) (.fn r rs v)
  | qual {c v t r} : Expands env t r → Expands env (.qual c v t) (requal c v r)
inductive ExpandsL (env : Nat → Option Ty) : TyList → TyList → Prop where
  | nil : ExpandsL env .nil .nil
  | cons {t r ts rs} : Expands env t r → ExpandsL env ts rs → ExpandsL env (.cons t ts) (.cons r rs)
end

mutual
/-- no typedef name occurs -/
def NoTd : Ty → Prop
  | .td _ => False
  | .tdName _ => False
  | .ptr t => NoTd t
  | .arr t => NoTd t
  | .fn r ps _ => NoTd r ∧ NoTdL ps
  | .qual _ _ t => NoTd t
  | _ => True
def NoTdL : TyList → Prop
  | .nil => True
  | .cons t rest => NoTd t ∧ NoTdL rest
end

mutual
/-- the typedef declarations a type mentions all have rank below `b` -/
def RankLt (rank : Nat → Nat) (b : Nat) : Ty → Prop
  | .td n => rank n < b
  | .tdName _ => False
  | .ptr t => RankLt rank b t
  | .arr t => RankLt rank b t
  | .fn r ps _ => RankLt rank b r ∧ RankLtL rank b ps
  | .qual _ _ t => RankLt rank b t
  | _ => True
def RankLtL (rank : Nat → Nat) (b : Nat) : TyList → Prop
  | .nil => True
  | .cons t rest => RankLt rank b t ∧ RankLtL rank b rest
end

/-- an acyclic environment: every typedef is defined, in terms of typedefs of smaller rank only -/
def Ranked (env : Nat → Option Ty) (rank : Nat → Nat) : Prop :=
  ∀ n, ∃ u, env n = some u ∧ RankLt rank (rank n) u

end PsycheModel.Typedefs
