/-!
# Model of the re-association after a cast/binary ambiguity is resolved to its binary reading (properties C06, C09)

`Disambiguator::visitMaybeAmbiguousExpression` (`C/reparser/Disambiguator.cpp`).  The parser shapes a cast/binary ambiguity
`(x) o y` as ONE operand (a cast-expression) of the precedence-climbing loop and of the prefix operators / casts in front of
it.  When the binary alternative is kept, the node `(x) o y` is marked (`binExprsOfAmbigs_`) and, on the way back up, every
slot applies three local rules:

* a binary parent whose LEFT child is the marked node and whose operator binds tighter takes the marked node's right
  operand as its left child and becomes the marked node's right operand;
* a binary parent whose RIGHT child is the marked node and whose operator binds at least as tightly takes the marked node's
  left operand as its right child and becomes the marked node's left operand;
* a prefix operator or cast whose operand is the marked node takes the marked node's left operand as its operand and becomes
  the marked node's left operand.
-/
namespace PsycheModel.Rotate

inductive X where
  | atom (n : Nat)
  | bin (o : Nat) (l r : X)      -- a (left-associative) binary operator of precedence `prec o`
  | un (u : Nat) (e : X)         -- a prefix operator or cast applied to a cast-expression
  | amb (o : Nat) (l r : X)      -- the ambiguity, kept as its binary alternative `l o r`; for the parser it is one operand
  deriving DecidableEq, Repr

variable (prec : Nat → Nat)

/-- the slot function: the re-associated tree and whether its root is the marked node -/
def fix : X → X × Bool
  | .atom n => (.atom n, false)
  | .amb o l r => (.bin o l r, true)
  | .un u e =>
    match fix e with
    | (.bin o a b, true) => (.bin o (.un u a) b, true)
    | (e', _) => (.un u e', false)
  | .bin p l r =>
    match fix l, fix r with
    | (.bin o a b, true), (r', _) =>
      if prec p > prec o then (.bin o a (.bin p b r'), true) else (.bin p (.bin o a b) r', false)
    | (l', _), (.bin o a b, true) =>
      if prec p ≥ prec o then (.bin o (.bin p l' a) b, true) else (.bin p l' (.bin o a b), false)
    | (l', _), (r', _) => (.bin p l' r', false)

/-- tokens in source order: operands, binary operators (`Sum.inl`), prefix operators (`Sum.inr`) -/
inductive Tk where
  | atom (n : Nat) | op (o : Nat) | pre (u : Nat)
  deriving DecidableEq, Repr

def seq : X → List Tk
  | .atom n => [.atom n]
  | .bin o l r => seq l ++ .op o :: seq r
  | .un u e => .pre u :: seq e
  | .amb o l r => seq l ++ .op o :: seq r

/-- an operand of the climbing loop: an atom or an ambiguity under any number of prefix operators / casts -/
def isOperand : X → Bool
  | .atom _ => true
  | .amb _ _ _ => true
  | .un _ e => isOperand e
  | .bin _ _ _ => false

/-- `hasAmb t`: the ambiguity occurs in `t` -/
def hasAmb : X → Bool
  | .atom _ => false
  | .amb _ _ _ => true
  | .un _ e => hasAmb e
  | .bin _ l r => hasAmb l || hasAmb r

/-- what the PARSER builds at cut-off level `c` (precedence climbing over left-associative operators, the ambiguity being an
operand): the root operator binds at least as tightly as `c`, the left child at the operator's level, the right child one
tighter; a prefix operator applies to an operand; the parts of the ambiguity are plain operands; at most one ambiguity -/
inductive PT : Nat → X → Prop
  | atom {c n} : PT c (.atom n)
  | amb {c o l r} : isOperand l = true → hasAmb l = false → isOperand r = true → hasAmb r = false → PT c (.amb o l r)
  | un {c u e} : isOperand e = true → PT 0 e → PT c (.un u e)
  | bin {c p l r} : c ≤ prec p → PT (prec p) l → PT (prec p + 1) r → (hasAmb l && hasAmb r) = false → PT c (.bin p l r)

/-- what the C GRAMMAR derives at level `c`: the same shape conditions, no ambiguity left, a prefix operator applied to an
operand (never to a binary expression) -/
inductive CS : Nat → X → Prop
  | atom {c n} : CS c (.atom n)
  | un {c u e} : isOperand e = true → CS 0 e → CS c (.un u e)
  | bin {c p l r} : c ≤ prec p → CS (prec p) l → CS (prec p + 1) r → CS c (.bin p l r)

end PsycheModel.Rotate
