import PsycheModel.Declarators
/-!
# Model of the declarator parser (properties C07 and C04)

Transcription of `Parser::parseDeclarator`, `parseDirectDeclarator`, `parseDirectDeclaratorSuffix`,
`parseTypeQualifiersAndAttributes`, `parseParameterDeclarationListAndOrEllipsis`, `parseParameterDeclarationList` and
`parseParameterDeclaration` (`C/parser/Parser_Declarations.cpp`) over a token alphabet that keeps what these functions
look at: the two declarator forms (concrete / abstract), the speculative parse of `( abstract-declarator )` with its
fall-back to a parameter suffix, the concrete-then-abstract attempt for a parameter, the suffix loop.  Recursion is on a
fuel (every call passes `fuel - 1`).  Specifiers of a parameter are one `spec` token (a typedef name classified as a
specifier: the symbol-table-free classification is `GuessRole`'s subject); array sizes are absent or one `num` token.
-/
namespace PsycheModel.DeclParser
open PsycheModel.Declarators

inductive Tok where
  | star | lparen | rparen | lbrack | rbrack | comma | ellipsis | num
  | ident (n : String)
  | qual (q : Qual)
  | spec (s : String)
  | stop                       -- `;` `=` `{` … : whatever ends a declarator
  deriving DecidableEq, Repr

inductive Form where
  | concrete | abstract
  deriving DecidableEq, Repr

/-- `parseTypeQualifiersAndAttributes` (qualifiers only) -/
def takeQuals : List Tok → List Qual × List Tok
  | .qual q :: r => ((takeQuals r).1.cons q, (takeQuals r).2)
  | ts => ([], ts)

mutual
def parseD (form : Form) : Nat → List Tok → Option (Decl × List Tok)
  | 0, _ => none
  | f + 1, ts =>
    match ts with
    | .star :: r =>
      match parseD form f (takeQuals r).2 with
      | some (d, r2) => some (.ptr (takeQuals r).1 d, r2)
      | none => none
    | ts => parseDirect form f ts

def parseDirect (form : Form) : Nat → List Tok → Option (Decl × List Tok)
  | 0, _ => none
  | f + 1, ts =>
    match form, ts with
    | .concrete, .ident n :: r => suffixes f (.ident n) r
    | .abstract, .ident _ :: _ => none
    | .concrete, .lparen :: r =>
      match parseD .concrete f r with
      | some (d, .rparen :: r2) => suffixes f (.paren d) r2
      | _ => none
    | .abstract, .lparen :: .rparen :: r => suffixes f .abstract (.lparen :: .rparen :: r)     -- `peek(2)` is `)`
    | .abstract, .lparen :: r =>
      match parseD .abstract f r with                                                        -- Backtracker: try `( abstract-declarator )`
      | some (d, .rparen :: r2) => suffixes f (.paren d) r2
      | _ => suffixes f .abstract (.lparen :: r)                                             -- backtrack: a parameter suffix
    | .abstract, .lbrack :: r => suffixes f .abstract (.lbrack :: r)
    | .concrete, _ => none                                                                   -- ExpectedFIRSTofDirectDeclarator
    | .abstract, ts => some (.abstract, ts)

/-- `parseDirectDeclaratorSuffix`: every suffix wraps what was parsed so far -/
def suffixes : Nat → Decl → List Tok → Option (Decl × List Tok)
  | 0, _, _ => none
  | f + 1, inner, ts =>
    match ts with
    | .lparen :: r =>
      match parseParams f r with
      | some (ps, ell, .rparen :: r2) => suffixes f (.fn inner ps ell) r2
      | _ => none
    | .lbrack :: .rbrack :: r => suffixes f (.arr inner) r
    | .lbrack :: .num :: .rbrack :: r => suffixes f (.arr inner) r
    | .lbrack :: _ => none
    | ts => some (inner, ts)

/-- `parseParameterDeclarationListAndOrEllipsis`, up to (not including) the closing parenthesis -/
def parseParams : Nat → List Tok → Option (Params × Bool × List Tok)
  | 0, _ => none
  | f + 1, ts =>
    match ts with
    | .rparen :: r => some (.nil, false, .rparen :: r)
    | .ellipsis :: _ => none                      -- `(...)`: ExpectedNamedParameterBeforeEllipsis
    | ts => parseParamList f ts

/-- `parseParameterDeclarationList` -/
def parseParamList : Nat → List Tok → Option (Params × Bool × List Tok)
  | 0, _ => none
  | f + 1, ts =>
    match parseParam f ts with
    | none => none
    | some (b, d, .comma :: .ellipsis :: r) => some (.cons b d .nil, true, r)
    | some (b, d, .ellipsis :: r) => some (.cons b d .nil, true, r)          -- the comma before `...` is not insisted on
    | some (b, d, .comma :: r) =>
      match parseParamList f r with
      | some (ps, ell, r2) => some (.cons b d ps, ell, r2)
      | none => none
    | some (b, d, r) => some (.cons b d .nil, false, r)

/-- `parseParameterDeclaration`: specifiers, then a declarator — concrete first, abstract after backtracking -/
def parseParam : Nat → List Tok → Option (String × Decl × List Tok)
  | 0, _ => none
  | f + 1, ts =>
    match ts with
    | .spec s :: r =>
      match parseD .concrete f r with
      | some (d, r2) => some (s, d, r2)
      | none =>
        match parseD .abstract f r with
        | some (d, r2) => some (s, d, r2)
        | none => none
    | _ => none
end

/-- a declaration's declarator: what `parseDeclarator(_, Unspecified)` builds from the tokens after the specifiers -/
def parseDeclarator (ts : List Tok) : Option (Decl × List Tok) := parseD .concrete (2 * ts.length + 2) ts

/-- the init-declarator list of a declaration (no initialisers): declarators separated by commas, up to the `stop` token -/
def parseDeclaratorList : Nat → List Tok → Option (List Decl)
  | 0, _ => none
  | f + 1, ts =>
    match parseDeclarator ts with
    | some (d, [.stop]) => some [d]
    | some (d, .comma :: r) => (parseDeclaratorList f r).map (d :: ·)
    | _ => none

end PsycheModel.DeclParser
