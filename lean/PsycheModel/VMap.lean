/-!
# Model of `data-structures/VersionedMap.h` (property C20)

Statement-by-statement transcription of `psy::VersionedMap<KeyT, ValueT>`:

* `commands_`  ↦ `cmds`   (command `i` created revision `i+1`)
* `reverts_`   ↦ `parent` (`parent[r-1]` is the parent of revision `r`; the keys of the C++
                 `unordered_map` are exactly `1..revisionCnt_` because `storeCommand` inserts the
                 fresh key `++revisionCnt_`)
* `curRevision_`, `revisionCnt_` ↦ `cur`, `cnt`
* `map_`       ↦ `map`, an association list read through `AMap.get` (first binding wins), which is
                 the observable behaviour of `std::unordered_map::find` / iteration.

`uint32_t` wrap-around of the revision counter is not modelled (`Nat`).
-/
namespace PsycheModel.VMap

abbrev AMap (K V : Type) := List (K × V)

variable {K V : Type} [DecidableEq K]

def AMap.get : AMap K V → K → Option V
  | [], _ => none
  | (k', v) :: t, k => if k' = k then some v else AMap.get t k

/-- `map_[key] = value` / `insertOrAssign_CORE`. -/
def AMap.set (m : AMap K V) (k : K) (v : V) : AMap K V := (k, v) :: m

@[simp] theorem AMap.get_set (m : AMap K V) (k k' : K) (v : V) :
    (m.set k v).get k' = if k = k' then some v else m.get k' := rfl

structure St (K V : Type) where
  cmds   : List (K × V) := []
  parent : List Nat := []
  cur    : Nat := 0
  cnt    : Nat := 0
  map    : AMap K V := []

def init : St K V := {}

/-- `reverts_.find(r)`: succeeds exactly on keys `1..cnt`. -/
def findParent (s : St K V) (r : Nat) : Option Nat :=
  if r = 0 then none else s.parent[r - 1]?

/-- `storeCommand` followed by `insertOrAssign_CORE`. -/
def insertOrAssign (s : St K V) (k : K) (v : V) : St K V :=
  { cmds := s.cmds ++ [(k, v)]
    parent := s.parent ++ [s.cur]
    cnt := s.cnt + 1
    cur := s.cnt + 1
    map := s.map.set k v }

/-- The `while (it != reverts_.end())` loop of `applyRevision`: indices of the commands that created
the revisions on the chain `r, parent r, …` (the loop needs at most `r` iterations because parents
are strictly smaller; the fuel makes the definition structural). -/
def chain (s : St K V) : Nat → Nat → List Nat
  | 0, _ => []
  | fuel + 1, r =>
    match findParent s r with
    | none => []
    | some p => (r - 1) :: chain s fuel p

/-- replay of the reversed `ordered` vector on a cleared map, written as a right fold. -/
def replay (s : St K V) : List Nat → AMap K V
  | [] => []
  | i :: rest =>
    match s.cmds[i]? with
    | some (k, v) => (replay s rest).set k v
    | none => replay s rest

def applyRevision (s : St K V) (r : Nat) : St K V :=
  { s with cur := r, map := replay s (chain s (r + 1) r) }

inductive Op (K V : Type) where
  | ins (k : K) (v : V)
  | switch (r : Nat)

def step (s : St K V) : Op K V → St K V
  | .ins k v => insertOrAssign s k v
  | .switch r => applyRevision s r

def run (h : List (Op K V)) : St K V := h.foldl step init

/-- A history is valid when every `switch r` names a revision that exists at that moment. -/
def validFrom (s : St K V) : List (Op K V) → Bool
  | [] => true
  | .ins k v :: t => validFrom (insertOrAssign s k v) t
  | .switch r :: t => decide (r ≤ s.cnt) && validFrom (applyRevision s r) t

def Valid (h : List (Op K V)) : Bool := validFrom (init : St K V) h

end PsycheModel.VMap
