import PsycheModel.DeclParser
/-!
# The declarator printer (C07, C04, C03): the inverse the declarator parser is proved against

`pr d k` are the tokens of declarator `d` followed by `k` (continuation style: no appends to re-associate).  It is the
printer of the generators (`gen/declgen.py` writes the same shapes as text) over the alphabet of `DeclParser`.
`wf form d` says which trees are declarators of C in the given form (6.7.6, 6.7.7): the leaf is an identifier (concrete)
or absent (abstract), a pointer declarator directly under an array/function suffix is parenthesised, parentheses are
not wrapped around nothing, `...` follows at least one parameter, no bit-field width.
-/
namespace PsycheModel.DeclParser
open PsycheModel.Declarators

mutual
def pr : Decl → List Tok → List Tok
  | .ident n, k => .ident n :: k
  | .abstract, k => k
  | .ptr qs d, k => .star :: (qs.map Tok.qual ++ pr d k)
  | .paren d, k => .lparen :: pr d (.rparen :: k)
  | .bitfield d, k => pr d k
  | .arr d, k => pr d (.lbrack :: .rbrack :: k)
  | .fn d ps ell, k => pr d (.lparen :: prPs ps ((if ell then [Tok.comma, Tok.ellipsis] else []) ++ .rparen :: k))
def prPs : Params → List Tok → List Tok
  | .nil, k => k
  | .cons s d .nil, k => .spec s :: pr d k
  | .cons s d (.cons s' d' r), k => .spec s :: pr d (.comma :: prPs (.cons s' d' r) k)
end

def isPtr : Decl → Bool
  | .ptr _ _ => true
  | _ => false

def isLeafAbstract : Decl → Bool
  | .abstract => true
  | _ => false

def psNil : Params → Bool
  | .nil => true
  | _ => false

mutual
def wf (form : Form) : Decl → Bool
  | .ident _ => form == .concrete
  | .abstract => form == .abstract
  | .ptr _ d => wf form d
  | .paren d => wf form d && !isLeafAbstract d
  | .bitfield _ => false
  | .arr d => wf form d && !isPtr d
  | .fn d ps ell => wf form d && !isPtr d && wfPs ps && (!ell || !psNil ps)
def wfPs : Params → Bool
  | .nil => true
  | .cons _ d r => (wf .concrete d || wf .abstract d) && wfPs r
end

/-- what may follow a declarator: not something the declarator would have continued with (`*`, a qualifier, an identifier),
and a `(` only when it opens a parameter list -/
def Fol : List Tok → Bool
  | .star :: _ | .qual _ :: _ | .ident _ :: _ => false
  | .lparen :: .rparen :: _ => true
  | .lparen :: .spec _ :: _ => true
  | .lparen :: _ => false
  | _ => true

/-- … and what ends it: no further suffix -/
def Stop : List Tok → Bool
  | .lparen :: _ | .lbrack :: _ => false
  | _ => true

end PsycheModel.DeclParser
