/-!
# Model of type ownership across canonicalisation (property C02)

`SemanticModel::keepType/dropType`, `TypeCanonicalizer::canonicalizeTypes` (`C/sema/TypeCanonicalizer.cpp`): every
*holder* of a type — a declaration's `type_`, a typedef's synonymized type, the element / referent / return / parameter /
operand slot of a derived type object — refers to a type object.  Canonicalising a holder whose referent is *discardable*
(a non-canonical basic or void object, a typedef-name or tag type standing for a declared one) stores the canonical object
in the holder and puts the old referent into `discardedTys_`; when the traversal is over every discarded object is freed.
Objects are numbers; the `i`-th holder refers to `refs[i]` before the phase and is visited iff `proc[i]`.
-/
namespace PsycheModel.Ownership

structure World where
  disc : Nat → Bool          -- discardable objects
  canon : Nat → Nat          -- what a discardable object is replaced by
  canon_kept : ∀ o, disc (canon o) = false     -- canonical objects are never discarded

/-- a holder after the phase -/
def after (w : World) (r : Nat) (p : Bool) : Nat := if p && w.disc r then w.canon r else r

/-- the objects freed at the end: discardable referents of visited holders -/
def freed (w : World) (refs : List Nat) (proc : List Bool) (o : Nat) : Prop :=
  w.disc o = true ∧ ∃ i : Nat, refs[i]? = some o ∧ proc[i]? = some true

/-- holder `i` dangles: what it refers to after the phase was freed -/
def dangles (w : World) (refs : List Nat) (proc : List Bool) (i : Nat) : Prop :=
  ∃ r p, refs[i]? = some r ∧ proc[i]? = some p ∧ freed w refs proc (after w r p)

end PsycheModel.Ownership
