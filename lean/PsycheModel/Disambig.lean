import PsycheModel.Tree
/-!
# Model of the disambiguator's tree rewriting (property C09)

`Disambiguator::visitMaybeAmbiguous{Expression,Statement,TypeReference}` (`C/reparser/Disambiguator.cpp`) replace, in
the parent's child slot, an ambiguity node by the alternative the strategy chose and go on *into that alternative*; every
`visitX` method decides which children are looked at.  On the generic tree (`Tree.lean`) an ambiguity node is a node of
kind 1 whose child list is its two alternatives.  `descend k` says whether the visitor for node kind `k` looks at the
node's children (the pinned code did not for call arguments, subscript indices, local declarations and case labels).
-/
namespace PsycheModel.Tree

mutual
/-- the rewriting of a whole subtree: `pick id` = the strategy keeps the first alternative of ambiguity node `id` -/
def disamb (pick : Nat → Bool) (descend : Nat → Bool) : Tree → Tree
  | .mk id k hs =>
    if k = 1 then
      match hs with
      | .node a (.node b _) => if pick id then disamb pick descend a else disamb pick descend b
      | _ => .mk id k hs
    else if descend k then .mk id k (disambH pick descend hs) else .mk id k hs
def disambH (pick : Nat → Bool) (descend : Nat → Bool) : Holders → Holders
  | .nil => .nil
  | .tok i rest => .tok i (disambH pick descend rest)
  | .null rest => .null (disambH pick descend rest)
  | .node t rest => .node (disamb pick descend t) (disambH pick descend rest)
  | .list es rest => .list (disambE pick descend es) (disambH pick descend rest)
def disambE (pick : Nat → Bool) (descend : Nat → Bool) : Elems → Elems
  | .nil => .nil
  | .cons t d rest => .cons (disamb pick descend t) d (disambE pick descend rest)
end

mutual
/-- no ambiguity node anywhere -/
def ambigFree : Tree → Bool
  | .mk _ k hs => k != 1 && ambigFreeH hs
def ambigFreeH : Holders → Bool
  | .nil => true
  | .tok _ rest => ambigFreeH rest
  | .null rest => ambigFreeH rest
  | .node t rest => ambigFree t && ambigFreeH rest
  | .list es rest => ambigFreeE es && ambigFreeH rest
def ambigFreeE : Elems → Bool
  | .nil => true
  | .cons t _ rest => ambigFree t && ambigFreeE rest
end

/-- the child list of an ambiguity node: exactly its two alternatives (as the three `maybeAmbiguate*` functions build it) -/
def twoAlternatives : Holders → Bool
  | .node _ (.node _ .nil) => true
  | _ => false

mutual
def ambWF : Tree → Bool
  | .mk _ k hs => (k != 1 || twoAlternatives hs) && ambWFH hs
def ambWFH : Holders → Bool
  | .nil => true
  | .tok _ rest => ambWFH rest
  | .null rest => ambWFH rest
  | .node t rest => ambWF t && ambWFH rest
  | .list es rest => ambWFE es && ambWFH rest
def ambWFE : Elems → Bool
  | .nil => true
  | .cons t _ rest => ambWF t && ambWFE rest
end

mutual
/-- the source tokens of a tree, an ambiguity node counting once (through its first alternative) -/
def toksA : Tree → List Nat
  | .mk _ k hs =>
    if k = 1 then
      match hs with
      | .node a _ => toksA a
      | _ => []
    else toksAH hs
def toksAH : Holders → List Nat
  | .nil => []
  | .tok i rest => if i ≠ 0 then i :: toksAH rest else toksAH rest
  | .null rest => toksAH rest
  | .node t rest => toksA t ++ toksAH rest
  | .list es rest => toksAE es ++ toksAH rest
def toksAE : Elems → List Nat
  | .nil => []
  | .cons t d rest => toksA t ++ (if d ≠ 0 then d :: toksAE rest else toksAE rest)
end

/-- the two alternatives of an ambiguity node cover the same tokens -/
def alternativesAgree : Holders → Bool
  | .node a (.node b _) => toksA a == toksA b
  | _ => true

mutual
/-- both readings of every ambiguity cover the same tokens -/
def sameToks : Tree → Bool
  | .mk _ k hs => (k != 1 || alternativesAgree hs) && sameToksH hs
def sameToksH : Holders → Bool
  | .nil => true
  | .tok _ rest => sameToksH rest
  | .null rest => sameToksH rest
  | .node t rest => sameToks t && sameToksH rest
  | .list es rest => sameToksE es && sameToksH rest
def sameToksE : Elems → Bool
  | .nil => true
  | .cons t _ rest => sameToks t && sameToksE rest
end

end PsycheModel.Tree
