import PsycheModel.Declarators
/-!
# Model of the declaration parser above the declarators (properties C04, C07)

`Parser::parseDeclarationOrFunctionDefinition` (`C/parser/Parser_Declarations.cpp`): `parseDeclaration` (specifiers, then
`parseDeclarationOrStructDeclaration_AtFollowOfSpecifiers`: `int ;` is an incomplete declaration), the loop of
`parseDeclarationOrFunctionDefinition_AtDeclarator` (declarator, optional `=` initializer - allowed or not by the KIND of the declarator -,
then `,` / `;` / `{`), the choice between `TypedefDeclaration` and `VariableAndOrFunctionDeclaration`, and
`parseFunctionDefinition_AtOpenBrace` (a body follows the FIRST declarator, which has no initializer and whose derivation next to the
identifier is a function).  Over an alphabet in which a specifier, an initializer and a compound statement are one token each, and a
declarator is one token CARRYING its tree (`Declarators.Decl`, what `DeclParser.parseDeclarator` builds): the two decisions that look
into the declarator, `initOK` and `isFunDef`, are transcribed on that tree (`SyntaxUtilities::unparenthesizeDeclarator`,
`innerDeclaratorOf`).  The specifier loop distinguishes type specifiers (`Tok.ty`), a tag DECLARATION (`Tok.tagd`: `struct S { … }`, one token) and
the other specifiers (`Tok.sp`, `Tok.tdef`): after a tag declaration the loop goes on taking the specifiers that are not type specifiers
(6.7p1: any order) and stops at a type specifier.  K&R parameter declarations, GNU attributes / asm labels and typedef names are not in the model.
-/
namespace PsycheModel.Declaration
open PsycheModel.Declarators

/-- `SyntaxUtilities::unparenthesizeDeclarator` -/
def unparen : Decl → Decl
  | .paren d => unparen d
  | d => d

/-- the switch at `=`: an identifier, pointer or array declarator (parentheses aside) may be initialized, a function declarator only when
it is a function declarator around a pointer (`(*fp)(void) = 0`); anything else is `UnexpectedInitializerOfDeclarator` -/
def initOK (d : Decl) : Bool :=
  match unparen d with
  | .ident _ => true
  | .ptr _ _ => true
  | .arr _ => true
  | .fn inner _ _ =>
    match unparen inner with
    | .ptr _ _ => true
    | _ => false
  | _ => false

/-- the walk of `parseFunctionDefinition_AtOpenBrace`: is the declarator next to the identifier (parentheses aside) a function declarator? -/
def fnNextToName (prevIsFn : Bool) : Decl → Bool
  | .paren d => fnNextToName prevIsFn d
  | .ptr _ d => fnNextToName false d
  | .arr d => fnNextToName false d
  | .fn d _ _ => fnNextToName true d
  | .bitfield d => fnNextToName false d
  | .ident _ => prevIsFn
  | .abstract => prevIsFn
def isFunDef (d : Decl) : Bool := fnNextToName false d

inductive Tok where
  | sp (n : Nat)             -- a specifier that is not a type specifier: qualifier, storage class other than `typedef`, function / alignment specifier
  | ty (n : Nat)             -- a type specifier keyword
  | tagd (n : Nat)           -- a tag declaration: `struct` / `union` / `enum` with a body
  | tdef                     -- `typedef`
  | dcl (d : Decl)           -- a declarator, with its tree
  | eq
  | ini (n : Nat)            -- an initializer
  | comma | semi
  | body (n : Nat)           -- a compound statement

inductive Spec where
  | kw (n : Nat)
  | tdef
  | ty (n : Nat)
  | tagd (n : Nat)
  deriving DecidableEq, Repr

/-- an init-declarator -/
structure ID where
  d : Decl
  init : Option Nat

inductive R where
  | incomplete (ss : List Spec)                          -- `IncompleteDeclarationSyntax`
  | typedefDecl (ss : List Spec) (ids : List ID)         -- `TypedefDeclarationSyntax`
  | varDecl (ss : List Spec) (ids : List ID)             -- `VariableAndOrFunctionDeclarationSyntax`
  | funDef (ss : List Spec) (d : Decl) (body : Nat)      -- `FunctionDefinitionSyntax`

/-- `parseDeclarationSpecifiers` once a tag declaration has been parsed (`decl` set): the specifiers that are not type specifiers -/
def specsT : List Tok → List Spec × List Tok
  | .sp n :: r => (.kw n :: (specsT r).1, (specsT r).2)
  | .tdef :: r => (.tdef :: (specsT r).1, (specsT r).2)
  | ts => ([], ts)

/-- `parseDeclarationSpecifiers`: as many specifiers as there are -/
def specs : List Tok → List Spec × List Tok
  | .sp n :: r => (.kw n :: (specs r).1, (specs r).2)
  | .tdef :: r => (.tdef :: (specs r).1, (specs r).2)
  | .ty n :: r => (.ty n :: (specs r).1, (specs r).2)
  | .tagd n :: r => (.tagd n :: (specsT r).1, (specsT r).2)
  | ts => ([], ts)

/-- how an init-declarator list ended -/
inductive End where
  | semi
  | body (n : Nat)
  deriving DecidableEq, Repr

/-- the loop of `parseDeclarationOrFunctionDefinition_AtDeclarator` (`first`: no declarator parsed yet) -/
def idl : Bool → List Tok → Option (List ID × End × List Tok)
  | _, .dcl d :: .eq :: .ini i :: .comma :: r =>
    if initOK d then
      match idl false r with
      | some (ids, e, r') => some (⟨d, some i⟩ :: ids, e, r')
      | none => none
    else none
  | _, .dcl d :: .eq :: .ini i :: .semi :: r => if initOK d then some ([⟨d, some i⟩], .semi, r) else none
  | _, .dcl d :: .comma :: r =>
    match idl false r with
    | some (ids, e, r') => some (⟨d, none⟩ :: ids, e, r')
    | none => none
  | _, .dcl d :: .semi :: r => some ([⟨d, none⟩], .semi, r)
  | true, .dcl d :: .body b :: r => if isFunDef d then some ([⟨d, none⟩], .body b, r) else none
  | _, _ => none            -- ExpectedFIRSTofDirectDeclarator / UnexpectedInitializerOfDeclarator / ExpectedFollowOfDeclarator(AndInitializer)

def hasTypedef (ss : List Spec) : Bool := ss.any (· == .tdef)

/-- `parseDeclarationOrFunctionDefinition` -/
def declaration (ts : List Tok) : Option (R × List Tok) :=
  match specs ts with
  | ([], _) => none                                   -- ExpectedFIRSTofSpecifierQualifier (the implicit-int extension is not in the model)
  | (ss, .semi :: r) => some (.incomplete ss, r)
  | (ss, r) =>
    match idl true r with
    | some (ids, .semi, r') => some (if hasTypedef ss then .typedefDecl ss ids else .varDecl ss ids, r')
    | some ([⟨d, none⟩], .body b, r') => some (.funDef ss d b, r')
    | _ => none

/-- `parseTranslationUnit` with `parseExternalDeclaration`: declarations up to the end of the text; a `;` alone is an incomplete declaration
without specifiers (`parseIncompleteDeclaration_AtFirst`).  One unit of fuel per declaration. -/
def unit : Nat → List Tok → Option (List R)
  | 0, _ => none
  | _ + 1, [] => some []
  | f + 1, .semi :: r =>
    match unit f r with
    | some rs => some (.incomplete [] :: rs)
    | none => none
  | f + 1, ts =>
    match declaration ts with
    | some (r, rest) =>
      match unit f rest with
      | some rs => some (r :: rs)
      | none => none
    | none => none

/-! ## The printing side -/
def ppSpec : Spec → Tok
  | .kw n => .sp n
  | .tdef => .tdef
  | .ty n => .ty n
  | .tagd n => .tagd n
def ppID (x : ID) : List Tok :=
  .dcl x.d :: (match x.init with | some i => [.eq, .ini i] | none => [])
def ppIDs : List ID → List Tok
  | [] => []
  | [x] => ppID x
  | x :: y :: xs => ppID x ++ .comma :: ppIDs (y :: xs)
def pp : R → List Tok
  | .incomplete ss => ss.map ppSpec ++ [.semi]
  | .typedefDecl ss ids => ss.map ppSpec ++ (ppIDs ids ++ [.semi])
  | .varDecl ss ids => ss.map ppSpec ++ (ppIDs ids ++ [.semi])
  | .funDef ss d b => ss.map ppSpec ++ [.dcl d, .body b]

def okID (x : ID) : Bool := x.init.isNone || initOK x.d

/-- no type specifier -/
def noType : List Spec → Bool
  | [] => true
  | .kw _ :: r => noType r
  | .tdef :: r => noType r
  | _ => false
/-- the specifier lists the loop delivers: no type specifier after a tag declaration -/
def okSpecs : List Spec → Bool
  | [] => true
  | .tagd _ :: r => noType r
  | _ :: r => okSpecs r

/-- what the parser accepts: specifiers (no type specifier after a tag declaration), at least one init-declarator where there is a list, initializers only where the declarator's kind
allows one, `typedef` among the specifiers exactly for a `typedefDecl`, a function declarator next to the name for a definition -/
def acc : R → Bool
  | .incomplete ss => !ss.isEmpty && okSpecs ss
  | .typedefDecl ss ids => !ss.isEmpty && hasTypedef ss && !ids.isEmpty && ids.all okID && okSpecs ss
  | .varDecl ss ids => !ss.isEmpty && !hasTypedef ss && !ids.isEmpty && ids.all okID && okSpecs ss
  | .funDef ss d _ => !ss.isEmpty && isFunDef d && okSpecs ss

def ppU : List R → List Tok
  | [] => []
  | r :: rs => pp r ++ ppU rs

/-- an external declaration the parser accepts: a `;` alone, or an accepted declaration / definition -/
def accU (r : R) : Bool :=
  match r with
  | .incomplete [] => true
  | r => acc r

end PsycheModel.Declaration
