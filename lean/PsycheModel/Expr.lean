/-!
# Model of the expression parser (property C06) — all layers

`C/parser/Parser_Expressions.cpp`, transcribed function by function over an abstract token alphabet:

| model | C++ |
|---|---|
| `atOp`  | `Parser::parseNAryExpression_AtOperator` — the outer `while (precedenceOf(peek) ≥ cutoff)` loop, with the conditional operator's middle operand (`? expression :`, GNU `?:`) and the rejection rule "assignment after a completed tighter operation" |
| `inner` | its inner `while (precAhead > prevPrec ∨ (precAhead = prevPrec ∧ isRightAssociative))` loop |
| `nary`  | `Parser::parseNAryExpression(expr, cutoff)` (`parseExpression` is `nary` at the comma level, a call argument `nary` at the assignment level) |
| `cast`  | `Parser::parseExpressionWithPrecedenceCast` — `( type-name ) cast-expression` when the token after `(` starts a type name |
| `unary` | `Parser::parseExpressionWithPrecedenceUnary` / `parsePrefixUnaryExpression_AtFirst` (operand of `++`/`--`: unary-expression; of `& * + - ~ !`: cast-expression) and the primary expressions identifier/constant and `( expression )` |
| `postf` | `Parser::parsePostfixExpression_AtFollowOfPrimary` — the loop over `[ e ]`, `( args )`, `. id`, `-> id`, `++`, `--` |
| `args`  | `Parser::parseCommaSeparatedItems<…>(…, parseCallArgument)` |

Not in the model: `sizeof`/`_Alignof`, compound literals, generic selections, GNU statement expressions and built-ins,
string-literal concatenation, and the parenthesised-identifier cast ambiguity (property C09).  A type name is one token
(`Tok.ty`).  The operator tables are parameters (`Tbl`); `ExprReal.lean` instantiates them from the tables regenerated
from the source.  Recursion is on a fuel: every call of the C++ consumes a token or descends into a callee that does.
-/
namespace PsycheModel.Expr

inductive Tok where
  | atom (n : Nat)          -- identifier / constant
  | op (o : Nat)            -- any operator token: N-ary, prefix, postfix (the position decides)
  | q | colon               -- `?` `:`
  | lp | rp | lb | rb       -- `(` `)` `[` `]`
  | ty                      -- a token that starts a type name (and stands for the whole type name)
  | dot (d : Nat)           -- `.` `->`
  deriving DecidableEq, Repr

inductive E where
  | atom (n : Nat)
  | bin (o : Nat) (l r : E)
  | cond (c t f : E)
  | condG (c f : E)                  -- GNU `c ?: f`
  | paren (e : E)
  | cast (e : E)
  | pre (o : Nat) (e : E)
  | post (o : Nat) (e : E)
  | idx (e i : E)
  | mem (d : Nat) (e : E) (n : Nat)
  | call (f : E) (as : List E)
  deriving Repr

structure Tbl where
  /-- `precedenceOf` (`0` = `Undefined`: not an N-ary operator) -/
  prec : Nat → Nat
  /-- `isRightAssociative`, a function of the precedence level -/
  ra : Nat → Bool
  /-- `NAryPrecedence::Assignment` -/
  asg : Nat
  /-- `precedenceOf(QuestionToken)` -/
  qprec : Nat
  /-- prefix operators: `some true` = operand parsed as a unary-expression (`++ --`), `some false` = as a cast-expression -/
  pre : Nat → Option Bool
  /-- `++` / `--` after a primary -/
  post : Nat → Bool
  /-- `CommaToken` -/
  comma : Nat → Bool
  /-- the operator index of the comma (for printing argument lists) -/
  commaTok : Nat

variable (T : Tbl)

/-- `precedenceOf(peek().kind())` -/
def tprec : Tok → Nat
  | .op o => T.prec o
  | .q => T.qprec
  | _ => 0

def hprec : List Tok → Nat
  | t :: _ => tprec T t
  | [] => 0

/-- the inner loop's continuation test -/
def cont (prev p : Nat) : Bool := (decide (p > prev) && decide (1 ≤ p)) || (p == prev && T.ra prev)

/-- `if (precAhead == Assignment && prevPrec > precAhead) return false;` -/
def failsOnAssignment (prevPrec : Nat) (ts : List Tok) : Bool :=
  hprec T ts == T.asg && decide (prevPrec > T.asg)

/-- what an operator token and (for `?`) the middle operand make of `base` and `next` -/
inductive Link where
  | bin (o : Nat)
  | cnd (m : E)
  | cndG
  deriving Repr

def Link.mk : Link → E → E → E
  | .bin o, l, r => E.bin o l r
  | .cnd m, c, f => E.cond c m f
  | .cndG, c, f => E.condG c f

mutual
def atOp (fuel : Nat) (base : E) (cut : Nat) (ts : List Tok) : Option (E × List Tok) :=
  match fuel with
  | 0 => none
  | f + 1 =>
    match ts with
    | [] => some (base, ts)
    | t :: _ =>
      if tprec T t ≥ cut then
        match linkP f ts with
        | none => none
        | some (l, r0) =>
          match cast f r0 with
          | none => none
          | some (nx, r1) =>
            match inner f nx (tprec T t) r1 with
            | none => none
            | some (nx', r2) =>
              if failsOnAssignment T (tprec T t) r2 then none
              else atOp f (l.mk base nx') cut r2
      else some (base, ts)
/-- the operator token and, for `?`, the middle operand up to the `:` (GNU: none) -/
def linkP (fuel : Nat) (ts : List Tok) : Option (Link × List Tok) :=
  match fuel with
  | 0 => none
  | f + 1 =>
    match ts with
    | .op o :: rest => some (Link.bin o, rest)
    | .q :: .colon :: r0 => some (Link.cndG, r0)
    | .q :: rest =>
      match nary f 1 rest with
      | some (m, .colon :: r0) => some (Link.cnd m, r0)
      | _ => none
    | _ => none
def inner (fuel : Nat) (next : E) (prev : Nat) (ts : List Tok) : Option (E × List Tok) :=
  match fuel with
  | 0 => none
  | f + 1 =>
    if cont T prev (hprec T ts) then
      match atOp f next (hprec T ts) ts with
      | some (next', rest') => inner f next' prev rest'
      | none => none
    else some (next, ts)
def nary (fuel : Nat) (cut : Nat) (ts : List Tok) : Option (E × List Tok) :=
  match fuel with
  | 0 => none
  | f + 1 =>
    match cast f ts with
    | some (e, r) => atOp f e cut r
    | none => none
def cast (fuel : Nat) (ts : List Tok) : Option (E × List Tok) :=
  match fuel with
  | 0 => none
  | f + 1 =>
    match ts with
    | .lp :: .ty :: .rp :: rest =>
      match cast f rest with
      | some (e, r) => some (E.cast e, r)
      | none => none
    | .lp :: .ty :: _ => none
    | _ => unary f ts
def unary (fuel : Nat) (ts : List Tok) : Option (E × List Tok) :=
  match fuel with
  | 0 => none
  | f + 1 =>
    match ts with
    | .op o :: rest =>
      match T.pre o with
      | some true =>
        match unary f rest with
        | some (e, r) => some (E.pre o e, r)
        | none => none
      | some false =>
        match cast f rest with
        | some (e, r) => some (E.pre o e, r)
        | none => none
      | none => none
    | .atom n :: rest => postf f (E.atom n) rest
    | .lp :: rest =>
      match nary f 1 rest with
      | some (e, .rp :: r) => postf f (E.paren e) r
      | _ => none
    | _ => none
def postf (fuel : Nat) (e : E) (ts : List Tok) : Option (E × List Tok) :=
  match fuel with
  | 0 => none
  | f + 1 =>
    match ts with
    | .lb :: rest =>
      match nary f 1 rest with
      | some (i, .rb :: r) => postf f (E.idx e i) r
      | _ => none
    | .lp :: .rp :: rest => postf f (E.call e []) rest
    | .lp :: rest =>
      match args f rest with
      | some (as, .rp :: r) => postf f (E.call e as) r
      | _ => none
    | .dot d :: .atom n :: rest => postf f (E.mem d e n) rest
    | .dot _ :: _ => none
    | .op o :: rest => if T.post o then postf f (E.post o e) rest else some (e, ts)
    | _ => some (e, ts)
def args (fuel : Nat) (ts : List Tok) : Option (List E × List Tok) :=
  match fuel with
  | 0 => none
  | f + 1 =>
    match nary f T.asg ts with
    | none => none
    | some (a, r) =>
      match r with
      | .op o :: r' =>
        if T.comma o then
          match args f r' with
          | some (as, r'') => some (a :: as, r'')
          | none => none
        else some ([a], r)
      | _ => some ([a], r)
end

/-! ## The grammar side: printing and derivability -/

mutual
/-- printing without any parentheses other than the tree's own `paren` nodes -/
def pp : E → List Tok
  | .atom n => [.atom n]
  | .bin o l r => pp l ++ .op o :: pp r
  | .cond c t f => pp c ++ .q :: (pp t ++ .colon :: pp f)
  | .condG c f => pp c ++ .q :: .colon :: pp f
  | .paren e => .lp :: (pp e ++ [.rp])
  | .cast e => .lp :: .ty :: .rp :: pp e
  | .pre o e => .op o :: pp e
  | .post o e => pp e ++ [.op o]
  | .idx e i => pp e ++ .lb :: (pp i ++ [.rb])
  | .mem d e n => pp e ++ [.dot d, .atom n]
  | .call f as => pp f ++ .lp :: (ppArgs as ++ [.rp])
/-- arguments separated by the comma token -/
def ppArgs : List E → List Tok
  | [] => []
  | [a] => pp a
  | a :: b :: as => pp a ++ .op T.commaTok :: ppArgs (b :: as)
end

/-- operand levels of an operator of precedence level `p` (left / right) -/
def rlevel (p : Nat) : Nat := if T.ra p then p else p + 1
def llevel (p : Nat) : Nat := if T.ra p then p + 1 else p

/-- postfix-expression (6.5.2), with the primary expressions -/
def isPostfix : E → Bool
  | .atom _ | .paren _ | .post _ _ | .idx _ _ | .mem _ _ _ | .call _ _ => true
  | _ => false
/-- unary-expression (6.5.3) -/
def isUnary : E → Bool
  | .pre _ _ => true
  | e => isPostfix e
/-- cast-expression (6.5.4) -/
def isCast : E → Bool
  | .cast _ => true
  | e => isUnary e
/-- the precedence level of an N-ary root -/
def nlevel : E → Option Nat
  | .bin o _ _ => some (T.prec o)
  | .cond _ _ _ | .condG _ _ => some T.qprec
  | _ => none
/-- `e` is derivable at the N-ary level `c`: a cast-expression, or an operation whose level is at least `c` -/
def atLevel (c : Nat) (e : E) : Bool :=
  match nlevel T e with
  | some p => decide (c ≤ p)
  | none => true

mutual
/-- **the C11 expression grammar (6.5), by levels**: every operation's operands are derivable at the level its production
names - tighter-binding operators nested deeper, left-recursive levels grouped to the left, right-recursive ones (the
levels `ra` names) to the right; the left operand of an assignment is a unary-expression (6.5.16); the operand of `++`/`--`
is a unary-expression, of the other prefix operators and of a cast a cast-expression; postfix operators apply to
postfix-expressions; the middle operand of `?:`, a subscript and a parenthesised expression are full expressions, a call
argument an assignment-expression. -/
def ok : E → Bool
  | .atom _ => true
  | .bin o l r => decide (1 ≤ T.prec o) && atLevel T (llevel T (T.prec o)) l && atLevel T (rlevel T (T.prec o)) r
      && (T.prec o != T.asg || isUnary l) && ok l && ok r
  | .cond c t f => atLevel T (llevel T T.qprec) c && atLevel T (rlevel T T.qprec) f
      && (T.qprec != T.asg || isUnary c) && ok c && ok t && ok f
  | .condG c f => atLevel T (llevel T T.qprec) c && atLevel T (rlevel T T.qprec) f
      && (T.qprec != T.asg || isUnary c) && ok c && ok f
  | .paren e => ok e
  | .cast e => isCast e && ok e
  | .pre o e => (match T.pre o with | some true => isUnary e | some false => isCast e | none => false) && ok e
  | .post o e => T.post o && isPostfix e && ok e
  | .idx e i => isPostfix e && ok e && ok i
  | .mem _ e _ => isPostfix e && ok e
  | .call f as => isPostfix f && ok f && okArgs as
def okArgs : List E → Bool
  | [] => true
  | a :: as => atLevel T T.asg a && ok a && okArgs as
end

/-- what the proofs need of the tables (each a generated obligation on the real tables, discharged by `decide`) -/
structure Tbl.Sane (T : Tbl) : Prop where
  asg_pos : 1 ≤ T.asg
  q_pos : 1 ≤ T.qprec
  /-- `++` / `--` are not N-ary operators -/
  post_noprec : ∀ o, T.post o = true → T.prec o = 0
  comma_is : T.comma T.commaTok = true
  comma_prec : 1 ≤ T.prec T.commaTok ∧ T.prec T.commaTok < T.asg

end PsycheModel.Expr
