import PsycheModel.Arith
/-!
# C11 6.3.1.1 / 6.3.1.8 / 6.5.x / 6.4.4 as executable specification (hand-written, for C13)

Written from the standard in terms of *rank* and *representability*, for a platform given by the width (in
value+sign bits) of each integer type.  `lp64` is the platform of this host (and of `PlatformOptions()`).
-/
namespace PsycheModel.ArithSpec
open PsycheModel.Specifiers (BK)
open PsycheModel.Arith

structure Platform where
  charBits : Nat
  shortBits : Nat
  intBits : Nat
  longBits : Nat
  llongBits : Nat

def lp64 : Platform := ⟨8, 16, 32, 64, 64⟩
/-- 32-bit `long` (ILP32, and LLP64 as far as the integer types go) -/
def ilp32 : Platform := ⟨8, 16, 32, 32, 64⟩
/-- 16-bit `int` -/
def ip16 : Platform := ⟨8, 16, 16, 32, 64⟩

/-- 6.3.1.1p1 integer conversion rank -/
def rank : BK → Nat
  | .Bool => 0
  | .Char | .Char_S | .Char_U => 1
  | .Short_S | .Short_U => 2
  | .Int_S | .Int_U => 3
  | .Long_S | .Long_U => 4
  | .LongLong_S | .LongLong_U => 5
  | _ => 0

def width (p : Platform) : BK → Nat
  | .Bool => 1
  | .Char | .Char_S | .Char_U => p.charBits
  | .Short_S | .Short_U => p.shortBits
  | .Int_S | .Int_U => p.intBits
  | .Long_S | .Long_U => p.longBits
  | .LongLong_S | .LongLong_U => p.llongBits
  | _ => 0

/-- plain `char` is signed on this platform -/
def isUnsigned : BK → Bool
  | .Bool | .Char_U | .Short_U | .Int_U | .Long_U | .LongLong_U => true
  | _ => false

/-- largest value of an integer type -/
def maxVal (p : Platform) (k : BK) : Nat :=
  if isUnsigned k then 2 ^ width p k - 1 else 2 ^ (width p k - 1) - 1

/-- the signed type `s` can represent every value of the integer type `k` -/
def represents (p : Platform) (s k : BK) : Bool :=
  if isUnsigned k then decide (width p k < width p s) else decide (width p k ≤ width p s)

def toUnsigned : BK → BK
  | .Int_S => .Int_U | .Long_S => .Long_U | .LongLong_S => .LongLong_U | k => k

/-- 6.3.1.1p2 -/
def promote (p : Platform) (k : BK) : BK :=
  if isIntegerK k && decide (rank k < rank .Int_S) then
    (if represents p .Int_S k then .Int_S else .Int_U)
  else k

def realRank : BK → Nat
  | .Float | .FloatComplex => 1
  | .Double | .DoubleComplex => 2
  | .LongDouble | .LongDoubleComplex => 3
  | _ => 0

def ofRealRank (n : Nat) (cx : Bool) : BK :=
  if n ≥ 3 then (if cx then .LongDoubleComplex else .LongDouble)
  else if n = 2 then (if cx then .DoubleComplex else .Double)
  else (if cx then .FloatComplex else .Float)

/-- 6.3.1.8p1, usual arithmetic conversions: type of the result -/
def usualArith (p : Platform) (l r : BK) : BK :=
  if realRank l ≠ 0 ∨ realRank r ≠ 0 then
    ofRealRank (max (realRank l) (realRank r)) (isComplexK l || isComplexK r)
  else
    let a := promote p l
    let b := promote p r
    if a = b then a
    else if isUnsigned a = isUnsigned b then (if rank a ≥ rank b then a else b)
    else
      let s := if isUnsigned a then b else a
      let u := if isUnsigned a then a else b
      if rank u ≥ rank s then u
      else if represents p s u then s
      else toUnsigned s

/-- 6.5.5–6.5.9: result type of a binary operator on arithmetic operands (`none` = constraint violation) -/
def binSpec (p : Platform) (op : Op) (l r : BK) : Option BK :=
  match op with
  | .mul | .div | .add | .sub => some (usualArith p l r)
  | .rem => if isIntegerK l && isIntegerK r then some (usualArith p l r) else none
  | .shl | .shr => if isIntegerK l && isIntegerK r then some (promote p l) else none       -- 6.5.7p3
  | .lt | .gt | .le | .ge => if isRealK l && isRealK r then some .Int_S else none             -- 6.5.8p2,p6
  | .eq | .ne => some .Int_S                                                                  -- 6.5.9p3

/-- 6.5.16p3 / 6.5.16.2: a compound assignment has the type of its left operand -/
def assignSpec (op : Op) (l r : BK) : Option BK :=
  match op with
  | .mul | .div | .add | .sub => some l
  | .rem | .shl | .shr => if isIntegerK l && isIntegerK r then some l else none
  | _ => none

/-- 6.4.4.1p5, the table: candidate types by suffix and base -/
def table641 (octOrHex : Bool) : Suffix → List BK
  | .none => if octOrHex then [.Int_S, .Int_U, .Long_S, .Long_U, .LongLong_S, .LongLong_U] else [.Int_S, .Long_S, .LongLong_S]
  | .u => [.Int_U, .Long_U, .LongLong_U]
  | .l => if octOrHex then [.Long_S, .Long_U, .LongLong_S, .LongLong_U] else [.Long_S, .LongLong_S]
  | .lu => [.Long_U, .LongLong_U]
  | .ll => if octOrHex then [.LongLong_S, .LongLong_U] else [.LongLong_S]
  | .llu => [.LongLong_U]

/-- "the first in the corresponding list in which its value can be represented" -/
def firstFit (p : Platform) (v : Nat) (l : List BK) : Option BK := l.find? (fun k => decide (v ≤ maxVal p k))

end PsycheModel.ArithSpec
