import PsycheModel.Generated.SyntaxKind
/-!
# Skeleton of the parser's token protocol (property C01)

The token vector the lexer hands to the parser is a list of kinds that ends with exactly one `EndOfFile`
sentinel.  `Parser::peek`, `consume`, `match`, `skipTo`, the four panic-mode recovery loops (`ignore*`, whose
stop sets are regenerated from `Parser.cpp`), look-ahead scans (`guessRoleOfIdentifier`) and `Backtracker` are
modelled on a cursor.  An out-of-bounds index is *not* totalised away: `peek?` returns `none` there and the
theorems show it is never hit.
-/
namespace PsycheModel.ParserProtocol
open PsycheModel.Generated

abbrev Toks := List Kind

/-- the lexer's contract: the vector ends with the sentinel and holds no other `EndOfFile` -/
def WellFormed (ts : Toks) : Prop := ∃ body, ts = body ++ [Kind.EndOfFile] ∧ Kind.EndOfFile ∉ body

def eofIdx (ts : Toks) : Nat := ts.length - 1

/-- `tree_->tokenAt(cur + LA - 1)`; `none` = index outside the vector (undefined behaviour in C++) -/
def peek? (ts : Toks) (cur la : Nat) : Option Kind := ts[cur + la - 1]?

/-- `Parser::consume()`: never moves past the sentinel -/
def consume (ts : Toks) (cur : Nat) : Nat :=
  if ts[cur]? = some Kind.EndOfFile then cur else cur + 1

/-- `Parser::match`: returns the new cursor and whether the kind matched -/
def matchTok (ts : Toks) (cur : Nat) (k : Kind) : Nat × Bool :=
  if ts[cur]? = some k then (consume ts cur, true)
  else if ts[cur]? ≠ some Kind.EndOfFile then (consume ts cur, false)
  else (cur, false)

/-- `Parser::skipTo`: fuel = tokens left (the loop consumes one token per iteration) -/
def skipTo (ts : Toks) (k : Kind) : Nat → Nat → Nat
  | 0, cur => cur
  | fuel + 1, cur =>
    match ts[cur]? with
    | none => cur
    | some c => if c = k ∨ c = Kind.EndOfFile then cur else skipTo ts k fuel (consume ts cur)

/-- a panic-mode recovery loop `ignoreX` with its "just return" and "skip and return" sets -/
def ignoreLoop (ts : Toks) (stop skipRet : List Kind) : Nat → Nat → Nat
  | 0, cur => cur
  | fuel + 1, cur =>
    match ts[cur]? with
    | none => cur
    | some c =>
      if c ∈ stop then cur
      else if c ∈ skipRet then consume ts cur
      else ignoreLoop ts stop skipRet fuel (consume ts cur)

/-- a look-ahead scan (`guessRoleOfIdentifier`-style): increase `LA` until a kind of `stops` or the sentinel -/
def scanAhead (ts : Toks) (cur : Nat) (stops : List Kind) : Nat → Nat → Nat
  | 0, la => la
  | fuel + 1, la =>
    match peek? ts cur la with
    | none => la
    | some c => if c = Kind.EndOfFile ∨ c ∈ stops then la else scanAhead ts cur stops fuel (la + 1)

/-- one step of a parse, as far as the cursor is concerned -/
inductive Op where
  | consume
  | matchTok (k : Kind)
  | skipTo (k : Kind)
  | ignore (stop skipRet : List Kind)
  | backtrackTo (saved : Nat)       -- `Backtracker::backtrack()`: restore a cursor saved earlier

def step (ts : Toks) (cur : Nat) : Op → Nat
  | .consume => consume ts cur
  | .matchTok k => (matchTok ts cur k).1
  | .skipTo k => skipTo ts k (ts.length - cur) cur
  | .ignore stop skipRet => ignoreLoop ts stop skipRet (ts.length - cur) cur
  | .backtrackTo saved => if saved ≤ cur then saved else cur

/-- the member loop of `parseTagTypeSpecifier_AtFirst`: `parseMember` is an arbitrary sub-parser that moves the
cursor forward (or not at all) and reports success; the loop ends at `}`, at the sentinel, or when a failed member
and its recovery made no progress.  Returns the final cursor and the number of iterations. -/
def memberLoop (ts : Toks) (parseMember : Nat → Nat × Bool) (stop skipRet : List Kind) : Nat → Nat → Nat × Nat
  | 0, cur => (cur, 0)
  | fuel + 1, cur =>
    if ts[cur]? = some Kind.CloseBraceToken then (consume ts cur, 1)
    else
      let r := parseMember cur
      if r.2 then
        if r.1 ≤ cur then (r.1, 1) else let q := memberLoop ts parseMember stop skipRet fuel r.1; (q.1, q.2 + 1)
      else
        let c := ignoreLoop ts stop skipRet (ts.length - r.1) r.1
        if ts[c]? = some Kind.EndOfFile ∨ c ≤ cur then (c, 1)
        else let q := memberLoop ts parseMember stop skipRet fuel c; (q.1, q.2 + 1)

/-! ## Nesting limit (`DepthControl`) -/

/-- a recursive descent that opens one nesting level per `true` and closes one per `false`; `DepthControl` shares
the parser's counter and throws when the limit is reached -/
def descend (limit : Nat) : Nat → List Bool → Option Nat      -- none = the nesting-limit exception
  | d, [] => some d
  | d, true :: rest => if d ≥ limit then none else descend limit (d + 1) rest
  | d, false :: rest => descend limit (d - 1) rest

end PsycheModel.ParserProtocol
