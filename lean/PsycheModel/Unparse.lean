import PsycheModel.Tree
/-!
# Model of the unparser (property C03)

`Unparser` (`C/parser/Unparser.cpp`) is a `SyntaxDumper` whose `terminal(tk)` writes the token's spelling followed by a
separator and ignores the end-of-file token; `SyntaxDumper` (`C/syntax/SyntaxDumper.h`) walks every node and calls
`terminal` / `nonterminal` for the node's tokens, children and list elements with their delimiters.  The model takes the
dumper's per-node sequence to be the node's own child list (`childNodesAndTokens()`); that this is so for the real
dumper is checked on every node of every tree of the correspondence run (`faithful`), class by class.
-/
namespace PsycheModel.Tree

/-- the tokens the unparser writes, in the order it writes them: every valid token of the walk except end-of-file -/
def emitted (isEOF : Nat → Bool) (t : Tree) : List Nat := (allTokens t).filter fun i => !isEOF i

/-- `Unparser::unparse`: spelling and separator of every emitted token (`sep` = newline after `{ } ;`, blank otherwise) -/
def unparse (isEOF : Nat → Bool) (spell sep : Nat → String) (t : Tree) : String :=
  String.join ((emitted isEOF t).map fun i => spell i ++ sep i)

/-- source order, delimiters included: the token indices met by the walk strictly increase -/
def OrderedAll (t : Tree) : Prop := (allTokens t).Pairwise (· < ·)

instance (t : Tree) : Decidable (OrderedAll t) := by unfold OrderedAll; infer_instance

end PsycheModel.Tree
