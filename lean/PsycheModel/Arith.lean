import PsycheModel.Specifiers
/-!
# Model of the arithmetic typing rules of `C/sema/TypeChecker.cpp` (property C13)

Transcribed: `performIntegerPromotion`, `performSignBasedIntegerConversion`, `performArithmeticConversions`,
the arithmetic branches of `visitBinaryExpression_*` / `visitAssignmentExpression`, `selectTypeForValue` with
the candidate lists of `visitConstantExpression`, `Lexeme::checkVariousPrefixesAndSuffixes`,
`IntegerConstant::representationSuffix`, `FloatingConstant::representationSuffix`,
`CharacterConstant::encodingPrefix`, and the kind predicates of `TypeKind_Basic.h`.
-/
namespace PsycheModel.Arith
open PsycheModel.Specifiers (BK)

def BK.all : List BK := [.Char, .Char_S, .Char_U, .Short_S, .Short_U, .Int_S, .Int_U, .Long_S, .Long_U, .LongLong_S,
  .LongLong_U, .Bool, .Float, .Double, .LongDouble, .FloatComplex, .DoubleComplex, .LongDoubleComplex]

def isSignedK : BK → Bool
  | .Char_S | .Short_S | .Int_S | .Long_S | .LongLong_S => true
  | _ => false

def isUnsignedK : BK → Bool
  | .Char_U | .Short_U | .Int_U | .Long_U | .LongLong_U | .Bool => true
  | _ => false

def isIntegerK : BK → Bool
  | .Char | .Char_U | .Char_S | .Short_S | .Short_U | .Int_U | .Int_S | .Long_U | .Long_S | .LongLong_U
  | .LongLong_S | .Bool => true
  | _ => false

def isRealK : BK → Bool
  | .Char | .Char_U | .Char_S | .Short_U | .Short_S | .Int_U | .Int_S | .Long_U | .Long_S | .LongLong_U
  | .LongLong_S | .Bool | .Float | .Double | .LongDouble => true
  | _ => false

/-- `performIntegerPromotion` (the `default:` branch returns the kind unchanged) -/
def intPromote : BK → BK
  | .Bool | .Char | .Char_S | .Char_U | .Short_S | .Short_U => .Int_S
  | k => k

/-- `performSignBasedIntegerConversion(signedTyK, unsignedTyK)` -/
def signBased (s u : BK) : BK :=
  match u with
  | .LongLong_U => u
  | .Long_U => match s with
    | .LongLong_S => .LongLong_U
    | _ => u
  | .Int_U => match s with
    | .Long_S | .LongLong_S => s
    | _ => u
  | .Short_U => match s with
    | .Int_S | .Long_S | .LongLong_S => s
    | _ => u
  | .Char_U => match s with
    | .Short_S | .Int_S | .Long_S | .LongLong_S => s
    | _ => u
  | .Bool => s
  | _ => u

def floatingRank : BK → Nat
  | .Float | .FloatComplex => 1
  | .Double | .DoubleComplex => 2
  | .LongDouble | .LongDoubleComplex => 3
  | _ => 0

def isComplexK : BK → Bool
  | .FloatComplex | .DoubleComplex | .LongDoubleComplex => true
  | _ => false

/-- `performArithmeticConversions` -/
def arithConv (l r : BK) : BK :=
  let rank := max (floatingRank l) (floatingRank r)
  if rank ≠ 0 then
    let cx := isComplexK l || isComplexK r
    match rank with
    | 1 => if cx then .FloatComplex else .Float
    | 2 => if cx then .DoubleComplex else .Double
    | _ => if cx then .LongDoubleComplex else .LongDouble
  else
    let l := intPromote l
    let r := intPromote r
    if l = r then r
    else if isSignedK l then
      if isSignedK r then
        match l with
        | .LongLong_S => l
        | .Long_S => (match r with | .LongLong_S => r | _ => l)
        | _ => (match r with | .LongLong_S | .Long_S => r | _ => l)
      else signBased l r
    else if isUnsignedK r then
      match l with
      | .LongLong_U => l
      | .Long_U => (match r with | .LongLong_U => r | _ => l)
      | _ => (match r with | .LongLong_U | .Long_U => r | _ => l)
    else signBased r l

inductive Op where
  | mul | div | rem | add | sub | shl | shr | lt | gt | le | ge | eq | ne
  deriving DecidableEq, Repr

def Op.all : List Op := [.mul, .div, .rem, .add, .sub, .shl, .shr, .lt, .gt, .le, .ge, .eq, .ne]

/-- type recorded for `l op r` with arithmetic operands; `none` = operator constraint violated -/
def binType (op : Op) (l r : BK) : Option BK :=
  match op with
  | .mul | .div | .add | .sub => some (arithConv l r)
  | .rem => if isIntegerK l && isIntegerK r then some (arithConv l r) else none
  | .shl | .shr => if isIntegerK l && isIntegerK r then some (intPromote l) else none
  | .lt | .gt | .le | .ge => if isRealK l && isRealK r then some .Int_S else none
  | .eq | .ne => some .Int_S

/-- type recorded for the compound assignment `l op= r` (only the arithmetic operators have one) -/
def assignType (op : Op) (l r : BK) : Option BK :=
  match op with
  | .mul | .div | .add | .sub => some l
  | .rem | .shl | .shr => if isIntegerK l && isIntegerK r then some l else none
  | _ => none

/-! ## Constants -/

/-- `PlatformOptions::maxValueOf` on the LP64 host the default `PlatformOptions()` is built on -/
def maxOf : BK → Nat
  | .Char => 127 | .Char_S => 127 | .Char_U => 255 | .Short_S => 32767 | .Short_U => 65535
  | .Int_S => 2147483647 | .Int_U => 4294967295
  | .Long_S => 9223372036854775807 | .Long_U => 18446744073709551615
  | .LongLong_S => 9223372036854775807 | .LongLong_U => 18446744073709551615
  | .Bool => 1
  | _ => 0

inductive Suffix where
  | none | u | l | lu | ll | llu
  deriving DecidableEq, Repr

/-- candidate arrays of `visitConstantExpression` -/
def candidates (octOrHex : Bool) : Suffix → List BK
  | .none => if octOrHex then [.Int_S, .Int_U, .Long_S, .Long_U, .LongLong_S, .LongLong_U] else [.Int_S, .Long_S, .LongLong_S]
  | .u => [.Int_U, .Long_U, .LongLong_U]
  | .l => if octOrHex then [.Long_S, .Long_U, .LongLong_S, .LongLong_U] else [.Long_S, .LongLong_S]
  | .lu => [.Long_U, .LongLong_U]
  | .ll => if octOrHex then [.LongLong_S, .LongLong_U] else [.LongLong_S]
  | .llu => [.LongLong_U]

/-- `selectTypeForValue`: the first `N-1` candidates are tested, the last one is unconditional -/
def selectType (v : Nat) : List BK → BK
  | [] => .Int_S
  | [k] => k
  | k :: rest => if v ≤ maxOf k then k else selectType v rest

def intConstType (octOrHex : Bool) (s : Suffix) (v : Nat) : BK := selectType v (candidates octOrHex s)

/-- the same for a CONFIGURED platform: `mx` is the table `PlatformOptions::setMaxValueOf` filled (`maxOf` is the default one) -/
def selectTypeM (mx : BK → Nat) (v : Nat) : List BK → BK
  | [] => .Int_S
  | [k] => k
  | k :: rest => if v ≤ mx k then k else selectTypeM mx v rest

def intConstTypeM (mx : BK → Nat) (octOrHex : Bool) (s : Suffix) (v : Nat) : BK := selectTypeM mx v (candidates octOrHex s)

/-- the flag bits of `Lexeme` that matter here -/
structure Flags where
  l : Bool := false
  L : Bool := false
  ll : Bool := false
  u : Bool := false
  U : Bool := false
  u8 : Bool := false
  f : Bool := false
  deriving DecidableEq, Repr

/-- the loop of `Lexeme::checkVariousPrefixesAndSuffixes` over the characters it is given -/
def scan (fl : Flags) : List Char → Flags
  | [] => fl
  | 'l' :: 'l' :: rest => scan { fl with ll := true } rest
  | 'l' :: rest => scan { fl with l := true } rest
  | 'L' :: 'L' :: rest => scan { fl with ll := true } rest
  | 'L' :: rest => scan { fl with L := true } rest
  | 'u' :: '8' :: rest => scan { fl with u8 := true } rest
  | 'u' :: rest => scan { fl with u := true } rest
  | 'U' :: rest => scan { fl with U := true } rest
  | 'f' :: rest => scan { fl with f := true } rest
  | 'F' :: rest => scan { fl with f := true } rest
  | _ :: rest => scan fl rest

/-- in a hexadecimal constant `f` and `F` are digits up to the binary exponent (`p`/`P`): the repaired loop does not take them
for a suffix there.  Masking them by a neutral character gives the repaired loop from the loop above (the two-character
look-aheads `ll`, `LL`, `u8` see a character that is none of `l L 8` either way). -/
def maskHexF : List Char → List Char
  | [] => []
  | c :: rest => if c = 'p' ∨ c = 'P' then c :: rest else (if c = 'f' ∨ c = 'F' then '0' else c) :: maskHexF rest

/-- `Lexeme::checkHexAndOctalPrefix`: `F_.hex_` -/
def isHexSpelling : List Char → Bool
  | '0' :: 'x' :: _ => true
  | '0' :: 'X' :: _ => true
  | _ => false

/-- `Lexeme::checkVariousPrefixesAndSuffixes` on a numeric constant -/
def scanNum (cs : List Char) : Flags := scan {} (if isHexSpelling cs then maskHexF cs else cs)

/-- `IntegerConstant::representationSuffix` -/
def intSuffix (fl : Flags) : Suffix :=
  if fl.ll then (if fl.u || fl.U then .llu else .ll)
  else if fl.l || fl.L then (if fl.u || fl.U then .lu else .l)
  else if fl.u || fl.U then .u else .none

/-- `FloatingConstant::representationSuffix` mapped to the type of `visitConstantExpression` -/
def floatConstType (fl : Flags) : BK :=
  if fl.f then .Float else if fl.l || fl.L then .LongDouble else .Double

/-- character constants: the prefix is scanned up to the opening quote; `CharacterConstant::encodingPrefix`;
types with no `wchar_t`/`char16_t`/`char32_t` typedef in scope -/
def charConstType (spelling : List Char) : BK :=
  let fl := scan {} (spelling.takeWhile (fun c => c != '\'' && c != '"'))
  if fl.L then .Int_S else if fl.u then .Short_U else if fl.U then .Int_U else .Int_S

end PsycheModel.Arith
