/-!
# Model of `Compilation`'s bookkeeping (property C15)

`Compilation::addSyntaxTree / computeSemanticModel / semanticModel` (`C/sema/Compilation.cpp`): the trees added so far,
a dirty flag per tree, a semantic model per tree.  What the four phases compute for a tree is the parameter `analyse`:
a function of the tree alone.  That the real phases ARE such a function (they read only their tree and the immutable
compilation-wide canonical types, no process-wide state) is what the history enumeration checks on the implementation.
-/
namespace PsycheModel.Compilation

inductive Op where
  | add (t : Nat)         -- addSyntaxTree
  | compute (t : Nat)     -- computeSemanticModel
  | query (t : Nat)       -- semanticModel
  deriving DecidableEq, Repr

structure St (M : Type) where
  added : List Nat := []
  dirty : Nat → Bool := fun _ => false
  model : Nat → Option M := fun _ => none      -- none: the (empty) model of a tree not yet computed

def step {M : Type} (analyse : Nat → M) (s : St M) : Op → St M
  | .add t =>
    if t ∈ s.added then s                                           -- `if (it != semaModels_.end()) return;`
    else { s with added := t :: s.added, dirty := fun i => if i = t then true else s.dirty i }
  | .compute t =>
    if t ∈ s.added ∧ s.dirty t = true then
      { s with model := fun i => if i = t then some (analyse t) else s.model i,
               dirty := fun i => if i = t then false else s.dirty i }
    else s
  | .query _ => s

def run {M : Type} (analyse : Nat → M) (s : St M) : List Op → St M
  | [] => s
  | op :: ops => run analyse (step analyse s op) ops

/-- the operations that name tree `t` -/
def Op.tree : Op → Nat
  | .add t => t
  | .compute t => t
  | .query t => t

/-- two states agree on everything that concerns tree `t` -/
def Agree {M : Type} (t : Nat) (s s' : St M) : Prop :=
  (t ∈ s.added ↔ t ∈ s'.added) ∧ s.dirty t = s'.dirty t ∧ s.model t = s'.model t

end PsycheModel.Compilation
