/-!
# Model of the diagnostics bookkeeping around failed parses (property C01: "malformed input is answered with diagnostics")

`Parser::DiagnosticsReporter::diagnoseOrDelayDiagnostic` (nothing is reported while a backtracker is alive),
`Parser::Backtracker` (construction / discard), `Parser::noteFailedParse` (the translation-unit, compound-statement and member
loops and the fragment entry points call it for a construct a rule gave up on; the FIRST one noted outside a speculative
parse is kept) and `Parser::diagnoseFailedParseIfUndiagnosed` (run when parsing is over, `SyntaxTree::buildFor`).
-/
namespace PsycheModel.ParseNet

structure St where
  diags : Nat := 0            -- the diagnostics that count as a diagnosis of unparsed tokens: errors other than the four about where a
                              -- statement stands (`case` outside a switch …) - all of `tree_->diagnostics()` until the fifth session
  failed : Option Nat := none -- `failedParseTkIdx_`
  bt : Nat := 0               -- live backtrackers: `willBacktrack()` is `bt > 0`
  deriving DecidableEq, Repr

inductive Op where
  | diag                -- some rule reports a diagnostic
  | note (tk : Nat)     -- `noteFailedParse(tk)`
  | push | pop          -- a `Backtracker` is constructed / discarded
  deriving DecidableEq, Repr

def step (s : St) : Op → St
  | .diag => if s.bt = 0 then { s with diags := s.diags + 1 } else s
  | .note tk => if s.failed.isNone && s.bt = 0 then { s with failed := some tk } else s
  | .push => { s with bt := s.bt + 1 }
  | .pop => { s with bt := s.bt - 1 }

def run (ops : List Op) : St := ops.foldl step {}

/-- `diagnoseFailedParseIfUndiagnosed`: `Parser-103` at the token noted -/
def finish (s : St) : St := if s.failed.isSome && s.diags = 0 then { s with diags := 1 } else s

/-- a construct was given up on outside every speculative parse, at some point of the history -/
def notedOutside : St → List Op → Bool
  | _, [] => false
  | s, op :: rest => (match op with | .note _ => s.bt = 0 | _ => false) || notedOutside (step s op) rest

end PsycheModel.ParseNet
