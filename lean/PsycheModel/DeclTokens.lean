import PsycheModel.Declarators
import PsycheModel.GuessRole
/-!
# The token classes a declarator is written with (shared by C04's theorems on `guessRoleOfIdentifier`)

`toks d` is the sequence of token classes of the declarator syntax `d` (`PsycheModel.Declarators.Decl`), as the grammar
of 6.7.6 writes it: `*` qualifiers inner, `(` inner `)`, inner `[` size `]`, inner `(` parameters `)`.  Parameter
declarations are written with a keyword type specifier (a typedef name there is exactly the blind spot the theorems
carve out).
-/
namespace PsycheModel.DeclTokens
open PsycheModel.Declarators PsycheModel.GuessRole

mutual
def toks : Decl → List K
  | .ident _ => [.ident]
  | .abstract => []
  | .ptr qs d => .star :: ((qs.map fun _ => K.qual) ++ toks d)
  | .paren d => .lparen :: (toks d ++ [.rparen])
  | .bitfield d => toks d
  | .arr d => toks d ++ [.lbrack, .other, .rbrack]
  | .fn d ps ell => toks d ++ (.lparen :: (toksPs ps ++ ((if ell then [.comma, .other] else []) ++ [.rparen])))
def toksPs : Params → List K
  | .nil => []
  | .cons _ d .nil => .typeSpec :: toks d
  | .cons _ d rest => .typeSpec :: (toks d ++ (.comma :: toksPs rest))
end

/-- what the running `check` of the scan becomes over a token list (groups do not matter for it) -/
def foldCheck : List K → Int → Int
  | [], c => c
  | t :: rest, c =>
    if t = .lparen ∨ t = .rparen ∨ t = .star then foldCheck rest c
    else if t = .ident then foldCheck rest (if c = 0 then -1 else 1)
    else foldCheck rest (c + 1)

/-- `wf g e`: scanning `g` with `e` groups already open inside it never closes more than it opened, ends with none open,
and meets no semicolon -/
def wf : List K → Nat → Bool
  | [], e => e == 0
  | t :: rest, e =>
    if t = .lparen then wf rest (e + 1)
    else if t = .rparen then decide (0 < e) && wf rest (e - 1)
    else if t = .semicolon then false
    else wf rest e

end PsycheModel.DeclTokens
