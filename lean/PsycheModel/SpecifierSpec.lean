import PsycheModel.Specifiers
/-!
# C11 6.7.2p2 as a table (hand-written specification for C08)

Each row is one bullet alternative of 6.7.2p2 ("the type specifiers may occur in any order"), given as a
multiset of keywords, with the basic type it denotes; plus the GNU reading of a lone `_Complex` as
`double _Complex`.  `_Bool`, `void` and the real/complex floating rows admit no `signed`/`unsigned`/`int`.
-/
namespace PsycheModel.Specifiers

def rows : List (List Kw × Ty) := [
  ([.void], .void),
  ([.char], .basic .Char),
  ([.signed, .char], .basic .Char_S),
  ([.unsigned, .char], .basic .Char_U),
  ([.short], .basic .Short_S), ([.signed, .short], .basic .Short_S), ([.short, .int], .basic .Short_S),
  ([.signed, .short, .int], .basic .Short_S),
  ([.unsigned, .short], .basic .Short_U), ([.unsigned, .short, .int], .basic .Short_U),
  ([.int], .basic .Int_S), ([.signed], .basic .Int_S), ([.signed, .int], .basic .Int_S),
  ([.unsigned], .basic .Int_U), ([.unsigned, .int], .basic .Int_U),
  ([.long], .basic .Long_S), ([.signed, .long], .basic .Long_S), ([.long, .int], .basic .Long_S),
  ([.signed, .long, .int], .basic .Long_S),
  ([.unsigned, .long], .basic .Long_U), ([.unsigned, .long, .int], .basic .Long_U),
  ([.long, .long], .basic .LongLong_S), ([.signed, .long, .long], .basic .LongLong_S),
  ([.long, .long, .int], .basic .LongLong_S), ([.signed, .long, .long, .int], .basic .LongLong_S),
  ([.unsigned, .long, .long], .basic .LongLong_U), ([.unsigned, .long, .long, .int], .basic .LongLong_U),
  ([.float], .basic .Float),
  ([.double], .basic .Double),
  ([.long, .double], .basic .LongDouble),
  ([.bool], .basic .Bool),
  ([.float, .complex], .basic .FloatComplex),
  ([.double, .complex], .basic .DoubleComplex),
  ([.long, .double, .complex], .basic .LongDoubleComplex),
  ([.complex], .basic .DoubleComplex)]       -- GNU: lone _Complex

/-- same multiset of keywords -/
def sameMS (a b : List Kw) : Bool := Kw.all.all (fun k => a.count k == b.count k)
/-- sub-multiset -/
def subMS (a b : List Kw) : Bool := Kw.all.all (fun k => decide (a.count k ≤ b.count k))

/-- the type the keyword multiset denotes, if it is a row of the table -/
def rowOf (ks : List Kw) : Option Ty := (rows.find? (fun r => sameMS ks r.1)).map (·.2)

/-- the multiset can still be completed to a row -/
def viable (ks : List Kw) : Bool := rows.any (fun r => subMS ks r.1)

end PsycheModel.Specifiers
