/-!
# Model of declarator binding (property C07)

Transcription of the declarator half of the declaration binder (`C/sema/DeclarationBinder_Declarators.cpp`,
`DeclarationBinder_Specifiers.cpp: visitTypeQualifier`, `DeclarationBinder_End.cpp`):

* `tys_` ↦ `List Ty`, head = top of the stack; `pushType/popType` ↦ cons / tail;
  an empty stack where the code says `TY_AT_TOP` ↦ `none` (the assertion-guarded path);
* `visitPointerDeclarator`, `visitArrayOrFunctionDeclarator`, `visitParenthesizedDeclarator`, `visitBitfieldDeclarator`,
  `visitIdentifierDeclarator`/`visitAbstractDeclarator` + `handleNonTypedefDeclarator` ↦ `visitD`;
* `visitParameterSuffix` (each parameter on a swapped-in empty stack) + `visitParameterDeclaration_*` ↦ `visitPs`;
* `visit_AtMultipleDeclarators_COMMON` + `popTypesUntilNonDerivedDeclaratorType` ↦ `bindDeclarators`, `popUntil`;
* `visitTypeQualifier` ↦ `applyQual`.

One deliberate deviation from the statement order of the C++: the code pushes the (still parameter-less) function type,
visits the inner declarator and only then visits the parameter suffix, which adds the parameter types to the *same object*
through `openFuncTys_.top()`.  The model computes the parameter types first and pushes the finished function type; the two
orders are indistinguishable to an observer of the finished symbols because the suffix is visited on its own type stack.
That the real code behaves like this model is what the correspondence run checks on every generated declaration.

The base type left by the specifiers is opaque (`Ty.base`): it is C08's business.
-/
namespace PsycheModel.Declarators

inductive Qual where
  | const | volatile | restrict | atomic
  deriving DecidableEq, Repr, Inhabited

structure Quals where
  c : Bool := false
  v : Bool := false
  r : Bool := false
  a : Bool := false
  deriving DecidableEq, Repr, Inhabited

/-- how a pointer type arose (`markAsArisingFromArrayDecay` / `…FunctionDecay`) -/
inductive Decay where
  | none | arr | fn
  deriving DecidableEq, Repr, Inhabited

inductive Ty where
  | base (s : String)                                  -- whatever the specifiers bound (basic, void, tag, typedef name, qualified …)
  | qual (q : Quals) (t : Ty)                           -- `QualifiedType`
  | ptr (d : Decay) (t : Ty)                            -- `PointerType`
  | arr (t : Ty)                                        -- `ArrayType`
  | fn (ret : Ty) (ps : List Ty) (variadic : Bool)      -- `FunctionType`
  deriving Repr, Inhabited

mutual
/-- declarator syntax (`DeclaratorSyntax` subclasses) -/
inductive Decl where
  | ident (n : String)                                  -- `IdentifierDeclaratorSyntax`
  | abstract                                            -- `AbstractDeclaratorSyntax`
  | ptr (qs : List Qual) (d : Decl)                     -- `PointerDeclaratorSyntax` (`*` qualifiers inner)
  | paren (d : Decl)                                    -- `ParenthesizedDeclaratorSyntax`
  | arr (d : Decl)                                      -- `ArrayOrFunctionDeclaratorSyntax` + `SubscriptSuffixSyntax`
  | fn (d : Decl) (ps : Params) (ellipsis : Bool)       -- `ArrayOrFunctionDeclaratorSyntax` + `ParameterSuffixSyntax`
  | bitfield (d : Decl)                                 -- `BitfieldDeclaratorSyntax` with an inner declarator
/-- parameter declarations of a suffix: specifiers' type and declarator -/
inductive Params where
  | nil
  | cons (base : String) (d : Decl) (rest : Params)   -- `base` names the (opaque, non-derived) type the specifiers bind
end

/-- where the declaration stands -/
inductive Ctx where
  | object     -- file or block scope, not inside a tag declaration
  | member     -- member declaration of a struct/union
  | typedef    -- `F_.inTydefDecltor_`
  | param      -- function-prototype scope
  deriving DecidableEq, Repr, Inhabited

inductive SymK where
  | variable | function | parameter | field | typedef
  deriving DecidableEq, Repr, Inhabited

structure Sym where
  kind : SymK
  name : String         -- "" = the empty identifier of abstract declarators / anonymous bit-fields
  ty : Ty
  deriving Repr, Inhabited

/-! ## `visitTypeQualifier` -/

def Quals.add (q : Quals) : Qual → Quals
  | .const => { q with c := true }
  | .volatile => { q with v := true }
  | .restrict => { q with r := true }
  | .atomic => { q with a := true }

def Ty.isPtr : Ty → Bool
  | .ptr _ _ => true
  | _ => false

/-- the type at the top is wrapped in a `QualifiedType` unless it already is one; `restrict` only sticks to pointers -/
def applyQual (st : List Ty) (k : Qual) : Option (List Ty) :=
  match st with
  | [] => none
  | .qual q u :: rest =>
    some (.qual (if k = .restrict && !u.isPtr then q else q.add k) u :: rest)
  | t :: rest =>
    some (.qual (if k = .restrict && !t.isPtr then {} else ({} : Quals).add k) t :: rest)

def applyQuals : List Qual → List Ty → Option (List Ty)
  | [], st => some st
  | k :: ks, st => (applyQual st k).bind (applyQuals ks)

/-! ## `popTypesUntilNonDerivedDeclaratorType` -/

def Ty.isDerived : Ty → Bool
  | .arr _ | .fn .. | .ptr .. => true
  | _ => false

def popUntil : List Ty → List Ty
  | [] => []
  | .qual q u :: rest => if u.isDerived then popUntil rest else .qual q u :: rest
  | .arr _ :: rest => popUntil rest
  | .fn .. :: rest => popUntil rest
  | .ptr .. :: rest => popUntil rest
  | t :: rest => t :: rest

/-! ## `handleNonTypedefDeclarator` -/

def Ty.isFn : Ty → Bool
  | .fn .. => true
  | _ => false

/-- identifier / abstract declarator reached with stack `st`: the new stack and the kind of symbol bound -/
def handleLeaf (ctx : Ctx) (st : List Ty) : Option (List Ty × SymK) :=
  match st with
  | [] => none
  | t :: rest =>
    match ctx with
    | .typedef => some (st, .typedef)
    | .object => some (st, if t.isFn then .function else .variable)
    | .member => some (st, if t.isFn then .function else .field)
    | .param =>
      match t with
      | .arr _ =>
        -- 6.7.6.3-7: popType(); pointer to *the type now at the top*, flagged as array decay
        match rest with
        | [] => none
        | u :: _ => some (.ptr .arr u :: rest, .parameter)
      | .fn .. => some (.ptr .fn t :: st, .parameter)      -- 6.7.6.3-8
      | _ => some (st, .parameter)

/-! ## the declarator visitor -/

mutual
/-- returns the stack after the declarator, the kind and name of the symbol bound at its leaf, and the symbols of the
parameter declarations visited on the way (in creation order) -/
def visitD (ctx : Ctx) : Decl → List Ty → Option (List Ty × SymK × String × List Sym)
  | .ident n, st => (handleLeaf ctx st).map fun (st', k) => (st', k, n, [])
  | .abstract, st => (handleLeaf ctx st).map fun (st', k) => (st', k, "", [])
  | .paren d, st => visitD ctx d st
  | .bitfield d, st => visitD ctx d st
  | .ptr qs d, st =>
    match st with
    | [] => none
    | t :: _ => (applyQuals qs (.ptr .none t :: st)).bind (visitD ctx d)
  | .arr d, st =>
    match st with
    | [] => none
    | t :: _ => visitD ctx d (.arr t :: st)
  | .fn d ps ell, st =>
    match st with
    | [] => none
    | t :: _ =>
      match visitPs ps with
      | none => none
      | some (pts, psyms) =>
        match visitD ctx d (.fn t pts ell :: st) with
        | none => none
        | some (st', k, n, nested) => some (st', k, n, nested ++ psyms)
/-- `visitParameterSuffix`: every parameter declaration on a fresh stack holding its specifiers' type -/
def visitPs : Params → Option (List Ty × List Sym)
  | .nil => some ([], [])
  | .cons base d rest =>
    match visitD .param d [.base base] with
    | none => none
    | some (st', k, n, nested) =>
      match st' with
      | [] => none
      | ty :: _ =>
        match visitPs rest with
        | none => none
        | some (pts, syms) => some (ty :: pts, ⟨k, n, ty⟩ :: nested ++ syms)
end

/-- `visit_AtMultipleDeclarators_COMMON`: every declarator is typed with the type at the top, then the derived types are
popped and the next declarator starts -/
def bindDeclarators (ctx : Ctx) : List Decl → List Ty → Option (List Ty × List Sym)
  | [], st => some (st, [])
  | d :: ds, st =>
    match visitD ctx d st with
    | none => none
    | some (st1, k, n, nested) =>
      match st1 with
      | [] => none
      | ty :: _ =>
        match bindDeclarators ctx ds (popUntil st1) with
        | none => none
        | some (st3, rest) => some (st3, ⟨k, n, ty⟩ :: nested ++ rest)

/-- a whole declaration: the specifiers leave `base` on the stack `below`, the declarators are bound, `_AtEnd` pops once -/
def bindDeclaration (ctx : Ctx) (base : Ty) (ds : List Decl) (below : List Ty) : Option (List Ty × List Sym) :=
  (bindDeclarators ctx ds (base :: below)).map fun (st, syms) => (st.tail, syms)

/-! ## Specification: C11 6.7.6 read off the declarator, inside-out -/

def qualify (qs : List Qual) (t : Ty) : Ty :=
  if qs.isEmpty then t else .qual (qs.foldl Quals.add {}) t

/-- 6.7.6.3p7-8 -/
def adjust : Ty → Ty
  | .arr e => .ptr .arr e
  | .fn r ps v => .ptr .fn (.fn r ps v)
  | t => t

def Ctx.adj (ctx : Ctx) (t : Ty) : Ty := if ctx = .param then adjust t else t

def Ctx.kindOf (ctx : Ctx) (t : Ty) : SymK :=
  match ctx with
  | .typedef => .typedef
  | .object => if t.isFn then .function else .variable
  | .member => if t.isFn then .function else .field
  | .param => .parameter

mutual
/-- name and type a declarator gives to the base type `T` -/
def denote : Decl → Ty → String × Ty
  | .ident n, T => (n, T)
  | .abstract, T => ("", T)
  | .paren d, T => denote d T
  | .bitfield d, T => denote d T
  | .ptr qs d, T => denote d (qualify qs (.ptr .none T))
  | .arr d, T => denote d (.arr T)
  | .fn d ps ell, T => denote d (.fn T (denotePs ps) ell)
def denotePs : Params → List Ty
  | .nil => []
  | .cons base d rest => adjust (denote d (.base base)).2 :: denotePs rest
end

mutual
/-- symbols of the parameter declarations inside a declarator, in the order the binder creates them -/
def nestedOf : Decl → Ty → List Sym
  | .ident _, _ => []
  | .abstract, _ => []
  | .paren d, T => nestedOf d T
  | .bitfield d, T => nestedOf d T
  | .ptr qs d, T => nestedOf d (qualify qs (.ptr .none T))
  | .arr d, T => nestedOf d (.arr T)
  | .fn d ps ell, T => nestedOf d (.fn T (denotePs ps) ell) ++ symsOfPs ps
def symsOfPs : Params → List Sym
  | .nil => []
  | .cons base d rest =>
    ⟨.parameter, (denote d (.base base)).1, adjust (denote d (.base base)).2⟩ :: nestedOf d (.base base) ++ symsOfPs rest
end

/-- what a declaration `base d₁, …, dₙ;` declares according to C -/
def specSyms (ctx : Ctx) (base : Ty) : List Decl → List Sym
  | [] => []
  | d :: ds => ⟨ctx.kindOf (ctx.adj (denote d base).2), (denote d base).1, ctx.adj (denote d base).2⟩ :: nestedOf d base ++ specSyms ctx base ds

/-! ## The inverse printer at the level of declarator syntax -/

/-- one type derivation, innermost (next to the base type) first in a list -/
inductive Deriv where
  | ptr (qs : List Qual)
  | arr
  | fn (ps : Params) (ellipsis : Bool)

def Deriv.apply : Deriv → Ty → Ty
  | .ptr qs, T => qualify qs (.ptr .none T)
  | .arr, T => .arr T
  | .fn ps ell, T => .fn T (denotePs ps) ell

def applyDerivs : List Deriv → Ty → Ty
  | [], T => T
  | d :: ds, T => applyDerivs ds (d.apply T)

def Decl.isPtr : Decl → Bool
  | .ptr .. => true
  | _ => false

/-- parentheses exactly where the grammar needs them: a pointer declarator under a suffix -/
def parenIfPtr (d : Decl) : Decl := if d.isPtr then .paren d else d

/-- the declarator that spells `applyDerivs ds base` around `inner` -/
def build : List Deriv → Decl → Decl
  | [], inner => inner
  | .ptr qs :: ds, inner => .ptr qs (build ds inner)
  | .arr :: ds, inner => .arr (parenIfPtr (build ds inner))
  | .fn ps ell :: ds, inner => .fn (parenIfPtr (build ds inner)) ps ell

/-! removal of every pair of parentheses -/
mutual
def strip : Decl → Decl
  | .ident n => .ident n
  | .abstract => .abstract
  | .paren d => strip d
  | .bitfield d => .bitfield (strip d)
  | .ptr qs d => .ptr qs (strip d)
  | .arr d => .arr (strip d)
  | .fn d ps ell => .fn (strip d) (stripPs ps) ell
def stripPs : Params → Params
  | .nil => .nil
  | .cons b d rest => .cons b (strip d) (stripPs rest)
end

end PsycheModel.Declarators
