/-!
# Model of the precedence-climbing loop (property C06)

`Parser::parseNAryExpression_AtOperator` (`C/parser/Parser_Expressions.cpp`): the outer `while (precedenceOf(peek) ≥ cutoff)`
loop (`atOp`) and the inner `while (precAhead > prevPrec ∨ (precAhead = prevPrec ∧ isRightAssociative))` loop (`inner`),
for binary, assignment and comma operators over atomic operands (a "cast-expression" that holds no N-ary operator
outside parentheses is one token here).  The table (`precedenceOf`, `isRightAssociative`) is a parameter; the
property file instantiates it with the table regenerated from the source.  Recursion is on a fuel (the C++
recursion is bounded by the number of tokens left).
-/
namespace PsycheModel.Climb

inductive Tok where
  | atom (n : Nat)
  | op (o : Nat)
  deriving DecidableEq, Repr

inductive E where
  | atom (n : Nat)
  | bin (o : Nat) (l r : E)
  deriving DecidableEq, Repr

structure Tbl where
  prec : Nat → Nat
  /-- right-associativity is a function of the precedence *level* (as `isRightAssociative` is written) -/
  ra : Nat → Bool
  /-- every operator token has a defined precedence (`Undefined = 0` is for non-operators) -/
  pos : ∀ o, 1 ≤ prec o
  /-- `NAryPrecedence::Assignment`: an assignment operator right after a completed tighter operation makes the parse fail -/
  asg : Nat

variable (T : Tbl)

/-- the inner loop's continuation test -/
def cont (prev p : Nat) : Bool := p > prev || (p == prev && T.ra prev)

/-- the look-ahead test of the rejection rule -/
def failsOnAssignment (prevPrec : Nat) : List Tok → Bool
  | Tok.op o' :: _ => T.prec o' == T.asg && decide (prevPrec > T.asg)
  | _ => false

mutual
def atOp (fuel : Nat) (base : E) (cut : Nat) (ts : List Tok) : Option (E × List Tok) :=
  match fuel with
  | 0 => none
  | f + 1 =>
    match ts with
    | Tok.op o :: rest =>
      if T.prec o ≥ cut then
        match rest with
        | Tok.atom n :: rest' =>
          match inner f (E.atom n) (T.prec o) rest' with
          | some (next, rest'') =>
            -- `if (precAhead == Assignment && prevPrec > precAhead) return false;`
            if failsOnAssignment T (T.prec o) rest'' then none
            else atOp f (E.bin o base next) cut rest''
          | none => none
        | _ => none
      else some (base, ts)
    | _ => some (base, ts)
def inner (fuel : Nat) (next : E) (prev : Nat) (ts : List Tok) : Option (E × List Tok) :=
  match fuel with
  | 0 => none
  | f + 1 =>
    match ts with
    | Tok.op o :: _ =>
      if cont T prev (T.prec o) then
        match atOp f next (T.prec o) ts with
        | some (next', rest') => inner f next' prev rest'
        | none => none
      else some (next, ts)
    | _ => some (next, ts)
end

/-- `parseNAryExpression(expr, cutoff)` -/
def parse (fuel cut : Nat) : List Tok → Option (E × List Tok)
  | Tok.atom n :: ts => atOp T fuel (E.atom n) cut ts
  | _ => none

/-- printing without any parentheses -/
def pp : E → List Tok
  | .atom n => [Tok.atom n]
  | .bin o l r => pp l ++ Tok.op o :: pp r

/-- operand levels of an operator of precedence level `p` (left / right) -/
def rlevel (p : Nat) : Nat := if T.ra p then p else p + 1
def llevel (p : Nat) : Nat := if T.ra p then p + 1 else p

/-- `WS c e`: the C grammar derives `e` at level `c` without parentheses — the operator at the root binds at least
as tightly as `c`, the left operand at the operator's own level (one tighter for right-associative operators), the
right operand one level tighter (the same level for right-associative ones) -/
inductive WS : Nat → E → Prop
  | atom {c n} : WS c (E.atom n)
  | bin {c o l r} : c ≤ T.prec o → WS (llevel T (T.prec o)) l → WS (rlevel T (T.prec o)) r →
      (T.prec o = T.asg → ∃ n, l = E.atom n) →      -- 6.5.16: the left operand of an assignment is a unary-expression
      WS c (E.bin o l r)

end PsycheModel.Climb
