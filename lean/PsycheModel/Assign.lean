import PsycheModel.Compat
/-!
# Model of `TypeChecker::isTypeAssignableFromOtherType` (property C11)

The constraint check of simple assignment, argument passing and initialisation (6.5.16.1p1), on the typedef-free type algebra of
`Compat.lean` (a typedef name stands for its resolved synonym): the left type is stripped of its qualifiers
(`unqualifiedAndResolved`), an enumerated type counts as `int` on both sides (`enumeratedTypeAsInt`), the right type is the type of the
VALUE of the right operand (`valueTypeOf`: qualifiers dropped, an array converted to a pointer to its element); then the case analysis of the
function.  Whether the right operand is a null pointer constant (`isNULLPointerConstant`, a property of the expression) is a parameter.
-/
namespace PsycheModel.Assign
open PsycheModel.Compat

/-- `TagTypeKind`: 0 struct, 1 union, 2 enum;  `BasicTypeKind`: 0..10 the integer types, 11 `_Bool`, 12.. the floating types -/
def enumAsInt : Ty → Ty
  | .tag 2 _ => .basic 5
  | t => t

def valueType (t : Ty) : Ty :=
  match stripQ t with
  | .arr e => .ptr e
  | u => enumAsInt u

def isArith : Ty → Bool
  | .basic _ => true
  | _ => false
def isBool : Ty → Bool
  | .basic 11 => true
  | _ => false
def isPtr : Ty → Bool
  | .ptr _ => true
  | _ => false
def isSU : Ty → Bool
  | .tag k _ => k == 0 || k == 1
  | _ => false
/-- `isIntegerTypeKind` -/
def isIntK (k : Nat) : Bool := k ≤ 11

def assignableFrom (l r : Ty) (rNull : Bool) : Bool :=
  let ty := enumAsInt (stripQ l)
  let o := valueType r
  (isArith ty && isArith o)
    || (isBool ty && isPtr o)
    || (isSU ty && compat ty o false false)
    || (match ty, o with
        | .ptr rl, .ptr ro => compat rl ro true true
        | .ptr _, .basic k => isIntK k && rNull
        | _, _ => false)

end PsycheModel.Assign
