/-!
# Model of `Parser::guessRoleOfIdentifier` (property C04: "the parser never needs a symbol table")

When the declaration specifiers so far hold no type specifier and the next token is an identifier, the parser decides —
from the tokens that FOLLOW the identifier only — whether the identifier is a typedef name (a specifier) or the name being
declared (`C/parser/Parser_Declarations.cpp: Parser::guessRoleOfIdentifier`).  The model is a transcription over token
classes; `ts` is the token stream starting at `peek(2)`, the empty list standing for end of file.
-/
namespace PsycheModel.GuessRole

/-- token classes the function distinguishes -/
inductive K where
  | ident
  | typeSpec      -- void char short int long signed unsigned float double _Bool _Complex … struct union enum
  | storage       -- typedef extern static auto register _Thread_local __thread
  | qual          -- const volatile restrict _Atomic
  | funcSpec      -- inline _Noreturn
  | alignas | attr
  | star | lparen | rparen | lbrack | rbrack | comma | semicolon | lbrace
  | other
  deriving DecidableEq, Repr

inductive Role where
  | declarator | typedefName
  deriving DecidableEq, Repr

inductive DeclCtx where
  | unspecified | structOrUnion | parameter
  deriving DecidableEq, Repr

/-- the inner `while (true)` of the `OpenParenToken` / `OpenBracketToken` cases: `depth` open groups, running `check` -/
def scan (opn cls : K) : List K → (depth : Nat) → (check : Int) → Role
  | [], _, _ => .declarator                                   -- EndOfFile
  | t :: rest, depth, check =>
    if t = opn then scan opn cls rest (depth + 1) check
    else if t = cls then
      if depth = 1 then (if check = -1 then .typedefName else .declarator)
      else scan opn cls rest (depth - 1) check
    else if t = .ident then scan opn cls rest depth (if check = 0 then -1 else 1)
    else if t = .star then scan opn cls rest depth check
    else if t = .semicolon then .declarator
    else scan opn cls rest depth (check + 1)

def closing (kr : Bool) (rest : List K) : Role :=
  if rest.head? = some .lbrace then .declarator else if kr then .declarator else .typedefName

def guess (ctx : DeclCtx) (kr : Bool) : List K → Role
  | [] => .declarator
  | .ident :: _ => .typedefName
  | .typeSpec :: _ => .declarator
  | .storage :: _ => .typedefName
  | .qual :: _ => .typedefName
  | .funcSpec :: _ => .typedefName
  | .alignas :: _ => .typedefName
  | .attr :: _ => .typedefName
  | .star :: _ => .typedefName
  | .lparen :: rest =>
    if ctx = .parameter then .typedefName
    else if rest.head? = some .star ∨ rest.head? = some .lparen then .typedefName
    else scan .lparen .rparen rest 1 0
  | .rparen :: rest => closing kr rest
  | .lbrack :: rest =>
    if ctx = .parameter then .typedefName
    else scan .lbrack .rbrack rest 1 0
  | .rbrack :: rest => closing kr rest
  | .comma :: _ => if kr then .declarator else .typedefName
  | _ => .declarator

end PsycheModel.GuessRole
