/-!
# Model of the statement parser (properties C04, C03)

`C/parser/Parser_Statements.cpp`, transcribed over an abstract token alphabet in which an expression is ONE token (`Tok.e`: what
`parseExpression` consumes; the expression layers are `PsycheModel/Expr.lean`) and a keyword-started declaration with its `;` is one
token (`Tok.d`):

| model | C++ |
|---|---|
| `stmt`  | `Parser::parseStatement` with `parseLabeledStatement_AtFirst`, `parseExpressionStatement`, `parseIfStatement_AtFirst` (the `else` goes with the nearest `if`), `parseSwitchStatement_AtFirst`, `parseWhileStatement_AtFirst`, `parseDoStatement_AtFirst`, `parseForStatement_AtFirst` (declaration / expression / empty first clause, optional second and third), `parseGotoStatement_AtFirst`, `parseContinueStatement_AtFirst`, `parseBreakStatement_AtFirst`, `parseReturnStatement_AtFirst` |
| `items` | the loop of `Parser::parseCompoundStatement_AtFirst` |

A statement that does not parse cleanly is `none` (the C++ reports a diagnostic and recovers; recovery is modelled in
`ParserProtocol.lean`).  Placement diagnostics (`break` outside a loop …) are `StmtCtx.lean`.  Not in the model: GNU asm statements,
`__extension__`, identifier-started statements that are declarations or ambiguous (C09).  Recursion is on a fuel.
-/
namespace PsycheModel.Stmt

inductive Tok where
  | e (n : Nat)             -- an expression
  | d (n : Nat)             -- a declaration, with its `;`
  | id (n : Nat)            -- an identifier (label)
  | semi | lbrace | rbrace | lp | rp | colon
  | kif | kelse | kswitch | kcase | kdefault | kwhile | kdo | kfor | kgoto | kcontinue | kbreak | kreturn
  deriving DecidableEq, Repr

/-- the first clause of a `for` -/
inductive Init where
  | none | expr (n : Nat) | decl (n : Nat)
  deriving DecidableEq, Repr

inductive S where
  | expr (n : Nat)
  | empty
  | decl (n : Nat)
  | block (xs : List S)
  | ite (c : Nat) (t : S)
  | itel (c : Nat) (t el : S)
  | sw (c : Nat) (b : S)
  | case (c : Nat) (s : S)
  | dflt (s : S)
  | label (l : Nat) (s : S)
  | while_ (c : Nat) (b : S)
  | do_ (b : S) (c : Nat)
  | for_ (i : Init) (c inc : Option Nat) (b : S)
  | goto (l : Nat)
  | cont | brk
  | ret (v : Option Nat)
  deriving Repr

/-- the three clauses of a `for`, after `for (`: a declaration / an expression statement / `;`, then an optional expression and `;`,
then an optional expression and `)` -/
def forHead : List Tok → Option (Init × Option Nat × Option Nat × List Tok)
  | .d n :: .semi :: .rp :: r => some (.decl n, none, none, r)
  | .d n :: .semi :: .e k :: .rp :: r => some (.decl n, none, some k, r)
  | .d n :: .e c :: .semi :: .rp :: r => some (.decl n, some c, none, r)
  | .d n :: .e c :: .semi :: .e k :: .rp :: r => some (.decl n, some c, some k, r)
  | .semi :: .semi :: .rp :: r => some (.none, none, none, r)
  | .semi :: .semi :: .e k :: .rp :: r => some (.none, none, some k, r)
  | .semi :: .e c :: .semi :: .rp :: r => some (.none, some c, none, r)
  | .semi :: .e c :: .semi :: .e k :: .rp :: r => some (.none, some c, some k, r)
  | .e n :: .semi :: .semi :: .rp :: r => some (.expr n, none, none, r)
  | .e n :: .semi :: .semi :: .e k :: .rp :: r => some (.expr n, none, some k, r)
  | .e n :: .semi :: .e c :: .semi :: .rp :: r => some (.expr n, some c, none, r)
  | .e n :: .semi :: .e c :: .semi :: .e k :: .rp :: r => some (.expr n, some c, some k, r)
  | _ => none

mutual
def stmt (fuel : Nat) (ts : List Tok) : Option (S × List Tok) :=
  match fuel with
  | 0 => none
  | f + 1 =>
    match ts with
    | .d n :: r => some (.decl n, r)
    | .id l :: .colon :: r =>
      match stmt f r with
      | some (s, r') => some (.label l s, r')
      | none => none
    | .e n :: .semi :: r => some (.expr n, r)
    | .semi :: r => some (.empty, r)
    | .lbrace :: r =>
      match items f r with
      | some (xs, r') => some (.block xs, r')
      | none => none
    | .kif :: .lp :: .e c :: .rp :: r =>
      match stmt f r with
      | some (t, .kelse :: r') =>
        match stmt f r' with
        | some (el, r'') => some (.itel c t el, r'')
        | none => none
      | some (t, r') => some (.ite c t, r')
      | none => none
    | .kswitch :: .lp :: .e c :: .rp :: r =>
      match stmt f r with
      | some (b, r') => some (.sw c b, r')
      | none => none
    | .kcase :: .e c :: .colon :: r =>
      match stmt f r with
      | some (s, r') => some (.case c s, r')
      | none => none
    | .kdefault :: .colon :: r =>
      match stmt f r with
      | some (s, r') => some (.dflt s, r')
      | none => none
    | .kwhile :: .lp :: .e c :: .rp :: r =>
      match stmt f r with
      | some (b, r') => some (.while_ c b, r')
      | none => none
    | .kdo :: r =>
      match stmt f r with
      | some (b, .kwhile :: .lp :: .e c :: .rp :: .semi :: r') => some (.do_ b c, r')
      | _ => none
    | .kfor :: .lp :: r =>
      match forHead r with
      | some (i, c, k, r') =>
        match stmt f r' with
        | some (b, r'') => some (.for_ i c k b, r'')
        | none => none
      | none => none
    | .kgoto :: .id l :: .semi :: r => some (.goto l, r)
    | .kcontinue :: .semi :: r => some (.cont, r)
    | .kbreak :: .semi :: r => some (.brk, r)
    | .kreturn :: .semi :: r => some (.ret none, r)
    | .kreturn :: .e v :: .semi :: r => some (.ret (some v), r)
    | _ => none
def items (fuel : Nat) (ts : List Tok) : Option (List S × List Tok) :=
  match fuel with
  | 0 => none
  | f + 1 =>
    match ts with
    | [] => none
    | .rbrace :: r => some ([], r)
    | _ =>
      match stmt f ts with
      | some (s, r) =>
        match items f r with
        | some (xs, r') => some (s :: xs, r')
        | none => none
      | none => none
end

/-! ## The grammar side -/
def ppInit : Init → List Tok
  | .none => [.semi]
  | .expr n => [.e n, .semi]
  | .decl n => [.d n]
def ppOpt : Option Nat → List Tok
  | none => []
  | some n => [.e n]

mutual
def pp : S → List Tok
  | .expr n => [.e n, .semi]
  | .empty => [.semi]
  | .decl n => [.d n]
  | .block xs => .lbrace :: (ppItems xs ++ [.rbrace])
  | .ite c t => .kif :: .lp :: .e c :: .rp :: pp t
  | .itel c t el => .kif :: .lp :: .e c :: .rp :: (pp t ++ .kelse :: pp el)
  | .sw c b => .kswitch :: .lp :: .e c :: .rp :: pp b
  | .case c s => .kcase :: .e c :: .colon :: pp s
  | .dflt s => .kdefault :: .colon :: pp s
  | .label l s => .id l :: .colon :: pp s
  | .while_ c b => .kwhile :: .lp :: .e c :: .rp :: pp b
  | .do_ b c => .kdo :: (pp b ++ [.kwhile, .lp, .e c, .rp, .semi])
  | .for_ i c k b => .kfor :: .lp :: (ppInit i ++ (ppOpt c ++ .semi :: (ppOpt k ++ .rp :: pp b)))
  | .goto l => [.kgoto, .id l, .semi]
  | .cont => [.kcontinue, .semi]
  | .brk => [.kbreak, .semi]
  | .ret v => .kreturn :: (ppOpt v ++ [.semi])
def ppItems : List S → List Tok
  | [] => []
  | s :: xs => pp s ++ ppItems xs
end

/-- the statement ends in an `if` without `else` (a following `else` would attach to it) -/
def openEnd : S → Bool
  | .ite _ _ => true
  | .itel _ _ el => openEnd el
  | .sw _ b | .while_ _ b | .for_ _ _ _ b => openEnd b
  | .case _ s | .dflt s | .label _ s => openEnd s
  | _ => false

mutual
/-- derivable as written (6.8.4.1p3: an `else` is associated with the lexically nearest preceding `if` that is allowed by the
syntax): the first sub-statement of an `if … else` does not end in an `if` without `else` -/
def ok : S → Bool
  | .block xs => okItems xs
  | .ite _ t => ok t
  | .itel _ t el => !openEnd t && ok t && ok el
  | .sw _ b | .while_ _ b | .for_ _ _ _ b | .do_ b _ => ok b
  | .case _ s | .dflt s | .label _ s => ok s
  | _ => true
def okItems : List S → Bool
  | [] => true
  | s :: xs => ok s && okItems xs
end

/-- the following tokens do not begin with `else` -/
def NoElse : List Tok → Prop
  | .kelse :: _ => False
  | _ => True

mutual
/-- structural equality (the nested type has no derived `DecidableEq`) -/
def S.beq : S → S → Bool
  | .expr a, .expr b => a == b
  | .empty, .empty => true
  | .decl a, .decl b => a == b
  | .block xs, .block ys => S.beqL xs ys
  | .ite c t, .ite c' t' => c == c' && S.beq t t'
  | .itel c t e, .itel c' t' e' => c == c' && S.beq t t' && S.beq e e'
  | .sw c b, .sw c' b' => c == c' && S.beq b b'
  | .case c b, .case c' b' => c == c' && S.beq b b'
  | .dflt b, .dflt b' => S.beq b b'
  | .label l b, .label l' b' => l == l' && S.beq b b'
  | .while_ c b, .while_ c' b' => c == c' && S.beq b b'
  | .do_ b c, .do_ b' c' => c == c' && S.beq b b'
  | .for_ i c k b, .for_ i' c' k' b' => i == i' && c == c' && k == k' && S.beq b b'
  | .goto l, .goto l' => l == l'
  | .cont, .cont => true
  | .brk, .brk => true
  | .ret v, .ret v' => v == v'
  | _, _ => false
def S.beqL : List S → List S → Bool
  | [], [] => true
  | a :: as, b :: bs => S.beq a b && S.beqL as bs
  | _, _ => false
end

end PsycheModel.Stmt
