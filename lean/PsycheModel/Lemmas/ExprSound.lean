import PsycheModel.Lemmas.Expr
/-! Soundness of the all-layers expression parser model with respect to the grammar: every tree a successful parse
returns is derivable by levels, except that the left operand of an assignment may be any cast-expression (the parser -
model and C++ alike - accepts `(int) a = 1`; the rejection rule only looks at N-ary operators). -/
namespace PsycheModel.Expr
variable (T : Tbl)

mutual
/-- `ok` with the parser's leniency: a cast-expression (not only a unary-expression) on the left of an assignment-level operator -/
def okW : E → Bool
  | .atom _ => true
  | .bin o l r => decide (1 ≤ T.prec o) && atLevel T (llevel T (T.prec o)) l && atLevel T (rlevel T (T.prec o)) r
      && (T.prec o != T.asg || isCast l) && okW l && okW r
  | .cond c t f => atLevel T (llevel T T.qprec) c && atLevel T (rlevel T T.qprec) f
      && (T.qprec != T.asg || isCast c) && okW c && okW t && okW f
  | .condG c f => atLevel T (llevel T T.qprec) c && atLevel T (rlevel T T.qprec) f
      && (T.qprec != T.asg || isCast c) && okW c && okW f
  | .paren e => okW e
  | .cast e => isCast e && okW e
  | .pre o e => (match T.pre o with | some true => isUnary e | some false => isCast e | none => false) && okW e
  | .post o e => T.post o && isPostfix e && okW e
  | .idx e i => isPostfix e && okW e && okW i
  | .mem _ e _ => isPostfix e && okW e
  | .call f as => isPostfix f && okW f && okWArgs as
def okWArgs : List E → Bool
  | [] => true
  | a :: as => atLevel T T.asg a && okW a && okWArgs as
end

def lokW : Link → Bool
  | .cnd m => okW T m
  | _ => true

theorem okW_mk (l : Link) (a b : E) (h1 : 1 ≤ lprec T l) (hl : lokW T l = true) (ha : okW T a = true) (hb : okW T b = true)
    (hla : atLevel T (llevel T (lprec T l)) a = true) (hlb : atLevel T (rlevel T (lprec T l)) b = true)
    (hasg : lprec T l = T.asg → isCast a = true) : okW T (l.mk a b) = true := by
  cases l with
  | bin o =>
    simp only [lprec] at h1 hla hlb hasg
    simp only [Link.mk, okW, Bool.and_eq_true, decide_eq_true_eq, Bool.or_eq_true, bne_iff_ne, ne_eq]
    refine ⟨⟨⟨⟨⟨h1, hla⟩, hlb⟩, ?_⟩, ha⟩, hb⟩
    by_cases h : T.prec o = T.asg
    · right; exact hasg h
    · left; exact h
  | cnd m =>
    simp only [lprec] at h1 hla hlb hasg
    simp only [Link.mk, okW, Bool.and_eq_true, Bool.or_eq_true, bne_iff_ne, ne_eq]
    refine ⟨⟨⟨⟨⟨hla, hlb⟩, ?_⟩, ha⟩, hl⟩, hb⟩
    by_cases h : T.qprec = T.asg
    · right; exact hasg h
    · left; exact h
  | cndG =>
    simp only [lprec] at h1 hla hlb hasg
    simp only [Link.mk, okW, Bool.and_eq_true, Bool.or_eq_true, bne_iff_ne, ne_eq]
    refine ⟨⟨⟨⟨hla, hlb⟩, ?_⟩, ha⟩, hb⟩
    by_cases h : T.qprec = T.asg
    · right; exact hasg h
    · left; exact h

theorem nlevel_mk (l : Link) (a b : E) : nlevel T (l.mk a b) = some (lprec T l) := by
  cases l <;> simp [Link.mk, nlevel, lprec]

theorem atLevel_of_nlevel_none {e : E} (c : Nat) (h : nlevel T e = none) : atLevel T c e = true := by
  simp [atLevel, h]
theorem atLevel_of_nlevel_some {e : E} {c p : Nat} (h : nlevel T e = some p) (hc : c ≤ p) : atLevel T c e = true := by
  simp [atLevel, h, hc]

theorem nlevel_none_of_isCast : ∀ e : E, isCast e = true → nlevel T e = none
  | .bin _ _ _, h | .cond _ _ _, h | .condG _ _, h => by simp [isCast, isUnary, isPostfix] at h
  | .atom _, _ | .paren _, _ | .pre _ _, _ | .post _ _, _ | .idx _ _, _ | .mem _ _ _, _ | .call _ _, _ | .cast _, _ => by simp [nlevel]

theorem isCast_of_isUnary : ∀ e : E, isUnary e = true → isCast e = true
  | .cast _, h => by simp [isUnary, isPostfix] at h
  | .bin _ _ _, h | .cond _ _ _, h | .condG _ _, h => by simp [isUnary, isPostfix] at h
  | .atom _, _ | .paren _, _ | .pre _ _, _ | .post _ _, _ | .idx _ _, _ | .mem _ _ _, _ | .call _ _, _ => by simp [isCast, isUnary, isPostfix]
theorem isUnary_of_isPostfix : ∀ e : E, isPostfix e = true → isUnary e = true
  | .cast _, h | .pre _ _, h | .bin _ _ _, h | .cond _ _ _, h | .condG _ _, h => by simp [isPostfix] at h
  | .atom _, _ | .paren _, _ | .post _ _, _ | .idx _ _, _ | .mem _ _ _, _ | .call _ _, _ => by simp [isUnary, isPostfix]

/-- what the loops guarantee about their results -/
structure Shp (f : Nat) : Prop where
  atOp : ∀ base c ts e rest, atOp T f base c ts = some (e, rest) → okW T base = true → 1 ≤ c →
    (c ≤ hprec T ts → atLevel T (llevel T (hprec T ts)) base = true ∧ (hprec T ts = T.asg → isCast base = true)) →
    okW T e = true ∧ hprec T rest < c ∧ ((e = base ∧ rest = ts) ∨ ∃ p, nlevel T e = some p ∧ c ≤ p ∧ NA T rest)
  linkP : ∀ ts l rest, linkP T f ts = some (l, rest) → lokW T l = true ∧ lprec T l = hprec T ts
  inner : ∀ next prev ts e rest, inner T f next prev ts = some (e, rest) → okW T next = true → 1 ≤ prev →
    (nlevel T next = none ∨ ∃ p, nlevel T next = some p ∧ hprec T ts < p ∧ NA T ts ∧ rlevel T prev ≤ p) →
    okW T e = true ∧ atLevel T (rlevel T prev) e = true ∧ StopI T prev rest
  nary : ∀ c ts e rest, nary T f c ts = some (e, rest) → 1 ≤ c → okW T e = true ∧ atLevel T c e = true ∧ hprec T rest < c
  cast : ∀ ts e rest, cast T f ts = some (e, rest) → okW T e = true ∧ isCast e = true
  unary : ∀ ts e rest, unary T f ts = some (e, rest) → okW T e = true ∧ isUnary e = true
  postf : ∀ e0 ts e rest, postf T f e0 ts = some (e, rest) → okW T e0 = true → isPostfix e0 = true →
    okW T e = true ∧ isPostfix e = true
  args : ∀ ts as rest, args T f ts = some (as, rest) → okWArgs T as = true

theorem shp_zero : Shp T 0 := by
  constructor <;> intros <;> simp_all [atOp, linkP, inner, nary, cast, unary, postf, args]

theorem not_cont {p q : Nat} (hq : 1 ≤ q) (h : cont T p q = false) : q ≤ p ∧ (q = p → T.ra p = false) := by
  unfold cont at h
  simp only [Bool.or_eq_false_iff, Bool.and_eq_false_iff, decide_eq_false_iff_not, beq_eq_false_iff_ne, ne_eq] at h
  obtain ⟨h1, h2⟩ := h
  constructor
  · rcases h1 with h1 | h1 <;> omega
  · intro heq
    rcases h2 with h2 | h2
    · exact absurd heq h2
    · exact h2

theorem llevel_le_of_not_cont {p q : Nat} (hq : 1 ≤ q) (h : cont T p q = false) : llevel T q ≤ p := by
  obtain ⟨h1, h2⟩ := not_cont T hq h
  unfold llevel
  by_cases hra : T.ra q = true
  · simp only [hra, if_true]
    rcases Nat.eq_or_lt_of_le h1 with heq | hlt
    · subst heq; rw [h2 rfl] at hra; cases hra
    · omega
  · have : T.ra q = false := by simpa using hra
    simp only [this, Bool.false_eq_true, if_false]; exact h1

theorem rlevel_le_of_cont {p q : Nat} (h : cont T p q = true) : rlevel T p ≤ q := by
  unfold cont at h
  unfold rlevel
  simp only [Bool.or_eq_true, Bool.and_eq_true, decide_eq_true_eq, beq_iff_eq] at h
  rcases h with ⟨h1, _⟩ | ⟨h1, h2⟩
  · split <;> omega
  · subst h1; simp [h2]

/-- the token after a completed link is never an assignment operator (given the rejection rule and a right-associative assignment level) -/
theorem NA_after_link (hT : T.Sane) (hra : T.ra T.asg = true) {p : Nat} {r2 : List Tok}
    (hst : StopI T p r2) (hf : failsOnAssignment T p r2 = false) : NA T r2 := by
  intro heq
  simp only [failsOnAssignment, heq, beq_self_eq_true, Bool.true_and, decide_eq_false_iff_not] at hf
  simp only [StopI, heq] at hst
  obtain ⟨h1, h2⟩ := not_cont T hT.asg_pos hst
  have : T.asg = p := by omega
  subst this
  rw [h2 rfl] at hra; cases hra

theorem shp_succ (hT : T.Sane) (hra : T.ra T.asg = true) (f : Nat) (ih : Shp T f) : Shp T (f + 1) := by
  constructor
  · intro base c ts e rest h hokb hc1 hpre
    simp only [atOp] at h
    split at h
    · simp at h; obtain ⟨rfl, rfl⟩ := h
      exact ⟨hokb, by simp [hprec]; omega, Or.inl ⟨rfl, rfl⟩⟩
    · rename_i t tl
      split at h
      · rename_i hge
        have hpt : hprec T (t :: tl) = tprec T t := rfl
        split at h
        · simp at h
        · rename_i l r0 hl
          obtain ⟨hlok, hlp⟩ := ih.linkP _ _ _ hl
          rw [hpt] at hlp
          split at h
          · simp at h
          · rename_i nx r1 hc1'
            obtain ⟨hoknx, hcnx⟩ := ih.cast _ _ _ hc1'
            have hp1 : 1 ≤ tprec T t := by omega
            split at h
            · simp at h
            · rename_i nx' r2 hi
              obtain ⟨hoknx', hlvnx', hst⟩ := ih.inner _ _ _ _ _ hi hoknx hp1 (Or.inl (nlevel_none_of_isCast T nx hcnx))
              split at h
              · simp at h
              · rename_i hfa
                have hfa' : failsOnAssignment T (tprec T t) r2 = false := by simpa using hfa
                have hna2 : NA T r2 := NA_after_link T hT hra hst hfa'
                obtain ⟨hpb, hpasg⟩ := hpre (by rw [hpt]; exact hge)
                rw [hpt] at hpb hpasg
                have hokmk : okW T (l.mk base nx') = true :=
                  okW_mk T l base nx' (by rw [hlp]; exact hp1) hlok hokb hoknx' (by rw [hlp]; exact hpb) (by rw [hlp]; exact hlvnx')
                    (by rw [hlp]; exact hpasg)
                have hnl := nlevel_mk T l base nx'
                rw [hlp] at hnl
                obtain ⟨hoke, hlt, hcase⟩ := ih.atOp _ _ _ _ _ h hokmk hc1 (by
                  intro hc2
                  refine ⟨?_, fun heq => absurd heq hna2⟩
                  have := llevel_le_of_not_cont T (Nat.le_trans hc1 hc2) hst
                  exact atLevel_of_nlevel_some T hnl this)
                refine ⟨hoke, hlt, Or.inr ?_⟩
                rcases hcase with ⟨rfl, rfl⟩ | ⟨p, hp, hcp, hnar⟩
                · exact ⟨_, hnl, hge, hna2⟩
                · exact ⟨p, hp, hcp, hnar⟩
      · rename_i hlt
        simp at h; obtain ⟨rfl, rfl⟩ := h
        exact ⟨hokb, by simp only [hprec]; omega, Or.inl ⟨rfl, rfl⟩⟩
  · intro ts l rest h
    simp only [linkP] at h
    split at h
    · simp at h; obtain ⟨rfl, rfl⟩ := h; simp [lokW, lprec, hprec, tprec]
    · simp at h; obtain ⟨rfl, rfl⟩ := h; simp [lokW, lprec, hprec, tprec]
    · split at h
      · rename_i m r0 hn
        simp at h; obtain ⟨rfl, rfl⟩ := h
        have := ih.nary _ _ _ _ hn (Nat.le_refl _)
        simp [lokW, lprec, hprec, tprec, this.1]
      · simp at h
    · simp at h
  · intro next prev ts e rest h hokn hp1 hpre
    simp only [inner] at h
    split at h
    · rename_i hcont
      split at h
      · rename_i n' r' ha
        have hq1 : 1 ≤ hprec T ts := by
          unfold cont at hcont
          simp only [Bool.or_eq_true, Bool.and_eq_true, decide_eq_true_eq, beq_iff_eq] at hcont
          rcases hcont with ⟨_, h1⟩ | ⟨h1, _⟩ <;> omega
        have hrl := rlevel_le_of_cont T hcont
        obtain ⟨hokn', hlt, hcase⟩ := ih.atOp _ _ _ _ _ ha hokn hq1 (by
          intro _
          rcases hpre with hnone | ⟨p, hp, hlt, hna, _⟩
          · exact ⟨atLevel_of_nlevel_none T _ hnone, fun _ => isCast_of_nlevel T _ hnone⟩
          · refine ⟨atLevel_of_nlevel_some T hp ?_, fun heq => absurd heq hna⟩
            have := le_llevel T (hprec T ts)
            unfold llevel at *
            split <;> omega)
        rcases hcase with ⟨rfl, rfl⟩ | ⟨p, hp, hcp, hnar⟩
        · omega
        · exact ih.inner _ _ _ _ _ h hokn' hp1 (Or.inr ⟨p, hp, by omega, hnar, by omega⟩)
      · simp at h
    · rename_i hcont
      simp at h; obtain ⟨rfl, rfl⟩ := h
      refine ⟨hokn, ?_, by simpa [StopI] using hcont⟩
      rcases hpre with hnone | ⟨p, hp, _, _, hrl⟩
      · exact atLevel_of_nlevel_none T _ hnone
      · exact atLevel_of_nlevel_some T hp hrl
  · intro c ts e rest h hc1
    simp only [nary] at h
    split at h
    · rename_i e0 r hc1'
      obtain ⟨hok0, hc0⟩ := ih.cast _ _ _ hc1'
      have hn0 := nlevel_none_of_isCast T e0 hc0
      obtain ⟨hoke, hlt, hcase⟩ := ih.atOp _ _ _ _ _ h hok0 hc1
        (fun _ => ⟨atLevel_of_nlevel_none T _ hn0, fun _ => hc0⟩)
      refine ⟨hoke, ?_, hlt⟩
      rcases hcase with ⟨rfl, _⟩ | ⟨p, hp, hcp, _⟩
      · exact atLevel_of_nlevel_none T _ hn0
      · exact atLevel_of_nlevel_some T hp hcp
    · simp at h
  · intro ts e rest h
    simp only [cast] at h
    split at h
    · split at h
      · rename_i e0 r hc1
        simp at h; obtain ⟨rfl, rfl⟩ := h
        obtain ⟨h1, h2⟩ := ih.cast _ _ _ hc1
        exact ⟨by simp [okW, h1, h2], rfl⟩
      · simp at h
    · simp at h
    · obtain ⟨h1, h2⟩ := ih.unary _ _ _ h
      exact ⟨h1, isCast_of_isUnary e h2⟩
  · intro ts e rest h
    simp only [unary] at h
    split at h
    · split at h
      · rename_i hpre
        split at h
        · rename_i e0 r hu
          simp at h; obtain ⟨rfl, rfl⟩ := h
          obtain ⟨h1, h2⟩ := ih.unary _ _ _ hu
          exact ⟨by simp [okW, hpre, h1, h2], rfl⟩
        · simp at h
      · rename_i hpre
        split at h
        · rename_i e0 r hu
          simp at h; obtain ⟨rfl, rfl⟩ := h
          obtain ⟨h1, h2⟩ := ih.cast _ _ _ hu
          exact ⟨by simp [okW, hpre, h1, h2], rfl⟩
        · simp at h
      · simp at h
    · obtain ⟨h1, h2⟩ := ih.postf _ _ _ _ h (by simp [okW]) (by simp [isPostfix])
      exact ⟨h1, isUnary_of_isPostfix e h2⟩
    · split at h
      · rename_i e0 r hn
        obtain ⟨hok0, _, _⟩ := ih.nary _ _ _ _ hn (Nat.le_refl _)
        obtain ⟨h1, h2⟩ := ih.postf _ _ _ _ h (by simpa [okW] using hok0) (by simp [isPostfix])
        exact ⟨h1, isUnary_of_isPostfix e h2⟩
      · simp at h
    · simp at h
  · intro e0 ts e rest h hok0 hpf0
    simp only [postf] at h
    split at h
    · split at h
      · rename_i i r hn
        obtain ⟨hoki, _, _⟩ := ih.nary _ _ _ _ hn (Nat.le_refl _)
        exact ih.postf _ _ _ _ h (by simp [okW, hpf0, hok0, hoki]) (by simp [isPostfix])
      · simp at h
    · exact ih.postf _ _ _ _ h (by simp [okW, okWArgs, hpf0, hok0]) (by simp [isPostfix])
    · split at h
      · rename_i as r ha
        have hoka := ih.args _ _ _ ha
        exact ih.postf _ _ _ _ h (by simp [okW, hpf0, hok0, hoka]) (by simp [isPostfix])
      · simp at h
    · exact ih.postf _ _ _ _ h (by simp [okW, hpf0, hok0]) (by simp [isPostfix])
    · simp at h
    · split at h
      · rename_i hpo
        exact ih.postf _ _ _ _ h (by simp [okW, hpf0, hok0, hpo]) (by simp [isPostfix])
      · simp at h; obtain ⟨rfl, rfl⟩ := h; exact ⟨hok0, hpf0⟩
    · simp at h; obtain ⟨rfl, rfl⟩ := h; exact ⟨hok0, hpf0⟩
  · intro ts as rest h
    simp only [args] at h
    split at h
    · simp at h
    · rename_i a r hn
      obtain ⟨hoka, hlva, _⟩ := ih.nary _ _ _ _ hn hT.asg_pos
      split at h
      · split at h
        · split at h
          · rename_i ha
            simp at h; obtain ⟨rfl, rfl⟩ := h
            have := ih.args _ _ _ ha
            simp [okWArgs, hoka, hlva, this]
          · simp at h
        · simp at h; obtain ⟨rfl, rfl⟩ := h; simp [okWArgs, hoka, hlva]
      · simp at h; obtain ⟨rfl, rfl⟩ := h; simp [okWArgs, hoka, hlva]

theorem shp_all (hT : T.Sane) (hra : T.ra T.asg = true) : ∀ f, Shp T f
  | 0 => shp_zero T
  | f + 1 => shp_succ T hT hra f (shp_all hT hra f)

end PsycheModel.Expr
