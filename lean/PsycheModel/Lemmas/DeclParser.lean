import PsycheModel.DeclParser
/-! Helper lemmas for the declarator-parser model: what a parameter list starts with, exclusivity of the two declarator forms,
fuel monotonicity. -/
namespace PsycheModel.DeclParser
open PsycheModel.Declarators

/-- a parameter list starts with `)` or a specifier -/
theorem params_start {f : Nat} {r : List Tok} {x} (h : parseParams f r = some x) :
    (∃ r', r = .rparen :: r') ∨ ∃ s r', r = .spec s :: r' := by
  cases f with
  | zero => simp [parseParams] at h
  | succ f =>
    cases r with
    | nil =>
      cases f with
      | zero => simp [parseParams, parseParamList] at h
      | succ f => cases f <;> simp [parseParams, parseParamList, parseParam] at h
    | cons t r =>
      cases t with
      | rparen => exact .inl ⟨_, rfl⟩
      | spec s => exact .inr ⟨_, _, rfl⟩
      | _ =>
        cases f with
        | zero => simp [parseParams, parseParamList] at h
        | succ f => cases f <;> simp [parseParams, parseParamList, parseParam] at h

theorem suffixes_lparen_start {f : Nat} {inner : Decl} {r : List Tok} {x} (h : suffixes f inner (.lparen :: r) = some x) :
    (∃ r', r = .rparen :: r') ∨ ∃ s r', r = .spec s :: r' := by
  cases f with
  | zero => simp [suffixes] at h
  | succ f =>
    simp only [suffixes] at h
    split at h
    · rename_i heq; exact params_start heq
    · simp at h

/-- the speculative abstract-declarator parse at a specifier yields at most the empty declarator -/
theorem parseD_abstract_spec (f : Nat) (s : String) (r : List Tok) :
    parseD .abstract f (.spec s :: r) = none ∨ parseD .abstract f (.spec s :: r) = some (.abstract, .spec s :: r) := by
  cases f with
  | zero => left; simp [parseD]
  | succ f => cases f with
    | zero => left; simp [parseD, parseDirect]
    | succ f => right; simp [parseD, parseDirect]

theorem parseD_concrete_rparen (f : Nat) (r : List Tok) : parseD .concrete f (.rparen :: r) = none := by
  cases f with
  | zero => simp [parseD]
  | succ f => cases f <;> simp [parseD, parseDirect]

theorem parseD_concrete_spec (f : Nat) (s : String) (r : List Tok) : parseD .concrete f (.spec s :: r) = none := by
  cases f with
  | zero => simp [parseD]
  | succ f => cases f <;> simp [parseD, parseDirect]

theorem parseDirect_abstract_ident (f : Nat) (n : String) (r : List Tok) : parseDirect .abstract f (.ident n :: r) = none := by
  cases f <;> simp [parseDirect]

/-- **The two declarator forms exclude each other**: tokens that parse as a concrete declarator (with some fuel) do not
parse as an abstract one (with any fuel) — so that trying "concrete first, abstract after backtracking" for a parameter
does not depend on the order of the attempts. -/
theorem concrete_excludes_abstract : ∀ f,
    (∀ ts x, parseD .concrete f ts = some x → ∀ f', parseD .abstract f' ts = none) ∧
    (∀ ts x, parseDirect .concrete f ts = some x → ∀ f', parseDirect .abstract f' ts = none)
  | 0 => by constructor <;> intro ts x h <;> simp [parseD, parseDirect] at h
  | f + 1 => by
    have ih := concrete_excludes_abstract f
    constructor
    · intro ts x h f'
      unfold parseD at h
      cases f' with
      | zero => simp [parseD]
      | succ g =>
        unfold parseD
        split at h
        · split at h
          · rename_i heq; simp only [ih.1 _ _ heq g]
          · simp at h
        · exact ih.2 _ _ h g
    · intro ts x h f'
      unfold parseDirect at h
      split at h
      · exact parseDirect_abstract_ident _ _ _
      · simp at h
      · rename_i r _
        split at h
        · rename_i d r2 heq
          cases f' with
          | zero => simp [parseDirect]
          | succ g =>
            unfold parseDirect
            split
            · simp_all
            · simp_all
            · simp_all
            · rename_i heq2; cases heq2; rw [parseD_concrete_rparen] at heq; simp at heq
            · rename_i heq2; cases heq2
              rw [ih.1 _ _ heq g]
              cases hs : suffixes g .abstract (.lparen :: r) with
              | none => simp
              | some y =>
                rcases suffixes_lparen_start hs with ⟨r', rfl⟩ | ⟨s, r', rfl⟩
                · rw [parseD_concrete_rparen] at heq; simp at heq
                · rw [parseD_concrete_spec] at heq; simp at heq
            · simp_all
            · simp_all
            · simp_all
        · simp at h
      · simp_all
      · simp_all
      · simp_all
      · simp at h
      · simp_all

structure Mono (f : Nat) : Prop where
  d : ∀ form ts x, parseD form f ts = some x → parseD form (f + 1) ts = some x
  dir : ∀ form ts x, parseDirect form f ts = some x → parseDirect form (f + 1) ts = some x
  suf : ∀ inner ts x, suffixes f inner ts = some x → suffixes (f + 1) inner ts = some x
  ps : ∀ ts x, parseParams f ts = some x → parseParams (f + 1) ts = some x
  pl : ∀ ts x, parseParamList f ts = some x → parseParamList (f + 1) ts = some x
  p : ∀ ts x, parseParam f ts = some x → parseParam (f + 1) ts = some x

theorem mono : ∀ f, Mono f
  | 0 => by constructor <;> intros <;> simp_all [parseD, parseDirect, suffixes, parseParams, parseParamList, parseParam]
  | f + 1 => by
    have ih := mono f
    constructor
    · intro form ts x h
      unfold parseD at h ⊢
      split at h
      · split at h
        · rename_i heq; rw [ih.d _ _ _ heq]; exact h
        · simp at h
      · exact ih.dir _ _ _ h
    · intro form ts x h
      unfold parseDirect at h ⊢
      split at h
      · exact ih.suf _ _ _ h
      · exact h
      · split at h
        · rename_i d r2 heq
          rw [ih.d _ _ _ heq]; exact ih.suf _ _ _ h
        · simp at h
      · exact ih.suf _ _ _ h
      · rename_i r hne
        split at h
        · rename_i d r2 heq
          rw [ih.d _ _ _ heq]; exact ih.suf _ _ _ h
        · rcases suffixes_lparen_start h with ⟨r', rfl⟩ | ⟨s, r', rfl⟩
          · exact absurd rfl (hne r')
          · rcases parseD_abstract_spec (f + 1) s r' with h' | h'
            · rw [h']; exact ih.suf _ _ _ h
            · rw [h']; exact ih.suf _ _ _ h
      · exact ih.suf _ _ _ h
      · exact h
      · exact h
    · intro inner ts x h
      unfold suffixes at h ⊢
      split at h
      · split at h
        · rename_i ps ell r2 heq
          rw [ih.ps _ _ heq]; exact ih.suf _ _ _ h
        · simp at h
      · exact ih.suf _ _ _ h
      · exact ih.suf _ _ _ h
      · simp at h
      · exact h
    · intro ts x h
      unfold parseParams at h ⊢
      split at h
      · exact h
      · simp at h
      · exact ih.pl _ _ h
    · intro ts x h
      unfold parseParamList at h ⊢
      split at h
      · simp at h
      · rename_i heq; rw [ih.p _ _ heq]; exact h
      · rename_i heq; rw [ih.p _ _ heq]; exact h
      · rename_i heq; rw [ih.p _ _ heq]
        split at h
        · rename_i heq2
          have hpl := ih.pl _ _ heq2
          split <;> grind
        · simp at h
      · rename_i heq; rw [ih.p _ _ heq]
        split <;> grind
    · intro ts x h
      unfold parseParam at h ⊢
      split at h
      · split at h
        · rename_i heq; rw [ih.d _ _ _ heq]; exact h
        · split at h
          · rename_i r _ _ _ d r2 heq2
            cases hc : parseD .concrete (f + 1) r with
            | some y =>
              have := (concrete_excludes_abstract (f + 1)).1 _ _ hc f
              rw [this] at heq2; simp at heq2
            | none => simp only [ih.d _ _ _ heq2]; exact h
          · simp at h
      · simp at h

theorem parseD_le {form ts x} : ∀ {f g : Nat}, f ≤ g → parseD form f ts = some x → parseD form g ts = some x := by
  intro f g h
  induction h with
  | refl => exact id
  | step _ ih => exact fun hx => (mono _).d _ _ _ (ih hx)

theorem suffixes_le {inner ts x} : ∀ {f g : Nat}, f ≤ g → suffixes f inner ts = some x → suffixes g inner ts = some x := by
  intro f g h
  induction h with
  | refl => exact id
  | step _ ih => exact fun hx => (mono _).suf _ _ _ (ih hx)

theorem parseParams_le {ts x} : ∀ {f g : Nat}, f ≤ g → parseParams f ts = some x → parseParams g ts = some x := by
  intro f g h
  induction h with
  | refl => exact id
  | step _ ih => exact fun hx => (mono _).ps _ _ (ih hx)

theorem parseParamList_le {ts x} : ∀ {f g : Nat}, f ≤ g → parseParamList f ts = some x → parseParamList g ts = some x := by
  intro f g h
  induction h with
  | refl => exact id
  | step _ ih => exact fun hx => (mono _).pl _ _ (ih hx)

/-- **The answer does not depend on the fuel**: two runs that both answer give the same answer. -/
theorem parseD_fuel_irrelevant {form ts x y} {f g : Nat} (hx : parseD form f ts = some x) (hy : parseD form g ts = some y) : x = y := by
  have h1 := parseD_le (Nat.le_max_left f g) hx
  have h2 := parseD_le (Nat.le_max_right f g) hy
  rw [h1] at h2; exact Option.some.inj h2

end PsycheModel.DeclParser
