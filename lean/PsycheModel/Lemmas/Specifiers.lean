import PsycheModel.SpecifierSpec
/-! Helper lemmas for C08: reachable (state, multiset) pairs of the specifier machine. -/
namespace PsycheModel.Specifiers

/-- canonical (sorted) representative of a keyword multiset -/
def ins (k : Kw) : List Kw → List Kw
  | [] => [k]
  | a :: t => if k.idx ≤ a.idx then k :: a :: t else a :: ins k t

def canon (ks : List Kw) : List Kw := ks.foldl (fun c k => ins k c) []

theorem count_ins (k j : Kw) : ∀ c : List Kw, (ins k c).count j = c.count j + (if k = j then 1 else 0) := by
  intro c
  induction c with
  | nil => by_cases h : k = j <;> simp [ins, h]
  | cons a t ih =>
    simp only [ins]
    split
    · by_cases h : k = j <;> simp [List.count_cons, h]
    · rw [List.count_cons, ih, List.count_cons]; omega

theorem count_foldl_ins (j : Kw) : ∀ (ks c : List Kw),
    (ks.foldl (fun c k => ins k c) c).count j = c.count j + ks.count j := by
  intro ks
  induction ks with
  | nil => intro c; simp
  | cons k t ih =>
    intro c
    simp only [List.foldl_cons]
    rw [ih, count_ins, List.count_cons]
    by_cases h : k = j <;> simp [h] <;> omega

theorem count_canon (ks : List Kw) (j : Kw) : (canon ks).count j = ks.count j := by
  simp [canon, count_foldl_ins]

theorem canon_snoc (ks : List Kw) (k : Kw) : canon (ks ++ [k]) = ins k (canon ks) := by
  simp [canon, List.foldl_append]

theorem sameMS_canon (ks r : List Kw) : sameMS (canon ks) r = sameMS ks r := by
  simp [sameMS, count_canon]

theorem subMS_canon (ks r : List Kw) : subMS (canon ks) r = subMS ks r := by
  simp [subMS, count_canon]

theorem rowOf_canon (ks : List Kw) : rowOf (canon ks) = rowOf ks := by
  simp [rowOf, sameMS_canon]

theorem viable_canon (ks : List Kw) : viable (canon ks) = viable ks := by
  simp [viable, subMS_canon]

theorem mem_all (k : Kw) : k ∈ Kw.all := by cases k <;> simp [Kw.all]

theorem subMS_iff (a b : List Kw) : subMS a b = true ↔ ∀ k, a.count k ≤ b.count k := by
  simp only [subMS, List.all_eq_true, decide_eq_true_eq]
  exact ⟨fun h k => h k (mem_all k), fun h k _ => h k⟩

theorem sameMS_iff (a b : List Kw) : sameMS a b = true ↔ ∀ k, a.count k = b.count k := by
  simp only [sameMS, List.all_eq_true, beq_iff_eq]
  exact ⟨fun h k => h k (mem_all k), fun h k _ => h k⟩

/-- viability is downward closed: a sub-multiset of a viable multiset is viable -/
theorem viable_mono {a b : List Kw} (hab : ∀ k, a.count k ≤ b.count k) (hb : viable b = true) : viable a = true := by
  simp only [viable, List.any_eq_true] at hb ⊢
  obtain ⟨r, hr, hs⟩ := hb
  refine ⟨r, hr, ?_⟩
  rw [subMS_iff] at hs ⊢
  exact fun k => Nat.le_trans (hab k) (hs k)

theorem rowOf_some_viable {ks : List Kw} {t : Ty} (h : rowOf ks = some t) : viable ks = true := by
  simp only [rowOf, Option.map_eq_some_iff] at h
  obtain ⟨r, hr, _⟩ := h
  have hm := List.mem_of_find?_eq_some hr
  have hp := List.find?_some hr
  simp only [viable, List.any_eq_true]
  refine ⟨r, hm, ?_⟩
  rw [subMS_iff]
  rw [sameMS_iff] at hp
  exact fun k => Nat.le_of_eq (hp k)

/-! ### reachable pairs -/

def dedup : List (St × List Kw) → List (St × List Kw)
  | [] => []
  | a :: t => if a ∈ dedup t then dedup t else a :: dedup t

theorem mem_dedup (a : St × List Kw) : ∀ l, a ∈ dedup l ↔ a ∈ l := by
  intro l
  induction l with
  | nil => simp [dedup]
  | cons b t ih =>
    simp only [dedup]
    split
    · rename_i hb
      rw [ih, List.mem_cons]
      constructor
      · exact Or.inr
      · rintro (rfl | h)
        · exact (ih).mp hb |> fun x => x
        · exact h
    · rw [List.mem_cons, List.mem_cons, ih]

/-- one more keyword from every pair, keeping the pairs that have no diagnostic yet -/
def expand (l : List (St × List Kw)) : List (St × List Kw) :=
  l.flatMap (fun p => Kw.all.filterMap (fun k =>
    let s' := step p.1 k
    if s'.diag then none else some (s', ins k p.2)))

def reach : Nat → List (St × List Kw)
  | 0 => [(init, [])]
  | n + 1 => dedup (expand (reach n))

theorem mem_expand {l : List (St × List Kw)} {p : St × List Kw} (hp : p ∈ l) (k : Kw)
    (hd : (step p.1 k).diag = false) : (step p.1 k, ins k p.2) ∈ expand l := by
  simp only [expand, List.mem_flatMap, List.mem_filterMap]
  exact ⟨p, hp, k, mem_all k, by simp [hd]⟩

theorem reach_empty_succ {n : Nat} (h : reach n = []) : reach (n + 1) = [] := by
  simp [reach, h, expand, dedup]

theorem reach_empty_ge {n m : Nat} (h : reach n = []) (hm : n ≤ m) : reach m = [] := by
  induction hm with
  | refl => exact h
  | step _ ih => exact reach_empty_succ ih

/-- the diagnostic flag is sticky -/
theorem step_diag_sticky (s : St) (k : Kw) (h : s.diag = true) : (step s k).diag = true := by
  obtain ⟨top, a, b, c, d⟩ := s
  simp only at h
  subst h
  cases top with
  | none => cases k <;> simp [step, first, St.reset]
  | some t =>
    cases t with
    | void => simp [step, St.invalid]
    | basic cur =>
      cases k <;> cases cur <;> cases a <;> cases b <;> cases c <;> simp [step, next, St.invalid, St.reset]

theorem run_snoc (ks : List Kw) (k : Kw) : run (ks ++ [k]) = step (run ks) k := by
  simp [run, List.foldl_append]

theorem step_top_ne_none (s : St) (k : Kw) : (step s k).top ≠ none := by
  obtain ⟨top, a, b, c, d⟩ := s
  cases top with
  | none => cases k <;> simp [step, first, St.reset]
  | some t =>
    cases t with
    | void => simp [step, St.invalid]
    | basic cur =>
      cases k <;> cases cur <;> cases a <;> cases b <;> cases c <;> simp [step, next, St.invalid, St.reset]

theorem snoc_ind {P : List Kw → Prop} (h0 : P []) (hs : ∀ ks k, P ks → P (ks ++ [k])) : ∀ ks, P ks := by
  intro ks
  have : ∀ l : List Kw, P l.reverse := by
    intro l
    induction l with
    | nil => simpa using h0
    | cons a t ih => rw [List.reverse_cons]; exact hs _ _ ih
  simpa using this ks.reverse

/-- Lemma A: a sequence without diagnostic is in the reachable table at its length -/
theorem mem_reach : ∀ (ks : List Kw), (run ks).diag = false → (run ks, canon ks) ∈ reach ks.length := by
  apply snoc_ind
  · intro _; simp [run, canon, reach]
  · intro ks k ih hd
    rw [run_snoc] at hd
    have hprev : (run ks).diag = false := by
      cases h : (run ks).diag with
      | false => rfl
      | true => rw [step_diag_sticky _ _ h] at hd; cases hd
    have := mem_expand (ih hprev) k hd
    rw [run_snoc, canon_snoc, List.length_append, List.length_singleton, reach, mem_dedup]
    exact this

end PsycheModel.Specifiers
