import PsycheModel.VMap
/-! Helper lemmas for C20 (invariant of `VersionedMap`). -/
set_option linter.unusedSectionVars false
namespace PsycheModel.VMap
variable {K V : Type} [DecidableEq K]

/-- content that `applyRevision s r` would install, as a lookup function -/
def content (s : St K V) (r : Nat) (k : K) : Option V := (replay s (chain s (r + 1) r)).get k

structure Inv (s : St K V) : Prop where
  lenC : s.cmds.length = s.cnt
  lenP : s.parent.length = s.cnt
  curLe : s.cur ≤ s.cnt
  par : ∀ i (h : i < s.parent.length), s.parent[i] ≤ i
  mapOk : ∀ k, s.map.get k = content s s.cur k

theorem findParent_some {s : St K V} (hi : Inv s) {r p : Nat} (h : findParent s r = some p) :
    1 ≤ r ∧ r ≤ s.cnt ∧ p < r := by
  unfold findParent at h
  split at h
  · simp at h
  · rename_i hr
    obtain ⟨hlt, h⟩ := List.getElem?_eq_some_iff.mp h
    have := hi.par (r-1) hlt
    have := hi.lenP
    omega

theorem chain_succ (s : St K V) (f r : Nat) : chain s (f + 1) r =
    match findParent s r with
    | none => []
    | some p => (r - 1) :: chain s f p := rfl

/-- with enough fuel the chain does not depend on the fuel -/
theorem chain_fuel {s : St K V} (hi : Inv s) : ∀ (f r : Nat), r ≤ f → chain s f r = chain s r r := by
  intro f
  induction f using Nat.strongRecOn with
  | _ f ih =>
    intro r hr
    cases f with
    | zero =>
      have : r = 0 := by omega
      subst this; rfl
    | succ f =>
      cases r with
      | zero => simp [chain, findParent]
      | succ r =>
        simp only [chain]
        cases hp : findParent s (r+1) with
        | none => rfl
        | some p =>
          have ⟨_, _, hlt⟩ := findParent_some hi hp
          simp only []
          rw [ih f (by omega) p (by omega), ih r (by omega) p (by omega)]

theorem chain_lt {s : St K V} (hi : Inv s) : ∀ (f r : Nat), ∀ i ∈ chain s f r, i < s.cnt := by
  intro f
  induction f with
  | zero => intro r i h; simp [chain] at h
  | succ f ih =>
    intro r i h
    simp only [chain] at h
    cases hp : findParent s r with
    | none => simp [hp] at h
    | some p =>
      simp only [hp, List.mem_cons] at h
      have ⟨_, _, _⟩ := findParent_some hi hp
      rcases h with h | h
      · omega
      · exact ih p i h

theorem init_inv : Inv (init : St K V) := by
  refine ⟨rfl, rfl, Nat.le_refl _, ?_, ?_⟩
  · intro i h; simp [init] at h
  · intro k; simp [init, content, chain, findParent, replay, AMap.get]

section ins
variable (s : St K V) (k : K) (v : V)

theorem findParent_ins (hi : Inv s) {r : Nat} (hr : r ≤ s.cnt) :
    findParent (insertOrAssign s k v) r = findParent s r := by
  unfold findParent insertOrAssign
  split
  · rfl
  · simp only []
    rw [List.getElem?_append_left (by have := hi.lenP; omega)]

theorem chain_ins (hi : Inv s) : ∀ (f r : Nat), r ≤ s.cnt →
    chain (insertOrAssign s k v) f r = chain s f r := by
  intro f
  induction f with
  | zero => intros; rfl
  | succ f ih =>
    intro r hr
    simp only [chain, findParent_ins s k v hi hr]
    cases hp : findParent s r with
    | none => rfl
    | some p =>
      have ⟨_, _, _⟩ := findParent_some hi hp
      simp only []
      rw [ih p (by omega)]

theorem replay_ins (hi : Inv s) : ∀ (l : List Nat), (∀ i ∈ l, i < s.cnt) →
    replay (insertOrAssign s k v) l = replay s l := by
  intro l
  induction l with
  | nil => intro _; rfl
  | cons i rest ih =>
    intro h
    have hi' : i < s.cmds.length := by have := hi.lenC; have := h i (by simp); omega
    simp only [replay]
    have : (insertOrAssign s k v).cmds[i]? = s.cmds[i]? := by
      simp only [insertOrAssign]
      rw [List.getElem?_append_left hi']
    rw [this, ih (fun j hj => h j (by simp [hj]))]

/-- inserting never alters what an existing revision restores -/
theorem content_ins (hi : Inv s) {r : Nat} (hr : r ≤ s.cnt) :
    content (insertOrAssign s k v) r = content s r := by
  funext k'
  simp only [content]
  rw [chain_ins s k v hi _ _ hr, replay_ins s k v hi _ (chain_lt hi _ _)]

theorem content_ins_new (hi : Inv s) (k' : K) :
    content (insertOrAssign s k v) (s.cnt + 1) k' = if k = k' then some v else content s s.cur k' := by
  have hfp : findParent (insertOrAssign s k v) (s.cnt + 1) = some s.cur := by
    simp only [findParent, insertOrAssign]
    have := hi.lenP
    simp [← this]
  have hc : (insertOrAssign s k v).cmds[s.cnt]? = some (k, v) := by
    simp only [insertOrAssign]
    have := hi.lenC
    simp [← this]
  have hi2 : Inv s := hi
  simp only [content]
  show (replay _ (chain (insertOrAssign s k v) (s.cnt + 1 + 1) (s.cnt + 1))).get k' = _
  rw [chain_succ]
  simp only [hfp, Nat.add_sub_cancel, replay, hc, AMap.get_set]
  split
  · rfl
  · rw [chain_ins s k v hi _ _ hi.curLe, replay_ins s k v hi _ (chain_lt hi _ _),
      chain_fuel hi (s.cnt + 1) s.cur (by have := hi.curLe; omega),
      ← chain_fuel hi (s.cur + 1) s.cur (by omega)]

theorem ins_inv (hi : Inv s) : Inv (insertOrAssign s k v) := by
  refine ⟨?_, ?_, ?_, ?_, ?_⟩
  · simp [insertOrAssign, hi.lenC]
  · simp [insertOrAssign, hi.lenP]
  · simp [insertOrAssign]
  · intro i h
    simp only [insertOrAssign] at h ⊢
    by_cases hlt : i < s.parent.length
    · rw [List.getElem_append_left hlt]; exact hi.par i hlt
    · have hl : i = s.parent.length := by simp at h; omega
      subst hl
      simp
      have := hi.curLe; have := hi.lenP; omega
  · intro k'
    have := content_ins_new s k v hi k'
    simp only [insertOrAssign] at this ⊢
    rw [this, AMap.get_set, hi.mapOk]

end ins

section sw
variable (s : St K V) (r : Nat)

theorem findParent_sw (r' : Nat) : findParent (applyRevision s r) r' = findParent s r' := rfl

theorem chain_sw : ∀ (f r' : Nat), chain (applyRevision s r) f r' = chain s f r' := by
  intro f
  induction f with
  | zero => intros; rfl
  | succ f ih =>
    intro r'
    simp only [chain, findParent_sw]
    cases findParent s r' with
    | none => rfl
    | some p => simp only [ih]

theorem replay_sw : ∀ l, replay (applyRevision s r) l = replay s l := by
  intro l
  induction l with
  | nil => rfl
  | cons i rest ih => simp only [replay, ih]; rfl

theorem content_sw (r' : Nat) : content (applyRevision s r) r' = content s r' := by
  funext k; simp only [content, chain_sw, replay_sw]

theorem sw_inv (hi : Inv s) (hr : r ≤ s.cnt) : Inv (applyRevision s r) := by
  refine ⟨hi.lenC, hi.lenP, hr, hi.par, ?_⟩
  intro k
  rw [content_sw]
  rfl

end sw

theorem step_inv (s : St K V) (op : Op K V) (hi : Inv s) (hv : validFrom s [op] = true) :
    Inv (step s op) := by
  cases op with
  | ins k v => exact ins_inv s k v hi
  | switch r =>
    simp [validFrom] at hv
    exact sw_inv s r hi hv

theorem step_content (s : St K V) (op : Op K V) (hi : Inv s) {r : Nat} (hr : r ≤ s.cnt) :
    content (step s op) r = content s r := by
  cases op with
  | ins k v => exact content_ins s k v hi hr
  | switch r' => exact content_sw s r' r

theorem step_cnt_le (s : St K V) (op : Op K V) : s.cnt ≤ (step s op).cnt := by
  cases op <;> simp [step, insertOrAssign, applyRevision]

theorem validFrom_cons (s : St K V) (op : Op K V) (t : List (Op K V)) :
    validFrom s (op :: t) = (validFrom s [op] && validFrom (step s op) t) := by
  cases op <;> simp [validFrom, step]

/-- running a valid suffix from an invariant state: invariant kept, old revisions keep their content -/
theorem foldl_inv (t : List (Op K V)) : ∀ (s : St K V), Inv s → validFrom s t = true →
    Inv (t.foldl step s) ∧ s.cnt ≤ (t.foldl step s).cnt ∧
      ∀ r, r ≤ s.cnt → content (t.foldl step s) r = content s r := by
  induction t with
  | nil => intro s hi _; exact ⟨hi, Nat.le_refl _, fun _ _ => rfl⟩
  | cons op t ih =>
    intro s hi hv
    rw [validFrom_cons, Bool.and_eq_true] at hv
    have hi' := step_inv s op hi hv.1
    obtain ⟨h1, h2, h3⟩ := ih (step s op) hi' hv.2
    have hle := step_cnt_le s op
    refine ⟨h1, Nat.le_trans hle h2, ?_⟩
    intro r hr
    rw [List.foldl_cons, h3 r (Nat.le_trans hr hle), step_content s op hi hr]

theorem validFrom_append (a b : List (Op K V)) : ∀ (s : St K V),
    validFrom s (a ++ b) = (validFrom s a && validFrom (a.foldl step s) b) := by
  induction a with
  | nil => intro s; simp [validFrom]
  | cons op a ih =>
    intro s
    rw [List.cons_append, validFrom_cons s op (a ++ b), validFrom_cons s op a, ih, List.foldl_cons,
      Bool.and_assoc]

end PsycheModel.VMap
