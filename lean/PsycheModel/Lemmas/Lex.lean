import PsycheModel.Lex
/-! Helper lemmas for C05, part A: every sub-lexer returns a suffix of what it was given. -/
namespace PsycheModel.Lex
open PsycheModel.Generated (Kind)

theorem step_suffix (s : S) : step s <:+ s := by
  cases s with
  | nil => exact List.suffix_refl _
  | cons c r => exact List.suffix_cons c r

theorem dw_suffix (p : Nat → Bool) (s : S) : dw p s <:+ s := List.dropWhile_suffix _

theorem ite_suffix {c : Prop} [Decidable c] {a b s : S} (ha : a <:+ s) (hb : b <:+ s) : (if c then a else b) <:+ s := by
  split <;> assumption

theorem intSuffix_suffix : ∀ (n : Nat) (s : S), intSuffix n s <:+ s := by
  intro n
  induction n with
  | zero => intro s; exact List.suffix_refl _
  | succ n ih =>
    intro s
    cases s with
    | nil => exact List.suffix_refl _
    | cons c r =>
      have hr : r <:+ c :: r := List.suffix_cons c r
      have h1 : (if hd r == 108 then step r else r) <:+ c :: r := ite_suffix ((step_suffix r).trans hr) hr
      have h2 : (if hd r == 76 then step r else r) <:+ c :: r := ite_suffix ((step_suffix r).trans hr) hr
      simp only [intSuffix]
      split
      · exact ite_suffix ((ih r).trans hr) hr
      · split
        · exact ite_suffix ((ih _).trans h1) h1
        · split
          · exact ite_suffix ((ih _).trans h2) h2
          · exact List.suffix_refl _

theorem afterSuffix_suffix (k : Kind) (s : S) : (afterSuffix k s).2 <:+ s := by
  unfold afterSuffix; split
  · exact dw_suffix _ _
  · exact List.suffix_refl _

theorem intTail_suffix (s : S) : (intTail s).2 <:+ s := by
  unfold intTail
  split
  · exact (afterSuffix_suffix _ _).trans ((intSuffix_suffix _ _).trans (step_suffix s))
  · simp only []
    split
    · exact (afterSuffix_suffix _ _).trans ((step_suffix _).trans (intSuffix_suffix _ _))
    · exact (afterSuffix_suffix _ _).trans (intSuffix_suffix _ _)

theorem floatSuffix_suffix (s : S) : floatSuffix s <:+ s := by
  unfold floatSuffix; exact ite_suffix (step_suffix s) (List.suffix_refl _)

theorem floatTail_suffix (s : S) : (floatTail s).2 <:+ s := by
  unfold floatTail
  split
  · exact (afterSuffix_suffix _ _).trans ((floatSuffix_suffix _).trans (step_suffix s))
  · simp only []
    split
    · exact (afterSuffix_suffix _ _).trans ((step_suffix _).trans (floatSuffix_suffix _))
    · exact (afterSuffix_suffix _ _).trans (floatSuffix_suffix _)

theorem sign_suffix (s : S) : sign s <:+ s := by
  unfold sign; exact ite_suffix (step_suffix s) (List.suffix_refl _)

theorem digitSeq_suffix (s : S) : digitSeq s <:+ s := dw_suffix _ _

theorem exponent_suffix (s : S) : exponent s <:+ s := by
  unfold exponent
  exact ite_suffix ((digitSeq_suffix _).trans ((sign_suffix _).trans (step_suffix s))) (List.suffix_refl _)

theorem binExponent_suffix (s : S) : binExponent s <:+ s := by
  unfold binExponent
  exact ite_suffix ((digitSeq_suffix _).trans ((sign_suffix _).trans (step_suffix s))) (List.suffix_refl _)

theorem afterPeriod_suffix (s : S) : (afterPeriod s).2 <:+ s :=
  (floatTail_suffix _).trans ((exponent_suffix _).trans (digitSeq_suffix s))

theorem atExponent_suffix (s : S) : (atExponent s).2 <:+ s :=
  (floatTail_suffix _).trans (exponent_suffix s)

theorem decimal_suffix : ∀ (s : S), (decimal s).2 <:+ s := by
  intro s
  induction s with
  | nil => exact intTail_suffix []
  | cons c r ih =>
    simp only [decimal]
    split
    · exact (afterPeriod_suffix r).trans (List.suffix_cons c r)
    · split
      · exact atExponent_suffix _
      · split
        · exact intTail_suffix _
        · exact ih.trans (List.suffix_cons c r)

theorem number_suffix (first : Nat) (r : S) : (number first r).2 <:+ r := by
  unfold number
  split
  · split
    · simp only []
      split
      · refine (floatTail_suffix _).trans ((binExponent_suffix _).trans ?_)
        exact ite_suffix ((dw_suffix _ _).trans ((step_suffix _).trans ((dw_suffix _ _).trans (step_suffix r))))
          ((dw_suffix _ _).trans (step_suffix r))
      · exact (intTail_suffix _).trans ((dw_suffix _ _).trans (step_suffix r))
    · split
      · exact (intTail_suffix _).trans ((dw_suffix _ _).trans (step_suffix r))
      · split
        · simp only []
          split
          · exact (decimal_suffix _).trans (dw_suffix _ r)
          · exact (intTail_suffix _).trans (dw_suffix _ r)
        · exact decimal_suffix r
  · exact decimal_suffix r

theorem lexBackslash_suffix (s : S) : lexBackslash s <:+ s := by
  unfold lexBackslash
  have hs := step_suffix s
  cases h : step s with
  | nil => simp
  | cons c r' =>
    rw [h] at hs
    simp only []
    split
    · exact (List.suffix_cons c r').trans hs
    · have hd := dw_suffix isBlank (c :: r')
      cases h2 : dw isBlank (c :: r') with
      | nil => simp
      | cons d r2 =>
        rw [h2] at hd
        simp only []
        split
        · exact (dw_suffix _ _).trans ((List.suffix_cons d r2).trans (hd.trans hs))
        · exact hd.trans hs

theorem untilQuoteF_suffix (q : Nat) : ∀ (f : Nat) (s : S), untilQuoteF q f s <:+ s := by
  intro f
  induction f with
  | zero => intro s; exact List.suffix_refl _
  | succ f ih =>
    intro s
    cases s with
    | nil => exact List.suffix_refl _
    | cons c r =>
      simp only [untilQuoteF]
      split
      · exact List.suffix_cons c r
      · split
        · exact List.suffix_refl _
        · split
          · exact (ih _).trans (lexBackslash_suffix _)
          · exact (ih r).trans (List.suffix_cons c r)

theorem untilQuote_suffix (q : Nat) (s : S) : untilQuote q s <:+ s := untilQuoteF_suffix q _ s

theorem lineCommentF_suffix : ∀ (f : Nat) (s : S), lineCommentF f s <:+ s := by
  intro f
  induction f with
  | zero => intro s; exact List.suffix_refl _
  | succ f ih =>
    intro s
    cases s with
    | nil => exact List.suffix_refl _
    | cons c r =>
      simp only [lineCommentF]
      split
      · exact List.suffix_refl _
      · split
        · exact (ih _).trans (lexBackslash_suffix _)
        · exact (ih r).trans (List.suffix_cons c r)

theorem lineComment_suffix (s : S) : lineComment s <:+ s := lineCommentF_suffix _ s

theorem blockEnd_suffix : ∀ (s : S), blockEnd s <:+ s := by
  intro s
  induction s with
  | nil => exact List.suffix_refl _
  | cons c r ih =>
    simp only [blockEnd]
    split
    · cases r with
      | nil => simp
      | cons d r' =>
        simp only []
        split
        · exact (List.suffix_cons d r').trans (List.suffix_cons c _)
        · exact ih.trans (List.suffix_cons c _)
    · exact ih.trans (List.suffix_cons c r)

theorem rawGo_suffix (raw : List Nat) : ∀ (s : S) (n : Nat) (dl cand : Option Nat), (rawGo raw s n dl cand).1 <:+ s := by
  intro s
  induction s with
  | nil => intro n dl cand; simp [rawGo]
  | cons c r ih =>
    intro n dl cand
    have hr := List.suffix_cons c r
    simp only [rawGo]
    split
    · exact (ih _ _ _).trans hr
    · split
      · split
        · exact hr
        · exact (ih _ _ _).trans hr
      · cases dl with
        | none =>
          simp only []
          split
          · exact List.suffix_refl _
          · exact (ih _ _ _).trans hr
        | some d =>
          cases cand with
          | none => exact (ih _ _ _).trans hr
          | some k =>
            simp only []
            split
            · exact List.suffix_refl _
            · exact (ih _ _ _).trans hr

theorem rawString_suffix (s : S) : (rawString s).1 <:+ s := by
  unfold rawString
  simp only []
  have h := rawGo_suffix (bytesOf s) s 0 none none
  generalize rawGo (bytesOf s) s 0 none none = p at h
  obtain ⟨s1, n⟩ := p
  simp only [] at h ⊢
  exact ite_suffix ((step_suffix _).trans h) h

theorem rawOut_suffix (p : Nat) (s : S) : (rawOut p s).rest <:+ s := by
  unfold rawOut
  have h := rawString_suffix s
  generalize rawString s = q at h
  obtain ⟨r, lx⟩ := q
  exact h

theorem ident_suffix (s : S) : (ident s).rest <:+ s := dw_suffix _ _

theorem blockComment_suffix (r : S) : (blockComment r).2 <:+ r := by
  unfold blockComment
  split
  · simp only []
    split
    · exact (step_suffix _).trans (step_suffix r)
    · refine (blockEnd_suffix _).trans ?_
      exact ite_suffix ((step_suffix _).trans (step_suffix r)) (step_suffix r)
  · split
    · exact (blockEnd_suffix _).trans (dw_suffix _ r)
    · exact blockEnd_suffix r

/-- **every branch of the big switch leaves a suffix of the text after the first character** -/
theorem tokenAt_suffix (ch : Nat) (r : S) : (tokenAt ch r).rest <:+ r := by
  have h0 : r <:+ r := List.suffix_refl _
  have h1 : step r <:+ r := step_suffix r
  have h2 : step (step r) <:+ r := (step_suffix _).trans h1
  have h3 : step (step (step r)) <:+ r := (step_suffix _).trans h2
  have hq : ∀ q s, s <:+ r → untilQuote q s <:+ r := fun q s hs => (untilQuote_suffix q s).trans hs
  have hl : ∀ s, s <:+ r → lineComment s <:+ r := fun s hs => (lineComment_suffix s).trans hs
  have hraw : ∀ p s, s <:+ r → (rawOut p s).rest <:+ r := fun p s hs => (rawOut_suffix p s).trans hs
  have hid : ∀ s, s <:+ r → (ident s).rest <:+ r := fun s hs => (ident_suffix s).trans hs
  have hrg : ∀ s, s <:+ r → (rawGo (bytesOf s) s 0 none none).fst <:+ r := fun s hs => (rawGo_suffix _ s 0 none none).trans hs
  have hrgs : ∀ s, s <:+ r → step (rawGo (bytesOf s) s 0 none none).fst <:+ r := fun s hs => (step_suffix _).trans (hrg s hs)
  have hap := afterPeriod_suffix r
  have hbc := (blockComment_suffix (step r)).trans h1
  have hnum := number_suffix ch r
  unfold tokenAt
  simp only [apply_ite Out.rest]
  repeat' (apply ite_suffix)
  all_goals first
    | assumption
    | exact hq _ _ h0
    | exact hq _ _ h1
    | exact hq _ _ h2
    | exact hl _ h1
    | exact hl _ h2
    | exact hraw _ _ h1
    | exact hraw _ _ h2
    | exact hraw _ _ h3
    | exact hid _ h0
    | exact hid _ h1
    | exact hid _ h2
    | exact hrg _ h1
    | exact hrg _ h2
    | exact hrg _ h3
    | exact hrgs _ h1
    | exact hrgs _ h2
    | exact hrgs _ h3

/-! ### kinds: the switch never produces `EndOfFile` -/

theorem ite_ne {α : Type} {c : Prop} [Decidable c] {a b x : α} (ha : a ≠ x) (hb : b ≠ x) : (if c then a else b) ≠ x := by
  split <;> assumption

theorem afterSuffix_kind (k : Kind) (s : S) (hk : k ≠ .EndOfFile) : (afterSuffix k s).1 ≠ .EndOfFile := by
  unfold afterSuffix; split
  · simp
  · exact hk

theorem intTail_kind (s : S) : (intTail s).1 ≠ .EndOfFile := by
  unfold intTail
  split
  · exact afterSuffix_kind _ _ (by simp)
  · simp only []
    split <;> exact afterSuffix_kind _ _ (by simp)

theorem floatTail_kind (s : S) : (floatTail s).1 ≠ .EndOfFile := by
  unfold floatTail
  split
  · exact afterSuffix_kind _ _ (by simp)
  · simp only []
    split <;> exact afterSuffix_kind _ _ (by simp)

theorem decimal_kind : ∀ (s : S), (decimal s).1 ≠ .EndOfFile := by
  intro s
  induction s with
  | nil => exact intTail_kind []
  | cons c r ih =>
    simp only [decimal]
    split
    · exact floatTail_kind _
    · split
      · exact floatTail_kind _
      · split
        · exact intTail_kind _
        · exact ih

theorem number_kind (first : Nat) (r : S) : (number first r).1 ≠ .EndOfFile := by
  unfold number
  simp only []
  repeat' split
  all_goals first
    | exact floatTail_kind _
    | exact intTail_kind _
    | exact decimal_kind _

theorem blockComment_kind (r : S) : (blockComment r).1 ≠ .EndOfFile := by
  unfold blockComment
  simp only []
  repeat' split
  all_goals simp

theorem charKind_ne (p : Nat) : charKind p ≠ .EndOfFile := by unfold charKind; repeat' (apply ite_ne); all_goals simp
theorem stringKind_ne (p : Nat) : stringKind p ≠ .EndOfFile := by unfold stringKind; repeat' (apply ite_ne); all_goals simp
theorem rawKind_ne (p : Nat) : rawKind p ≠ .EndOfFile := by unfold rawKind; repeat' (apply ite_ne); all_goals simp

theorem tokenAt_kind (ch : Nat) (r : S) : (tokenAt ch r).kind ≠ .EndOfFile := by
  have hc := charKind_ne
  have hs := stringKind_ne
  have hr := rawKind_ne
  have hap := floatTail_kind (exponent (digitSeq r))
  have hbc := blockComment_kind (step r)
  have hnum := number_kind ch r
  unfold tokenAt
  simp only [apply_ite Out.kind, rawOut, ident, afterPeriod] at *
  repeat' (apply ite_ne)
  all_goals first
    | assumption
    | exact hc _
    | exact hs _
    | exact hr _
    | simp

/-! ### `yylex` -/

/-- what `yylex_CORE` returns: the end of the text, or a position and the outcome of the switch there -/
theorem coreF_cases (cfg : Cfg) : ∀ (f : Nat) (s : S) (w : Bool) (fl : Flags), s.length < f →
    (coreF cfg f s w fl).1 <:+ s ∧
    (((coreF cfg f s w fl).1 = [] ∧ (coreF cfg f s w fl).2.1 = { kind := .EndOfFile, rest := [] }) ∨
     (∃ c r, (coreF cfg f s w fl).1 = c :: r ∧ (coreF cfg f s w fl).2.1 = tokenAt c.c r)) := by
  intro f
  induction f with
  | zero => intro s w fl h; omega
  | succ f ih =>
    intro s w fl hf
    cases s with
    | nil => simp [coreF]
    | cons c r =>
      have hr : r.length < f := by simpa using hf
      have hsuf := List.suffix_cons c r
      simp only [coreF]
      split
      · split
        · have := ih r false { fl with sol := !w, joined := w } hr
          exact ⟨this.1.trans hsuf, this.2⟩
        · have := ih r w { fl with ws := true } hr
          exact ⟨this.1.trans hsuf, this.2⟩
      · split
        · have := ih r true fl hr
          exact ⟨this.1.trans hsuf, this.2⟩
        · split
          · have hlen : (tokenAt c.c r).rest.length < f := Nat.lt_of_le_of_lt (tokenAt_suffix c.c r).length_le hr
            have := ih (tokenAt c.c r).rest false fl hlen
            exact ⟨this.1.trans ((tokenAt_suffix c.c r).trans hsuf), this.2⟩
          · exact ⟨List.suffix_refl _, Or.inr ⟨c, r, rfl, rfl⟩⟩

/-- a token whose extent lies inside the text and that makes progress unless it is the end-of-file token at the end -/
def Good (t : Tok) : Prop :=
  t.rest <:+ t.start ∧ ((t.start = [] ∧ t.rest = [] ∧ t.kind = .EndOfFile) ∨ t.rest.length < t.start.length)

theorem yylex_good (cfg : Cfg) (s : S) (fl : Flags) : (yylex cfg s fl).start <:+ s ∧ Good (yylex cfg s fl) := by
  have h := coreF_cases cfg (s.length + 1) s false fl (Nat.lt_succ_self _)
  unfold yylex
  generalize coreF cfg (s.length + 1) s false fl = res at h
  obtain ⟨st, o, fl'⟩ := res
  simp only [] at h ⊢
  obtain ⟨h1, h2⟩ := h
  refine ⟨h1, ?_⟩
  rcases h2 with ⟨hst, ho⟩ | ⟨c, r, hst, ho⟩
  · subst hst; subst ho
    exact ⟨by simp [mkTok], Or.inl ⟨rfl, rfl, by simp [mkTok]⟩⟩
  · subst hst; subst ho
    have hsuf := tokenAt_suffix c.c r
    refine ⟨by simpa [mkTok] using hsuf.trans (List.suffix_cons c r), Or.inr ?_⟩
    have := hsuf.length_le
    simp only [mkTok, List.length_cons]
    omega

/-- the token of a configuration whose keyword tables never answer `EndOfFile` is `EndOfFile` only at the end of the text -/
theorem yylex_eof_at_end (cfg : Cfg) (hid : ∀ w, cfg.idKind w ≠ .EndOfFile) (s : S) (fl : Flags)
    (hk : (yylex cfg s fl).kind = .EndOfFile) : (yylex cfg s fl).start = [] ∧ (yylex cfg s fl).rest = [] := by
  have h := coreF_cases cfg (s.length + 1) s false fl (Nat.lt_succ_self _)
  unfold yylex at hk ⊢
  generalize coreF cfg (s.length + 1) s false fl = res at h hk
  obtain ⟨st, o, fl'⟩ := res
  simp only [] at h hk ⊢
  rcases h.2 with ⟨hst, ho⟩ | ⟨c, r, hst, ho⟩
  · subst hst; subst ho; simp [mkTok]
  · subst hst; subst ho
    exfalso
    simp only [mkTok] at hk
    split at hk
    · exact hid _ hk
    · exact tokenAt_kind _ _ hk

theorem skipLineF_good (cfg : Cfg) : ∀ (f : Nat) (t : Tok), Good t →
    Good (skipLineF cfg f t) ∧ (skipLineF cfg f t).start <:+ t.start := by
  intro f
  induction f with
  | zero => intro t h; exact ⟨h, List.suffix_refl _⟩
  | succ f ih =>
    intro t h
    simp only [skipLineF]
    split
    · exact ⟨h, List.suffix_refl _⟩
    · have hy := yylex_good cfg t.rest {}
      have := ih _ hy.2
      exact ⟨this.1, this.2.trans (hy.1.trans h.1)⟩

/-- consecutive tokens: each starts inside what the previous one left -/
def ChainFrom : S → List Tok → Prop
  | _, [] => True
  | b, t :: ts => t.start <:+ b ∧ t.rest <:+ t.start ∧ ChainFrom t.rest ts

theorem ChainFrom.mono {b b' : S} (h : b <:+ b') : ∀ {ts : List Tok}, ChainFrom b ts → ChainFrom b' ts
  | [], _ => trivial
  | _ :: _, ⟨h1, h2, h3⟩ => ⟨h1.trans h, h2, h3⟩

theorem lexF_chain (cfg : Cfg) : ∀ (f : Nat) (t : Tok) (ts cs : List Tok), Good t → lexF cfg f t = some (ts, cs) →
    ChainFrom t.start ts ∧ ∀ c ∈ cs, c.rest <:+ c.start ∧ c.start <:+ t.start := by
  intro f
  induction f with
  | zero => intro t ts cs _ h; simp [lexF] at h; obtain ⟨rfl, rfl⟩ := h; exact ⟨trivial, by simp⟩
  | succ f ih =>
    intro t ts cs hg h
    simp only [lexF] at h
    split at h
    · -- directive line
      split at h
      · exact absurd h (by simp)
      · have hy := yylex_good cfg t.rest {}
        have hs := skipLineF_good cfg ((yylex cfg t.rest {}).start.length + 1) _ hy.2
        have := ih _ ts cs hs.1 h
        have hsuf : (skipLineF cfg ((yylex cfg t.rest {}).start.length + 1) (yylex cfg t.rest {})).start <:+ t.start :=
          hs.2.trans (hy.1.trans hg.1)
        exact ⟨this.1.mono hsuf, fun c hc => ⟨(this.2 c hc).1, (this.2 c hc).2.trans hsuf⟩⟩
    · have hy := yylex_good cfg t.rest {}
      have hsuf : (yylex cfg t.rest {}).start <:+ t.start := hy.1.trans hg.1
      split at h
      · simp only [Option.some.injEq, Prod.mk.injEq] at h
        obtain ⟨rfl, rfl⟩ := h
        exact ⟨⟨List.suffix_refl _, hg.1, trivial⟩, by simp⟩
      · cases hrec : lexF cfg f (yylex cfg t.rest {}) with
        | none => simp [hrec] at h
        | some p =>
          obtain ⟨ts', cs'⟩ := p
          simp only [hrec, Option.map_some, Option.some.injEq, Prod.mk.injEq] at h
          obtain ⟨rfl, rfl⟩ := h
          have := ih _ ts' cs' hy.2 hrec
          refine ⟨?_, ?_⟩
          · split
            · exact this.1.mono hsuf
            · exact ⟨List.suffix_refl _, hg.1, this.1.mono hy.1⟩
          · intro c hc
            split at hc
            · rcases List.mem_cons.1 hc with rfl | hc
              · exact ⟨hg.1, List.suffix_refl _⟩
              · exact ⟨(this.2 c hc).1, (this.2 c hc).2.trans hsuf⟩
            · exact ⟨(this.2 c hc).1, (this.2 c hc).2.trans hsuf⟩

theorem Good.progress {t : Tok} (h : Good t) (hk : t.kind ≠ .EndOfFile) : t.rest.length < t.start.length := by
  rcases h.2 with ⟨_, _, hk'⟩ | h
  · exact absurd hk' hk
  · exact h

/-- with enough fuel the stream ends with an end-of-file token and has no other -/
theorem lexF_ends (cfg : Cfg) : ∀ (f : Nat) (t : Tok) (ts cs : List Tok), Good t → t.start.length < f →
    lexF cfg f t = some (ts, cs) → ∃ ts' e, ts = ts' ++ [e] ∧ e.kind = .EndOfFile ∧ ∀ x ∈ ts', x.kind ≠ .EndOfFile := by
  intro f
  induction f with
  | zero => intro t ts cs _ hf; omega
  | succ f ih =>
    intro t ts cs hg hf h
    simp only [lexF] at h
    have hy := yylex_good cfg t.rest {}
    split at h
    · rename_i hhash
      have hk : t.kind ≠ .EndOfFile := by
        intro hk; rw [hk] at hhash; simp at hhash
      have hp := hg.progress hk
      split at h
      · exact absurd h (by simp)
      · have hs := skipLineF_good cfg ((yylex cfg t.rest {}).start.length + 1) _ hy.2
        have hlen := (hs.2.trans hy.1).length_le
        exact ih _ ts cs hs.1 (by omega) h
    · split at h
      · rename_i hk
        simp only [Option.some.injEq, Prod.mk.injEq] at h
        obtain ⟨rfl, rfl⟩ := h
        exact ⟨[], t, rfl, by simpa using hk, by simp⟩
      · rename_i hk
        have hk' : t.kind ≠ .EndOfFile := by simpa using hk
        have hp := hg.progress hk'
        have hlen := hy.1.length_le
        cases hrec : lexF cfg f (yylex cfg t.rest {}) with
        | none => simp [hrec] at h
        | some p =>
          obtain ⟨ts', cs'⟩ := p
          simp only [hrec, Option.map_some, Option.some.injEq, Prod.mk.injEq] at h
          obtain ⟨rfl, rfl⟩ := h
          obtain ⟨ts2, e, rfl, he, hall⟩ := ih _ ts' cs' hy.2 (by omega) hrec
          split
          · exact ⟨ts2, e, rfl, he, hall⟩
          · refine ⟨t :: ts2, e, by simp, he, ?_⟩
            intro x hx
            rcases List.mem_cons.1 hx with rfl | hx
            · exact hk'
            · exact hall x hx

/-- the end-of-file token sits at the end of the text -/
def AtEnd (t : Tok) : Prop := t.kind = .EndOfFile → t.start = [] ∧ t.rest = []

theorem skipLineF_atEnd (cfg : Cfg) (hid : ∀ w, cfg.idKind w ≠ .EndOfFile) : ∀ (f : Nat) (t : Tok), AtEnd t → AtEnd (skipLineF cfg f t) := by
  intro f
  induction f with
  | zero => intro t h; exact h
  | succ f ih =>
    intro t h
    simp only [skipLineF]
    split
    · exact h
    · exact ih _ (yylex_eof_at_end cfg hid _ _)

theorem lexF_eof_at_end (cfg : Cfg) (hid : ∀ w, cfg.idKind w ≠ .EndOfFile) : ∀ (f : Nat) (t : Tok) (ts cs : List Tok), AtEnd t →
    lexF cfg f t = some (ts, cs) → ∀ e ∈ ts, AtEnd e := by
  intro f
  induction f with
  | zero => intro t ts cs _ h; simp [lexF] at h; obtain ⟨rfl, rfl⟩ := h; simp
  | succ f ih =>
    intro t ts cs ha h
    simp only [lexF] at h
    have hy : AtEnd (yylex cfg t.rest {}) := yylex_eof_at_end cfg hid _ _
    split at h
    · split at h
      · exact absurd h (by simp)
      · exact ih _ ts cs (skipLineF_atEnd cfg hid _ _ hy) h
    · split at h
      · simp only [Option.some.injEq, Prod.mk.injEq] at h
        obtain ⟨rfl, rfl⟩ := h
        simpa using ha
      · cases hrec : lexF cfg f (yylex cfg t.rest {}) with
        | none => simp [hrec] at h
        | some p =>
          obtain ⟨ts', cs'⟩ := p
          simp only [hrec, Option.map_some, Option.some.injEq, Prod.mk.injEq] at h
          obtain ⟨rfl, rfl⟩ := h
          intro e he
          split at he
          · exact ih _ ts' cs' hy hrec e he
          · rcases List.mem_cons.1 he with rfl | he
            · exact ha
            · exact ih _ ts' cs' hy hrec e he

/-! ### segmentation into code points -/

theorem bytesOf_segGo : ∀ (r : List Nat) (lead : Nat) (acc : List Nat) (k : Nat),
    bytesOf (segGo r lead acc k) = acc.reverse ++ r := by
  intro r
  induction r with
  | nil => intro lead acc k; simp [segGo, bytesOf]
  | cons b r ih =>
    intro lead acc k
    cases k with
    | zero =>
      have := ih b [b] (skipOf b)
      simp only [bytesOf] at this
      simp [segGo, bytesOf, this]
    | succ k =>
      have := ih lead (b :: acc) k
      simp only [segGo]
      rw [this]; simp

/-- **segmentation loses and invents nothing**: the code points, concatenated, are the text -/
theorem bytesOf_segment (t : List Nat) : bytesOf (segment t) = t := by
  cases t with
  | nil => rfl
  | cons b r => simpa [segment] using bytesOf_segGo r b [b] (skipOf b)

def asciiCp (b : Nat) : Cp := ⟨b, [b]⟩

theorem segGo_ascii : ∀ (r : List Nat) (lead : Nat), (∀ b ∈ r, b < 128) →
    segGo r lead [lead] 0 = asciiCp lead :: r.map asciiCp := by
  intro r
  induction r with
  | nil => intro lead _; simp [segGo, asciiCp]
  | cons b r ih =>
    intro lead h
    have hb : b < 128 := h b (by simp)
    have hs : skipOf b = 0 := by unfold skipOf; rw [if_neg (by omega)]
    simp only [segGo, hs, List.map_cons]
    rw [ih b (fun x hx => h x (by simp [hx]))]
    simp [asciiCp]

/-- on ASCII text every byte is a code point of its own -/
theorem segment_ascii (t : List Nat) (h : ∀ b ∈ t, b < 128) : segment t = t.map asciiCp := by
  cases t with
  | nil => rfl
  | cons b r =>
    have hb : b < 128 := h b (by simp)
    have hs : skipOf b = 0 := by unfold skipOf; rw [if_neg (by omega)]
    simp only [segment, hs, List.map_cons]
    exact segGo_ascii r b (fun x hx => h x (by simp [hx]))

end PsycheModel.Lex
