import PsycheModel.DeclTokens
/-! Helper lemmas for C04: the look-ahead scan of `guessRoleOfIdentifier` over a balanced group. -/
namespace PsycheModel.DeclTokens
open PsycheModel.Declarators PsycheModel.GuessRole

/-- **The scan over a balanced stretch of tokens** only updates `check`: groups opened inside it are closed inside it, so the
scan neither returns nor changes its depth. -/
theorem scan_wf : ∀ (g : List K) (e depth : Nat) (check : Int) (rest : List K), wf g e = true → 1 ≤ depth →
    scan .lparen .rparen (g ++ rest) (depth + e) check = scan .lparen .rparen rest depth (foldCheck g check)
  | [], e, depth, check, rest, h, _ => by
    have : e = 0 := by simpa [wf] using h
    subst this; rfl
  | t :: r, e, depth, check, rest, h, hd => by
    cases t with
    | lparen =>
      have h' : wf r (e + 1) = true := by simpa [wf] using h
      have ih := scan_wf r (e + 1) depth check rest h' hd
      simp only [List.cons_append, scan, if_true, foldCheck, true_or]
      rw [← ih]; rfl
    | rparen =>
      have h' : 0 < e ∧ wf r (e - 1) = true := by simpa [wf] using h
      have ih := scan_wf r (e - 1) depth check rest h'.2 hd
      have hne : ¬ (depth + e = 1) := by omega
      have heq : depth + e - 1 = depth + (e - 1) := by omega
      simp only [List.cons_append, scan, hne, if_false, if_true, foldCheck, true_or, or_true, heq,
        show ¬ (K.rparen = K.lparen) by decide]
      exact ih
    | semicolon => simp [wf] at h
    | ident =>
      have h' : wf r e = true := by simpa [wf] using h
      have ih := scan_wf r e depth (if check = 0 then -1 else 1) rest h' hd
      simpa [scan, foldCheck] using ih
    | star =>
      have h' : wf r e = true := by simpa [wf] using h
      have ih := scan_wf r e depth check rest h' hd
      simpa [scan, foldCheck] using ih
    | typeSpec | storage | qual | funcSpec | alignas | attr | lbrack | rbrack | comma | lbrace | other =>
      have h' : wf r e = true := by simpa [wf] using h
      have ih := scan_wf r e depth (check + 1) rest h' hd
      simpa [scan, foldCheck] using ih

theorem wf_append : ∀ (a b : List K) (k e : Nat), wf a k = true → wf b e = true → wf (a ++ b) (k + e) = true
  | [], b, k, e, ha, hb => by
    have : k = 0 := by simpa [wf] using ha
    subst this; simpa using hb
  | t :: r, b, k, e, ha, hb => by
    cases t with
    | lparen =>
      have ha' : wf r (k + 1) = true := by simpa [wf] using ha
      have := wf_append r b (k + 1) e ha' hb
      have heq : k + e + 1 = k + 1 + e := by omega
      simp [wf, heq, this]
    | rparen =>
      have ha' : 0 < k ∧ wf r (k - 1) = true := by simpa [wf] using ha
      have := wf_append r b (k - 1) e ha'.2 hb
      have hpos : 0 < k + e := by omega
      have heq : k + e - 1 = k - 1 + e := by omega
      simp [wf, hpos, heq, this]
    | semicolon => simp [wf] at ha
    | ident | star | typeSpec | storage | qual | funcSpec | alignas | attr | lbrack | rbrack | comma | lbrace | other =>
      have ha' : wf r k = true := by simpa [wf] using ha
      simpa [wf] using wf_append r b k e ha' hb

theorem wf_quals (qs : List Qual) (x : List K) (e : Nat) : wf ((qs.map fun _ => K.qual) ++ x) e = wf x e := by
  induction qs with
  | nil => rfl
  | cons q qs ih => simpa [wf] using ih

mutual
/-- a declarator's tokens are balanced and hold no semicolon -/
theorem wf_toks : ∀ d : Decl, wf (toks d) 0 = true
  | .ident _ => rfl
  | .abstract => rfl
  | .ptr qs d => by simp only [toks, wf, wf_quals]; exact wf_toks d
  | .paren d => by
    simp only [toks, wf]
    exact wf_append (toks d) [.rparen] 0 1 (wf_toks d) rfl
  | .bitfield d => by simp only [toks]; exact wf_toks d
  | .arr d => wf_append (toks d) [.lbrack, .other, .rbrack] 0 0 (wf_toks d) rfl
  | .fn d ps ell => by
    simp only [toks]
    apply wf_append (toks d) _ 0 0 (wf_toks d)
    simp only [wf]
    have := wf_append (toksPs ps) ((if ell then [K.comma, K.other] else []) ++ [K.rparen]) 0 1 (wf_toksPs ps) (by cases ell <;> rfl)
    simpa [List.append_assoc] using this
theorem wf_toksPs : ∀ ps : Params, wf (toksPs ps) 0 = true
  | .nil => rfl
  | .cons _ d .nil => by simp only [toksPs, wf]; exact wf_toks d
  | .cons _ d (.cons b d' rest) => by
    simp only [toksPs, wf]
    apply wf_append (toks d) _ 0 0 (wf_toks d)
    simp only [wf]
    exact wf_toksPs (.cons b d' rest)
end

/-- once `check` is positive it stays positive: the group is not "one identifier and nothing else" -/
theorem foldCheck_pos : ∀ (g : List K) (c : Int), 1 ≤ c → 1 ≤ foldCheck g c
  | [], _, h => h
  | t :: r, c, h => by
    cases t <;> simp only [foldCheck] <;> simp <;>
      first
        | exact foldCheck_pos r c h
        | exact foldCheck_pos r (c + 1) (by omega)
        | (have : ¬ c = 0 := by omega
           simp only [this, if_false]; exact foldCheck_pos r 1 (by omega))

end PsycheModel.DeclTokens
