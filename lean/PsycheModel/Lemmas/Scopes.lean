import PsycheModel.Scopes
/-! Helper lemmas for C10: the scope stack is C's environment; the store only grows. -/
namespace PsycheModel.Scopes

/-! ### association lists -/

theorem find_append (k : Key) (l ext : List (Key × Nat)) :
    find k (l ++ ext) = match find k l with | some d => some d | none => find k ext := by
  induction l with
  | nil => simp [find]
  | cons x xs ih =>
    obtain ⟨k', d⟩ := x
    simp only [List.cons_append, find]
    split <;> simp [ih]

theorem find_append_some {k : Key} {l : List (Key × Nat)} {d : Nat} (h : find k l = some d) (ext : List (Key × Nat)) :
    find k (l ++ ext) = some d := by
  rw [find_append, h]

theorem addFirstWins_prefix (l : List (Key × Nat)) (k : Key) (d : Nat) : ∃ ext, addFirstWins l k d = l ++ ext := by
  unfold addFirstWins
  split
  · exact ⟨[], by simp⟩
  · exact ⟨[(k, d)], rfl⟩

/-! ### stores -/

/-- outer links point to older scopes -/
def WFStore (σ : Nat → Scope) (m : Nat) : Prop := ∀ s, s < m → ∀ o, (σ s).outer = some o → o < s

/-- `σ'` extends `σ` on the first `m` scopes: same enclosure, declarations only appended -/
def Ext (σ : Nat → Scope) (m : Nat) (σ' : Nat → Scope) : Prop :=
  ∀ s, s < m → (σ' s).outer = (σ s).outer ∧ ∃ ext, (σ' s).decls = (σ s).decls ++ ext

theorem Ext.refl (σ : Nat → Scope) (m : Nat) : Ext σ m σ := fun _ _ => ⟨rfl, [], by simp⟩

theorem Ext.trans {σ σ' σ'' : Nat → Scope} {m m' : Nat} (h1 : Ext σ m σ') (h2 : Ext σ' m' σ'') (hm : m ≤ m') : Ext σ m σ'' := by
  intro s hs
  obtain ⟨o1, e1, d1⟩ := h1 s hs
  obtain ⟨o2, e2, d2⟩ := h2 s (Nat.lt_of_lt_of_le hs hm)
  exact ⟨o2.trans o1, e1 ++ e2, by rw [d2, d1, List.append_assoc]⟩

/-- no scope on the chain from `s` that lacked the key at the time of `σ` has it in `σ'` -/
def NoLate (σ σ' : Nat → Scope) (k : Key) : Nat → Nat → Prop
  | 0, _ => True
  | fuel + 1, s =>
    find k (σ s).decls = none →
      (find k (σ' s).decls = none ∧ ∀ o, (σ s).outer = some o → NoLate σ σ' k fuel o)

/-- **Stability.**  Later additions to the store do not change what a lookup finds, unless a scope on its way that did not
declare the key at the time declares it later. -/
theorem lookup_ext {σ σ' : Nat → Scope} {m : Nat} (hwf : WFStore σ m) (hext : Ext σ m σ') (k : Key) :
    ∀ (fuel s : Nat), s < m → NoLate σ σ' k fuel s → lookup σ' fuel s k = lookup σ fuel s k
  | 0, _, _, _ => rfl
  | fuel + 1, s, hs, hn => by
    obtain ⟨ho, ext, hd⟩ := hext s hs
    simp only [lookup]
    cases hf : find k (σ s).decls with
    | some d => rw [hd, find_append_some hf]
    | none =>
      obtain ⟨hn1, hn2⟩ := hn hf
      rw [hn1, ho]
      cases hout : (σ s).outer with
      | none => rfl
      | some o => exact lookup_ext hwf hext k fuel o (Nat.lt_trans (hwf s hs o hout) hs) (hn2 o hout)

/-! ### the stack is a chain of enclosures -/

/-- consecutive entries are linked by `outer`, indices decrease, the bottom has no outer scope -/
def Chain (σ : Nat → Scope) : List Nat → Prop
  | [] => True
  | [s] => (σ s).outer = none
  | s :: s' :: rest => (σ s).outer = some s' ∧ s' < s ∧ Chain σ (s' :: rest)

def envOf (σ : Nat → Scope) (stack : List Nat) : Env := stack.map fun s => (σ s).decls

theorem lookup_chain (σ : Nat → Scope) (k : Key) : ∀ (stack : List Nat) (s : Nat), Chain σ (s :: stack) →
    ∀ fuel, s < fuel → lookup σ fuel s k = envFind k (envOf σ (s :: stack))
  | [], s, hc, fuel, hf => by
    cases fuel with
    | zero => omega
    | succ f =>
      simp only [Chain] at hc
      simp only [lookup, envOf, List.map, envFind, hc]
  | s' :: rest, s, hc, fuel, hf => by
    cases fuel with
    | zero => omega
    | succ f =>
      obtain ⟨h1, h2, h3⟩ := hc
      have ih := lookup_chain σ k rest s' h3 f (by omega)
      simp only [lookup, h1]
      simp only [envOf, List.map, envFind] at ih ⊢
      cases find k (σ s).decls with
      | some d => rfl
      | none => exact ih

theorem chain_lt {σ : Nat → Scope} : ∀ {stack : List Nat} {s : Nat}, Chain σ (s :: stack) → ∀ t ∈ stack, t < s
  | [], _, _, t, ht => by simp at ht
  | s' :: rest, s, hc, t, ht => by
    obtain ⟨_, h2, h3⟩ := hc
    rcases List.mem_cons.1 ht with h | h
    · omega
    · exact Nat.lt_trans (chain_lt h3 t h) h2

/-- a chain only depends on the scopes it mentions -/
theorem chain_congr {σ σ' : Nat → Scope} : ∀ {stack : List Nat}, (∀ s ∈ stack, (σ' s).outer = (σ s).outer) → Chain σ stack → Chain σ' stack
  | [], _, _ => trivial
  | [s], h, hc => by simp only [Chain] at hc ⊢; rw [h s (by simp)]; exact hc
  | s :: s' :: rest, h, hc => by
    obtain ⟨h1, h2, h3⟩ := hc
    exact ⟨by rw [h s (by simp)]; exact h1, h2, chain_congr (fun t ht => h t (List.mem_cons_of_mem _ ht)) h3⟩

theorem envOf_congr {σ σ' : Nat → Scope} {stack : List Nat} (h : ∀ s ∈ stack, (σ' s).decls = (σ s).decls) :
    envOf σ' stack = envOf σ stack := by
  unfold envOf
  exact List.map_congr_left h

end PsycheModel.Scopes

namespace PsycheModel.Scopes

/-! ### the simulation invariant -/

structure Inv (st : St) : Prop where
  wf : WFStore st.store st.n
  stackLt : ∀ s ∈ st.stack, s < st.n
  chain : Chain st.store st.stack
  usesOk : ∀ u s σ m, (u, s, σ, m) ∈ st.uses → s < m ∧ m ≤ st.n ∧ WFStore σ m ∧ Ext σ m st.store

/-- the binder's state represents C's environment; every use recorded so far saw, at the time, what C sees -/
structure Sim (st : St) (c : CSt) : Prop where
  inv : Inv st
  env : envOf st.store st.stack = c.env
  nd : st.nextDecl = c.nextDecl
  nu : st.nextUse = c.nextUse
  uses : ∀ u s σ m, (u, s, σ, m) ∈ st.uses → ∃ e, (u, e) ∈ c.res ∧ ∀ k, lookup σ (s + 1) s k = envFind k e
  ok : st.ok = true
  resLt : ∀ u e, (u, e) ∈ c.res → u < c.nextUse
  resUniq : ∀ u e e', (u, e) ∈ c.res → (u, e') ∈ c.res → e = e'

theorem Sim.stack_ne {st : St} {c : CSt} (h : Sim st c) (hc : c.env ≠ []) : st.stack ≠ [] := by
  intro hs
  have := h.env
  rw [hs] at this
  exact hc this.symm

/-- a store that differs from `σ` only at index `i ≥ m`, or only by appending declarations, extends it -/
theorem ext_update_decls (σ : Nat → Scope) (m top : Nat) (ds : List (Key × Nat)) (hp : ∃ ext, ds = (σ top).decls ++ ext) :
    Ext σ m (fun i => if i = top then { σ top with decls := ds } else σ i) := by
  intro s _
  by_cases h : s = top
  · subst h
    refine ⟨by simp, ?_⟩
    obtain ⟨ext, he⟩ := hp
    exact ⟨ext, by simp [he]⟩
  · refine ⟨by simp [h], [], by simp [h]⟩

theorem ext_update_fresh (σ : Nat → Scope) (m : Nat) (sc : Scope) :
    Ext σ m (fun i => if i = m then sc else σ i) := by
  intro s hs
  have : s ≠ m := by omega
  exact ⟨by simp [this], [], by simp [this]⟩

theorem sim_addDecl {st : St} {c : CSt} (h : Sim st c) (hc : c.env ≠ []) (k : Key) : Sim (st.addDecl k) (c.addDecl k) := by
  have hne := h.stack_ne hc
  cases hst : st.stack with
  | nil => exact absurd hst hne
  | cons top rest =>
    have hI := h.inv
    have hchain := hI.chain
    rw [hst] at hchain
    have hext : Ext st.store st.n (fun i => if i = top then { st.store top with decls := addFirstWins (st.store top).decls k st.nextDecl } else st.store i) :=
      ext_update_decls _ _ _ _ (addFirstWins_prefix _ _ _)
    have houter : ∀ s, ((fun i => if i = top then { st.store top with decls := addFirstWins (st.store top).decls k st.nextDecl } else st.store i) s).outer = (st.store s).outer := by
      intro s
      by_cases hs : s = top
      · subst hs; simp
      · simp [hs]
    unfold St.addDecl
    simp only [hst]
    refine ⟨⟨?_, ?_, ?_, ?_⟩, ?_, ?_, ?_, ?_, ?_, h.resLt, h.resUniq⟩
    · intro s hs o ho
      rw [houter] at ho
      exact hI.wf s hs o ho
    · intro s hs; exact hI.stackLt s (by rw [hst]; exact hs)
    · exact chain_congr (fun s _ => houter s) hchain
    · intro u s σ m hm
      obtain ⟨a, b, c', d⟩ := hI.usesOk u s σ m hm
      exact ⟨a, b, c', d.trans hext b⟩
    · have henv := h.env
      rw [hst] at henv
      cases hce : c.env with
      | nil => exact absurd hce hc
      | cons f fs =>
        rw [hce] at henv
        simp only [envOf, List.map_cons, List.cons.injEq] at henv
        obtain ⟨hf, hfs⟩ := henv
        simp only [CSt.addDecl, hce, envAdd, envOf, List.map_cons, if_true, List.cons.injEq]
        refine ⟨by rw [hf, h.nd], ?_⟩
        rw [← hfs]
        apply List.map_congr_left
        intro s hs
        have : s ≠ top := by have := chain_lt hchain s hs; omega
        simp [this]
    · simp [CSt.addDecl, h.nd]
    · simp [CSt.addDecl, h.nu]
    · exact h.uses
    · exact h.ok

theorem sim_use {st : St} {c : CSt} (h : Sim st c) (hc : c.env ≠ []) : Sim st.recordUse c.use := by
  have hne := h.stack_ne hc
  cases hst : st.stack with
  | nil => exact absurd hst hne
  | cons top rest =>
    have hI := h.inv
    have hchain := hI.chain
    rw [hst] at hchain
    unfold St.recordUse
    simp only [hst]
    refine ⟨⟨hI.wf, ?_, ?_, ?_⟩, ?_, h.nd, ?_, ?_, h.ok, ?_, ?_⟩
    rotate_left 6
    · intro u e hm
      simp only [CSt.use] at hm ⊢
      rcases List.mem_cons.1 hm with heq | hm
      · simp only [Prod.mk.injEq] at heq; omega
      · have := h.resLt u e hm; omega
    · intro u e e' hm hm'
      simp only [CSt.use] at hm hm'
      rcases List.mem_cons.1 hm with heq | hm <;> rcases List.mem_cons.1 hm' with heq' | hm'
      · simp only [Prod.mk.injEq] at heq heq'; rw [heq.2, heq'.2]
      · simp only [Prod.mk.injEq] at heq; have := h.resLt u e' hm'; omega
      · simp only [Prod.mk.injEq] at heq'; have := h.resLt u e hm; omega
      · exact h.resUniq u e e' hm hm'
    · intro s hs; exact hI.stackLt s (by rw [hst]; exact hs)
    · exact hchain
    · intro u s σ m hm
      rcases List.mem_cons.1 hm with heq | hm
      · simp only [Prod.mk.injEq] at heq
        obtain ⟨_, h2, h3, h4⟩ := heq
        rw [h2, h3, h4]
        exact ⟨hI.stackLt top (by rw [hst]; simp), Nat.le_refl _, hI.wf, Ext.refl _ _⟩
      · exact hI.usesOk u s σ m hm
    · have := h.env; rw [hst] at this; exact this
    · simp [CSt.use, h.nu]
    · intro u s σ m hm
      rcases List.mem_cons.1 hm with heq | hm
      · simp only [Prod.mk.injEq] at heq
        obtain ⟨h1, h2, h3, h4⟩ := heq
        rw [h1, h2, h3]
        refine ⟨c.env, by simp [CSt.use, h.nu], ?_⟩
        intro k
        rw [lookup_chain st.store k rest top hchain (top + 1) (Nat.lt_succ_self _)]
        have := h.env; rw [hst] at this; rw [this]
      · obtain ⟨e, he, hl⟩ := h.uses u s σ m hm
        exact ⟨e, by simp [CSt.use, he], hl⟩

theorem sim_pushNew {st : St} {c : CSt} (h : Sim st c) (hc : c.env ≠ []) : Sim (st.pushNew true) c.push := by
  have hne := h.stack_ne hc
  cases hst : st.stack with
  | nil => exact absurd hst hne
  | cons top rest =>
    have hI := h.inv
    have hchain := hI.chain
    rw [hst] at hchain
    have htop : top < st.n := hI.stackLt top (by rw [hst]; simp)
    have hsame : ∀ s, s < st.n → (fun i => if i = st.n then ({ outer := some top, decls := [] } : Scope) else st.store i) s = st.store s := by
      intro s hs
      have : s ≠ st.n := by omega
      simp [this]
    unfold St.pushNew
    simp only [hst, List.head?_cons, if_true, Bool.not_true, Bool.false_or, List.isEmpty_cons, Bool.not_false, Bool.and_true]
    refine ⟨⟨?_, ?_, ?_, ?_⟩, ?_, h.nd, h.nu, h.uses, h.ok, h.resLt, h.resUniq⟩
    · intro s hs o ho
      dsimp only at hs ho
      by_cases hsn : s = st.n
      · rw [hsn] at ho
        simp only [if_true, Option.some.injEq] at ho
        omega
      · simp only [hsn, if_false] at ho
        exact hI.wf s (by omega) o ho
    · intro s hs
      dsimp only at hs ⊢
      rcases List.mem_cons.1 hs with h1 | h1
      · omega
      · have := hI.stackLt s (by rw [hst]; exact h1); omega
    · dsimp only
      refine ⟨by simp, htop, ?_⟩
      apply chain_congr _ hchain
      intro s hs
      have : s < st.n := hI.stackLt s (by rw [hst]; exact hs)
      have : s ≠ st.n := by omega
      simp [this]
    · intro u s σ m hm
      obtain ⟨a, b, c', d⟩ := hI.usesOk u s σ m hm
      dsimp only
      exact ⟨a, by omega, c', d.trans (ext_update_fresh _ _ _) b⟩
    · have henv := h.env
      rw [hst] at henv
      simp only [CSt.push, envOf, List.map_cons, if_true, List.cons.injEq, true_and]
      rw [← henv]
      simp only [envOf, List.map_cons]
      have h1 : top ≠ st.n := by omega
      simp only [h1, if_false, List.cons.injEq, true_and]
      apply List.map_congr_left
      intro s hs
      have : s < st.n := hI.stackLt s (by rw [hst]; exact List.mem_cons_of_mem _ hs)
      have : s ≠ st.n := by omega
      simp [this]

/-- popping (with or without stashing) a scope that is not the last one -/
theorem sim_pop {st : St} {c : CSt} (h : Sim st c) {top : Nat} {rest : List Nat} (hst : st.stack = top :: rest)
    (st' : St) (hs' : st'.stack = rest) (hstore : st'.store = st.store) (hn : st'.n = st.n) (hu : st'.uses = st.uses)
    (hnd : st'.nextDecl = st.nextDecl) (hnu : st'.nextUse = st.nextUse) (hok : st'.ok = true) : Sim st' c.popF := by
  have hI := h.inv
  have hchain := hI.chain
  rw [hst] at hchain
  refine ⟨⟨?_, ?_, ?_, ?_⟩, ?_, by rw [hnd]; exact h.nd, by rw [hnu]; exact h.nu, ?_, hok, h.resLt, h.resUniq⟩
  · rw [hstore, hn]; exact hI.wf
  · intro s hs; rw [hn]; exact hI.stackLt s (by rw [hst]; rw [hs'] at hs; exact List.mem_cons_of_mem _ hs)
  · rw [hstore, hs']
    cases rest with
    | nil => trivial
    | cons s' r => exact hchain.2.2
  · intro u s σ m hm
    rw [hu] at hm
    rw [hstore, hn]
    exact hI.usesOk u s σ m hm
  · have henv := h.env
    rw [hst] at henv
    simp only [CSt.popF]
    rw [hstore, hs', ← henv]
    simp [envOf]
  · intro u s σ m hm
    rw [hu] at hm
    exact h.uses u s σ m hm

end PsycheModel.Scopes

namespace PsycheModel.Scopes

/-! ### whole runs -/

/-- what every construct guarantees: the simulation goes on, the stack is as before, the store has only grown -/
structure Step (st : St) (c : CSt) (st' : St) (c' : CSt) : Prop where
  sim : Sim st' c'
  stack : st'.stack = st.stack
  envLen : c'.env.length = c.env.length
  ext : Ext st.store st.n st'.store
  mono : st.n ≤ st'.n

theorem Step.refl {st : St} {c : CSt} (h : Sim st c) : Step st c st c := ⟨h, rfl, rfl, Ext.refl _ _, Nat.le_refl _⟩

theorem Step.trans {st st' st'' : St} {c c' c'' : CSt} (h1 : Step st c st' c') (h2 : Step st' c' st'' c'') : Step st c st'' c'' :=
  ⟨h2.sim, h2.stack.trans h1.stack, h2.envLen.trans h1.envLen, h1.ext.trans h2.ext h1.mono, Nat.le_trans h1.mono h2.mono⟩

theorem env_ne_of_len {c c' : CSt} (h : c'.env.length = c.env.length) (hc : c.env ≠ []) : c'.env ≠ [] := by
  intro h0
  rw [h0] at h
  exact hc (List.length_eq_zero_iff.1 h.symm)

theorem step_addDecl {st : St} {c : CSt} (h : Sim st c) (hc : c.env ≠ []) (k : Key) : Step st c (st.addDecl k) (c.addDecl k) := by
  refine ⟨sim_addDecl h hc k, ?_, ?_, ?_, ?_⟩
  · unfold St.addDecl; split <;> rfl
  · cases hce : c.env with
    | nil => exact absurd hce hc
    | cons f fs => simp [CSt.addDecl, hce, envAdd]
  · unfold St.addDecl
    split
    · exact Ext.refl _ _
    · exact ext_update_decls _ _ _ _ (addFirstWins_prefix _ _ _)
  · unfold St.addDecl; split <;> exact Nat.le_refl _

theorem step_use {st : St} {c : CSt} (h : Sim st c) (hc : c.env ≠ []) : Step st c st.recordUse c.use := by
  refine ⟨sim_use h hc, ?_, rfl, ?_, ?_⟩
  · unfold St.recordUse; split <;> rfl
  · unfold St.recordUse; split <;> exact Ext.refl _ _
  · unfold St.recordUse; split <;> exact Nat.le_refl _

theorem step_addKeys : ∀ (ks : List Key) {st : St} {c : CSt}, Sim st c → c.env ≠ [] → Step st c (addKeys st ks) (cKeys c ks)
  | [], _, _, h, _ => Step.refl h
  | k :: ks, _, _, h, hc => by
    have s1 := step_addDecl h hc k
    exact s1.trans (step_addKeys ks s1.sim (env_ne_of_len s1.envLen hc))

/-- a scope pushed, filled by `fill`, and popped again (with or without stash): the discarded prototype scope of a
callback parameter, and the body of a block -/
theorem step_scoped {st : St} {c : CSt} (h : Sim st c) (hc : c.env ≠ []) (stashes : Bool)
    {st2 : St} {c2 : CSt} (hfill : Step (st.pushNew true) c.push st2 c2) :
    Step st c (if stashes then st2.popAndStash else st2.pop) c2.popF := by
  have hne := h.stack_ne hc
  have hstk : st2.stack = st.n :: st.stack := by rw [hfill.stack]; rfl
  have hpush_n : (st.pushNew true).n = st.n + 1 := rfl
  have hok2 : st2.ok = true := hfill.sim.ok
  have hsim : Sim (if stashes then st2.popAndStash else st2.pop) c2.popF := by
    apply sim_pop hfill.sim hstk
    · cases stashes <;> simp [St.pop, St.popAndStash, hstk]
    · cases stashes <;> rfl
    · cases stashes <;> rfl
    · cases stashes <;> rfl
    · cases stashes <;> rfl
    · cases stashes <;> rfl
    · cases stashes <;> simp [St.pop, St.popAndStash, hstk, hok2]
  refine ⟨hsim, ?_, ?_, ?_, ?_⟩
  · cases stashes <;> simp [St.pop, St.popAndStash, hstk]
  · have := hfill.envLen
    simp only [CSt.push, List.length_cons] at this
    simp only [CSt.popF, List.length_tail, this]
    omega
  · have e1 : Ext st.store st.n (st.pushNew true).store := ext_update_fresh _ _ _
    have e2 := e1.trans hfill.ext (by rw [hpush_n]; omega)
    cases stashes <;> exact e2
  · have := hfill.mono
    rw [hpush_n] at this
    cases stashes <;> simp [St.pop, St.popAndStash] <;> omega

theorem step_addParam {st : St} {c : CSt} (h : Sim st c) (hc : c.env ≠ []) (p : Param) : Step st c (addParam st p) (cParam c p) := by
  unfold addParam cParam
  by_cases hi : p.inner.isEmpty
  · simp only [hi, if_true]
    exact step_addDecl h hc p.key
  · simp only [hi, Bool.false_eq_true, if_false]
    have hpush := sim_pushNew h hc
    have hfill := step_addKeys p.inner hpush (by simp [CSt.push])
    have s1 := step_scoped h hc p.innerStashes hfill
    exact s1.trans (step_addDecl s1.sim (env_ne_of_len s1.envLen hc) p.key)

theorem step_addParams : ∀ (ps : List Param) {st : St} {c : CSt}, Sim st c → c.env ≠ [] → Step st c (addParams st ps) (cParams c ps)
  | [], _, _, h, _ => Step.refl h
  | p :: ps, _, _, h, hc => by
    have s1 := step_addParam h hc p
    exact s1.trans (step_addParams ps s1.sim (env_ne_of_len s1.envLen hc))

end PsycheModel.Scopes

namespace PsycheModel.Scopes

theorem sim_pushStashed {st4 : St} {c1 : CSt} (h : Sim st4 c1) {n0 top : Nat} {rest : List Nat}
    (hstash : st4.stash = some n0) (hstk : st4.stack = top :: rest) (hn0 : n0 < st4.n)
    (hout : (st4.store n0).outer = some top) (hlt : top < n0) :
    Sim st4.pushStashed { c1 with env := (st4.store n0).decls :: c1.env } := by
  have hI := h.inv
  have hchain := hI.chain
  rw [hstk] at hchain
  unfold St.pushStashed
  simp only [hstash]
  refine ⟨⟨hI.wf, ?_, ?_, hI.usesOk⟩, ?_, h.nd, h.nu, h.uses, h.ok, h.resLt, h.resUniq⟩
  · intro s hs
    dsimp only at hs
    rcases List.mem_cons.1 hs with h1 | h1
    · rw [h1]; exact hn0
    · exact hI.stackLt s h1
  · dsimp only
    rw [hstk]
    exact ⟨hout, hlt, hchain⟩
  · dsimp only
    have := h.env
    simp only [envOf, List.map_cons] at this ⊢
    rw [this]

mutual
theorem step_runItem : ∀ (i : Item) {st : St} {c : CSt}, Sim st c → c.env ≠ [] → Step st c (runItem i st) (cItem i c)
  | .decl k, _, _, h, hc => by simpa [runItem, cItem] using step_addDecl h hc k
  | .use, _, _, h, hc => by simpa [runItem, cItem] using step_use h hc
  | .block b, st, c, h, hc => by
    have hfill := step_runItems b (sim_pushNew h hc) (by simp [CSt.push])
    simpa [runItem, cItem] using step_scoped h hc false hfill
  | .proto k ps, st, c, h, hc => by
    have hfill := step_addParams ps (sim_pushNew h hc) (by simp [CSt.push])
    have s1 := step_scoped h hc true hfill
    simp only [if_true] at s1
    simpa [runItem, cItem] using s1.trans (step_addDecl s1.sim (env_ne_of_len s1.envLen hc) k)
  | .fundef k ps body, st, c, h, hc => by
    show Step st c (runItems body (((addParams (st.pushNew true) ps).popAndStash).addDecl k).pushStashed).pop
      (cItems body { ((cParams c.push ps).popF.addDecl k) with
        env := (cParams c.push ps).env.headD [] :: ((cParams c.push ps).popF.addDecl k).env }).popF
    have hne := h.stack_ne hc
    cases hS : st.stack with
    | nil => exact absurd hS hne
    | cons top rest =>
    have htopn : top < st.n := h.inv.stackLt top (by rw [hS]; simp)
    -- parameters in their prototype scope, which is then stashed
    have hfill := step_addParams ps (sim_pushNew h hc) (by simp [CSt.push])
    have sA := step_scoped h hc true hfill
    simp only [if_true] at sA
    have hcA := env_ne_of_len sA.envLen hc
    have sB := step_addDecl sA.sim hcA k
    -- names for the intermediate states
    generalize hst2 : addParams (st.pushNew true) ps = st2 at hfill sA sB ⊢
    generalize hcp : cParams c.push ps = cp at hfill sA sB ⊢
    have hstk2 : st2.stack = st.n :: top :: rest := by rw [hfill.stack]; simp [St.pushNew, hS]
    have hstk3 : (st2.popAndStash).stack = top :: rest := by simp [St.popAndStash, hstk2]
    have hstash3 : (st2.popAndStash).stash = some st.n := by simp [St.popAndStash, hstk2]
    -- the state before the body
    have hst4_stack : ((st2.popAndStash).addDecl k).stack = top :: rest := by rw [sB.stack, hstk3]
    have hst4_stash : ((st2.popAndStash).addDecl k).stash = some st.n := by
      unfold St.addDecl; rw [hstk3]; exact hstash3
    have hn1 : (st.pushNew true).n = st.n + 1 := rfl
    have hst4_n : st.n < ((st2.popAndStash).addDecl k).n := by
      have a := hfill.mono; rw [hn1] at a
      have b := sB.mono
      have c3 : (st2.popAndStash).n = st2.n := rfl
      omega
    have hout1 : ((st.pushNew true).store st.n).outer = some top := by simp [St.pushNew, hS]
    have hout2 : (st2.store st.n).outer = some top := by
      rw [(hfill.ext st.n (by rw [hn1]; omega)).1]; exact hout1
    have hout4 : (((st2.popAndStash).addDecl k).store st.n).outer = some top := by
      have : st.n < (st2.popAndStash).n := by have a := hfill.mono; rw [hn1] at a; exact Nat.lt_of_lt_of_le (Nat.lt_succ_self _) a
      rw [(sB.ext st.n this).1]; exact hout2
    have hdecls4 : (((st2.popAndStash).addDecl k).store st.n).decls = (st2.store st.n).decls := by
      unfold St.addDecl; rw [hstk3]
      have : st.n ≠ top := by omega
      simp [this, St.popAndStash]
    have hframe : cp.env.headD [] = (st2.store st.n).decls := by
      have := hfill.sim.env
      rw [hstk2] at this
      simp only [envOf, List.map_cons] at this
      rw [← this]; rfl
    have s5 := sim_pushStashed sB.sim hst4_stash hst4_stack hst4_n hout4 htopn
    rw [hdecls4, ← hframe] at s5
    -- the body
    have hc5 : ({ (cp.popF.addDecl k) with env := cp.env.headD [] :: (cp.popF.addDecl k).env } : CSt).env ≠ [] := by simp
    have s6 := step_runItems body s5 hc5
    generalize hst6 : runItems body ((st2.popAndStash).addDecl k).pushStashed = st6 at s6 ⊢
    generalize hc6 : cItems body { (cp.popF.addDecl k) with env := cp.env.headD [] :: (cp.popF.addDecl k).env } = c6 at s6 ⊢
    have hstk5 : (((st2.popAndStash).addDecl k).pushStashed).stack = st.n :: top :: rest := by
      unfold St.pushStashed; simp only [hst4_stash, hst4_stack]
    have hstk6 : st6.stack = st.n :: top :: rest := by rw [s6.stack, hstk5]
    have hn5 : (((st2.popAndStash).addDecl k).pushStashed).n = ((st2.popAndStash).addDecl k).n := by
      unfold St.pushStashed; simp only [hst4_stash]
    have hstore5 : (((st2.popAndStash).addDecl k).pushStashed).store = ((st2.popAndStash).addDecl k).store := by
      unfold St.pushStashed; simp only [hst4_stash]
    have s7 : Sim st6.pop c6.popF := by
      apply sim_pop s6.sim hstk6
      · simp [St.pop, hstk6]
      · rfl
      · rfl
      · rfl
      · rfl
      · rfl
      · simp [St.pop, hstk6, s6.sim.ok]
    have hres : Step st c st6.pop c6.popF := by
      refine ⟨s7, ?_, ?_, ?_, ?_⟩
      · simp [St.pop, hstk6, hS]
      · have l6 : c6.env.length = (cp.popF.addDecl k).env.length + 1 := by
          have := s6.envLen
          simpa using this
        have lB := sB.envLen
        have lA := sA.envLen
        show c6.env.tail.length = c.env.length
        rw [List.length_tail]
        omega
      · have e1 := (sA.ext.trans sB.ext sA.mono)
        have e2 : Ext ((st2.popAndStash).addDecl k).store ((st2.popAndStash).addDecl k).n st6.store := by
          have := s6.ext
          rw [hstore5, hn5] at this
          exact this
        exact e1.trans e2 (Nat.le_trans sA.mono sB.mono)
      · have := s6.mono
        rw [hn5] at this
        have a := sA.mono
        have b := sB.mono
        show st.n ≤ st6.n
        omega
    exact hres
theorem step_runItems : ∀ (p : Items) {st : St} {c : CSt}, Sim st c → c.env ≠ [] → Step st c (runItems p st) (cItems p c)
  | .nil, _, _, h, _ => Step.refl h
  | .cons i rest, _, _, h, hc => by
    have s1 := step_runItem i h hc
    exact s1.trans (step_runItems rest s1.sim (env_ne_of_len s1.envLen hc))
end

end PsycheModel.Scopes
