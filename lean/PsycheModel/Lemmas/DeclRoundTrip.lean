import PsycheModel.DeclPrint
import PsycheModel.Lemmas.DeclParser
/-! Helper lemmas for "the declarator parser inverts the declarator printer" (Props/C07.lean): what printed declarators start
with, abstract declarators do not parse as concrete ones, the mutual induction over declarators and parameter lists. -/
namespace PsycheModel.DeclParser
open PsycheModel.Declarators

def headP (P : Tok → Bool) : List Tok → Bool
  | t :: _ => P t
  | [] => false

def isQualTok : Tok → Bool
  | .qual _ => true
  | _ => false

theorem takeQuals_quals (qs : List Qual) (r : List Tok) (h : headP isQualTok r = false) :
    takeQuals (qs.map Tok.qual ++ r) = (qs, r) := by
  induction qs with
  | nil =>
    cases r with
    | nil => rfl
    | cons t r => cases t <;> simp_all [takeQuals, headP, isQualTok]
  | cons q qs ih => simp [takeQuals, ih]

/-- the first token of a printed declarator: never one of a class that excludes `(`, `[` and identifiers — given that `*`
is excluded when the declarator is a pointer declarator, and what follows is, when the declarator prints as nothing -/
theorem pr_head (P : Tok → Bool) (hl : P .lparen = false) (hb : P .lbrack = false) (hi : ∀ n, P (.ident n) = false) :
    ∀ (d : Decl) (form : Form) (k : List Tok), wf form d = true → (isPtr d = true → P .star = false) →
      (isLeafAbstract d = true → headP P k = false) → headP P (pr d k) = false
  | .ident n, _, _, _, _, _ => by simp [pr, headP, hi]
  | .abstract, _, _, _, _, hk => by simpa [pr] using hk rfl
  | .ptr _ _, _, _, _, hs, _ => by simpa [pr, headP] using hs rfl
  | .paren _, _, _, _, _, _ => by simp [pr, headP, hl]
  | .bitfield _, _, _, hw, _, _ => by simp [wf] at hw
  | .arr d, form, k, hw, _, _ => by
    simp only [wf, Bool.and_eq_true, Bool.not_eq_true'] at hw
    simp only [pr]
    exact pr_head P hl hb hi d form _ hw.1 (by simp [hw.2]) (by intro _; simp [headP, hb])
  | .fn d ps ell, form, k, hw, _, _ => by
    simp only [wf, Bool.and_eq_true, Bool.not_eq_true'] at hw
    simp only [pr]
    exact pr_head P hl hb hi d form _ hw.1.1.1 (by simp [hw.1.1.2]) (by intro _; simp [headP, hl])


theorem prPs_cons_head (s : String) (d : Decl) (r : Params) (k : List Tok) : ∃ x, prPs (.cons s d r) k = .spec s :: x := by
  cases r with
  | nil => exact ⟨_, rfl⟩
  | cons s' d' r' => exact ⟨_, rfl⟩

/-- after the `(` of a printed parameter suffix comes `)` or a specifier -/
theorem Fol_params (ps : Params) (ell : Bool) (k : List Tok) (h : (!ell || !psNil ps) = true) :
    Fol (.lparen :: prPs ps ((if ell then [Tok.comma, Tok.ellipsis] else []) ++ .rparen :: k)) = true := by
  cases ps with
  | nil =>
    have : ell = false := by simpa [psNil] using h
    subst this
    simp [prPs, Fol]
  | cons s d r =>
    obtain ⟨x, hx⟩ := prPs_cons_head s d r ((if ell then [Tok.comma, Tok.ellipsis] else []) ++ .rparen :: k)
    rw [hx]; rfl

theorem Fol_not_qual {k : List Tok} (h : Fol k = true) : headP isQualTok k = false := by
  cases k with
  | nil => rfl
  | cons t r => cases t <;> simp_all [Fol, headP, isQualTok]

/-- what may follow a declarator does not begin a concrete declarator -/
theorem concrete_none_of_Fol (f : Nat) {k : List Tok} (h : Fol k = true) : parseD .concrete f k = none := by
  cases f with
  | zero => simp [parseD]
  | succ f =>
    cases f with
    | zero =>
      cases k with
      | nil => simp [parseD, parseDirect]
      | cons t r => cases t <;> simp_all [parseD, parseDirect, Fol]
    | succ f =>
      cases k with
      | nil => simp [parseD, parseDirect]
      | cons t r =>
        cases t with
        | lparen =>
          cases r with
          | nil => simp [Fol] at h
          | cons t2 r2 =>
            cases t2 <;> simp_all [Fol]
            · simp [parseD, parseDirect, parseD_concrete_rparen]
            · simp [parseD, parseDirect, parseD_concrete_spec]
        | star => simp [Fol] at h
        | qual q => simp [Fol] at h
        | ident n => simp [Fol] at h
        | _ => simp [parseD, parseDirect]

/-- **An abstract declarator does not parse as a concrete one** (whatever the fuel): the parameter parser's
"concrete first, abstract after backtracking" therefore takes the abstract reading for it. -/
theorem abstract_not_concrete : ∀ (d : Decl) (f : Nat) (k : List Tok), wf .abstract d = true → Fol k = true →
    parseD .concrete f (pr d k) = none
  | .ident _, _, _, hw, _ => by simp [wf] at hw
  | .bitfield _, _, _, hw, _ => by simp [wf] at hw
  | .abstract, f, k, _, hk => by simpa [pr] using concrete_none_of_Fol f hk
  | .ptr qs d, f, k, hw, hk => by
    simp only [wf] at hw
    cases f with
    | zero => simp [parseD]
    | succ f =>
      have hq : headP isQualTok (pr d k) = false :=
        pr_head isQualTok rfl rfl (fun _ => rfl) d .abstract k hw (fun _ => rfl) (fun _ => Fol_not_qual hk)
      simp only [pr, parseD, takeQuals_quals qs _ hq, abstract_not_concrete d f k hw hk]
  | .paren d, f, k, hw, hk => by
    simp only [wf, Bool.and_eq_true] at hw
    cases f with
    | zero => simp [parseD]
    | succ f =>
      cases f with
      | zero => simp [pr, parseD, parseDirect]
      | succ f =>
        have := abstract_not_concrete d f (.rparen :: k) hw.1 rfl
        simp [pr, parseD, parseDirect, this]
  | .arr d, f, k, hw, hk => by
    simp only [wf, Bool.and_eq_true] at hw
    simpa [pr] using abstract_not_concrete d f (.lbrack :: .rbrack :: k) hw.1 rfl
  | .fn d ps ell, f, k, hw, hk => by
    simp only [wf, Bool.and_eq_true] at hw
    simpa [pr] using abstract_not_concrete d f _ hw.1.1.1 (Fol_params ps ell k hw.2)


theorem parseParam_le {ts x} : ∀ {f g : Nat}, f ≤ g → parseParam f ts = some x → parseParam g ts = some x := by
  intro f g h
  induction h with
  | refl => exact id
  | step _ ih => exact fun hx => (mono _).p _ _ (ih hx)

def ellTail (ell : Bool) (k : List Tok) : List Tok := (if ell then [Tok.comma, Tok.ellipsis] else []) ++ .rparen :: k

theorem suffixes_stop (f : Nat) (d : Decl) {k : List Tok} (h : Stop k = true) : suffixes (f + 1) d k = some (d, k) := by
  cases k with
  | nil => simp [suffixes]
  | cons t r => cases t <;> simp_all [suffixes, Stop]

/-- the abstract declarator that prints as nothing: `parseDirect` hands over to the suffix loop -/
theorem abstract_leaf {f : Nat} {k : List Tok} {x : Decl × List Tok} (hk : Fol k = true) (h : suffixes f .abstract k = some x) :
    parseD .abstract (f + 2) k = some x := by
  cases f with
  | zero => simp [suffixes] at h
  | succ f =>
    cases k with
    | nil => simpa [parseD, parseDirect, suffixes] using h
    | cons t r =>
      cases t with
      | star => simp [Fol] at hk
      | qual q => simp [Fol] at hk
      | ident n => simp [Fol] at hk
      | lparen =>
        cases r with
        | nil => simp [Fol] at hk
        | cons t2 r2 =>
          cases t2 <;> simp_all [Fol]
          · simpa [parseD, parseDirect] using h
          · rename_i s
            simp only [parseD, parseDirect]
            cases f with
            | zero => simpa [parseDirect] using h
            | succ f => simpa [parseDirect] using h
      | lbrack => simpa [parseD, parseDirect] using h
      | rparen => simpa [parseD, parseDirect, suffixes] using h
      | rbrack => simpa [parseD, parseDirect, suffixes] using h
      | comma => simpa [parseD, parseDirect, suffixes] using h
      | ellipsis => simpa [parseD, parseDirect, suffixes] using h
      | num => simpa [parseD, parseDirect, suffixes] using h
      | spec s => simpa [parseD, parseDirect, suffixes] using h
      | stop => simpa [parseD, parseDirect, suffixes] using h


/-- a printed declarator that is not the empty one starts with a token other than `)` -/
theorem pr_first : ∀ (d : Decl) (form : Form) (k : List Tok), wf form d = true →
    (isLeafAbstract d = false ∨ ∃ t r, k = t :: r ∧ t ≠ Tok.rparen) → ∃ t r, pr d k = t :: r ∧ t ≠ Tok.rparen
  | .ident n, _, k, _, _ => ⟨_, _, rfl, by simp⟩
  | .abstract, _, k, _, h => by
    rcases h with h | h
    · simp [isLeafAbstract] at h
    · simpa [pr] using h
  | .ptr _ _, _, _, _, _ => ⟨_, _, rfl, by simp⟩
  | .paren _, _, _, _, _ => ⟨_, _, rfl, by simp⟩
  | .bitfield _, _, _, hw, _ => by simp [wf] at hw
  | .arr d, form, k, hw, _ => by
    simp only [wf, Bool.and_eq_true] at hw
    simpa [pr] using pr_first d form _ hw.1 (.inr ⟨_, _, rfl, by simp⟩)
  | .fn d ps ell, form, k, hw, _ => by
    simp only [wf, Bool.and_eq_true] at hw
    simpa [pr] using pr_first d form _ hw.1.1.1 (.inr ⟨_, _, rfl, by simp⟩)

theorem Fol_ellTail (ell : Bool) (k : List Tok) : Fol (ellTail ell k) = true ∧ Stop (ellTail ell k) = true := by
  cases ell <;> simp [ellTail, Fol, Stop]

/-- (a) a direct declarator followed by `k`: `parseD` does what the suffix loop does from the declarator on -/
def ContA (form : Form) (d : Decl) : Prop :=
  isPtr d = false → ∀ (k : List Tok) (f : Nat) (x : Decl × List Tok), Fol k = true → suffixes f d k = some x →
    ∃ f', parseD form f' (pr d k) = some x
/-- (b) any declarator followed by something that ends it -/
def ContB (form : Form) (d : Decl) : Prop :=
  ∀ (k : List Tok), Fol k = true → Stop k = true → ∃ f', parseD form f' (pr d k) = some (d, k)

theorem contB_of_contA {form d} (hd : isPtr d = false) (ha : ContA form d) : ContB form d :=
  fun k hf hs => ha hd k 1 (d, k) hf (suffixes_stop 0 d hs)


mutual
theorem rt : ∀ (d : Decl) (form : Form), wf form d = true → ContA form d ∧ ContB form d
  | .ident n, form, hw => by
    have hf : form = .concrete := by simpa [wf] using hw
    subst hf
    have ha : ContA .concrete (.ident n) := by
      intro _ k f x _ h
      exact ⟨f + 2, by simpa [pr, parseD, parseDirect] using h⟩
    exact ⟨ha, contB_of_contA rfl ha⟩
  | .abstract, form, hw => by
    have hf : form = .abstract := by simpa [wf] using hw
    subst hf
    have ha : ContA .abstract .abstract := by
      intro _ k f x hk h
      exact ⟨f + 2, by simpa [pr] using abstract_leaf hk h⟩
    exact ⟨ha, contB_of_contA rfl ha⟩
  | .bitfield _, _, hw => by simp [wf] at hw
  | .ptr qs d, form, hw => by
    simp only [wf] at hw
    refine ⟨fun h => by simp [isPtr] at h, ?_⟩
    intro k hk hs
    obtain ⟨f0, h0⟩ := (rt d form hw).2 k hk hs
    have hq : headP isQualTok (pr d k) = false :=
      pr_head isQualTok rfl rfl (fun _ => rfl) d form k hw (fun _ => rfl) (fun _ => Fol_not_qual hk)
    exact ⟨f0 + 1, by simp only [pr, parseD, takeQuals_quals qs _ hq, h0]⟩
  | .paren d, form, hw => by
    simp only [wf, Bool.and_eq_true, Bool.not_eq_true'] at hw
    have ha : ContA form (.paren d) := by
      intro _ k f x hk h
      obtain ⟨f0, h0⟩ := (rt d form hw.1).2 (.rparen :: k) rfl rfl
      obtain ⟨t, r, hX, ht⟩ := pr_first d form (.rparen :: k) hw.1 (.inl hw.2)
      have h0' := parseD_le (Nat.le_max_left f0 f) h0
      have h' := suffixes_le (Nat.le_max_right f0 f) h
      refine ⟨max f0 f + 2, ?_⟩
      cases form with
      | concrete => simp only [pr, parseD, parseDirect, h0', h']
      | abstract =>
        simp only [pr, parseD]
        rw [hX] at h0' ⊢
        cases t with
        | rparen => exact absurd rfl ht
        | _ => simp only [parseDirect, h0', h']
    exact ⟨ha, contB_of_contA rfl ha⟩
  | .arr d, form, hw => by
    simp only [wf, Bool.and_eq_true, Bool.not_eq_true'] at hw
    have ha : ContA form (.arr d) := by
      intro _ k f x hk h
      exact (rt d form hw.1).1 hw.2 (.lbrack :: .rbrack :: k) (f + 1) x rfl (by simpa [suffixes] using h)
    exact ⟨ha, contB_of_contA rfl ha⟩
  | .fn d ps ell, form, hw => by
    simp only [wf, Bool.and_eq_true, Bool.not_eq_true'] at hw
    have ha : ContA form (.fn d ps ell) := by
      intro _ k f x hk h
      have hps : ∃ g0, parseParams g0 (prPs ps (ellTail ell k)) = some (ps, ell, .rparen :: k) := by
        cases ps with
        | nil =>
          have : ell = false := by simpa [psNil] using hw.2
          subst this
          exact ⟨1, by simp [prPs, ellTail, parseParams]⟩
        | cons s d' r =>
          obtain ⟨g, hg⟩ := rtPs (.cons s d' r) (by simp [psNil]) hw.1.2 ell k
          obtain ⟨y, hy⟩ := prPs_cons_head s d' r (ellTail ell k)
          refine ⟨g + 1, ?_⟩
          rw [hy] at hg ⊢
          simpa [parseParams] using hg
      obtain ⟨g0, hg0⟩ := hps
      have hg := parseParams_le (Nat.le_max_left g0 f) hg0
      have h' := suffixes_le (Nat.le_max_right g0 f) h
      exact (rt d form hw.1.1.1).1 hw.1.1.2 _ (max g0 f + 1) x (Fol_params ps ell k hw.2)
        (by simp only [suffixes, ellTail] at hg ⊢; simp only [hg, h'])
    exact ⟨ha, contB_of_contA rfl ha⟩

theorem rtPs : ∀ (ps : Params), psNil ps = false → wfPs ps = true → ∀ (ell : Bool) (k : List Tok),
    ∃ f, parseParamList f (prPs ps (ellTail ell k)) = some (ps, ell, .rparen :: k)
  | .nil, h, _ => by simp [psNil] at h
  | .cons s d r, _, hw => by
    intro ell k
    simp only [wfPs, Bool.and_eq_true, Bool.or_eq_true] at hw
    -- the parameter itself, followed by `rest`
    have hparam : ∀ rest, Fol rest = true → Stop rest = true → ∃ g, parseParam g (.spec s :: pr d rest) = some (s, d, rest) := by
      intro rest hf hs
      rcases hw.1 with hc | ha
      · obtain ⟨f0, h0⟩ := (rt d .concrete hc).2 rest hf hs
        exact ⟨f0 + 1, by simp only [parseParam, h0]⟩
      · obtain ⟨f0, h0⟩ := (rt d .abstract ha).2 rest hf hs
        exact ⟨f0 + 1, by simp only [parseParam, abstract_not_concrete d f0 rest ha hf, h0]⟩
    cases r with
    | nil =>
      obtain ⟨g, hg⟩ := hparam (ellTail ell k) (Fol_ellTail ell k).1 (Fol_ellTail ell k).2
      refine ⟨g + 1, ?_⟩
      cases ell with
      | true =>
        have e : ellTail true k = .comma :: .ellipsis :: .rparen :: k := rfl
        rw [e] at hg ⊢
        simp only [prPs, parseParamList, hg]
      | false =>
        have e : ellTail false k = .rparen :: k := rfl
        rw [e] at hg ⊢
        simp only [prPs, parseParamList, hg]
    | cons s' d' r' =>
      obtain ⟨g1, hg1⟩ := hparam (.comma :: prPs (.cons s' d' r') (ellTail ell k)) rfl rfl
      obtain ⟨g2, hg2⟩ := rtPs (.cons s' d' r') (by simp [psNil]) hw.2 ell k
      obtain ⟨y, hy⟩ := prPs_cons_head s' d' r' (ellTail ell k)
      have h1 := parseParam_le (Nat.le_max_left g1 g2) hg1
      have h2 := parseParamList_le (Nat.le_max_right g1 g2) hg2
      refine ⟨max g1 g2 + 1, ?_⟩
      simp only [prPs, parseParamList, h1]
      rw [hy] at h2 ⊢
      simp only [h2]
end

/-! ### soundness: whatever the parser model returns is a well-formed declarator -/

theorem wf_concrete_not_leaf : ∀ d : Decl, wf .concrete d = true → isLeafAbstract d = false
  | .abstract, h => by simp [wf] at h
  | .ident _, _ | .ptr _ _, _ | .paren _, _ | .arr _, _ | .fn _ _ _, _ | .bitfield _, _ => rfl

/-- the empty abstract declarator is returned only where nothing was consumed -/
theorem abstract_leaf_consumes_nothing : ∀ (f : Nat) (ts r : List Tok),
    (parseD .abstract f ts = some (.abstract, r) → r = ts) ∧ (parseDirect .abstract f ts = some (.abstract, r) → r = ts) ∧
    (∀ inner, suffixes f inner ts = some (.abstract, r) → inner = .abstract ∧ r = ts)
  | 0, _, _ => by simp [parseD, parseDirect, suffixes]
  | f + 1, ts, r => by
    have ih := abstract_leaf_consumes_nothing f
    refine ⟨?_, ?_, ?_⟩
    · intro h
      unfold parseD at h
      split at h
      · split at h <;> simp at h
      · exact (ih ts r).2.1 h
    · intro h
      unfold parseDirect at h
      split at h <;> first
        | contradiction
        | exact ((ih _ r).2.2 _ h).2
        | (split at h <;> first
            | (have hh := ((ih _ r).2.2 _ h).1; cases hh; done)
            | exact ((ih _ r).2.2 _ h).2
            | (simp at h; done))
        | (simp at h; done)
        | (cases h; rfl)
    · intro inner h
      unfold suffixes at h
      split at h
      · split at h
        · (have hh := ((ih _ r).2.2 _ h).1; cases hh; done)
        · simp at h
      · (have hh := ((ih _ r).2.2 _ h).1; cases hh; done)
      · (have hh := ((ih _ r).2.2 _ h).1; cases hh; done)
      · simp at h
      · simp at h; exact ⟨h.1, h.2.symm⟩


/-- what every function of the parser model returns is well-formed -/
structure Snd (f : Nat) : Prop where
  d : ∀ form ts x r, parseD form f ts = some (x, r) → wf form x = true
  dir : ∀ form ts x r, parseDirect form f ts = some (x, r) → wf form x = true ∧ isPtr x = false
  suf : ∀ form inner ts x r, suffixes f inner ts = some (x, r) → wf form inner = true → isPtr inner = false →
    wf form x = true ∧ isPtr x = false
  ps : ∀ ts ps ell r, parseParams f ts = some (ps, ell, r) → wfPs ps = true ∧ (!ell || !psNil ps) = true
  pl : ∀ ts ps ell r, parseParamList f ts = some (ps, ell, r) → wfPs ps = true ∧ psNil ps = false
  p : ∀ ts s x r, parseParam f ts = some (s, x, r) → (wf .concrete x || wf .abstract x) = true

theorem snd : ∀ f, Snd f
  | 0 => by constructor <;> intros <;> simp_all [parseD, parseDirect, suffixes, parseParams, parseParamList, parseParam]
  | f + 1 => by
    have ih := snd f
    constructor
    · intro form ts x r h
      unfold parseD at h
      split at h
      · split at h
        · rename_i heq
          cases h
          simpa [wf] using ih.d _ _ _ _ heq
        · simp at h
      · exact (ih.dir _ _ _ _ h).1
    · intro form ts x r h
      unfold parseDirect at h
      split at h
      · exact ih.suf .concrete _ _ _ _ h rfl rfl
      · simp at h
      · split at h
        · rename_i heq
          have hw := ih.d _ _ _ _ heq
          exact ih.suf .concrete _ _ _ _ h (by simp [wf, hw, wf_concrete_not_leaf _ hw]) rfl
        · simp at h
      · exact ih.suf .abstract _ _ _ _ h rfl rfl
      · rename_i r0 hne
        split at h
        · rename_i d r2 heq
          have hw := ih.d _ _ _ _ heq
          have hnl : isLeafAbstract d = false := by
            cases d with
            | abstract =>
              have := (abstract_leaf_consumes_nothing f r0 (.rparen :: r2)).1 heq
              exact absurd this.symm (hne r2)
            | _ => rfl
          exact ih.suf .abstract _ _ _ _ h (by simp [wf, hw, hnl]) rfl
        · exact ih.suf .abstract _ _ _ _ h rfl rfl
      · exact ih.suf .abstract _ _ _ _ h rfl rfl
      · simp at h
      · cases h; exact ⟨rfl, rfl⟩
    · intro form inner ts x r h hw hp
      unfold suffixes at h
      split at h
      · split at h
        · rename_i ps ell r2 heq
          have hps := ih.ps _ _ _ _ heq
          exact ih.suf form _ _ _ _ h (by simp [wf, hw, hp, hps.1, hps.2]) rfl
        · simp at h
      · exact ih.suf form _ _ _ _ h (by simp [wf, hw, hp]) rfl
      · exact ih.suf form _ _ _ _ h (by simp [wf, hw, hp]) rfl
      · simp at h
      · cases h; exact ⟨hw, hp⟩
    · intro ts ps ell r h
      unfold parseParams at h
      split at h
      · cases h; exact ⟨rfl, rfl⟩
      · simp at h
      · have := ih.pl _ _ _ _ h
        exact ⟨this.1, by simp [this.2]⟩
    · intro ts ps ell r h
      unfold parseParamList at h
      split at h
      · simp at h
      · rename_i heq; cases h; exact ⟨by simp [wfPs, ih.p _ _ _ _ heq], rfl⟩
      · rename_i heq; cases h; exact ⟨by simp [wfPs, ih.p _ _ _ _ heq], rfl⟩
      · rename_i heq
        split at h
        · rename_i heq2
          cases h
          exact ⟨by simp [wfPs, ih.p _ _ _ _ heq, (ih.pl _ _ _ _ heq2).1], rfl⟩
        · simp at h
      · rename_i heq; cases h; exact ⟨by simp [wfPs, ih.p _ _ _ _ heq], rfl⟩
    · intro ts s x r h
      unfold parseParam at h
      split at h
      · split at h
        · rename_i heq; cases h; simp [ih.d _ _ _ _ heq]
        · split at h
          · rename_i heq; cases h; simp [ih.d _ _ _ _ heq]
          · simp at h
      · simp at h

end PsycheModel.DeclParser
