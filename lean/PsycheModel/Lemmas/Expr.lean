import PsycheModel.Expr
/-! Helper lemmas for the all-layers expression model (C06): fuel monotonicity, spines, loop lemmas, the knot. -/
namespace PsycheModel.Expr

/-! ### fuel monotonicity -/
/-- results with fuel `f` persist with fuel `g` -/
structure Le (T : Tbl) (f g : Nat) : Prop where
  atOp : ∀ base cut ts x, atOp T f base cut ts = some x → atOp T g base cut ts = some x
  linkP : ∀ ts x, linkP T f ts = some x → linkP T g ts = some x
  inner : ∀ next prev ts x, inner T f next prev ts = some x → inner T g next prev ts = some x
  nary : ∀ cut ts x, nary T f cut ts = some x → nary T g cut ts = some x
  cast : ∀ ts x, cast T f ts = some x → cast T g ts = some x
  unary : ∀ ts x, unary T f ts = some x → unary T g ts = some x
  postf : ∀ e ts x, postf T f e ts = some x → postf T g e ts = some x
  args : ∀ ts x, args T f ts = some x → args T g ts = some x

syntax "lift_ih " ident : tactic
macro_rules
  | `(tactic| lift_ih $ih) => `(tactic| (
      try (have hL1 := ($ih).linkP _ _ ‹linkP _ _ _ = some _›)
      try (have hL2 := ($ih).cast _ _ ‹cast _ _ _ = some _›)
      try (have hL3 := ($ih).inner _ _ _ _ ‹inner _ _ _ _ _ = some _›)
      try (have hL4 := ($ih).nary _ _ _ ‹nary _ _ _ _ = some _›)
      try (have hL5 := ($ih).unary _ _ ‹unary _ _ _ = some _›)
      try (have hL6 := ($ih).args _ _ ‹args _ _ _ = some _›)
      try (have hL7 := ($ih).atOp _ _ _ _ ‹atOp _ _ _ _ _ = some _›)
      try (have hL8 := ($ih).postf _ _ _ ‹postf _ _ _ _ = some _›)))

syntax "mono_case " ident : tactic
set_option hygiene false in
macro_rules
  | `(tactic| mono_case $ih) => `(tactic| (
      repeat' (split at h)
      all_goals (try (simp at h; done))
      all_goals (lift_ih $ih)
      all_goals (try simp_all)
      all_goals (try (intros; omega))))

theorem le_succ (T : Tbl) {f g : Nat} (ih : Le T f g) : Le T (f+1) (g+1) := by
  constructor
  · intro base cut ts x h
    simp only [atOp] at h ⊢
    mono_case ih
  · intro ts x h
    simp only [linkP] at h ⊢
    mono_case ih
  · intro next prev ts x h
    simp only [inner] at h ⊢
    mono_case ih
  · intro cut ts x h
    simp only [nary] at h ⊢
    mono_case ih
  · intro ts x h
    simp only [cast] at h ⊢
    mono_case ih
  · intro ts x h
    simp only [unary] at h ⊢
    mono_case ih
  · intro e ts x h
    simp only [postf] at h ⊢
    mono_case ih
  · intro ts x h
    simp only [args] at h ⊢
    mono_case ih

theorem le_rfl_fuel (T : Tbl) (f : Nat) : Le T f f := by constructor <;> intros <;> assumption
theorem le_zero (T : Tbl) (g : Nat) : Le T 0 g := by
  constructor <;> intros <;> simp_all [atOp, linkP, inner, nary, cast, unary, postf, args]
theorem le_add (T : Tbl) (f k : Nat) : Le T f (f + k) := by
  induction f with
  | zero => exact le_zero T _
  | succ f ih => have := le_succ T ih; rwa [Nat.add_right_comm] at this
theorem le_of_le (T : Tbl) {f g : Nat} (h : f ≤ g) : Le T f g := by
  obtain ⟨k, rfl⟩ := Nat.exists_eq_add_of_le h
  exact le_add T f k

/-! ### spines: an expression is its leftmost operand followed by (operator [middle operand], right operand) pairs -/
variable (T : Tbl)

abbrev Sp := List (Link × E)
def lprec : Link → Nat
  | .bin o => T.prec o
  | _ => T.qprec
def ltoks : Link → List Tok
  | .bin o => [.op o]
  | .cnd m => .q :: (pp T m ++ [.colon])
  | .cndG => [.q, .colon]
def lok : Link → Bool
  | .cnd m => ok T m
  | _ => true
def build (base : E) : Sp → E
  | [] => base
  | (l, r) :: xs => build (l.mk base r) xs
def toks : Sp → List Tok
  | [] => []
  | (l, r) :: xs => ltoks T l ++ (pp T r ++ toks xs)
def spine : E → E × Sp
  | .bin o l r => ((spine l).1, (spine l).2 ++ [(.bin o, r)])
  | .cond c t f => ((spine c).1, (spine c).2 ++ [(.cnd t, f)])
  | .condG c f => ((spine c).1, (spine c).2 ++ [(.cndG, f)])
  | e => (e, [])

theorem build_append (base : E) (xs ys : Sp) : build base (xs ++ ys) = build (build base xs) ys := by
  induction xs generalizing base with
  | nil => rfl
  | cons x xs ih => obtain ⟨l, r⟩ := x; simp [build, ih]
theorem toks_append (xs ys : Sp) : toks T (xs ++ ys) = toks T xs ++ toks T ys := by
  induction xs with
  | nil => rfl
  | cons x xs ih => obtain ⟨l, r⟩ := x; simp [toks, ih]

theorem build_spine : ∀ e : E, build (spine e).1 (spine e).2 = e
  | .bin o l r => by simp [spine, build_append, build_spine l, build, Link.mk]
  | .cond c t f => by simp [spine, build_append, build_spine c, build, Link.mk]
  | .condG c f => by simp [spine, build_append, build_spine c, build, Link.mk]
  | .atom _ | .paren _ | .cast _ | .pre _ _ | .post _ _ | .idx _ _ | .mem _ _ _ | .call _ _ => by simp [spine, build]

theorem pp_spine : ∀ e : E, pp T e = pp T (spine e).1 ++ toks T (spine e).2
  | .bin o l r => by simp [spine, pp, toks_append, pp_spine l, toks, ltoks]
  | .cond c t f => by simp [spine, pp, toks_append, pp_spine c, toks, ltoks]
  | .condG c f => by simp [spine, pp, toks_append, pp_spine c, toks, ltoks]
  | .atom _ | .paren _ | .cast _ | .pre _ _ | .post _ _ | .idx _ _ | .mem _ _ _ | .call _ _ => by simp [spine, toks]

/-- the leftmost operand is a cast-expression -/
theorem spine_head : ∀ e : E, nlevel T (spine e).1 = none
  | .bin o l r => by simp [spine, spine_head l]
  | .cond c t f => by simp [spine, spine_head c]
  | .condG c f => by simp [spine, spine_head c]
  | .atom _ | .paren _ | .cast _ | .pre _ _ | .post _ _ | .idx _ _ | .mem _ _ _ | .call _ _ => by simp [spine, nlevel]

/-- what a printed expression starts with -/
def Starts : List Tok → Prop
  | .atom _ :: _ | .op _ :: _ | .lp :: _ => True
  | _ => False

theorem starts_append {xs : List Tok} (ys : List Tok) (h : Starts xs) : Starts (xs ++ ys) := by
  match xs, h with
  | .atom _ :: _, _ => trivial
  | .op _ :: _, _ => trivial
  | .lp :: _, _ => trivial

theorem pp_starts : ∀ e : E, Starts (pp T e)
  | .atom _ => trivial
  | .bin o l r => by simp only [pp]; exact starts_append _ (pp_starts l)
  | .cond c t f => by simp only [pp]; exact starts_append _ (pp_starts c)
  | .condG c f => by simp only [pp]; exact starts_append _ (pp_starts c)
  | .paren _ => trivial
  | .cast _ => trivial
  | .pre _ _ => trivial
  | .post o e => by simp only [pp]; exact starts_append _ (pp_starts e)
  | .idx e i => by simp only [pp]; exact starts_append _ (pp_starts e)
  | .mem d e n => by simp only [pp]; exact starts_append _ (pp_starts e)
  | .call f as => by simp only [pp]; exact starts_append _ (pp_starts f)

/-! ### where the loops stop -/
def StopO (cut : Nat) (ts : List Tok) : Prop := hprec T ts < cut
def StopI (prev : Nat) (ts : List Tok) : Prop := cont T prev (hprec T ts) = false
/-- the next token is not an assignment operator -/
def NA (ts : List Tok) : Prop := hprec T ts ≠ T.asg
/-- the next token does not continue a postfix-expression -/
def StopP : List Tok → Prop
  | .lb :: _ | .lp :: _ | .dot _ :: _ => False
  | .op o :: _ => T.post o = false
  | _ => True

theorem ltoks_ne (l : Link) : ∃ t ts, ltoks T l = t :: ts ∧ tprec T t = lprec T l ∧ (∀ o, t = .op o → 1 ≤ lprec T l → T.post o = false → True) := by
  cases l <;> simp [ltoks, tprec, lprec]

theorem hprec_ltoks (l : Link) (ys : List Tok) : hprec T (ltoks T l ++ ys) = lprec T l := by
  cases l <;> simp [ltoks, hprec, tprec, lprec]

theorem hprec_toks_cons (l : Link) (r : E) (xs : Sp) (ys : List Tok) :
    hprec T (toks T ((l, r) :: xs) ++ ys) = lprec T l := by
  simp only [toks, List.append_assoc]; exact hprec_ltoks T l _

theorem hprec_toks_append (xs : Sp) (ys : List Tok) (h : xs ≠ []) : hprec T (toks T xs ++ ys) = hprec T (toks T xs) := by
  cases xs with
  | nil => exact absurd rfl h
  | cons x xs => obtain ⟨l, r⟩ := x; rw [hprec_toks_cons]; have := hprec_toks_cons T l r xs []; simpa using this.symm

theorem hprec_toks_one (l : Link) (r : E) : hprec T (toks T [(l, r)]) = lprec T l := by
  have := hprec_toks_cons T l r [] []; simpa using this

/-- spine well-formedness at cutoff `c` (only the first element of a spine may be at the assignment level: its left operand
is then the base) -/
def SOK (c : Nat) : Sp → Prop
  | [] => True
  | (l, r) :: xs => 1 ≤ lprec T l ∧ c ≤ lprec T l ∧ lok T l = true ∧ atLevel T (rlevel T (lprec T l)) r = true ∧ ok T r = true ∧
      StopI T (lprec T l) (toks T xs) ∧ NA T (toks T xs) ∧ SOK c xs

theorem stopP_toks (hT : T.Sane) {c : Nat} : ∀ {xs : Sp}, SOK T c xs → xs ≠ [] → ∀ ys, StopP T (toks T xs ++ ys) := by
  intro xs h hne ys
  cases xs with
  | nil => exact absurd rfl hne
  | cons x xs =>
    obtain ⟨l, r⟩ := x
    have h1 : 1 ≤ lprec T l := h.1
    cases l with
    | bin o =>
      simp only [toks, ltoks, List.cons_append, List.nil_append, StopP]
      cases hp : T.post o with
      | false => rfl
      | true => have := hT.post_noprec o hp; simp [lprec, this] at h1
    | cnd m => simp [toks, ltoks, StopP]
    | cndG => simp [toks, ltoks, StopP]

theorem cont_zero {p : Nat} (hp : 1 ≤ p) : cont T p 0 = false := by
  unfold cont
  have : (0 == p) = false := by simp; omega
  simp [this]

theorem stopI_nil {p : Nat} (hp : 1 ≤ p) : StopI T p [] := by
  simp [StopI, hprec, cont_zero T hp]
theorem NA_nil (hT : T.Sane) : NA T [] := by
  simp only [NA, hprec]; have := hT.asg_pos; omega

theorem stopI_of_stopO {c p : Nat} {stop : List Tok} (hc : c ≤ p) (h : StopO T c stop) : StopI T p stop := by
  simp only [StopO] at h
  simp only [StopI, cont]
  have h1 : ¬ (hprec T stop > p) := by omega
  have h2 : (hprec T stop == p) = false := by simp; omega
  simp [h1, h2]

theorem SOK_weaken {c c' : Nat} (hc : c' ≤ c) : ∀ {xs : Sp}, SOK T c xs → SOK T c' xs := by
  intro xs
  induction xs with
  | nil => intro _; trivial
  | cons x xs ih =>
    obtain ⟨l, r⟩ := x
    intro h
    exact ⟨h.1, Nat.le_trans hc h.2.1, h.2.2.1, h.2.2.2.1, h.2.2.2.2.1, h.2.2.2.2.2.1, h.2.2.2.2.2.2.1, ih h.2.2.2.2.2.2.2⟩

theorem SOK_append {c : Nat} : ∀ {xs ys : Sp}, SOK T c (xs ++ ys) → SOK T c ys := by
  intro xs
  induction xs with
  | nil => intro ys h; exact h
  | cons x xs ih => obtain ⟨l, r⟩ := x; intro ys h; exact ih h.2.2.2.2.2.2.2

theorem SOK_prec {c : Nat} : ∀ {xs : Sp}, SOK T c xs → ∀ x ∈ xs, c ≤ lprec T x.1 := by
  intro xs
  induction xs with
  | nil => intro _ x hx; simp at hx
  | cons y ys ih =>
    obtain ⟨l, r⟩ := y
    intro h x hx
    rcases List.mem_cons.mp hx with rfl | hx
    · exact h.2.1
    · exact ih h.2.2.2.2.2.2.2 x hx

/-- appending one element whose precedence does not continue after any spine element -/
theorem SOK_snoc (hT : T.Sane) {c : Nat} (l : Link) (r : E) (h1 : 1 ≤ lprec T l) (hc : c ≤ lprec T l) (hl : lok T l = true)
    (hr : atLevel T (rlevel T (lprec T l)) r = true) (hokr : ok T r = true) :
    ∀ {xs : Sp}, SOK T c xs → (∀ x ∈ xs, cont T (lprec T x.1) (lprec T l) = false) → (xs ≠ [] → lprec T l ≠ T.asg) →
      SOK T c (xs ++ [(l, r)]) := by
  intro xs
  induction xs with
  | nil => intro _ _ _; exact ⟨h1, hc, hl, hr, hokr, stopI_nil T h1, NA_nil T hT, trivial⟩
  | cons x xs ih =>
    obtain ⟨l', r'⟩ := x
    intro h hall hna
    refine ⟨h.1, h.2.1, h.2.2.1, h.2.2.2.1, h.2.2.2.2.1, ?_, ?_,
      ih h.2.2.2.2.2.2.2 (fun y hy => hall y (List.mem_cons_of_mem _ hy)) (fun _ => hna (by simp))⟩
    · cases xs with
      | nil =>
        have := hall (l', r') (by simp)
        simp only [List.append_eq, List.nil_append, StopI, hprec_toks_one]; exact this
      | cons y ys =>
        have := h.2.2.2.2.2.1
        simp only [StopI, List.append_eq] at this ⊢
        rw [toks_append, hprec_toks_append T _ _ (by simp)]; exact this
    · cases xs with
      | nil =>
        have := hna (by simp)
        simp only [List.append_eq, List.nil_append, NA, hprec_toks_one]; exact this
      | cons y ys =>
        have := h.2.2.2.2.2.2.1
        simp only [NA, List.append_eq] at this ⊢
        rw [toks_append, hprec_toks_append T _ _ (by simp)]; exact this

/-- an operator at level `p` on the spine of a left operand at `llevel p` does not continue into `p` -/
theorem cont_false_of_llevel {p q : Nat} (h : llevel T p ≤ q) : cont T q p = false := by
  unfold llevel at h
  unfold cont
  by_cases hra : T.ra p = true
  · simp only [hra, if_true] at h
    have h1 : ¬ (p > q) := by omega
    have h2 : (p == q) = false := by simp; omega
    simp [h1, h2]
  · have hra' : T.ra p = false := by simpa using hra
    simp only [hra', Bool.false_eq_true, if_false] at h
    have h1 : ¬ (p > q) := by omega
    by_cases hpq : p = q
    · subst hpq; simp [hra]
    · have h2 : (p == q) = false := by simp [hpq]
      simp [h1, h2]

theorem spine_of_unary : ∀ e : E, isUnary e = true → (spine e).2 = []
  | .bin _ _ _, h | .cond _ _ _, h | .condG _ _, h | .cast _, h => by simp [isUnary, isPostfix] at h
  | .atom _, _ | .paren _, _ | .pre _ _, _ | .post _ _, _ | .idx _ _, _ | .mem _ _ _, _ | .call _ _, _ => by simp [spine]

theorem spine_of_operand : ∀ e : E, nlevel T e = none → spine e = (e, [])
  | .bin _ _ _, h | .cond _ _ _, h | .condG _ _, h => by simp [nlevel] at h
  | .atom _, _ | .paren _, _ | .pre _ _, _ | .post _ _, _ | .idx _ _, _ | .mem _ _ _, _ | .call _ _, _ | .cast _, _ => by simp [spine]

theorem le_llevel (p : Nat) : p ≤ llevel T p := by unfold llevel; split <;> omega

/-- the spine of a well-shaped expression is a well-formed spine over a well-shaped leftmost operand -/
theorem spine_of_ok (hT : T.Sane) : ∀ (e : E) (c : Nat), ok T e = true → atLevel T c e = true →
    SOK T c (spine e).2 ∧ ok T (spine e).1 = true
  | .bin o l r, c, hok, hlv => by
    simp only [ok, Bool.and_eq_true, decide_eq_true_eq, Bool.or_eq_true, bne_iff_ne, ne_eq] at hok
    obtain ⟨⟨⟨⟨⟨h1, hl⟩, hr⟩, hasg⟩, hokl⟩, hokr⟩ := hok
    have hc : c ≤ T.prec o := by simpa [atLevel, nlevel] using hlv
    obtain ⟨ihs, iho⟩ := spine_of_ok hT l _ hokl hl
    refine ⟨?_, by simpa [spine] using iho⟩
    simp only [spine]
    apply SOK_snoc T hT (.bin o) r h1 hc rfl hr hokr (SOK_weaken T (Nat.le_trans hc (le_llevel T _)) ihs)
    · intro x hx
      exact cont_false_of_llevel T (SOK_prec T ihs x hx)
    · intro hne heq
      rcases hasg with h | h
      · exact h heq
      · exact hne (spine_of_unary l h)
  | .cond cc t f, c, hok, hlv => by
    simp only [ok, Bool.and_eq_true, Bool.or_eq_true, bne_iff_ne, ne_eq] at hok
    obtain ⟨⟨⟨⟨⟨hl, hr⟩, hasg⟩, hokl⟩, hokt⟩, hokr⟩ := hok
    have hc : c ≤ T.qprec := by simpa [atLevel, nlevel] using hlv
    obtain ⟨ihs, iho⟩ := spine_of_ok hT cc _ hokl hl
    refine ⟨?_, by simpa [spine] using iho⟩
    simp only [spine]
    apply SOK_snoc T hT (.cnd t) f hT.q_pos hc hokt hr hokr (SOK_weaken T (Nat.le_trans hc (le_llevel T _)) ihs)
    · intro x hx
      exact cont_false_of_llevel T (SOK_prec T ihs x hx)
    · intro hne heq
      rcases hasg with h | h
      · exact h heq
      · exact hne (spine_of_unary cc h)
  | .condG cc f, c, hok, hlv => by
    simp only [ok, Bool.and_eq_true, Bool.or_eq_true, bne_iff_ne, ne_eq] at hok
    obtain ⟨⟨⟨⟨hl, hr⟩, hasg⟩, hokl⟩, hokr⟩ := hok
    have hc : c ≤ T.qprec := by simpa [atLevel, nlevel] using hlv
    obtain ⟨ihs, iho⟩ := spine_of_ok hT cc _ hokl hl
    refine ⟨?_, by simpa [spine] using iho⟩
    simp only [spine]
    apply SOK_snoc T hT .cndG f hT.q_pos hc rfl hr hokr (SOK_weaken T (Nat.le_trans hc (le_llevel T _)) ihs)
    · intro x hx
      exact cont_false_of_llevel T (SOK_prec T ihs x hx)
    · intro hne heq
      rcases hasg with h | h
      · exact h heq
      · exact hne (spine_of_unary cc h)
  | .atom _, _, h, _ | .paren _, _, h, _ | .cast _, _, h, _ | .pre _ _, _, h, _ | .post _ _, _, h, _ | .idx _ _, _, h, _
  | .mem _ _ _, _, h, _ | .call _ _, _, h, _ => by
    simp only [spine]; exact ⟨trivial, h⟩

theorem isCast_of_nlevel : ∀ e : E, nlevel T e = none → isCast e = true
  | .bin _ _ _, h | .cond _ _ _, h | .condG _ _, h => by simp [nlevel] at h
  | .atom _, _ | .paren _, _ | .pre _ _, _ | .post _ _, _ | .idx _ _, _ | .mem _ _ _, _ | .call _ _, _ | .cast _, _ => by
    simp [isCast, isUnary, isPostfix]

/-- every N-ary root of a well-shaped expression is at level 1 or above -/
theorem atLevel_one (hT : T.Sane) : ∀ e : E, ok T e = true → atLevel T 1 e = true
  | .bin o l r, h => by
    simp only [ok, Bool.and_eq_true, decide_eq_true_eq] at h
    simp [atLevel, nlevel, h.1.1.1.1.1]
  | .cond _ _ _, _ | .condG _ _, _ => by simp [atLevel, nlevel, hT.q_pos]
  | .atom _, _ | .paren _, _ | .pre _ _, _ | .post _ _, _ | .idx _ _, _ | .mem _ _ _, _ | .call _ _, _ | .cast _, _ => by
    simp [atLevel, nlevel]

/-! ### the statements of the knot, by token count -/
def NS (n : Nat) : Prop := ∀ e c rest, (pp T e).length ≤ n → ok T e = true → atLevel T c e = true → 1 ≤ c →
  StopO T c rest → NA T rest → StopP T rest → ∃ f, nary T f c (pp T e ++ rest) = some (e, rest)
def CS (n : Nat) : Prop := ∀ e rest, (pp T e).length ≤ n → ok T e = true → isCast e = true → StopP T rest →
  ∃ f, cast T f (pp T e ++ rest) = some (e, rest)
def US (n : Nat) : Prop := ∀ e rest, (pp T e).length ≤ n → ok T e = true → isUnary e = true → StopP T rest →
  ∃ f, unary T f (pp T e ++ rest) = some (e, rest)
def GS (n : Nat) : Prop := ∀ xs stop base c, (toks T xs).length ≤ n → 1 ≤ c → SOK T c xs → StopO T c stop → NA T stop →
  StopP T stop → ∃ f, atOp T f base c (toks T xs ++ stop) = some (build base xs, stop)
def IS (n : Nat) : Prop := ∀ ys rest next prev, (toks T ys).length ≤ n → 1 ≤ prev → SOK T (rlevel T prev) ys → StopI T prev rest →
  NA T rest → StopP T rest → ∃ f, inner T f next prev (toks T ys ++ rest) = some (build next ys, rest)

theorem stopO_colon (c : Nat) (hc : 1 ≤ c) (X : List Tok) : StopO T c (.colon :: X) := by simp [StopO, hprec, tprec]; omega
theorem NA_of_zero (hT : T.Sane) {ts : List Tok} (h : hprec T ts = 0) : NA T ts := by
  simp only [NA, h]; have := hT.asg_pos; omega

/-- the operator token and the middle operand of `?:` are read back -/
theorem link_ok (hT : T.Sane) (n : Nat) (hN : NS T n) (l : Link) (X : List Tok) (hl : lok T l = true)
    (hlen : (ltoks T l).length ≤ n + 1) :
    (∃ f, linkP T f (ltoks T l ++ X) = some (l, X)) ∧ ∃ t tl, ltoks T l ++ X = t :: tl ∧ tprec T t = lprec T l := by
  cases l with
  | bin o => exact ⟨⟨1, by simp [ltoks, linkP]⟩, _, _, rfl, rfl⟩
  | cndG => exact ⟨⟨1, by simp [ltoks, linkP]⟩, _, _, rfl, rfl⟩
  | cnd m =>
    refine ⟨?_, _, _, rfl, rfl⟩
    have hm : ok T m = true := hl
    obtain ⟨f, hf⟩ := hN m 1 (.colon :: X) (by simp [ltoks] at hlen; omega) hm (atLevel_one T hT m hm) (Nat.le_refl _)
      (stopO_colon T 1 (Nat.le_refl _) X) (NA_of_zero T hT rfl) trivial
    refine ⟨f + 1, ?_⟩
    have hs := pp_starts T m
    simp only [ltoks, List.cons_append, List.append_assoc, List.nil_append]
    match hpm : pp T m, hs with
    | .atom a :: tl, _ => rw [hpm, List.cons_append] at hf; simp only [linkP, List.cons_append]; rw [hf]
    | .op a :: tl, _ => rw [hpm, List.cons_append] at hf; simp only [linkP, List.cons_append]; rw [hf]
    | .lp :: tl, _ => rw [hpm, List.cons_append] at hf; simp only [linkP, List.cons_append]; rw [hf]

theorem fails_false_of_NA (p : Nat) {ts : List Tok} (h : NA T ts) : failsOnAssignment T p ts = false := by
  simp only [NA] at h; simp [failsOnAssignment, h]

theorem length_ltoks_pos (l : Link) : 1 ≤ (ltoks T l).length := by cases l <;> simp [ltoks]
theorem length_pp_pos (e : E) : 1 ≤ (pp T e).length := by
  have := pp_starts T e
  match h : pp T e, this with
  | .atom _ :: _, _ | .op _ :: _, _ | .lp :: _, _ => simp

/-- Lemma G (outer loop) at `n + 1` tokens from the operand, operator and inner-loop lemmas at `n` -/
theorem G_of (hT : T.Sane) (n : Nat) (hN : NS T n) (hC : CS T n) (hI : IS T n) : GS T (n + 1) := by
  intro xs
  induction xs with
  | nil =>
    intro stop base c _ _ _ hs _ _
    refine ⟨1, ?_⟩
    simp only [toks, List.nil_append, atOp]
    cases stop with
    | nil => rfl
    | cons t rest =>
      have : ¬ (tprec T t ≥ c) := by simp only [StopO, hprec] at hs; omega
      simp [this, build]
  | cons x xs ih =>
    obtain ⟨l, r⟩ := x
    intro stop base c hn hc1 hsok hs hna hsp
    obtain ⟨h1, hc, hl, hr, hokr, hst, hnax, hrest⟩ := hsok
    have hstopI : StopI T (lprec T l) (toks T xs ++ stop) := by
      by_cases hx : xs = []
      · subst hx; simpa [toks] using stopI_of_stopO T hc hs
      · simp only [StopI] at hst ⊢; rw [hprec_toks_append T xs stop hx]; exact hst
    have hNArest : NA T (toks T xs ++ stop) := by
      by_cases hx : xs = []
      · subst hx; simpa [toks] using hna
      · simp only [NA] at hnax ⊢; rw [hprec_toks_append T xs stop hx]; exact hnax
    have hSPrest : StopP T (toks T xs ++ stop) := by
      by_cases hx : xs = []
      · subst hx; simpa [toks] using hsp
      · exact stopP_toks T hT hrest hx stop
    obtain ⟨hsr, hoa⟩ := spine_of_ok T hT r _ hokr hr
    have hppr := pp_spine T r
    have hbr := build_spine r
    have hca := isCast_of_nlevel T _ (spine_head T r)
    generalize (spine r).1 = a at hsr hoa hppr hbr hca
    generalize (spine r).2 = ys at hsr hppr hbr
    have hlen : (toks T ((l, r) :: xs)).length = (ltoks T l).length + ((pp T a).length + (toks T ys).length) + (toks T xs).length := by
      simp [toks, hppr]; omega
    have hl1 := length_ltoks_pos T l
    have hSPa : StopP T (toks T ys ++ (toks T xs ++ stop)) := by
      by_cases hy : ys = []
      · subst hy; simpa [toks] using hSPrest
      · exact stopP_toks T hT hsr hy _
    obtain ⟨⟨f0, h0⟩, t, tl, htl, htp⟩ := link_ok T hT n hN l (pp T r ++ (toks T xs ++ stop)) hl (by omega)
    obtain ⟨f1, h1'⟩ := hC a (toks T ys ++ (toks T xs ++ stop)) (by omega) hoa hca hSPa
    obtain ⟨f2, h2⟩ := hI ys (toks T xs ++ stop) a (lprec T l) (by omega) h1 hsr hstopI hNArest hSPrest
    obtain ⟨f3, h3⟩ := ih stop (l.mk base r) c (by omega) hc1 hrest hs hna hsp
    refine ⟨max (max f0 f1) (max f2 f3) + 1, ?_⟩
    have h0' := (le_of_le T (show f0 ≤ max (max f0 f1) (max f2 f3) by omega)).linkP _ _ h0
    have h1'' := (le_of_le T (show f1 ≤ max (max f0 f1) (max f2 f3) by omega)).cast _ _ h1'
    have h2' := (le_of_le T (show f2 ≤ max (max f0 f1) (max f2 f3) by omega)).inner _ _ _ _ h2
    have h3' := (le_of_le T (show f3 ≤ max (max f0 f1) (max f2 f3) by omega)).atOp _ _ _ _ h3
    rw [hbr] at h2'
    have hquiet : failsOnAssignment T (lprec T l) (toks T xs ++ stop) = false := fails_false_of_NA T _ hNArest
    have hts : toks T ((l, r) :: xs) ++ stop = t :: tl := by
      rw [← htl]; simp [toks]
    rw [hts]
    simp only [atOp]
    rw [if_pos (by rw [htp]; exact hc), ← htl, h0']
    simp only []
    rw [hppr, List.append_assoc, h1'']
    simp only []
    rw [htp, h2']
    simp only [hquiet, build]
    exact h3'

/-- the maximal prefix of a spine whose operators bind at least as tightly as `q` -/
def splitRun (q : Nat) : Sp → Sp × Sp
  | [] => ([], [])
  | (l, r) :: xs => if q ≤ lprec T l then ((l, r) :: (splitRun q xs).1, (splitRun q xs).2) else ([], (l, r) :: xs)

theorem splitRun_append (q : Nat) : ∀ xs : Sp, (splitRun T q xs).1 ++ (splitRun T q xs).2 = xs := by
  intro xs
  induction xs with
  | nil => rfl
  | cons x xs ih => obtain ⟨l, r⟩ := x; simp only [splitRun]; split <;> simp [ih]

theorem splitRun_prec (q : Nat) : ∀ xs : Sp, ∀ x ∈ (splitRun T q xs).1, q ≤ lprec T x.1 := by
  intro xs
  induction xs with
  | nil => intro x hx; simp [splitRun] at hx
  | cons y ys ih =>
    obtain ⟨l, r⟩ := y
    intro x hx
    simp only [splitRun] at hx
    split at hx
    · rcases List.mem_cons.mp hx with rfl | hx
      · assumption
      · exact ih x hx
    · simp at hx

theorem splitRun_stop (q : Nat) : ∀ xs : Sp, (splitRun T q xs).2 = [] ∨
    ∃ l r zs, (splitRun T q xs).2 = (l, r) :: zs ∧ lprec T l < q := by
  intro xs
  induction xs with
  | nil => left; rfl
  | cons y ys ih =>
    obtain ⟨l, r⟩ := y
    simp only [splitRun]
    split
    · exact ih
    · right; exact ⟨l, r, ys, rfl, by omega⟩

theorem SOK_prefix (hT : T.Sane) {c : Nat} : ∀ {xs zs : Sp}, SOK T c (xs ++ zs) → SOK T c xs := by
  intro xs
  induction xs with
  | nil => intro _ _; trivial
  | cons x xs ih =>
    obtain ⟨l, r⟩ := x
    intro zs h
    refine ⟨h.1, h.2.1, h.2.2.1, h.2.2.2.1, h.2.2.2.2.1, ?_, ?_, ih h.2.2.2.2.2.2.2⟩
    · by_cases hx : xs = []
      · subst hx; exact stopI_nil T h.1
      · have := h.2.2.2.2.2.1
        simp only [StopI, List.append_eq] at this ⊢
        rw [toks_append, hprec_toks_append T xs _ hx] at this
        exact this
    · by_cases hx : xs = []
      · subst hx; exact NA_nil T hT
      · have := h.2.2.2.2.2.2.1
        simp only [NA, List.append_eq] at this ⊢
        rw [toks_append, hprec_toks_append T xs _ hx] at this
        exact this

theorem SOK_raise {c c' : Nat} : ∀ {xs : Sp}, SOK T c xs → (∀ x ∈ xs, c' ≤ lprec T x.1) → SOK T c' xs := by
  intro xs
  induction xs with
  | nil => intro _ _; trivial
  | cons x xs ih =>
    obtain ⟨l, r⟩ := x
    intro h hall
    exact ⟨h.1, hall (l, r) (by simp), h.2.2.1, h.2.2.2.1, h.2.2.2.2.1, h.2.2.2.2.2.1, h.2.2.2.2.2.2.1,
      ih h.2.2.2.2.2.2.2 (fun y hy => hall y (List.mem_cons_of_mem _ hy))⟩

theorem cont_true_of_rlevel {prev p : Nat} (hp : 1 ≤ p) (h : rlevel T prev ≤ p) : cont T prev p = true := by
  unfold rlevel at h
  unfold cont
  by_cases hra : T.ra prev = true
  · simp only [hra, if_true] at h
    rcases Nat.eq_or_lt_of_le h with heq | hlt
    · subst heq; simp [hra]
    · simp; left; omega
  · have hra' : T.ra prev = false := by simpa using hra
    simp only [hra', Bool.false_eq_true, if_false] at h
    simp; left; omega

/-- a token the inner loop at `prev` stops on also stops an outer loop whose cutoff is an operand level of `prev` -/
theorem stopO_of_stopI {prev q : Nat} {rest : List Tok} (hq1 : 1 ≤ q) (hq : rlevel T prev ≤ q) (h : StopI T prev rest) :
    StopO T q rest := by
  simp only [StopI] at h
  simp only [StopO]
  rcases Nat.lt_or_ge (hprec T rest) q with hlt | hge
  · exact hlt
  · have := cont_true_of_rlevel T (Nat.le_trans hq1 hge) (Nat.le_trans hq hge)
    rw [this] at h; cases h

/-- in a well-formed spine every element but the first is followed by the fact that it is not an assignment -/
theorem NA_of_SOK_append {c : Nat} : ∀ {pre post : Sp}, SOK T c (pre ++ post) → pre ≠ [] → NA T (toks T post) := by
  intro pre
  induction pre with
  | nil => intro post _ h; exact absurd rfl h
  | cons p ps ih =>
    obtain ⟨pl, pr⟩ := p
    intro post hs _
    cases ps with
    | nil => exact hs.2.2.2.2.2.2.1
    | cons p2 ps2 => exact ih hs.2.2.2.2.2.2.2 (by simp)

theorem toks_length_pos : ∀ {xs : Sp}, xs ≠ [] → 1 ≤ (toks T xs).length := by
  intro xs h
  cases xs with
  | nil => exact absurd rfl h
  | cons x xs => obtain ⟨l, r⟩ := x; have := length_ltoks_pos T l; simp [toks]; omega

/-- Lemma I (inner loop) at `n + 1` tokens from Lemma G at `n + 1` and itself at `n` -/
theorem I_of (hT : T.Sane) (n : Nat) (hG : GS T (n + 1)) (hI : IS T n) : IS T (n + 1) := by
  intro ys rest next prev hlen hp1 hsok hstop hnar hsp
  cases ys with
  | nil =>
    refine ⟨1, ?_⟩
    simp only [StopI] at hstop
    simp [toks, inner, build, hstop]
  | cons y ys' =>
    obtain ⟨l1, r1⟩ := y
    have hq : rlevel T prev ≤ lprec T l1 := hsok.2.1
    have hl1 : 1 ≤ lprec T l1 := hsok.1
    have hcont := cont_true_of_rlevel T hl1 hq
    have happ := splitRun_append T (lprec T l1) ((l1, r1) :: ys')
    generalize hpre : (splitRun T (lprec T l1) ((l1, r1) :: ys')).1 = pre at happ
    generalize hpost : (splitRun T (lprec T l1) ((l1, r1) :: ys')).2 = post at happ
    have hpre_ne : pre ≠ [] := by
      rw [← hpre]; simp [splitRun]
    have hpl : ∀ x ∈ pre, lprec T l1 ≤ lprec T x.1 := by rw [← hpre]; exact splitRun_prec T _ _
    have hsok' : SOK T (rlevel T prev) (pre ++ post) := by rw [happ]; exact hsok
    have hsok_pre : SOK T (lprec T l1) pre := SOK_raise T (SOK_prefix T hT hsok') hpl
    have hsok_post : SOK T (rlevel T prev) post := SOK_append T hsok'
    have hlen' : (toks T pre).length + (toks T post).length = (toks T ((l1, r1) :: ys')).length := by
      rw [← happ, toks_append]; simp
    have hpre_len := toks_length_pos T hpre_ne
    have hstopO : StopO T (lprec T l1) (toks T post ++ rest) := by
      rcases splitRun_stop T (lprec T l1) ((l1, r1) :: ys') with hnil | ⟨l, r, zs, hz, hlt⟩
      · rw [hpost] at hnil; subst hnil
        simpa [toks] using stopO_of_stopI T hl1 hq hstop
      · rw [hpost] at hz; subst hz
        simp only [StopO, hprec_toks_cons]; exact hlt
    have hNApost : NA T (toks T post ++ rest) := by
      by_cases hp : post = []
      · subst hp; simpa [toks] using hnar
      · simp only [NA]; rw [hprec_toks_append T post rest hp]; exact NA_of_SOK_append T hsok' hpre_ne
    have hSPpost : StopP T (toks T post ++ rest) := by
      by_cases hp : post = []
      · subst hp; simpa [toks] using hsp
      · exact stopP_toks T hT hsok_post hp rest
    obtain ⟨f1, h1⟩ := hG pre (toks T post ++ rest) next (lprec T l1) (by omega) hl1 hsok_pre hstopO hNApost hSPpost
    obtain ⟨f2, h2⟩ := hI post rest (build next pre) prev (by omega) hp1 hsok_post hstop hnar hsp
    refine ⟨max f1 f2 + 1, ?_⟩
    have h1' := (le_of_le T (Nat.le_max_left f1 f2)).atOp _ _ _ _ h1
    have h2' := (le_of_le T (Nat.le_max_right f1 f2)).inner _ _ _ _ h2
    have htoks : toks T ((l1, r1) :: ys') ++ rest = toks T pre ++ (toks T post ++ rest) := by
      rw [← happ, toks_append, List.append_assoc]
    have hbuild : build next ((l1, r1) :: ys') = build (build next pre) post := by
      rw [← happ, build_append]
    rw [hbuild]
    have hhp : hprec T (toks T ((l1, r1) :: ys') ++ rest) = lprec T l1 := hprec_toks_cons T l1 r1 ys' rest
    simp only [inner, hhp, hcont, if_true]
    rw [htoks, h1']
    exact h2'

/-! ### postfix chains: a postfix-expression is a primary expression followed by postfix operators -/
inductive PL where
  | post (o : Nat)
  | idx (i : E)
  | mem (d n : Nat)
  | call (as : List E)

def PL.mk : PL → E → E
  | .post o, e => .post o e
  | .idx i, e => .idx e i
  | .mem d n, e => .mem d e n
  | .call as, e => .call e as
def pltoks : PL → List Tok
  | .post o => [.op o]
  | .idx i => .lb :: (pp T i ++ [.rb])
  | .mem d n => [.dot d, .atom n]
  | .call as => .lp :: (ppArgs T as ++ [.rp])
def plok : PL → Bool
  | .post o => T.post o
  | .idx i => ok T i
  | .mem _ _ => true
  | .call as => okArgs T as
def pbuild (base : E) : List PL → E
  | [] => base
  | p :: ps => pbuild (p.mk base) ps
def ptoks : List PL → List Tok
  | [] => []
  | p :: ps => pltoks T p ++ ptoks ps
def pspine : E → E × List PL
  | .post o e => ((pspine e).1, (pspine e).2 ++ [.post o])
  | .idx e i => ((pspine e).1, (pspine e).2 ++ [.idx i])
  | .mem d e n => ((pspine e).1, (pspine e).2 ++ [.mem d n])
  | .call f as => ((pspine f).1, (pspine f).2 ++ [.call as])
  | e => (e, [])
def isPrimary : E → Bool
  | .atom _ | .paren _ => true
  | _ => false

theorem pbuild_append (base : E) (xs ys : List PL) : pbuild base (xs ++ ys) = pbuild (pbuild base xs) ys := by
  induction xs generalizing base with
  | nil => rfl
  | cons x xs ih => simp [pbuild, ih]
theorem ptoks_append (xs ys : List PL) : ptoks T (xs ++ ys) = ptoks T xs ++ ptoks T ys := by
  induction xs with
  | nil => rfl
  | cons x xs ih => simp [ptoks, ih]

theorem pbuild_pspine : ∀ e : E, pbuild (pspine e).1 (pspine e).2 = e
  | .post o e => by simp [pspine, pbuild_append, pbuild_pspine e, pbuild, PL.mk]
  | .idx e i => by simp [pspine, pbuild_append, pbuild_pspine e, pbuild, PL.mk]
  | .mem d e n => by simp [pspine, pbuild_append, pbuild_pspine e, pbuild, PL.mk]
  | .call f as => by simp [pspine, pbuild_append, pbuild_pspine f, pbuild, PL.mk]
  | .atom _ | .paren _ | .cast _ | .pre _ _ | .bin _ _ _ | .cond _ _ _ | .condG _ _ => by simp [pspine, pbuild]

theorem pp_pspine : ∀ e : E, pp T e = pp T (pspine e).1 ++ ptoks T (pspine e).2
  | .post o e => by simp [pspine, pp, ptoks_append, pp_pspine e, ptoks, pltoks]
  | .idx e i => by simp [pspine, pp, ptoks_append, pp_pspine e, ptoks, pltoks]
  | .mem d e n => by simp [pspine, pp, ptoks_append, pp_pspine e, ptoks, pltoks]
  | .call f as => by simp [pspine, pp, ptoks_append, pp_pspine f, ptoks, pltoks]
  | .atom _ | .paren _ | .cast _ | .pre _ _ | .bin _ _ _ | .cond _ _ _ | .condG _ _ => by simp [pspine, ptoks]

/-- the chain of a well-shaped postfix-expression: well-shaped links over a well-shaped primary expression -/
theorem pspine_ok : ∀ e : E, ok T e = true → isPostfix e = true →
    (∀ p ∈ (pspine e).2, plok T p = true) ∧ ok T (pspine e).1 = true ∧ isPrimary (pspine e).1 = true
  | .post o e, h, _ => by
    simp only [ok, Bool.and_eq_true] at h
    obtain ⟨ih1, ih2, ih3⟩ := pspine_ok e h.2 h.1.2
    refine ⟨?_, by simpa [pspine] using ih2, by simpa [pspine] using ih3⟩
    intro p hp
    simp only [pspine, List.mem_append, List.mem_singleton] at hp
    rcases hp with hp | rfl
    · exact ih1 p hp
    · exact h.1.1
  | .idx e i, h, _ => by
    simp only [ok, Bool.and_eq_true] at h
    obtain ⟨ih1, ih2, ih3⟩ := pspine_ok e h.1.2 h.1.1
    refine ⟨?_, by simpa [pspine] using ih2, by simpa [pspine] using ih3⟩
    intro p hp
    simp only [pspine, List.mem_append, List.mem_singleton] at hp
    rcases hp with hp | rfl
    · exact ih1 p hp
    · exact h.2
  | .mem d e n, h, _ => by
    simp only [ok, Bool.and_eq_true] at h
    obtain ⟨ih1, ih2, ih3⟩ := pspine_ok e h.2 h.1
    refine ⟨?_, by simpa [pspine] using ih2, by simpa [pspine] using ih3⟩
    intro p hp
    simp only [pspine, List.mem_append, List.mem_singleton] at hp
    rcases hp with hp | rfl
    · exact ih1 p hp
    · rfl
  | .call f as, h, _ => by
    simp only [ok, Bool.and_eq_true] at h
    obtain ⟨ih1, ih2, ih3⟩ := pspine_ok f h.1.2 h.1.1
    refine ⟨?_, by simpa [pspine] using ih2, by simpa [pspine] using ih3⟩
    intro p hp
    simp only [pspine, List.mem_append, List.mem_singleton] at hp
    rcases hp with hp | rfl
    · exact ih1 p hp
    · exact h.2
  | .atom _, h, _ | .paren _, h, _ => by simp [pspine, isPrimary, h]
  | .cast _, _, h | .pre _ _, _, h | .bin _ _ _, _, h | .cond _ _ _, _, h | .condG _ _, _, h => by simp [isPostfix] at h

def PFS (n : Nat) : Prop := ∀ pls base rest, (ptoks T pls).length ≤ n → (∀ p ∈ pls, plok T p = true) → StopP T rest →
  ∃ f, postf T f base (ptoks T pls ++ rest) = some (pbuild base pls, rest)
def AS (n : Nat) : Prop := ∀ as rest, as ≠ [] → (ppArgs T as).length ≤ n → okArgs T as = true →
  ∃ f, args T f (ppArgs T as ++ .rp :: rest) = some (as, .rp :: rest)

theorem stopO_zero {c : Nat} (hc : 1 ≤ c) {ts : List Tok} (h : hprec T ts = 0) : StopO T c ts := by
  simp only [StopO, h]; omega

/-- argument lists -/
theorem A_of (hT : T.Sane) (n : Nat) (hN : NS T n) : AS T n := by
  intro as
  induction as with
  | nil => intro _ h; exact absurd rfl h
  | cons a as ih =>
    intro rest _ hlen hok
    simp only [okArgs, Bool.and_eq_true] at hok
    obtain ⟨⟨hlv, hoka⟩, hoks⟩ := hok
    cases as with
    | nil =>
      simp only [ppArgs] at hlen ⊢
      obtain ⟨f, hf⟩ := hN a T.asg (.rp :: rest) hlen hoka hlv hT.asg_pos (stopO_zero T hT.asg_pos rfl) (NA_of_zero T hT rfl) trivial
      exact ⟨f + 1, by simp only [args]; rw [hf]⟩
    | cons b bs =>
      simp only [ppArgs, List.length_append, List.length_cons] at hlen
      have hcp := hT.comma_prec
      have hpost : T.post T.commaTok = false := by
        cases hp : T.post T.commaTok with
        | false => rfl
        | true => have := hT.post_noprec _ hp; omega
      obtain ⟨f1, hf1⟩ := hN a T.asg (.op T.commaTok :: (ppArgs T (b :: bs) ++ .rp :: rest)) (by omega) hoka hlv hT.asg_pos
        (by simp only [StopO, hprec, tprec]; omega) (by simp only [NA, hprec, tprec]; omega) hpost
      obtain ⟨f2, hf2⟩ := ih rest (by simp) (by omega) hoks
      refine ⟨max f1 f2 + 1, ?_⟩
      have h1 := (le_of_le T (Nat.le_max_left f1 f2)).nary _ _ _ hf1
      have h2 := (le_of_le T (Nat.le_max_right f1 f2)).args _ _ hf2
      simp only [ppArgs, List.append_assoc, List.cons_append, args]
      rw [h1]
      simp only [hT.comma_is, if_true, h2]

theorem postf_stop (base : E) {rest : List Tok} (h : StopP T rest) : postf T 1 base rest = some (base, rest) := by
  match rest, h with
  | [], _ => simp [postf]
  | .atom _ :: _, _ | .q :: _, _ | .colon :: _, _ | .rp :: _, _ | .rb :: _, _ | .ty :: _, _ => simp [postf]
  | .op o :: _, h => simp only [StopP] at h; simp [postf, h]

theorem starts_ppArgs (a : E) (as : List E) : Starts (ppArgs T (a :: as)) := by
  cases as with
  | nil => simpa [ppArgs] using pp_starts T a
  | cons b bs => simp only [ppArgs]; exact starts_append _ (pp_starts T a)

/-- the postfix loop -/
theorem PF_of (hT : T.Sane) (n : Nat) (hN : NS T n) (hA : AS T n) : PFS T (n + 1) := by
  intro pls
  induction pls with
  | nil => intro base rest _ _ hsp; exact ⟨1, by simpa [ptoks, pbuild] using postf_stop T base hsp⟩
  | cons p ps ih =>
    intro base rest hlen hok hsp
    have hokp := hok p (by simp)
    have hoks : ∀ q ∈ ps, plok T q = true := fun q hq => hok q (List.mem_cons_of_mem _ hq)
    simp only [ptoks, List.length_append] at hlen
    cases p with
    | post o =>
      obtain ⟨f, hf⟩ := ih (PL.mk (.post o) base) rest (by omega) hoks hsp
      have ho : T.post o = true := hokp
      exact ⟨f + 1, by simp only [ptoks, pltoks, List.cons_append, List.nil_append, postf, ho, if_true]; exact hf⟩
    | mem d m =>
      obtain ⟨f, hf⟩ := ih (PL.mk (.mem d m) base) rest (by omega) hoks hsp
      exact ⟨f + 1, by simp only [ptoks, pltoks, List.cons_append, List.nil_append, postf]; exact hf⟩
    | idx i =>
      simp only [pltoks, List.length_cons, List.length_append, List.length_nil] at hlen
      have hoki : ok T i = true := hokp
      obtain ⟨f1, hf1⟩ := hN i 1 (.rb :: (ptoks T ps ++ rest)) (by omega) hoki (atLevel_one T hT i hoki) (Nat.le_refl _)
        (stopO_zero T (Nat.le_refl _) rfl) (NA_of_zero T hT rfl) trivial
      obtain ⟨f2, hf2⟩ := ih (PL.mk (.idx i) base) rest (by omega) hoks hsp
      refine ⟨max f1 f2 + 1, ?_⟩
      have h1 := (le_of_le T (Nat.le_max_left f1 f2)).nary _ _ _ hf1
      have h2 := (le_of_le T (Nat.le_max_right f1 f2)).postf _ _ _ hf2
      simp only [ptoks, pltoks, List.cons_append, List.append_assoc, List.nil_append, postf]
      rw [h1]; exact h2
    | call as =>
      cases as with
      | nil =>
        obtain ⟨f, hf⟩ := ih (PL.mk (.call []) base) rest (by omega) hoks hsp
        exact ⟨f + 1, by simp only [ptoks, pltoks, ppArgs, List.cons_append, List.nil_append, postf]; exact hf⟩
      | cons a as =>
        simp only [pltoks, List.length_cons, List.length_append, List.length_nil] at hlen
        have hoka : okArgs T (a :: as) = true := hokp
        obtain ⟨f1, hf1⟩ := hA (a :: as) (ptoks T ps ++ rest) (by simp) (by omega) hoka
        obtain ⟨f2, hf2⟩ := ih (PL.mk (.call (a :: as)) base) rest (by omega) hoks hsp
        refine ⟨max f1 f2 + 1, ?_⟩
        have h1 := (le_of_le T (Nat.le_max_left f1 f2)).args _ _ hf1
        have h2 := (le_of_le T (Nat.le_max_right f1 f2)).postf _ _ _ hf2
        have hs := starts_ppArgs T a as
        simp only [ptoks, pltoks, List.cons_append, List.append_assoc, List.nil_append]
        match hpa : ppArgs T (a :: as), hs with
        | .atom x :: tl, _ | .op x :: tl, _ | .lp :: tl, _ =>
          rw [hpa, List.cons_append] at h1
          simp only [List.cons_append, postf]
          rw [h1]; exact h2

/-- a postfix-expression: the primary expression, then the postfix loop -/
theorem U_postfix (hT : T.Sane) (n : Nat) (hN : NS T n) (hPF : PFS T (n + 1)) (e : E) (rest : List Tok)
    (hlen : (pp T e).length ≤ n + 1) (hok : ok T e = true) (hpf : isPostfix e = true) (hsp : StopP T rest) :
    ∃ f, unary T f (pp T e ++ rest) = some (e, rest) := by
  obtain ⟨hpls, hokp, hprim⟩ := pspine_ok T e hok hpf
  have hpp := pp_pspine T e
  have hb := pbuild_pspine e
  generalize (pspine e).1 = p at hokp hprim hpp hb
  generalize (pspine e).2 = pls at hpls hpp hb
  rw [hpp] at hlen
  simp only [List.length_append] at hlen
  cases p with
  | atom a =>
    obtain ⟨f, hf⟩ := hPF pls (.atom a) rest (by simp [pp] at hlen; omega) hpls hsp
    refine ⟨f + 1, ?_⟩
    rw [hpp, hb] at *
    simp only [pp, List.cons_append, List.nil_append, unary]
    exact hf
  | paren e' =>
    simp only [pp, List.length_cons, List.length_append, List.length_nil] at hlen
    have hoke : ok T e' = true := by simpa [ok] using hokp
    obtain ⟨f1, hf1⟩ := hN e' 1 (.rp :: (ptoks T pls ++ rest)) (by omega) hoke (atLevel_one T hT e' hoke) (Nat.le_refl _)
      (stopO_zero T (Nat.le_refl _) rfl) (NA_of_zero T hT rfl) trivial
    obtain ⟨f2, hf2⟩ := hPF pls (.paren e') rest (by omega) hpls hsp
    refine ⟨max f1 f2 + 1, ?_⟩
    have h1 := (le_of_le T (Nat.le_max_left f1 f2)).nary _ _ _ hf1
    have h2 := (le_of_le T (Nat.le_max_right f1 f2)).postf _ _ _ hf2
    rw [hpp, hb] at *
    simp only [pp, List.cons_append, List.append_assoc, List.nil_append, unary]
    rw [h1]; exact h2
  | bin _ _ _ | cond _ _ _ | condG _ _ | cast _ | pre _ _ | post _ _ | idx _ _ | mem _ _ _ | call _ _ => simp [isPrimary] at hprim

theorem U_of (hT : T.Sane) (n : Nat) (hN : NS T n) (hC : CS T n) (hU : US T n) (hPF : PFS T (n + 1)) : US T (n + 1) := by
  intro e rest hlen hok hun hsp
  cases e with
  | pre o e' =>
    simp only [pp, List.length_cons] at hlen
    simp only [ok, Bool.and_eq_true] at hok
    obtain ⟨hop, hoke⟩ := hok
    cases hpo : T.pre o with
    | none => simp [hpo] at hop
    | some b =>
      cases b with
      | true =>
        rw [hpo] at hop
        obtain ⟨f, hf⟩ := hU e' rest (by omega) hoke hop hsp
        exact ⟨f + 1, by simp only [pp, List.cons_append, unary, hpo]; rw [hf]⟩
      | false =>
        rw [hpo] at hop
        obtain ⟨f, hf⟩ := hC e' rest (by omega) hoke hop hsp
        exact ⟨f + 1, by simp only [pp, List.cons_append, unary, hpo]; rw [hf]⟩
  | atom _ | paren _ | post _ _ | idx _ _ | mem _ _ _ | call _ _ =>
    exact U_postfix T hT n hN hPF _ rest hlen hok (by simp [isPostfix]) hsp
  | bin _ _ _ | cond _ _ _ | condG _ _ | cast _ => simp [isUnary, isPostfix] at hun

theorem prim_not_cast (p : E) (hp : isPrimary p = true) (X : List Tok) (f : Nat) :
    cast T (f + 1) (pp T p ++ X) = unary T f (pp T p ++ X) := by
  cases p with
  | atom a => simp [pp, cast]
  | paren e' =>
    have hs := pp_starts T e'
    match hp : pp T e', hs with
    | .atom _ :: _, _ | .op _ :: _, _ | .lp :: _, _ => simp [pp, hp, cast]
  | bin _ _ _ | cond _ _ _ | condG _ _ | cast _ | pre _ _ | post _ _ | idx _ _ | mem _ _ _ | call _ _ => simp [isPrimary] at hp

/-- a printed unary-expression never begins like a cast -/
theorem not_cast_start (e : E) (hok : ok T e = true) (hun : isUnary e = true) (X : List Tok) (f : Nat) :
    cast T (f + 1) (pp T e ++ X) = unary T f (pp T e ++ X) := by
  by_cases hpf : isPostfix e = true
  · obtain ⟨_, _, hprim⟩ := pspine_ok T e hok hpf
    rw [pp_pspine T e, List.append_assoc]
    exact prim_not_cast T _ hprim _ f
  · cases e with
    | pre o e' => simp [pp, cast]
    | atom _ | paren _ | post _ _ | idx _ _ | mem _ _ _ | call _ _ => simp [isPostfix] at hpf
    | bin _ _ _ | cond _ _ _ | condG _ _ | cast _ => simp [isUnary, isPostfix] at hun

theorem C_of (n : Nat) (hC : CS T n) (hU : US T (n + 1)) : CS T (n + 1) := by
  intro e rest hlen hok hca hsp
  by_cases hun : isUnary e = true
  · obtain ⟨f, hf⟩ := hU e rest hlen hok hun hsp
    exact ⟨f + 1, by rw [not_cast_start T e hok hun rest f]; exact hf⟩
  · cases e with
    | cast e' =>
      simp only [pp, List.length_cons] at hlen
      simp only [ok, Bool.and_eq_true] at hok
      obtain ⟨f, hf⟩ := hC e' rest (by omega) hok.2 hok.1 hsp
      exact ⟨f + 1, by simp only [pp, List.cons_append, cast]; rw [hf]⟩
    | atom _ | paren _ | post _ _ | idx _ _ | mem _ _ _ | call _ _ | pre _ _ => simp [isUnary, isPostfix] at hun
    | bin _ _ _ | cond _ _ _ | condG _ _ => simp [isCast, isUnary, isPostfix] at hca

theorem N_of (hT : T.Sane) (n : Nat) (hC : CS T n) (hG : GS T n) : NS T n := by
  intro e c rest hlen hok hlv hc1 hso hna hsp
  obtain ⟨hsr, hoa⟩ := spine_of_ok T hT e c hok hlv
  have hppr := pp_spine T e
  have hbr := build_spine e
  have hca := isCast_of_nlevel T _ (spine_head T e)
  generalize (spine e).1 = a at hsr hoa hppr hbr hca
  generalize (spine e).2 = xs at hsr hppr hbr
  rw [hppr, List.length_append] at hlen
  have hSPa : StopP T (toks T xs ++ rest) := by
    by_cases hx : xs = []
    · subst hx; simpa [toks] using hsp
    · exact stopP_toks T hT hsr hx _
  obtain ⟨f1, h1⟩ := hC a (toks T xs ++ rest) (by omega) hoa hca hSPa
  obtain ⟨f2, h2⟩ := hG xs rest a c (by omega) hc1 hsr hso hna hsp
  refine ⟨max f1 f2 + 1, ?_⟩
  have h1' := (le_of_le T (Nat.le_max_left f1 f2)).cast _ _ h1
  have h2' := (le_of_le T (Nat.le_max_right f1 f2)).atOp _ _ _ _ h2
  rw [hppr, List.append_assoc]
  simp only [nary]
  rw [h1', ← hbr]; exact h2'

/-! ### the knot -/
structure All (n : Nat) : Prop where
  N : NS T n
  C : CS T n
  U : US T n
  G : GS T n
  I : IS T n
  PF : PFS T n
  A : AS T n

theorem toks_nil_of_length : ∀ {xs : Sp}, (toks T xs).length ≤ 0 → xs = [] := by
  intro xs h
  by_cases hx : xs = []
  · exact hx
  · have := toks_length_pos T hx; omega

theorem all_zero (hT : T.Sane) : All T 0 := by
  have hN : NS T 0 := by intro e _ _ hlen; have := length_pp_pos T e; omega
  have hC : CS T 0 := by intro e _ hlen; have := length_pp_pos T e; omega
  have hU : US T 0 := by intro e _ hlen; have := length_pp_pos T e; omega
  refine ⟨hN, hC, hU, ?_, ?_, ?_, A_of T hT 0 hN⟩
  · intro xs stop base c hlen hc1 hsok hs hna hsp
    exact G_of T hT 0 hN hC (by
      intro ys rest next prev hl
      have := toks_nil_of_length T hl; subst this
      intro _ _ hstop _ _
      refine ⟨1, ?_⟩
      simp only [StopI] at hstop
      simp [toks, inner, build, hstop]) xs stop base c (by omega) hc1 hsok hs hna hsp
  · intro ys rest next prev hl
    have := toks_nil_of_length T hl; subst this
    intro _ _ hstop _ _
    refine ⟨1, ?_⟩
    simp only [StopI] at hstop
    simp [toks, inner, build, hstop]
  · intro pls base rest hlen hok hsp
    exact PF_of T hT 0 hN (A_of T hT 0 hN) pls base rest (by omega) hok hsp

theorem all_succ (hT : T.Sane) (n : Nat) (h : All T n) : All T (n + 1) := by
  have hPF := PF_of T hT n h.N h.A
  have hG := G_of T hT n h.N h.C h.I
  have hI := I_of T hT n hG h.I
  have hU := U_of T hT n h.N h.C h.U hPF
  have hC := C_of T n h.C hU
  have hN := N_of T hT (n + 1) hC hG
  exact ⟨hN, hC, hU, hG, hI, hPF, A_of T hT (n + 1) hN⟩

theorem all (hT : T.Sane) : ∀ n, All T n
  | 0 => all_zero T hT
  | n + 1 => all_succ T hT n (all hT n)

/-! ### soundness, tokens: a successful parse consumed exactly the printing of its result -/
/-- every successful parse consumed exactly the printing of the tree it returns -/
structure Snd (f : Nat) : Prop where
  atOp : ∀ base cut ts e rest, atOp T f base cut ts = some (e, rest) → ∃ mid, ts = mid ++ rest ∧ pp T e = pp T base ++ mid
  linkP : ∀ ts l rest, linkP T f ts = some (l, rest) → ts = ltoks T l ++ rest
  inner : ∀ next prev ts e rest, inner T f next prev ts = some (e, rest) → ∃ mid, ts = mid ++ rest ∧ pp T e = pp T next ++ mid
  nary : ∀ cut ts e rest, nary T f cut ts = some (e, rest) → ts = pp T e ++ rest
  cast : ∀ ts e rest, cast T f ts = some (e, rest) → ts = pp T e ++ rest
  unary : ∀ ts e rest, unary T f ts = some (e, rest) → ts = pp T e ++ rest
  postf : ∀ e0 ts e rest, postf T f e0 ts = some (e, rest) → ∃ mid, ts = mid ++ rest ∧ pp T e = pp T e0 ++ mid
  args : ∀ ts as rest, args T f ts = some (as, rest) → as ≠ [] ∧ ts = ppArgs T as ++ rest

theorem snd_zero : Snd T 0 := by
  constructor <;> intros <;> simp_all [atOp, linkP, inner, nary, cast, unary, postf, args]

theorem pp_mk (l : Link) (a b : E) : pp T (l.mk a b) = pp T a ++ (ltoks T l ++ pp T b) := by
  cases l <;> simp [Link.mk, pp, ltoks]

theorem snd_succ (hc : ∀ o, T.comma o = true → o = T.commaTok) (f : Nat) (ih : Snd T f) : Snd T (f + 1) := by
  constructor
  · intro base cut ts e rest h
    simp only [atOp] at h
    split at h
    · simp at h; obtain ⟨rfl, rfl⟩ := h; exact ⟨[], by simp, by simp⟩
    · split at h
      · split at h
        · simp at h
        · rename_i l r0 hl
          split at h
          · simp at h
          · rename_i nx r1 hc1
            split at h
            · simp at h
            · rename_i nx' r2 hi
              split at h
              · simp at h
              · have h1 := ih.linkP _ _ _ hl
                have h2 := ih.cast _ _ _ hc1
                obtain ⟨m3, h3, h3'⟩ := ih.inner _ _ _ _ _ hi
                obtain ⟨m4, h4, h4'⟩ := ih.atOp _ _ _ _ _ h
                refine ⟨ltoks T l ++ (pp T nx ++ m3) ++ m4, ?_, ?_⟩
                · rw [h1, h2, h3, h4]; simp
                · rw [h4', pp_mk, h3']; simp
      · simp at h; obtain ⟨rfl, rfl⟩ := h; exact ⟨[], by simp, by simp⟩
  · intro ts l rest h
    simp only [linkP] at h
    split at h
    · simp at h; obtain ⟨rfl, rfl⟩ := h; simp [ltoks]
    · simp at h; obtain ⟨rfl, rfl⟩ := h; simp [ltoks]
    · split at h
      · rename_i m r0 hn
        simp at h; obtain ⟨rfl, rfl⟩ := h
        have := ih.nary _ _ _ _ hn
        simp [ltoks, this]
      · simp at h
    · simp at h
  · intro next prev ts e rest h
    simp only [inner] at h
    split at h
    · split at h
      · rename_i n' r' ha
        obtain ⟨m1, h1, h1'⟩ := ih.atOp _ _ _ _ _ ha
        obtain ⟨m2, h2, h2'⟩ := ih.inner _ _ _ _ _ h
        exact ⟨m1 ++ m2, by rw [h1, h2]; simp, by rw [h2', h1']; simp⟩
      · simp at h
    · simp at h; obtain ⟨rfl, rfl⟩ := h; exact ⟨[], by simp, by simp⟩
  · intro cut ts e rest h
    simp only [nary] at h
    split at h
    · rename_i e0 r hc1
      have h1 := ih.cast _ _ _ hc1
      obtain ⟨m2, h2, h2'⟩ := ih.atOp _ _ _ _ _ h
      rw [h1, h2, h2']; simp
    · simp at h
  · intro ts e rest h
    simp only [cast] at h
    split at h
    · split at h
      · rename_i e0 r hc1
        simp at h; obtain ⟨rfl, rfl⟩ := h
        have h1 := ih.cast _ _ _ hc1
        simp [pp, h1]
      · simp at h
    · simp at h
    · exact ih.unary _ _ _ h
  · intro ts e rest h
    simp only [unary] at h
    split at h
    · split at h
      · split at h
        · rename_i e0 r hu
          simp at h; obtain ⟨rfl, rfl⟩ := h
          simp [pp, ih.unary _ _ _ hu]
        · simp at h
      · split at h
        · rename_i e0 r hu
          simp at h; obtain ⟨rfl, rfl⟩ := h
          simp [pp, ih.cast _ _ _ hu]
        · simp at h
      · simp at h
    · obtain ⟨m, h1, h1'⟩ := ih.postf _ _ _ _ h
      rw [h1, h1']; simp [pp]
    · split at h
      · rename_i e0 r hn
        have h0 := ih.nary _ _ _ _ hn
        obtain ⟨m, h1, h1'⟩ := ih.postf _ _ _ _ h
        rw [h0, h1, h1']; simp [pp]
      · simp at h
    · simp at h
  · intro e0 ts e rest h
    simp only [postf] at h
    split at h
    · split at h
      · rename_i i r hn
        have h0 := ih.nary _ _ _ _ hn
        obtain ⟨m, h1, h1'⟩ := ih.postf _ _ _ _ h
        exact ⟨.lb :: (pp T i ++ .rb :: m), by rw [h0, h1]; simp, by rw [h1']; simp [pp]⟩
      · simp at h
    · obtain ⟨m, h1, h1'⟩ := ih.postf _ _ _ _ h
      exact ⟨.lp :: .rp :: m, by rw [h1]; simp, by rw [h1']; simp [pp, ppArgs]⟩
    · split at h
      · rename_i as r ha
        obtain ⟨hne, h0⟩ := ih.args _ _ _ ha
        obtain ⟨m, h1, h1'⟩ := ih.postf _ _ _ _ h
        exact ⟨.lp :: (ppArgs T as ++ .rp :: m), by rw [h0, h1]; simp, by rw [h1']; simp [pp]⟩
      · simp at h
    · obtain ⟨m, h1, h1'⟩ := ih.postf _ _ _ _ h
      rename_i d n r
      exact ⟨.dot d :: .atom n :: m, by rw [h1]; simp, by rw [h1']; simp [pp]⟩
    · simp at h
    · split at h
      · obtain ⟨m, h1, h1'⟩ := ih.postf _ _ _ _ h
        rename_i o r _
        exact ⟨.op o :: m, by rw [h1]; simp, by rw [h1']; simp [pp]⟩
      · simp at h; obtain ⟨rfl, rfl⟩ := h; exact ⟨[], by simp, by simp⟩
    · simp at h; obtain ⟨rfl, rfl⟩ := h; exact ⟨[], by simp, by simp⟩
  · intro ts as rest h
    simp only [args] at h
    split at h
    · simp at h
    · rename_i a r hn
      have h0 := ih.nary _ _ _ _ hn
      split at h
      · split at h
        · split at h
          · rename_i _ o r' hco _ as' r'' ha
            simp at h; obtain ⟨rfl, rfl⟩ := h
            obtain ⟨hne, h1⟩ := ih.args _ _ _ ha
            refine ⟨by simp, ?_⟩
            have := hc o hco; subst this
            cases as' with
            | nil => exact absurd rfl hne
            | cons b bs => rw [h0, h1]; simp [ppArgs]
          · simp at h
        · simp at h; obtain ⟨rfl, rfl⟩ := h; exact ⟨by simp, by simp [ppArgs, h0]⟩
      · simp at h; obtain ⟨rfl, rfl⟩ := h; exact ⟨by simp, by simp [ppArgs, h0]⟩

theorem snd_all (hc : ∀ o, T.comma o = true → o = T.commaTok) : ∀ f, Snd T f
  | 0 => snd_zero T
  | f + 1 => snd_succ T hc f (snd_all hc f)

end PsycheModel.Expr
