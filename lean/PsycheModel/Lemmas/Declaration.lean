import PsycheModel.Declaration
/-! Helper lemmas for the declaration parser model: the specifier loop and the init-declarator loop invert their printers and answer only
printings. -/
namespace PsycheModel.Declaration
open PsycheModel.Declarators

/-- the following tokens do not begin with a specifier -/
def NoSpec : List Tok → Prop
  | .sp _ :: _ => False
  | .tdef :: _ => False
  | .ty _ :: _ => False
  | .tagd _ :: _ => False
  | _ => True

theorem specsT_pp (ss : List Spec) (rest : List Tok) (h : NoSpec rest) (hn : noType ss = true) : specsT (ss.map ppSpec ++ rest) = (ss, rest) := by
  induction ss with
  | nil =>
    match rest, h with
    | [], _ => rfl
    | .sp _ :: _, h | .tdef :: _, h | .ty _ :: _, h | .tagd _ :: _, h => exact h.elim
    | .dcl _ :: _, _ | .eq :: _, _ | .ini _ :: _, _ | .comma :: _, _ | .semi :: _, _ | .body _ :: _, _ => rfl
  | cons s ss ih => cases s <;> simp_all [specsT, ppSpec, noType]

theorem specs_pp (ss : List Spec) (rest : List Tok) (h : NoSpec rest) (hk : okSpecs ss = true) : specs (ss.map ppSpec ++ rest) = (ss, rest) := by
  induction ss with
  | nil =>
    match rest, h with
    | [], _ => rfl
    | .sp _ :: _, h | .tdef :: _, h | .ty _ :: _, h | .tagd _ :: _, h => exact h.elim
    | .dcl _ :: _, _ | .eq :: _, _ | .ini _ :: _, _ | .comma :: _, _ | .semi :: _, _ | .body _ :: _, _ => rfl
  | cons s ss ih =>
    cases s with
    | tagd n =>
      simp only [okSpecs] at hk
      simp [specs, ppSpec, specsT_pp ss rest h hk]
    | kw n => simp only [okSpecs] at hk; simp [specs, ppSpec, ih hk]
    | tdef => simp only [okSpecs] at hk; simp [specs, ppSpec, ih hk]
    | ty n => simp only [okSpecs] at hk; simp [specs, ppSpec, ih hk]

theorem specsT_sound : ∀ (ts : List Tok), ts = (specsT ts).1.map ppSpec ++ (specsT ts).2 ∧ noType (specsT ts).1 = true := by
  intro ts
  induction ts with
  | nil => exact ⟨rfl, rfl⟩
  | cons t ts ih =>
    cases t <;> first
      | exact ⟨rfl, rfl⟩
      | (simp only [specsT, List.map_cons, List.cons_append, ppSpec, noType]; exact ⟨by rw [← ih.1], ih.2⟩)

theorem specs_sound : ∀ (ts : List Tok), ts = (specs ts).1.map ppSpec ++ (specs ts).2 ∧ okSpecs (specs ts).1 = true := by
  intro ts
  induction ts with
  | nil => exact ⟨rfl, rfl⟩
  | cons t ts ih =>
    cases t <;> first
      | exact ⟨rfl, rfl⟩
      | (simp only [specs, List.map_cons, List.cons_append, ppSpec, okSpecs]; exact ⟨by rw [← ih.1], ih.2⟩)
      | (simp only [specs, List.map_cons, List.cons_append, ppSpec, okSpecs]; exact ⟨by rw [← (specsT_sound ts).1], (specsT_sound ts).2⟩)

theorem ppIDs_cons (x : ID) (xs : List ID) (hne : xs ≠ []) : ppIDs (x :: xs) = ppID x ++ .comma :: ppIDs xs := by
  match xs, hne with
  | y :: ys, _ => rfl

theorem idl_pp : ∀ (ids : List ID) (first : Bool) (rest : List Tok), ids ≠ [] → ids.all okID = true →
    idl first (ppIDs ids ++ .semi :: rest) = some (ids, .semi, rest)
  | [], _, _, h, _ => absurd rfl h
  | [⟨d, none⟩], first, rest, _, _ => by cases first <;> simp [ppIDs, ppID, idl]
  | [⟨d, some i⟩], first, rest, _, hk => by
    have : initOK d = true := by simpa [okID] using hk
    cases first <;> simp [ppIDs, ppID, idl, this]
  | ⟨d, none⟩ :: y :: ys, first, rest, _, hk => by
    have ih := idl_pp (y :: ys) false rest (by simp) (by simp only [List.all_cons, Bool.and_eq_true] at hk ⊢; exact hk.2)
    rw [ppIDs_cons _ _ (by simp)]
    cases first <;> simp [ppID, idl, ih]
  | ⟨d, some i⟩ :: y :: ys, first, rest, _, hk => by
    have ih := idl_pp (y :: ys) false rest (by simp) (by simp only [List.all_cons, Bool.and_eq_true] at hk ⊢; exact hk.2)
    have : initOK d = true := by simp only [List.all_cons, Bool.and_eq_true] at hk; simpa [okID] using hk.1
    rw [ppIDs_cons _ _ (by simp)]
    cases first <;> simp [ppID, idl, ih, this]

/-- what an answer of the init-declarator loop says about the tokens -/
def IdlSpec (first : Bool) (ts : List Tok) (ids : List ID) (e : End) (r : List Tok) : Prop :=
  ids ≠ [] ∧ ids.all okID = true ∧
    match e with
    | .semi => ts = ppIDs ids ++ .semi :: r
    | .body b => first = true ∧ ∃ d, ids = [⟨d, none⟩] ∧ isFunDef d = true ∧ ts = .dcl d :: .body b :: r

theorem idl_sound : ∀ (first : Bool) (ts : List Tok) (ids : List ID) (e : End) (r : List Tok),
    idl first ts = some (ids, e, r) → IdlSpec first ts ids e r := by
  intro first ts
  induction first, ts using idl.induct with
  | case1 x d i r hok ids' e' r' hrec ih =>
    intro ids e r0 h
    simp only [idl, hok, if_true, hrec, Option.some.injEq, Prod.mk.injEq] at h
    obtain ⟨rfl, rfl, rfl⟩ := h
    obtain ⟨h1, h2, h3⟩ := ih _ _ _ hrec
    cases e' with
    | semi =>
      simp only at h3
      refine ⟨by simp, by simp [okID, hok, h2], ?_⟩
      simp only []
      rw [ppIDs_cons _ _ h1, h3]; simp [ppID]
    | body b => exact absurd h3.1 (by simp)
  | case2 x d i r hok hrec ih => intro ids e r0 h; simp [idl, hok, hrec] at h
  | case3 x d i r hok => intro ids e r0 h; simp [idl, hok] at h
  | case4 x d i r hok =>
    intro ids e r0 h
    simp only [idl, hok, if_true, Option.some.injEq, Prod.mk.injEq] at h
    obtain ⟨rfl, rfl, rfl⟩ := h
    exact ⟨by simp, by simp [okID, hok], by simp [ppIDs, ppID]⟩
  | case5 x d i r hok => intro ids e r0 h; simp [idl, hok] at h
  | case6 x d r ids' e' r' hrec ih =>
    intro ids e r0 h
    simp only [idl, hrec, Option.some.injEq, Prod.mk.injEq] at h
    obtain ⟨rfl, rfl, rfl⟩ := h
    obtain ⟨h1, h2, h3⟩ := ih _ _ _ hrec
    cases e' with
    | semi =>
      simp only at h3
      refine ⟨by simp, by simp [okID, h2], ?_⟩
      simp only []
      rw [ppIDs_cons _ _ h1, h3]; simp [ppID]
    | body b => exact absurd h3.1 (by simp)
  | case7 x d r hrec ih => intro ids e r0 h; simp [idl, hrec] at h
  | case8 x d r =>
    intro ids e r0 h
    simp only [idl, Option.some.injEq, Prod.mk.injEq] at h
    obtain ⟨rfl, rfl, rfl⟩ := h
    exact ⟨by simp, by simp [okID], by simp [ppIDs, ppID]⟩
  | case9 d b r hfd =>
    intro ids e r0 h
    simp only [idl, hfd, if_true, Option.some.injEq, Prod.mk.injEq] at h
    obtain ⟨rfl, rfl, rfl⟩ := h
    exact ⟨by simp, by simp [okID], rfl, d, rfl, hfd, rfl⟩
  | case10 d b r hfd => intro ids e r0 h; simp [idl, hfd] at h
  | case11 t x h1 h2 h3 h4 h5 =>
    intro ids e r0 h
    unfold idl at h
    split at h <;> simp_all

theorem ppIDs_head (ids : List ID) (hne : ids ≠ []) (X : List Tok) : ∃ d r, ppIDs ids ++ X = .dcl d :: r := by
  match ids, hne with
  | [x], _ => exact ⟨x.d, _, rfl⟩
  | x :: y :: ys, _ => exact ⟨x.d, _, rfl⟩

theorem declaration_pp (r : R) (rest : List Tok) (h : acc r = true) : declaration (pp r ++ rest) = some (r, rest) := by
  cases r with
  | incomplete ss =>
    simp only [acc, Bool.and_eq_true, Bool.not_eq_true', List.isEmpty_eq_false_iff] at h
    have hs := specs_pp ss (.semi :: rest) trivial h.2
    match ss, h.1, hs with
    | s :: ss', _, hs => simp only [pp, List.append_assoc, List.cons_append, List.nil_append, declaration, hs]
  | typedefDecl ss ids =>
    simp only [acc, Bool.and_eq_true, Bool.not_eq_true', List.isEmpty_eq_false_iff] at h
    obtain ⟨⟨⟨⟨hss, htd⟩, hne⟩, hok⟩, hos⟩ := h
    obtain ⟨d, r0, hr⟩ := ppIDs_head ids hne (.semi :: rest)
    have hi := idl_pp ids true rest hne hok
    have hs := specs_pp ss (ppIDs ids ++ .semi :: rest) (by rw [hr]; trivial) hos
    match ss, hss, hs with
    | s :: ss', _, hs =>
      simp only [pp, List.append_assoc, List.cons_append, List.nil_append, declaration, hs]
      rw [hr] at hi ⊢
      simp only [hi, htd, if_true]
  | varDecl ss ids =>
    simp only [acc, Bool.and_eq_true, Bool.not_eq_true', List.isEmpty_eq_false_iff] at h
    obtain ⟨⟨⟨⟨hss, htd⟩, hne⟩, hok⟩, hos⟩ := h
    obtain ⟨d, r0, hr⟩ := ppIDs_head ids hne (.semi :: rest)
    have hi := idl_pp ids true rest hne hok
    have hs := specs_pp ss (ppIDs ids ++ .semi :: rest) (by rw [hr]; trivial) hos
    match ss, hss, hs with
    | s :: ss', _, hs =>
      simp only [pp, List.append_assoc, List.cons_append, List.nil_append, declaration, hs]
      rw [hr] at hi ⊢
      simp only [hi, htd]
      rfl
  | funDef ss d b =>
    simp only [acc, Bool.and_eq_true, Bool.not_eq_true', List.isEmpty_eq_false_iff] at h
    obtain ⟨⟨hss, hfd⟩, hos⟩ := h
    have hs := specs_pp ss (.dcl d :: .body b :: rest) trivial hos
    match ss, hss, hs with
    | s :: ss', _, hs =>
      simp only [pp, List.append_assoc, List.cons_append, List.nil_append, declaration, hs, idl, hfd, if_true]

theorem declaration_sound (ts : List Tok) (r : R) (rest : List Tok) (h : declaration ts = some (r, rest)) :
    ts = pp r ++ rest ∧ acc r = true := by
  have hs := specs_sound ts
  unfold declaration at h
  rcases hsp : specs ts with ⟨ss, r0⟩
  rw [hsp] at h hs
  simp only at hs
  cases ss with
  | nil => simp at h
  | cons a b =>
    by_cases hsemi : ∃ r1, r0 = .semi :: r1
    · obtain ⟨r1, rfl⟩ := hsemi
      simp only [Option.some.injEq, Prod.mk.injEq] at h
      obtain ⟨rfl, rfl⟩ := h
      exact ⟨by rw [hs.1]; simp [pp], by simp [acc, hs.2]⟩
    · have hstep : (match idl true r0 with
          | some (ids, .semi, r') => some (if hasTypedef (a :: b) then R.typedefDecl (a :: b) ids else R.varDecl (a :: b) ids, r')
          | some ([⟨d, none⟩], .body bd, r') => some (R.funDef (a :: b) d bd, r')
          | _ => none) = some (r, rest) := by
        split at h
        · simp_all
        · rename_i heq; exact absurd ⟨_, (Prod.mk.inj heq).2⟩ hsemi
        · rename_i heq
          obtain ⟨e1, e2⟩ := Prod.mk.inj heq
          subst e1 e2
          exact h
      cases hi : idl true r0 with
      | none => simp [hi] at hstep
      | some x =>
        obtain ⟨ids, e, r'⟩ := x
        obtain ⟨h1, h2, h3⟩ := idl_sound _ _ _ _ _ hi
        rw [hi] at hstep
        cases e with
        | semi =>
          simp only at h3
          simp only [Option.some.injEq, Prod.mk.injEq] at hstep
          obtain ⟨rfl, rfl⟩ := hstep
          by_cases htd : hasTypedef (a :: b) = true
          · simp only [htd, if_true]
            refine ⟨by rw [hs.1, h3]; simp [pp], ?_⟩
            simp [acc, htd, h2, h1, hs.2]
          · simp only [htd]
            refine ⟨by rw [hs.1, h3]; simp [pp], ?_⟩
            simp [acc, htd, h2, h1, hs.2]
        | body bd =>
          obtain ⟨_, d, rfl, hfd, h4⟩ := h3
          simp only [Option.some.injEq, Prod.mk.injEq] at hstep
          obtain ⟨rfl, rfl⟩ := hstep
          exact ⟨by rw [hs.1, h4]; simp [pp], by simp [acc, hfd, hs.2]⟩

/-! ### the translation-unit loop -/
/-- the first token of an accepted declaration's printing is a specifier -/
def IsSpecTok : Tok → Prop
  | .sp _ | .tdef | .ty _ | .tagd _ => True
  | _ => False

theorem pp_head_spec (r : R) (h : acc r = true) (X : List Tok) : ∃ t0 t, pp r ++ X = t0 :: t ∧ IsSpecTok t0 := by
  have key : ∀ (ss : List Spec) (Y : List Tok), ss ≠ [] → ∃ t0 t, ss.map ppSpec ++ Y = t0 :: t ∧ IsSpecTok t0 := by
    intro ss Y hne
    match ss, hne with
    | .kw n :: ss', _ => exact ⟨_, _, rfl, trivial⟩
    | .tdef :: ss', _ => exact ⟨_, _, rfl, trivial⟩
    | .ty n :: ss', _ => exact ⟨_, _, rfl, trivial⟩
    | .tagd n :: ss', _ => exact ⟨_, _, rfl, trivial⟩
  cases r with
  | incomplete ss =>
    simp only [acc, Bool.and_eq_true, Bool.not_eq_true', List.isEmpty_eq_false_iff] at h
    simpa [pp] using key ss (.semi :: X) h.1
  | typedefDecl ss ids =>
    simp only [acc, Bool.and_eq_true, Bool.not_eq_true', List.isEmpty_eq_false_iff] at h
    simpa [pp] using key ss (ppIDs ids ++ .semi :: X) h.1.1.1.1
  | varDecl ss ids =>
    simp only [acc, Bool.and_eq_true, Bool.not_eq_true', List.isEmpty_eq_false_iff] at h
    simpa [pp] using key ss (ppIDs ids ++ .semi :: X) h.1.1.1.1
  | funDef ss d b =>
    simp only [acc, Bool.and_eq_true, Bool.not_eq_true', List.isEmpty_eq_false_iff] at h
    simpa [pp] using key ss (.dcl d :: .body b :: X) h.1.1

theorem unit_pp : ∀ (rs : List R) (f : Nat), rs.all accU = true → rs.length < f → unit f (ppU rs) = some rs
  | [], f + 1, _, _ => rfl
  | r :: rs, f + 1, h, hf => by
    simp only [List.all_cons, Bool.and_eq_true] at h
    have ih := unit_pp rs f h.2 (by simp at hf; omega)
    by_cases hr : r = .incomplete []
    · subst hr
      simp [ppU, pp, unit, ih]
    · have ha : acc r = true := by
        have := h.1
        unfold accU at this
        split at this
        · exact absurd rfl hr
        · exact this
      have hd := declaration_pp r (ppU rs) ha
      simp only [ppU]
      obtain ⟨t0, t, e, ht0⟩ := pp_head_spec r ha (ppU rs)
      rw [e] at hd ⊢
      cases t0 <;> first | exact ht0.elim | simp only [unit, hd, ih]
  | _, 0, _, hf => by simp at hf

theorem unit_sound : ∀ (f : Nat) (ts : List Tok) (rs : List R), unit f ts = some rs → ts = ppU rs ∧ rs.all accU = true ∧ rs.length < f := by
  intro f
  induction f with
  | zero => intro ts rs h; simp [unit] at h
  | succ f ih =>
    intro ts rs h
    match ts with
    | [] =>
      simp only [unit, Option.some.injEq] at h
      subst h
      exact ⟨rfl, rfl, by simp⟩
    | .semi :: r =>
      simp only [unit] at h
      cases hu : unit f r with
      | none => simp [hu] at h
      | some rs' =>
        simp only [hu, Option.some.injEq] at h
        subst h
        obtain ⟨h1, h2, h3⟩ := ih _ _ hu
        exact ⟨by simp [ppU, pp, ← h1], by simp [accU, h2], by simp; omega⟩
    | .sp n :: r | .tdef :: r | .ty _ :: r | .tagd _ :: r | .dcl _ :: r | .eq :: r | .ini _ :: r | .comma :: r | .body _ :: r =>
      simp only [unit] at h
      split at h
      · rename_i x rest hd
        split at h
        · rename_i rs' hu
          simp only [Option.some.injEq] at h
          subst h
          obtain ⟨h1, h2⟩ := declaration_sound _ _ _ hd
          obtain ⟨h3, h4, h5⟩ := ih _ _ hu
          refine ⟨by rw [h1, h3]; simp [ppU], ?_, by simp; omega⟩
          simp only [List.all_cons, Bool.and_eq_true]
          refine ⟨?_, h4⟩
          unfold accU
          split
          · rfl
          · exact h2
        · simp at h
      · simp at h

end PsycheModel.Declaration
