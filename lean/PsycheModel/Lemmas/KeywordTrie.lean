import PsycheModel.KeywordTrie
/-! Generic correctness of the trie interpreter: for a well-formed trie, `exec` = lookup among `paths`. -/
namespace PsycheModel.KeywordTrie
open PsycheModel.Generated

theorem headsOK_append : ∀ (a b : List (Nat × Nat)), headsOK (a ++ b) = true →
    headsOK a = true ∧ ∀ x ∈ a, ∀ y ∈ b, y.1 = x.1 ∧ y.2 ≠ x.2 := by
  intro a
  induction a with
  | nil => intro b _; exact ⟨rfl, fun x hx => by simp at hx⟩
  | cons h t ih =>
    intro b hab
    obtain ⟨p, c⟩ := h
    simp only [List.cons_append, headsOK, Bool.and_eq_true, List.all_eq_true, List.mem_append, beq_iff_eq,
      bne_iff_ne] at hab
    obtain ⟨ih1, ih2⟩ := ih b hab.2
    refine ⟨?_, ?_⟩
    · simp only [headsOK, Bool.and_eq_true, List.all_eq_true, beq_iff_eq, bne_iff_ne]
      exact ⟨fun x hx => hab.1 x (Or.inl hx), ih1⟩
    · intro x hx y hy
      rcases List.mem_cons.mp hx with rfl | hx
      · exact hab.1 y (Or.inr hy)
      · exact ih2 x hx y hy

theorem mem_pathsBrs_head : ∀ (brs : Branches) (q : Path), q ∈ pathsBrs brs → ∃ x ∈ brsHeads brs, x ∈ q.cs
  | .nil, q, hq => by simp [pathsBrs] at hq
  | .cons p c gs body rest, q, hq => by
    simp only [pathsBrs, List.mem_append, List.mem_map] at hq
    rcases hq with ⟨q', _, rfl⟩ | hq
    · exact ⟨(p, c), by simp [brsHeads], by simp⟩
    · obtain ⟨x, hx, hxq⟩ := mem_pathsBrs_head rest q hq
      exact ⟨x, by simp [brsHeads, hx], hxq⟩

theorem matches_cs {q : Path} {w : Word} {o : Opts} (h : q.matches w o = true) {x : Nat × Nat} (hx : x ∈ q.cs) :
    w[x.1]? = some x.2 := by
  simp only [Path.matches, Bool.and_eq_true, List.all_eq_true] at h
  simpa using h.1 x hx

theorem execBrs_some_head : ∀ (brs : Branches) (w : Word) (o : Opts) (r : Option Kind),
    execBrs brs w o = some r → ∃ x ∈ brsHeads brs, w[x.1]? = some x.2
  | .nil, w, o, r, h => by simp [execBrs] at h
  | .cons p c gs body rest, w, o, r, h => by
    simp only [execBrs] at h
    by_cases hc : cond w o p c gs = true
    · simp only [cond, Bool.and_eq_true, beq_iff_eq] at hc
      exact ⟨(p, c), by simp [brsHeads], hc.1⟩
    · rw [if_neg hc] at h
      obtain ⟨x, hx, hw⟩ := execBrs_some_head rest w o r h
      exact ⟨x, by simp [brsHeads, hx], hw⟩

theorem mem_paths_head : ∀ (b : Block) (q : Path), tailOK b = true → q ∈ paths b → q.kind ≠ Kind.IdentifierToken →
    wf b = true → ∃ x ∈ restHeads b, x ∈ q.cs
  | .nil, q, _, hq, _, _ => by simp [paths] at hq
  | .ret k, q, ht, hq, hk, _ => by
    simp only [tailOK, beq_iff_eq] at ht
    simp only [paths, List.mem_singleton] at hq
    subst hq; exact absurd ht hk
  | .chain brs rest, q, _, hq, hk, hwf => by
    simp only [wf, Bool.and_eq_true] at hwf
    simp only [paths, List.mem_append] at hq
    rcases hq with hq | hq
    · obtain ⟨x, hx, hxq⟩ := mem_pathsBrs_head brs q hq
      exact ⟨x, by simp [restHeads, hx], hxq⟩
    · obtain ⟨x, hx, hxq⟩ := mem_paths_head rest q hwf.1.2 hq hk hwf.2
      exact ⟨x, by simp [restHeads, hx], hxq⟩

mutual
theorem exec_iff : ∀ (b : Block) (w : Word) (o : Opts) (k : Kind), wf b = true → k ≠ Kind.IdentifierToken →
    (exec b w o = some k ↔ ∃ q ∈ paths b, q.kind = k ∧ q.matches w o = true)
  | .nil, w, o, k, _, _ => by simp [exec, paths]
  | .ret k', w, o, k, _, _ => by
    simp only [exec, paths, List.mem_singleton]
    constructor
    · intro h; exact ⟨⟨[], [], k'⟩, rfl, Option.some.inj h, by simp [Path.matches]⟩
    · rintro ⟨q, rfl, hk, _⟩; simp at hk; rw [hk]
  | .chain brs rest, w, o, k, hwf, hk => by
    simp only [wf, Bool.and_eq_true] at hwf
    obtain ⟨⟨⟨hb, hh⟩, ht⟩, hwr⟩ := hwf
    obtain ⟨hh1, hh2⟩ := headsOK_append _ _ hh
    have ih := execBrs_iff brs w o k hb hh1 hk
    have ihr := exec_iff rest w o k hwr hk
    simp only [exec, paths, List.mem_append]
    constructor
    · intro h
      cases he : execBrs brs w o with
      | none =>
        rw [he] at h
        obtain ⟨q, hq, h1, h2⟩ := ihr.mp h
        exact ⟨q, Or.inr hq, h1, h2⟩
      | some r =>
        cases r with
        | none =>
          rw [he] at h
          obtain ⟨q, hq, h1, h2⟩ := ihr.mp h
          exact ⟨q, Or.inr hq, h1, h2⟩
        | some k' =>
          rw [he] at h
          have : k' = k := Option.some.inj h
          subst this
          obtain ⟨q, hq, h1, h2⟩ := ih.mp he
          exact ⟨q, Or.inl hq, h1, h2⟩
    · rintro ⟨q, hq | hq, h1, h2⟩
      · rw [ih.mpr ⟨q, hq, h1, h2⟩]
      · -- a matching keyword path of a later chain: no branch of this chain can have been taken
        have hex : exec rest w o = some k := ihr.mpr ⟨q, hq, h1, h2⟩
        cases he : execBrs brs w o with
        | none => simp only []; exact hex
        | some r =>
          exfalso
          obtain ⟨x, hx, hxw⟩ := execBrs_some_head brs w o r he
          obtain ⟨y, hy, hyq⟩ := mem_paths_head rest q ht hq (h1 ▸ hk) hwr
          have hyw := matches_cs h2 hyq
          obtain ⟨e1, e2⟩ := hh2 x hx y hy
          rw [e1, hxw] at hyw
          exact e2 (Option.some.inj hyw).symm
theorem execBrs_iff : ∀ (brs : Branches) (w : Word) (o : Opts) (k : Kind), wfBrs brs = true →
    headsOK (brsHeads brs) = true → k ≠ Kind.IdentifierToken →
    (execBrs brs w o = some (some k) ↔ ∃ q ∈ pathsBrs brs, q.kind = k ∧ q.matches w o = true)
  | .nil, w, o, k, _, _, _ => by simp [execBrs, pathsBrs]
  | .cons p c gs body rest, w, o, k, hwf, hh, hk => by
    simp only [wfBrs, Bool.and_eq_true] at hwf
    simp only [brsHeads, headsOK, Bool.and_eq_true, List.all_eq_true] at hh
    have ihb := exec_iff body w o k hwf.1 hk
    have ihr := execBrs_iff rest w o k hwf.2 hh.2 hk
    simp only [execBrs, pathsBrs, List.mem_append, List.mem_map]
    by_cases hc : cond w o p c gs = true
    · rw [if_pos hc]
      simp only [cond, Bool.and_eq_true, beq_iff_eq, List.all_eq_true] at hc
      constructor
      · intro h
        have h' : exec body w o = some k := Option.some.inj h
        obtain ⟨q, hq, h1, h2⟩ := ihb.mp h'
        refine ⟨⟨(p, c) :: q.cs, gs ++ q.gs, q.kind⟩, Or.inl ⟨q, hq, rfl⟩, h1, ?_⟩
        simp only [Path.matches, Bool.and_eq_true, List.all_eq_true] at h2 ⊢
        refine ⟨?_, ?_⟩
        · intro x hx
          rcases List.mem_cons.mp hx with rfl | hx
          · simp [hc.1]
          · exact h2.1 x hx
        · intro g hg
          rcases List.mem_append.mp hg with hg | hg
          · exact hc.2 g hg
          · exact h2.2 g hg
      · rintro ⟨q, hq | hq, h1, h2⟩
        · obtain ⟨q', hq', rfl⟩ := hq
          have hm : q'.matches w o = true := by
            simp only [Path.matches, Bool.and_eq_true, List.all_eq_true] at h2 ⊢
            exact ⟨fun x hx => h2.1 x (List.mem_cons_of_mem _ hx),
                   fun g hg => h2.2 g (List.mem_append.mpr (Or.inr hg))⟩
          rw [ihb.mpr ⟨q', hq', h1, hm⟩]
        · -- a path of a later branch cannot match: its head tests the same position for another character
          obtain ⟨x, hx, hxq⟩ := mem_pathsBrs_head _ _ hq
          have hw := matches_cs h2 hxq
          have := hh.1 x hx
          simp only [Bool.and_eq_true, beq_iff_eq, bne_iff_ne] at this
          rw [this.1, hc.1] at hw
          exact absurd (Option.some.inj hw).symm this.2
    · rw [if_neg hc]
      rw [ihr]
      constructor
      · rintro ⟨q, hq, h1, h2⟩; exact ⟨q, Or.inr hq, h1, h2⟩
      · rintro ⟨q, hq | hq, h1, h2⟩
        · obtain ⟨q', _, rfl⟩ := hq
          exfalso; apply hc
          simp only [Path.matches, Bool.and_eq_true, List.all_eq_true] at h2
          simp only [cond, Bool.and_eq_true, List.all_eq_true]
          exact ⟨h2.1 (p, c) (by simp), fun g hg => h2.2 g (List.mem_append.mpr (Or.inl hg))⟩
        · exact ⟨q, hq, h1, h2⟩
end

/-- a complete path matches a word of the right length exactly when the word is its spelling -/
theorem mkCs_all (chars : List Nat) : ∀ (s : Nat) (w : Word),
    ((mkCs chars s).all (fun x => w[x.1]? == some x.2) = true ↔ (w.drop s).take chars.length = chars) := by
  induction chars with
  | nil => intro s w; simp [mkCs]
  | cons c t ih =>
    intro s w
    simp only [mkCs, List.all_cons, Bool.and_eq_true, beq_iff_eq, ih (s + 1) w, List.length_cons]
    constructor
    · rintro ⟨h1, h2⟩
      obtain ⟨hlt, hv⟩ := List.getElem?_eq_some_iff.mp h1
      rw [List.drop_eq_getElem_cons hlt, List.take_succ_cons, hv, h2]
    · intro h
      cases hd : w.drop s with
      | nil => rw [hd] at h; simp at h
      | cons a rest =>
        rw [hd] at h
        simp only [List.take_succ_cons, List.cons.injEq] at h
        have hlt : s < w.length := by
          rcases Nat.lt_or_ge s w.length with h' | h'
          · exact h'
          · rw [List.drop_eq_nil_of_le h'] at hd; cases hd
        rw [List.drop_eq_getElem_cons hlt] at hd
        simp only [List.cons.injEq] at hd
        refine ⟨?_, ?_⟩
        · rw [List.getElem?_eq_getElem hlt, hd.1, h.1]
        · rw [hd.2]; exact h.2

theorem complete_matches {q : Path} {n : Nat} (hc : q.complete n = true) (w : Word) (o : Opts)
    (hw : w.length = n) : q.matches w o = true ↔ (w = q.word ∧ q.gs.all (·.holds o) = true) := by
  simp only [Path.complete, Bool.and_eq_true, beq_iff_eq] at hc
  have hlen : q.word.length = n := by simp [Path.word, hc.2]
  simp only [Path.matches, Bool.and_eq_true]
  rw [hc.1, mkCs_all q.word 0 w]
  constructor
  · rintro ⟨h1, h2⟩
    refine ⟨?_, h2⟩
    rw [List.drop_zero, hlen, ← hw, List.take_length] at h1
    exact h1
  · rintro ⟨h1, h2⟩
    refine ⟨?_, h2⟩
    rw [h1, List.drop_zero, List.take_length]

theorem lookupLen_mem {t : List (Nat × Block)} {n : Nat} {b : Block} (h : lookupLen t n = some b) : (n, b) ∈ t := by
  induction t with
  | nil => simp [lookupLen] at h
  | cons x t ih =>
    obtain ⟨m, b'⟩ := x
    simp only [lookupLen] at h
    split at h
    · rename_i hm; subst hm; cases h; simp
    · exact List.mem_cons_of_mem _ (ih h)

end PsycheModel.KeywordTrie
