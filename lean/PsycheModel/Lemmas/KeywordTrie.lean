import PsycheModel.KeywordTrie
/-! Generic correctness of the trie interpreter: for a well-formed trie, `exec` = lookup among `paths`. -/
namespace PsycheModel.KeywordTrie
open PsycheModel.Generated

theorem tailOK_exec {b : Block} (h : tailOK b = true) (w : Word) (o : Opts) {k : Kind}
    (hk : k ≠ Kind.IdentifierToken) : exec b w o ≠ some k := by
  cases b with
  | nil => simp [exec]
  | ret k' =>
    simp only [tailOK, beq_iff_eq] at h
    subst h
    simp only [exec]
    intro hc; exact hk (Option.some.inj hc).symm
  | chain _ _ => simp [tailOK] at h

theorem tailOK_paths {b : Block} (h : tailOK b = true) {q : Path} (hq : q ∈ paths b) :
    q.kind = Kind.IdentifierToken := by
  cases b with
  | nil => simp [paths] at hq
  | ret k' =>
    simp only [tailOK, beq_iff_eq] at h
    simp only [paths, List.mem_singleton] at hq
    subst hq; exact h
  | chain _ _ => simp [tailOK] at h

theorem mem_pathsBrs_head : ∀ (brs : Branches) (q : Path), q ∈ pathsBrs brs → ∃ x ∈ brsHeads brs, x ∈ q.cs
  | .nil, q, hq => by simp [pathsBrs] at hq
  | .cons p c gs body rest, q, hq => by
    simp only [pathsBrs, List.mem_append, List.mem_map] at hq
    rcases hq with ⟨q', _, rfl⟩ | hq
    · exact ⟨(p, c), by simp [brsHeads], by simp⟩
    · obtain ⟨x, hx, hxq⟩ := mem_pathsBrs_head rest q hq
      exact ⟨x, by simp [brsHeads, hx], hxq⟩

theorem matches_cs {q : Path} {w : Word} {o : Opts} (h : q.matches w o = true) {x : Nat × Nat} (hx : x ∈ q.cs) :
    w[x.1]? = some x.2 := by
  simp only [Path.matches, Bool.and_eq_true, List.all_eq_true] at h
  simpa using h.1 x hx

mutual
theorem exec_iff : ∀ (b : Block) (w : Word) (o : Opts) (k : Kind), wf b = true → k ≠ Kind.IdentifierToken →
    (exec b w o = some k ↔ ∃ q ∈ paths b, q.kind = k ∧ q.matches w o = true)
  | .nil, w, o, k, _, _ => by simp [exec, paths]
  | .ret k', w, o, k, _, _ => by
    simp only [exec, paths, List.mem_singleton]
    constructor
    · intro h; exact ⟨⟨[], [], k'⟩, rfl, Option.some.inj h, by simp [Path.matches]⟩
    · rintro ⟨q, rfl, hk, _⟩; simp at hk; rw [hk]
  | .chain brs rest, w, o, k, hwf, hk => by
    simp only [wf, Bool.and_eq_true] at hwf
    obtain ⟨⟨hb, hh⟩, ht⟩ := hwf
    have ih := execBrs_iff brs w o k hb hh hk
    simp only [exec, paths, List.mem_append]
    constructor
    · intro h
      cases he : execBrs brs w o with
      | none => rw [he] at h; exact absurd h (tailOK_exec ht w o hk)
      | some r =>
        cases r with
        | none => rw [he] at h; exact absurd h (tailOK_exec ht w o hk)
        | some k' =>
          rw [he] at h
          have : k' = k := Option.some.inj h
          subst this
          obtain ⟨q, hq, h1, h2⟩ := ih.mp he
          exact ⟨q, Or.inl hq, h1, h2⟩
    · rintro ⟨q, hq | hq, h1, h2⟩
      · rw [ih.mpr ⟨q, hq, h1, h2⟩]
      · exact absurd (h1 ▸ tailOK_paths ht hq) hk
theorem execBrs_iff : ∀ (brs : Branches) (w : Word) (o : Opts) (k : Kind), wfBrs brs = true →
    headsOK (brsHeads brs) = true → k ≠ Kind.IdentifierToken →
    (execBrs brs w o = some (some k) ↔ ∃ q ∈ pathsBrs brs, q.kind = k ∧ q.matches w o = true)
  | .nil, w, o, k, _, _, _ => by simp [execBrs, pathsBrs]
  | .cons p c gs body rest, w, o, k, hwf, hh, hk => by
    simp only [wfBrs, Bool.and_eq_true] at hwf
    simp only [brsHeads, headsOK, Bool.and_eq_true, List.all_eq_true] at hh
    have ihb := exec_iff body w o k hwf.1 hk
    have ihr := execBrs_iff rest w o k hwf.2 hh.2 hk
    simp only [execBrs, pathsBrs, List.mem_append, List.mem_map]
    by_cases hc : cond w o p c gs = true
    · rw [if_pos hc]
      simp only [cond, Bool.and_eq_true, beq_iff_eq, List.all_eq_true] at hc
      constructor
      · intro h
        have h' : exec body w o = some k := Option.some.inj h
        obtain ⟨q, hq, h1, h2⟩ := ihb.mp h'
        refine ⟨⟨(p, c) :: q.cs, gs ++ q.gs, q.kind⟩, Or.inl ⟨q, hq, rfl⟩, h1, ?_⟩
        simp only [Path.matches, Bool.and_eq_true, List.all_eq_true] at h2 ⊢
        refine ⟨?_, ?_⟩
        · intro x hx
          rcases List.mem_cons.mp hx with rfl | hx
          · simp [hc.1]
          · exact h2.1 x hx
        · intro g hg
          rcases List.mem_append.mp hg with hg | hg
          · exact hc.2 g hg
          · exact h2.2 g hg
      · rintro ⟨q, hq | hq, h1, h2⟩
        · obtain ⟨q', hq', rfl⟩ := hq
          have hm : q'.matches w o = true := by
            simp only [Path.matches, Bool.and_eq_true, List.all_eq_true] at h2 ⊢
            exact ⟨fun x hx => h2.1 x (List.mem_cons_of_mem _ hx),
                   fun g hg => h2.2 g (List.mem_append.mpr (Or.inr hg))⟩
          rw [ihb.mpr ⟨q', hq', h1, hm⟩]
        · -- a path of a later branch cannot match: its head tests the same position for another character
          obtain ⟨x, hx, hxq⟩ := mem_pathsBrs_head _ _ hq
          have hw := matches_cs h2 hxq
          have := hh.1 x hx
          simp only [Bool.and_eq_true, beq_iff_eq, bne_iff_ne] at this
          rw [this.1, hc.1] at hw
          exact absurd (Option.some.inj hw).symm this.2
    · rw [if_neg hc]
      rw [ihr]
      constructor
      · rintro ⟨q, hq, h1, h2⟩; exact ⟨q, Or.inr hq, h1, h2⟩
      · rintro ⟨q, hq | hq, h1, h2⟩
        · obtain ⟨q', _, rfl⟩ := hq
          exfalso; apply hc
          simp only [Path.matches, Bool.and_eq_true, List.all_eq_true] at h2
          simp only [cond, Bool.and_eq_true, List.all_eq_true]
          exact ⟨h2.1 (p, c) (by simp), fun g hg => h2.2 g (List.mem_append.mpr (Or.inl hg))⟩
        · exact ⟨q, hq, h1, h2⟩
end

/-- a complete path matches a word of the right length exactly when the word is its spelling -/
theorem mkCs_all (chars : List Nat) : ∀ (s : Nat) (w : Word),
    ((mkCs chars s).all (fun x => w[x.1]? == some x.2) = true ↔ (w.drop s).take chars.length = chars) := by
  induction chars with
  | nil => intro s w; simp [mkCs]
  | cons c t ih =>
    intro s w
    simp only [mkCs, List.all_cons, Bool.and_eq_true, beq_iff_eq, ih (s + 1) w, List.length_cons]
    constructor
    · rintro ⟨h1, h2⟩
      obtain ⟨hlt, hv⟩ := List.getElem?_eq_some_iff.mp h1
      rw [List.drop_eq_getElem_cons hlt, List.take_succ_cons, hv, h2]
    · intro h
      cases hd : w.drop s with
      | nil => rw [hd] at h; simp at h
      | cons a rest =>
        rw [hd] at h
        simp only [List.take_succ_cons, List.cons.injEq] at h
        have hlt : s < w.length := by
          rcases Nat.lt_or_ge s w.length with h' | h'
          · exact h'
          · rw [List.drop_eq_nil_of_le h'] at hd; cases hd
        rw [List.drop_eq_getElem_cons hlt] at hd
        simp only [List.cons.injEq] at hd
        refine ⟨?_, ?_⟩
        · rw [List.getElem?_eq_getElem hlt, hd.1, h.1]
        · rw [hd.2]; exact h.2

theorem complete_matches {q : Path} {n : Nat} (hc : q.complete n = true) (w : Word) (o : Opts)
    (hw : w.length = n) : q.matches w o = true ↔ (w = q.word ∧ q.gs.all (·.holds o) = true) := by
  simp only [Path.complete, Bool.and_eq_true, beq_iff_eq] at hc
  have hlen : q.word.length = n := by simp [Path.word, hc.2]
  simp only [Path.matches, Bool.and_eq_true]
  rw [hc.1, mkCs_all q.word 0 w]
  constructor
  · rintro ⟨h1, h2⟩
    refine ⟨?_, h2⟩
    rw [List.drop_zero, hlen, ← hw, List.take_length] at h1
    exact h1
  · rintro ⟨h1, h2⟩
    refine ⟨?_, h2⟩
    rw [h1, List.drop_zero, List.take_length]

theorem lookupLen_mem {t : List (Nat × Block)} {n : Nat} {b : Block} (h : lookupLen t n = some b) : (n, b) ∈ t := by
  induction t with
  | nil => simp [lookupLen] at h
  | cons x t ih =>
    obtain ⟨m, b'⟩ := x
    simp only [lookupLen] at h
    split at h
    · rename_i hm; subst hm; cases h; simp
    · exact List.mem_cons_of_mem _ (ih h)

end PsycheModel.KeywordTrie
