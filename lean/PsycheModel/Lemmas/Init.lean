import PsycheModel.Init
/-! Helper lemmas for the initializer parser model: fuel monotonicity, the round trip, soundness, consumption and the fuel bound. -/
namespace PsycheModel.Init

/-- results with fuel `f` persist with fuel `g` -/
structure Le (f g : Nat) : Prop where
  init : ∀ ts x, init f ts = some x → init g ts = some x
  item : ∀ ts x, item f ts = some x → item g ts = some x
  items : ∀ ts x, items f ts = some x → items g ts = some x

syntax "init_mono_case " ident : tactic
set_option hygiene false in
macro_rules
  | `(tactic| init_mono_case $ih) => `(tactic| (
      repeat' (split at h)
      all_goals (try (simp at h; done))
      all_goals (have hA := ($ih).init; have hB := ($ih).item; have hC := ($ih).items)
      all_goals (grind)))

theorem le_succ {f g : Nat} (ih : Le f g) : Le (f + 1) (g + 1) := by
  constructor
  · intro ts x h
    simp only [Init.init] at h ⊢
    init_mono_case ih
  · intro ts x h
    simp only [Init.item] at h ⊢
    init_mono_case ih
  · intro ts x h
    simp only [Init.items] at h ⊢
    init_mono_case ih

theorem le_zero (g : Nat) : Le 0 g := by constructor <;> intros <;> simp_all [Init.init, Init.item, Init.items]
theorem le_add (f k : Nat) : Le f (f + k) := by
  induction f with
  | zero => exact le_zero _
  | succ f ih => have := le_succ ih; rwa [Nat.add_right_comm] at this
theorem le_of_le {f g : Nat} (h : f ≤ g) : Le f g := by
  obtain ⟨k, rfl⟩ := Nat.exists_eq_add_of_le h
  exact le_add f k

/-! ### designators -/
/-- the following tokens do not begin a designator -/
def NoDg : List Tok → Prop
  | .dot :: _ | .lk :: _ => False
  | _ => True

theorem desigs_pp (ds : List Dg) (rest : List Tok) (h : NoDg rest) : desigs (ppDs ds ++ rest) = some (ds, rest) := by
  induction ds with
  | nil =>
    match rest, h with
    | [], _ => rfl
    | .dot :: _, h | .lk :: _, h => exact h.elim
    | .e _ :: _, _ | .id _ :: _, _ | .lb :: _, _ | .rb :: _, _ | .comma :: _, _ | .rk :: _, _ | .eq :: _, _ => rfl
  | cons d ds ih => cases d <;> simp [ppDs, ppDg, desigs, ih]

theorem desigs_sound : ∀ (ts : List Tok) (ds : List Dg) (r : List Tok), desigs ts = some (ds, r) → ts = ppDs ds ++ r ∧ NoDg r := by
  intro ts
  induction ts using desigs.induct with
  | case1 n r ds' r' hrec ih =>
    intro ds r0 h
    simp only [desigs, hrec] at h
    obtain ⟨rfl, rfl⟩ := by simpa using h
    obtain ⟨h1, h2⟩ := ih _ _ hrec
    exact ⟨by simp [ppDs, ppDg, ← h1], h2⟩
  | case2 n r hrec ih => intro ds r0 h; simp [desigs, hrec] at h
  | case3 r hne => intro ds r0 h; unfold desigs at h; split at h <;> simp_all
  | case4 n r ds' r' hrec ih =>
    intro ds r0 h
    simp only [desigs, hrec] at h
    obtain ⟨rfl, rfl⟩ := by simpa using h
    obtain ⟨h1, h2⟩ := ih _ _ hrec
    exact ⟨by simp [ppDs, ppDg, ← h1], h2⟩
  | case5 n r hrec ih => intro ds r0 h; simp [desigs, hrec] at h
  | case6 r hne => intro ds r0 h; unfold desigs at h; split at h <;> simp_all
  | case7 ts h1 h2 h3 h4 =>
    intro ds r0 h
    unfold desigs at h
    split at h <;> simp_all
    refine ⟨rfl, ?_⟩
    rename_i hd hl
    match r0, hd, hl with
    | [], _, _ => trivial
    | .dot :: t, hd, _ => exact (hd t rfl).elim
    | .lk :: t, _, hl => exact (hl t rfl).elim
    | .e _ :: _, _, _ | .id _ :: _, _, _ | .lb :: _, _, _ | .rb :: _, _, _ | .comma :: _, _, _ | .rk :: _, _, _ | .eq :: _, _, _ => trivial

theorem desigs_nonempty {ts : List Tok} {ds r} (h : desigs ts = some (ds, r)) (hs : ¬ NoDg ts) : ds ≠ [] := by
  match ts, hs with
  | .dot :: t, _ =>
    unfold desigs at h
    split at h <;> simp_all
    all_goals (split at h <;> simp_all; grind)
  | .lk :: t, _ =>
    unfold desigs at h
    split at h <;> simp_all
    all_goals (split at h <;> simp_all; grind)
  | [], hs | .e _ :: _, hs | .id _ :: _, hs | .lb :: _, hs | .rb :: _, hs | .comma :: _, hs | .rk :: _, hs | .eq :: _, hs => exact (hs trivial).elim

/-! ### what printed initializers start with -/
/-- the first token of a printed initializer or list item: an expression, `{`, `.`, `[` or (a designation without designators, which
`ok` excludes) `=` -/
def Starts : List Tok → Prop
  | .e _ :: _ | .lb :: _ | .dot :: _ | .lk :: _ | .eq :: _ => True
  | _ => False

theorem ppDs_starts (ds : List Dg) (X : List Tok) : Starts (ppDs ds ++ .eq :: X) := by
  cases ds with
  | nil => simp [ppDs, Starts]
  | cons d ds => cases d <;> simp [ppDs, ppDg, Starts]

theorem pp_starts (i : I) (X : List Tok) : Starts (pp i ++ X) := by
  cases i with
  | expr n => simp [pp, Starts]
  | brace xs tc => simp [pp, Starts]
  | desig ds i => simpa [pp] using ppDs_starts ds (pp i ++ X)

theorem ppItems_starts (xs : List I) (hne : xs ≠ []) (X : List Tok) : Starts (ppItems xs ++ X) := by
  match xs, hne with
  | [x], _ => simpa [ppItems] using pp_starts x X
  | x :: y :: ys, _ => simpa [ppItems] using pp_starts x (.comma :: (ppItems (y :: ys) ++ X))

/-! ### the round trip -/
theorem item_of_init {f : Nat} {ts : List Tok} {x} (h : init f ts = some x) : item (f + 1) ts = some x := by
  match ts with
  | .lb :: r => simpa [Init.item] using h
  | .e n :: r => simpa [Init.item] using h
  | [] | .id _ :: _ | .rb :: _ | .comma :: _ | .dot :: _ | .lk :: _ | .rk :: _ | .eq :: _ => cases f <;> simp [Init.init] at h

def tcs (tc : Bool) : List Tok := if tc then [.comma] else []

theorem brace_of_items {f : Nat} {xs : List I} {tc : Bool} {rest : List Tok} (hne : xs ≠ [])
    (h : items f (ppItems xs ++ (tcs tc ++ .rb :: rest)) = some (xs, tc, .rb :: rest)) :
    init (f + 1) (pp (.brace xs tc) ++ rest) = some (.brace xs tc, rest) := by
  have hst := ppItems_starts xs hne (tcs tc ++ .rb :: rest)
  have e : pp (.brace xs tc) ++ rest = .lb :: (ppItems xs ++ (tcs tc ++ .rb :: rest)) := by simp [pp, tcs]
  rw [e]
  match hts : ppItems xs ++ (tcs tc ++ .rb :: rest), hst with
  | t :: tl, hst' =>
    cases t <;> first
      | exact hst'.elim
      | (simp only [Init.init]; rw [← hts, h])

mutual
theorem rt : ∀ (i : I) (rest : List Tok), ok true i = true → ∃ f, init f (pp i ++ rest) = some (i, rest)
  | .expr n, rest, _ => ⟨1, by simp [pp, Init.init]⟩
  | .brace xs tc, rest, hok => by
    simp only [ok, Bool.and_eq_true, Bool.not_eq_true', List.isEmpty_eq_false_iff] at hok
    obtain ⟨f, hf⟩ := rtItems xs tc rest hok.2 hok.1
    exact ⟨f + 1, brace_of_items hok.1 hf⟩
  | .desig ds i, rest, hok => by simp [ok] at hok
theorem rtItem : ∀ (x : I) (rest : List Tok), ok false x = true → ∃ f, item f (pp x ++ rest) = some (x, rest)
  | .expr n, rest, _ => ⟨2, by simp [pp, Init.item, Init.init]⟩
  | .brace xs tc, rest, hok => by
    simp only [ok, Bool.and_eq_true, Bool.not_eq_true', List.isEmpty_eq_false_iff] at hok
    obtain ⟨f, hf⟩ := rtItems xs tc rest hok.2 hok.1
    exact ⟨f + 2, item_of_init (brace_of_items hok.1 hf)⟩
  | .desig ds i, rest, hok => by
    simp only [ok, Bool.and_eq_true, Bool.not_eq_true', List.isEmpty_eq_false_iff, Bool.not_false, true_and] at hok
    obtain ⟨f, hf⟩ := rt i rest hok.2
    refine ⟨f + 1, ?_⟩
    have hd := desigs_pp ds (.eq :: (pp i ++ rest)) trivial
    have e : pp (.desig ds i) ++ rest = ppDs ds ++ .eq :: (pp i ++ rest) := by simp [pp]
    rw [e]
    match hds : ds, hok.1 with
    | d :: ds', _ =>
      cases d <;> (simp only [ppDs, ppDg, List.cons_append, List.nil_append, Init.item]; simp only [ppDs, ppDg, List.cons_append, List.nil_append] at hd; rw [hd]; simp only []; rw [hf])
theorem rtItems : ∀ (xs : List I) (tc : Bool) (rest : List Tok), okItems xs = true → xs ≠ [] →
    ∃ f, items f (ppItems xs ++ (tcs tc ++ .rb :: rest)) = some (xs, tc, .rb :: rest)
  | [], _, _, _, hne => absurd rfl hne
  | [x], tc, rest, hok, _ => by
    simp only [okItems, Bool.and_eq_true, and_true] at hok
    obtain ⟨f, hf⟩ := rtItem x (tcs tc ++ .rb :: rest) hok
    refine ⟨f + 1, ?_⟩
    simp only [ppItems, Init.items]
    rw [hf]
    cases tc <;> simp [tcs]
  | x :: y :: ys, tc, rest, hok, _ => by
    simp only [okItems, Bool.and_eq_true] at hok
    obtain ⟨f1, h1⟩ := rtItem x (.comma :: (ppItems (y :: ys) ++ (tcs tc ++ .rb :: rest))) hok.1
    obtain ⟨f2, h2⟩ := rtItems (y :: ys) tc rest (by simpa [okItems] using hok.2) (by simp)
    refine ⟨max f1 f2 + 1, ?_⟩
    have h1' := (le_of_le (Nat.le_max_left f1 f2)).item _ _ h1
    have h2' := (le_of_le (Nat.le_max_right f1 f2)).items _ _ h2
    have hst := ppItems_starts (y :: ys) (by simp) (tcs tc ++ .rb :: rest)
    simp only [ppItems, List.append_assoc, List.cons_append, Init.items]
    rw [h1']
    match hts : ppItems (y :: ys) ++ (tcs tc ++ .rb :: rest), hst with
    | t :: tl, hst' =>
      cases t <;> first
        | exact hst'.elim
        | (simp only []; rw [← hts, h2'])
end

/-! ### soundness: whatever the parser answers is a derivable initializer, and the tokens it consumed are its printing -/
theorem ok_false_of_true {i : I} (h : ok true i = true) : ok false i = true := by
  cases i <;> simp_all [ok]

structure Snd (f : Nat) : Prop where
  init : ∀ ts i r, init f ts = some (i, r) → ts = pp i ++ r ∧ ok true i = true
  item : ∀ ts i r, item f ts = some (i, r) → ts = pp i ++ r ∧ ok false i = true
  items : ∀ ts xs tc r, items f ts = some (xs, tc, r) →
    ts = ppItems xs ++ (tcs tc ++ r) ∧ okItems xs = true ∧ xs ≠ [] ∧ (tc = true → ∃ r', r = .rb :: r')

theorem ppItems_cons (x : I) (xs : List I) (hne : xs ≠ []) (X : List Tok) :
    ppItems (x :: xs) ++ X = pp x ++ .comma :: (ppItems xs ++ X) := by
  match xs, hne with
  | y :: ys, _ => simp [ppItems]

theorem snd_all : ∀ f, Snd f := by
  intro f
  induction f with
  | zero => constructor <;> intros <;> simp_all [Init.init, Init.item, Init.items]
  | succ f ih =>
    constructor
    · intro ts i r h
      simp only [Init.init] at h
      split at h
      · simp at h
      · split at h
        · rename_i xs tc r' heq
          obtain ⟨rfl, rfl⟩ := by simpa using h
          obtain ⟨h1, h2, h3, _⟩ := ih.items _ _ _ _ heq
          refine ⟨by simp [pp, h1, tcs], ?_⟩
          simp [ok, h2, h3]
        · simp at h
      · obtain ⟨rfl, rfl⟩ := by simpa using h
        exact ⟨by simp [pp], rfl⟩
      · simp at h
    · intro ts i r h
      simp only [Init.item] at h
      split at h
      · simp at h
      · split at h
        · rename_i ds r0 heq
          split at h
          · rename_i i' r' heq2
            obtain ⟨rfl, rfl⟩ := by simpa using h
            obtain ⟨h1, _⟩ := desigs_sound _ _ _ heq
            obtain ⟨h2, h3⟩ := ih.init _ _ _ heq2
            have hne := desigs_nonempty heq (by simp [NoDg])
            refine ⟨by rw [h1, h2]; simp [pp], ?_⟩
            simp [ok, h3, hne]
          · simp at h
        · simp at h
      · split at h
        · rename_i ds r0 heq
          split at h
          · rename_i i' r' heq2
            obtain ⟨rfl, rfl⟩ := by simpa using h
            obtain ⟨h1, _⟩ := desigs_sound _ _ _ heq
            obtain ⟨h2, h3⟩ := ih.init _ _ _ heq2
            have hne := desigs_nonempty heq (by simp [NoDg])
            refine ⟨by rw [h1, h2]; simp [pp], ?_⟩
            simp [ok, h3, hne]
          · simp at h
        · simp at h
      · obtain ⟨h1, h2⟩ := ih.init _ _ _ h
        exact ⟨h1, ok_false_of_true h2⟩
    · intro ts xs tc r h
      simp only [Init.items] at h
      split at h
      · rename_i i r0 heq
        obtain ⟨rfl, rfl, rfl⟩ := by simpa using h
        obtain ⟨h1, h2⟩ := ih.item _ _ _ heq
        exact ⟨by simp [ppItems, tcs, h1], by simp [okItems, h2], by simp, fun _ => ⟨_, rfl⟩⟩
      · rename_i i r0 hne heq
        split at h
        · rename_i ys tc' r' heq2
          obtain ⟨rfl, rfl, rfl⟩ := by simpa using h
          obtain ⟨h1, h2⟩ := ih.item _ _ _ heq
          obtain ⟨h3, h4, h5, h6⟩ := ih.items _ _ _ _ heq2
          refine ⟨?_, by simp [okItems, h2, h4], by simp, h6⟩
          rw [ppItems_cons i ys h5, ← h3, h1]
        · simp at h
      · rename_i i r0 hn1 hn2 heq
        obtain ⟨rfl, rfl, rfl⟩ := by simpa using h
        obtain ⟨h1, h2⟩ := ih.item _ _ _ heq
        exact ⟨by simp [ppItems, tcs, h1], by simp [okItems, h2], by simp, by simp⟩
      · simp at h

/-! ### consumption and the fuel bound -/
theorem pp_length_pos (i : I) : 0 < (pp i).length := by
  cases i <;> simp [pp] <;> omega

theorem ppItems_length_pos (xs : List I) (hne : xs ≠ []) : 0 < (ppItems xs).length := by
  match xs, hne with
  | [x], _ => simpa [ppItems] using pp_length_pos x
  | x :: y :: ys, _ => simp [ppItems]; omega

theorem init_consumes {f ts i r} (h : init f ts = some (i, r)) : r.length < ts.length := by
  obtain ⟨h1, _⟩ := (snd_all f).init _ _ _ h
  have := pp_length_pos i
  rw [h1]; simp; omega
theorem item_consumes {f ts i r} (h : item f ts = some (i, r)) : r.length < ts.length := by
  obtain ⟨h1, _⟩ := (snd_all f).item _ _ _ h
  have := pp_length_pos i
  rw [h1]; simp; omega
theorem items_consumes {f ts xs tc r} (h : items f ts = some (xs, tc, r)) : r.length < ts.length := by
  obtain ⟨h1, _, h3, _⟩ := (snd_all f).items _ _ _ _ h
  have := ppItems_length_pos xs h3
  rw [h1]; simp; omega

theorem desigs_consumes {ts ds r} (h : desigs ts = some (ds, r)) : r.length ≤ ts.length := by
  obtain ⟨h1, _⟩ := desigs_sound _ _ _ h
  rw [h1]; simp

theorem bound_step_init (n f g : Nat)
    (hC : ∀ r x, r.length ≤ n → items f r = some x → items g r = some x) :
    ∀ ts x, ts.length ≤ n + 1 → init (f + 1) ts = some x → init (g + 1) ts = some x := by
  intro ts x hl h
  simp only [Init.init] at h ⊢
  repeat' (split at h)
  all_goals (try (simp at h; done))
  all_goals (grind)

theorem bound_step_item (n f g : Nat)
    (hA : ∀ ts x, ts.length ≤ n + 1 → init f ts = some x → init g ts = some x) :
    ∀ ts x, ts.length ≤ n + 1 → item (f + 1) ts = some x → item (g + 1) ts = some x := by
  have hD := @desigs_consumes
  intro ts x hl h
  simp only [Init.item] at h ⊢
  repeat' (split at h)
  all_goals (try (simp at h; done))
  all_goals (grind)

theorem bound_step_items (n f g : Nat)
    (hB : ∀ ts x, ts.length ≤ n + 1 → item f ts = some x → item g ts = some x)
    (hC : ∀ r x, r.length ≤ n → items f r = some x → items g r = some x) :
    ∀ ts x, ts.length ≤ n + 1 → items (f + 1) ts = some x → items (g + 1) ts = some x := by
  have hI := @item_consumes f
  intro ts x hl h
  simp only [Init.items] at h ⊢
  repeat' (split at h)
  all_goals (try (simp at h; done))
  all_goals (grind)

/-- **the recursion depth is bounded by the number of tokens**: whatever some fuel yields, fuel `3 · length + 1` yields
(`+ 2` for a list item, `+ 3` for an initializer list) -/
theorem fuel_bound : ∀ n,
    (∀ ts : List Tok, ts.length ≤ n → ∀ f x, init f ts = some x → init (3 * n + 1) ts = some x) ∧
    (∀ ts : List Tok, ts.length ≤ n → ∀ f x, item f ts = some x → item (3 * n + 2) ts = some x) ∧
    (∀ ts : List Tok, ts.length ≤ n → ∀ f x, items f ts = some x → items (3 * n + 3) ts = some x) := by
  intro n
  induction n with
  | zero =>
    refine ⟨?_, ?_, ?_⟩ <;> intro ts hl f x h <;>
      (have : ts = [] := List.eq_nil_of_length_eq_zero (by omega)) <;> subst this
    · cases f <;> simp [Init.init] at h
    · cases f with
      | zero => simp [Init.item] at h
      | succ f => cases f <;> simp [Init.item, Init.init] at h
    · cases f with
      | zero => simp [Init.items] at h
      | succ f => cases f with
        | zero => simp [Init.items, Init.item] at h
        | succ f => cases f <;> simp [Init.items, Init.item, Init.init] at h
  | succ n ih =>
    obtain ⟨ihA, ihB, ihC⟩ := ih
    have hinit : ∀ ts : List Tok, ts.length ≤ n + 1 → ∀ f x, init f ts = some x → init (3 * (n + 1) + 1) ts = some x := by
      intro ts hl f x h
      cases f with
      | zero => simp [Init.init] at h
      | succ f =>
        have := bound_step_init n f (3 * n + 3) (fun r x hr h => ihC r hr f x h) ts x hl h
        simpa [Nat.mul_add] using this
    have hitem : ∀ ts : List Tok, ts.length ≤ n + 1 → ∀ f x, item f ts = some x → item (3 * (n + 1) + 2) ts = some x := by
      intro ts hl f x h
      cases f with
      | zero => simp [Init.item] at h
      | succ f =>
        have := bound_step_item n f (3 * n + 4) (fun ts x hl h => by have := hinit ts hl f x h; simpa [Nat.mul_add] using this) ts x hl h
        simpa [Nat.mul_add] using this
    refine ⟨hinit, hitem, ?_⟩
    intro ts hl f x h
    cases f with
    | zero => simp [Init.items] at h
    | succ f =>
      have := bound_step_items n f (3 * n + 5)
        (fun ts x hl h => by have := hitem ts hl f x h; simpa [Nat.mul_add] using this)
        (fun r x hr h => (le_of_le (by omega : 3 * n + 3 ≤ 3 * n + 5)).items _ _ (ihC r hr f x h)) ts x hl h
      simpa [Nat.mul_add] using this

end PsycheModel.Init
