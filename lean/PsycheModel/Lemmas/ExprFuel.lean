import PsycheModel.Lemmas.Expr
/-! Consumption and the fuel bound of the all-layers expression parser model: every successful parse consumes tokens, and fuel
`4 · length + 3` suffices for `nary` (the recursion depth is bounded by the number of tokens). -/
namespace PsycheModel.Expr
variable (T : Tbl)

/-- how much a successful parse consumes -/
structure ConsE (f : Nat) : Prop where
  cA : ∀ base c ts e rest, Expr.atOp T f base c ts = some (e, rest) → rest.length ≤ ts.length
  cA2 : ∀ base c t tl e rest, Expr.atOp T f base c (t :: tl) = some (e, rest) → tprec T t ≥ c → rest.length + 1 ≤ tl.length
  cL : ∀ ts l rest, Expr.linkP T f ts = some (l, rest) → rest.length + 1 ≤ ts.length
  cI : ∀ next prev ts e rest, Expr.inner T f next prev ts = some (e, rest) → rest.length ≤ ts.length
  cN : ∀ c ts e rest, Expr.nary T f c ts = some (e, rest) → rest.length + 1 ≤ ts.length
  cC : ∀ ts e rest, Expr.cast T f ts = some (e, rest) → rest.length + 1 ≤ ts.length
  cU : ∀ ts e rest, Expr.unary T f ts = some (e, rest) → rest.length + 1 ≤ ts.length
  cP : ∀ e0 ts e rest, Expr.postf T f e0 ts = some (e, rest) → rest.length ≤ ts.length
  cG : ∀ ts as rest, Expr.args T f ts = some (as, rest) → rest.length + 1 ≤ ts.length

syntax "cons_case " ident : tactic
set_option hygiene false in
macro_rules
  | `(tactic| cons_case $ih) => `(tactic| (
      repeat' (split at h)
      all_goals (try (simp at h; done))
      all_goals (have h1 := ($ih).cA; have h1' := ($ih).cA2; have h2 := ($ih).cL; have h3 := ($ih).cI; have h4 := ($ih).cN
                 have h5 := ($ih).cC; have h6 := ($ih).cU; have h7 := ($ih).cP; have h8 := ($ih).cG)
      all_goals (grind)))

theorem consE_all : ∀ f, ConsE T f := by
  intro f
  induction f with
  | zero => constructor <;> intros <;> simp_all [atOp, linkP, inner, nary, cast, unary, postf, args]
  | succ f ih =>
    constructor
    · intro base c ts e rest h
      simp only [Expr.atOp] at h
      cons_case ih
    · intro base c t tl e rest h hge
      simp only [Expr.atOp] at h
      cons_case ih
    · intro ts l rest h
      simp only [Expr.linkP] at h
      cons_case ih
    · intro next prev ts e rest h
      simp only [Expr.inner] at h
      cons_case ih
    · intro c ts e rest h
      simp only [Expr.nary] at h
      cons_case ih
    · intro ts e rest h
      simp only [Expr.cast] at h
      cons_case ih
    · intro ts e rest h
      simp only [Expr.unary] at h
      cons_case ih
    · intro e0 ts e rest h
      simp only [Expr.postf] at h
      cons_case ih
    · intro ts as rest h
      simp only [Expr.args] at h
      cons_case ih

/-! ### fuel bound: steps with opaque source fuel `f` and target fuel `g` -/
section steps
variable (n f g : Nat)

syntax "bound_case" : tactic
set_option hygiene false in
macro_rules
  | `(tactic| bound_case) => `(tactic| (
      repeat' (split at h)
      all_goals (try (simp at h; done))
      all_goals (grind)))

theorem step_unary
    (hU : ∀ ts x, ts.length ≤ n → unary T f ts = some x → unary T g ts = some x)
    (hC : ∀ ts x, ts.length ≤ n → cast T f ts = some x → cast T g ts = some x)
    (hP : ∀ e ts x, ts.length ≤ n → postf T f e ts = some x → postf T g e ts = some x)
    (hN : ∀ c ts x, ts.length ≤ n → nary T f c ts = some x → nary T g c ts = some x) :
    ∀ ts x, ts.length ≤ n + 1 → unary T (f + 1) ts = some x → unary T (g + 1) ts = some x := by
  have c4 := (consE_all T f).cN
  intro ts x hl h
  simp only [Expr.unary] at h ⊢
  bound_case

theorem step_postf
    (hP : ∀ e ts x, ts.length ≤ n → postf T f e ts = some x → postf T g e ts = some x)
    (hN : ∀ c ts x, ts.length ≤ n → nary T f c ts = some x → nary T g c ts = some x)
    (hG : ∀ ts x, ts.length ≤ n → args T f ts = some x → args T g ts = some x) :
    ∀ e ts x, ts.length ≤ n + 1 → postf T (f + 1) e ts = some x → postf T (g + 1) e ts = some x := by
  have c4 := (consE_all T f).cN
  have c8 := (consE_all T f).cG
  intro e ts x hl h
  simp only [Expr.postf] at h ⊢
  bound_case

theorem step_linkP
    (hN : ∀ c ts x, ts.length ≤ n → nary T f c ts = some x → nary T g c ts = some x) :
    ∀ ts x, ts.length ≤ n + 1 → linkP T (f + 1) ts = some x → linkP T (g + 1) ts = some x := by
  intro ts x hl h
  simp only [Expr.linkP] at h ⊢
  bound_case

theorem step_cast
    (hC : ∀ ts x, ts.length ≤ n → cast T f ts = some x → cast T g ts = some x)
    (hU : ∀ ts x, ts.length ≤ n + 1 → unary T f ts = some x → unary T g ts = some x) :
    ∀ ts x, ts.length ≤ n + 1 → cast T (f + 1) ts = some x → cast T (g + 1) ts = some x := by
  intro ts x hl h
  simp only [Expr.cast] at h ⊢
  bound_case

theorem step_atOp
    (hL : ∀ ts x, ts.length ≤ n + 1 → linkP T f ts = some x → linkP T g ts = some x)
    (hC : ∀ ts x, ts.length ≤ n → cast T f ts = some x → cast T g ts = some x)
    (hI : ∀ nx p ts x, ts.length ≤ n → inner T f nx p ts = some x → inner T g nx p ts = some x)
    (hA : ∀ b c ts x, ts.length ≤ n → atOp T f b c ts = some x → atOp T g b c ts = some x) :
    ∀ b c ts x, ts.length ≤ n + 1 → atOp T (f + 1) b c ts = some x → atOp T (g + 1) b c ts = some x := by
  have c2 := (consE_all T f).cL
  have c5 := (consE_all T f).cC
  have c3 := (consE_all T f).cI
  intro b c ts x hl h
  simp only [Expr.atOp] at h ⊢
  bound_case

theorem step_inner
    (hA : ∀ b c ts x, ts.length ≤ n + 1 → atOp T f b c ts = some x → atOp T g b c ts = some x)
    (hI : ∀ nx p ts x, ts.length ≤ n → inner T f nx p ts = some x → inner T g nx p ts = some x) :
    ∀ nx p ts x, ts.length ≤ n + 1 → inner T (f + 1) nx p ts = some x → inner T (g + 1) nx p ts = some x := by
  have c1 := (consE_all T f).cA
  have c1' := (consE_all T f).cA2
  intro nx p ts x hl h
  simp only [Expr.inner] at h ⊢
  split at h
  · rename_i hcont
    rw [if_pos hcont]
    split at h
    · rename_i nx' rest' ha
      have hlen : rest'.length ≤ n := by
        cases ts with
        | nil => have := c1 _ _ _ _ _ ha; simp at this; rw [this]; exact Nat.zero_le _
        | cons t tl =>
          have := c1' _ _ _ _ _ _ ha (by simp [hprec])
          simp at hl; omega
      rw [hA _ _ _ _ hl ha]
      exact hI _ _ _ _ hlen h
    · simp at h
  · rename_i hcont
    rw [if_neg hcont]; exact h

theorem step_nary
    (hC : ∀ ts x, ts.length ≤ n + 1 → cast T f ts = some x → cast T g ts = some x)
    (hA : ∀ b c ts x, ts.length ≤ n → atOp T f b c ts = some x → atOp T g b c ts = some x) :
    ∀ c ts x, ts.length ≤ n + 1 → nary T (f + 1) c ts = some x → nary T (g + 1) c ts = some x := by
  have c5 := (consE_all T f).cC
  intro c ts x hl h
  simp only [Expr.nary] at h ⊢
  bound_case

theorem step_args
    (hN : ∀ c ts x, ts.length ≤ n + 1 → nary T f c ts = some x → nary T g c ts = some x)
    (hG : ∀ ts x, ts.length ≤ n → args T f ts = some x → args T g ts = some x) :
    ∀ ts x, ts.length ≤ n + 1 → args T (f + 1) ts = some x → args T (g + 1) ts = some x := by
  have c4 := (consE_all T f).cN
  intro ts x hl h
  simp only [Expr.args] at h ⊢
  bound_case
end steps

theorem inner_nil_cont {prev : Nat} (hc : cont T prev 0 = true) : ∀ f next, inner T f next prev [] = none := by
  intro f
  induction f with
  | zero => intro next; rfl
  | succ f ih =>
    intro next
    simp only [Expr.inner, hprec, hc, if_true]
    cases f with
    | zero => simp [Expr.atOp]
    | succ f => simp only [Expr.atOp]; exact ih next

/-- the fuel that suffices for a token list of length at most `n`, per function -/
structure Bound (n : Nat) : Prop where
  bU : ∀ ts x f, ts.length ≤ n → unary T f ts = some x → unary T (4 * n + 1) ts = some x
  bP : ∀ e ts x f, ts.length ≤ n → postf T f e ts = some x → postf T (4 * n + 1) e ts = some x
  bL : ∀ ts x f, ts.length ≤ n → linkP T f ts = some x → linkP T (4 * n + 1) ts = some x
  bC : ∀ ts x f, ts.length ≤ n → cast T f ts = some x → cast T (4 * n + 2) ts = some x
  bA : ∀ b c ts x f, ts.length ≤ n → atOp T f b c ts = some x → atOp T (4 * n + 2) b c ts = some x
  bI : ∀ nx p ts x f, ts.length ≤ n → inner T f nx p ts = some x → inner T (4 * n + 3) nx p ts = some x
  bN : ∀ c ts x f, ts.length ≤ n → nary T f c ts = some x → nary T (4 * n + 3) c ts = some x
  bG : ∀ ts x f, ts.length ≤ n → args T f ts = some x → args T (4 * n + 4) ts = some x

theorem bound_zero : Bound T 0 := by
  have nil : ∀ {ts : List Tok}, ts.length ≤ 0 → ts = [] := fun h => List.eq_nil_of_length_eq_zero (by omega)
  constructor
  · intro ts x f hl h; have := nil hl; subst this; cases f <;> simp [Expr.unary] at h
  · intro e ts x f hl h; have := nil hl; subst this
    cases f with
    | zero => simp [Expr.postf] at h
    | succ f => simpa [Expr.postf] using h
  · intro ts x f hl h; have := nil hl; subst this; cases f <;> simp [Expr.linkP] at h
  · intro ts x f hl h; have := nil hl; subst this
    cases f with
    | zero => simp [Expr.cast] at h
    | succ f => simp only [Expr.cast] at h; cases f <;> simp [Expr.unary] at h
  · intro b c ts x f hl h; have := nil hl; subst this
    cases f with
    | zero => simp [Expr.atOp] at h
    | succ f => simpa [Expr.atOp] using h
  · intro nx p ts x f hl h; have := nil hl; subst this
    by_cases hc : cont T p 0 = true
    · rw [inner_nil_cont T hc] at h; cases h
    · cases f with
      | zero => simp [Expr.inner] at h
      | succ f => simpa [Expr.inner, hprec, hc] using h
  · intro c ts x f hl h; have := nil hl; subst this
    cases f with
    | zero => simp [Expr.nary] at h
    | succ f =>
      simp only [Expr.nary] at h
      cases f with
      | zero => simp [Expr.cast] at h
      | succ f => simp only [Expr.cast] at h; cases f <;> simp [Expr.unary] at h
  · intro ts x f hl h; have := nil hl; subst this
    cases f with
    | zero => simp [Expr.args] at h
    | succ f =>
      simp only [Expr.args] at h
      cases f with
      | zero => simp [Expr.nary] at h
      | succ f =>
        simp only [Expr.nary] at h
        cases f with
        | zero => simp [Expr.cast] at h
        | succ f => simp only [Expr.cast] at h; cases f <;> simp [Expr.unary] at h

theorem bound_succ (n : Nat) (B : Bound T n) : Bound T (n + 1) := by
  have up : ∀ {a b : Nat}, a ≤ b → Le T a b := fun h => le_of_le T h
  -- callees on lists of length ≤ n, lifted to the fuel `g` a step needs
  have hU : ∀ g f, 4 * n + 1 ≤ g → ∀ ts x, ts.length ≤ n → unary T f ts = some x → unary T g ts = some x :=
    fun g f hg ts x hl h => (up hg).unary _ _ (B.bU ts x f hl h)
  have hP : ∀ g f, 4 * n + 1 ≤ g → ∀ e ts x, ts.length ≤ n → postf T f e ts = some x → postf T g e ts = some x :=
    fun g f hg e ts x hl h => (up hg).postf _ _ _ (B.bP e ts x f hl h)
  have hC : ∀ g f, 4 * n + 2 ≤ g → ∀ ts x, ts.length ≤ n → cast T f ts = some x → cast T g ts = some x :=
    fun g f hg ts x hl h => (up hg).cast _ _ (B.bC ts x f hl h)
  have hA : ∀ g f, 4 * n + 2 ≤ g → ∀ b c ts x, ts.length ≤ n → atOp T f b c ts = some x → atOp T g b c ts = some x :=
    fun g f hg b c ts x hl h => (up hg).atOp _ _ _ _ (B.bA b c ts x f hl h)
  have hI : ∀ g f, 4 * n + 3 ≤ g → ∀ nx p ts x, ts.length ≤ n → inner T f nx p ts = some x → inner T g nx p ts = some x :=
    fun g f hg nx p ts x hl h => (up hg).inner _ _ _ _ (B.bI nx p ts x f hl h)
  have hN : ∀ g f, 4 * n + 3 ≤ g → ∀ c ts x, ts.length ≤ n → nary T f c ts = some x → nary T g c ts = some x :=
    fun g f hg c ts x hl h => (up hg).nary _ _ _ (B.bN c ts x f hl h)
  have hG : ∀ g f, 4 * n + 4 ≤ g → ∀ ts x, ts.length ≤ n → args T f ts = some x → args T g ts = some x :=
    fun g f hg ts x hl h => (up hg).args _ _ (B.bG ts x f hl h)
  have e1 : 4 * (n + 1) + 1 = (4 * n + 4) + 1 := by omega
  have e2 : 4 * (n + 1) + 2 = (4 * n + 5) + 1 := by omega
  have e3 : 4 * (n + 1) + 3 = (4 * n + 6) + 1 := by omega
  have e4 : 4 * (n + 1) + 4 = (4 * n + 7) + 1 := by omega
  have bU' : ∀ ts x f, ts.length ≤ n + 1 → unary T f ts = some x → unary T (4 * (n + 1) + 1) ts = some x := by
    intro ts x f hl h
    cases f with
    | zero => simp [Expr.unary] at h
    | succ f =>
      rw [e1]
      exact step_unary T n f (4 * n + 4) (hU _ f (by omega)) (hC _ f (by omega)) (hP _ f (by omega)) (hN _ f (by omega)) ts x hl h
  have bP' : ∀ e ts x f, ts.length ≤ n + 1 → postf T f e ts = some x → postf T (4 * (n + 1) + 1) e ts = some x := by
    intro e ts x f hl h
    cases f with
    | zero => simp [Expr.postf] at h
    | succ f =>
      rw [e1]
      exact step_postf T n f (4 * n + 4) (hP _ f (by omega)) (hN _ f (by omega)) (hG _ f (by omega)) e ts x hl h
  have bL' : ∀ ts x f, ts.length ≤ n + 1 → linkP T f ts = some x → linkP T (4 * (n + 1) + 1) ts = some x := by
    intro ts x f hl h
    cases f with
    | zero => simp [Expr.linkP] at h
    | succ f => rw [e1]; exact step_linkP T n f (4 * n + 4) (hN _ f (by omega)) ts x hl h
  have bC' : ∀ ts x f, ts.length ≤ n + 1 → cast T f ts = some x → cast T (4 * (n + 1) + 2) ts = some x := by
    intro ts x f hl h
    cases f with
    | zero => simp [Expr.cast] at h
    | succ f =>
      rw [e2]
      exact step_cast T n f (4 * n + 5) (hC _ f (by omega)) (fun ts x hl h => by have := bU' ts x f hl h; rwa [e1] at this) ts x hl h
  have bA' : ∀ b c ts x f, ts.length ≤ n + 1 → atOp T f b c ts = some x → atOp T (4 * (n + 1) + 2) b c ts = some x := by
    intro b c ts x f hl h
    cases f with
    | zero => simp [Expr.atOp] at h
    | succ f =>
      rw [e2]
      exact step_atOp T n f (4 * n + 5) (fun ts x hl h => by have := bL' ts x f hl h; rwa [e1] at this)
        (hC _ f (by omega)) (hI _ f (by omega)) (hA _ f (by omega)) b c ts x hl h
  have bI' : ∀ nx p ts x f, ts.length ≤ n + 1 → inner T f nx p ts = some x → inner T (4 * (n + 1) + 3) nx p ts = some x := by
    intro nx p ts x f hl h
    cases f with
    | zero => simp [Expr.inner] at h
    | succ f =>
      rw [e3]
      exact step_inner T n f (4 * n + 6) (fun b c ts x hl h => by have := bA' b c ts x f hl h; rwa [e2] at this)
        (hI _ f (by omega)) nx p ts x hl h
  have bN' : ∀ c ts x f, ts.length ≤ n + 1 → nary T f c ts = some x → nary T (4 * (n + 1) + 3) c ts = some x := by
    intro c ts x f hl h
    cases f with
    | zero => simp [Expr.nary] at h
    | succ f =>
      rw [e3]
      exact step_nary T n f (4 * n + 6) (fun ts x hl h => by have := bC' ts x f hl h; rwa [e2] at this) (hA _ f (by omega)) c ts x hl h
  have bG' : ∀ ts x f, ts.length ≤ n + 1 → args T f ts = some x → args T (4 * (n + 1) + 4) ts = some x := by
    intro ts x f hl h
    cases f with
    | zero => simp [Expr.args] at h
    | succ f =>
      rw [e4]
      exact step_args T n f (4 * n + 7) (fun c ts x hl h => by have := bN' c ts x f hl h; rwa [e3] at this) (hG _ f (by omega)) ts x hl h
  exact ⟨bU', bP', bL', bC', bA', bI', bN', bG'⟩

theorem bound_all : ∀ n, Bound T n
  | 0 => bound_zero T
  | n + 1 => bound_succ T n (bound_all n)

end PsycheModel.Expr
