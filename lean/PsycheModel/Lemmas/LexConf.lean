import PsycheModel.LexSpec
import PsycheModel.Lemmas.Lex
/-! Helper lemmas for C05, part B: what the sub-lexers do on well-formed spellings. -/
namespace PsycheModel.Lex
open PsycheModel.LexSpec PsycheModel.Generated

@[simp] theorem hd_cons (c : Cp) (r : S) : hd (c :: r) = c.c := rfl
@[simp] theorem step_cons (c : Cp) (r : S) : step (c :: r) = r := rfl
@[simp] theorem hd_nil : hd [] = 0 := rfl
@[simp] theorem step_nil : step [] = [] := rfl

/-- a `while (p(yychar_)) yyinput();` loop over a stretch of `p`-characters followed by a non-`p` one stops right after the stretch -/
theorem dw_append_stop (p : Nat → Bool) (cs r : S) (hcs : ∀ c ∈ cs, p c.c = true) (hr : p (hd r) = false) :
    dw p (cs ++ r) = r := by
  induction cs with
  | nil =>
    cases r with
    | nil => rfl
    | cons c r => simp only [hd] at hr; simp [dw, List.dropWhile, hr]
  | cons c cs ih =>
    have hc := hcs c (by simp)
    simp only [dw, List.cons_append, List.dropWhile, hc]
    exact ih (fun x hx => hcs x (by simp [hx]))

theorem ident_append (cs r : S) (hcs : ∀ c ∈ cs, isIdCont c.c = true) (hr : isIdCont (hd r) = false) :
    ident (cs ++ r) = { kind := .IdentifierToken, rest := r, word := true } := by
  simp [ident, dw_append_stop isIdCont cs r hcs hr]

/-- the characters the switch of `yylex_CORE` names before it reaches `default:` -/
def switchChars : List Nat := [34, 39, 123, 125, 91, 93, 35, 40, 41, 59, 58, 46, 63, 43, 45, 42, 47, 37, 94, 38, 124, 126, 33, 61, 60, 62, 44]

theorem idStart_not_switch (c : Nat) (h : isIdStart c = true) : ∀ k ∈ switchChars, (c == k) = false := by
  intro k hk
  simp only [switchChars, List.mem_cons, List.not_mem_nil, or_false] at hk
  simp only [isIdStart, isAlpha, Bool.or_eq_true, Bool.and_eq_true, decide_eq_true_eq, beq_iff_eq] at h
  rcases hk with rfl | rfl | rfl | rfl | rfl | rfl | rfl | rfl | rfl | rfl | rfl | rfl | rfl | rfl | rfl | rfl | rfl | rfl | rfl | rfl | rfl | rfl | rfl | rfl | rfl | rfl | rfl
  all_goals (simp only [beq_eq_false_iff_ne, ne_eq]; omega)

theorem digit_not_switch (c : Nat) (h : isDigit c = true) : ∀ k ∈ switchChars, (c == k) = false := by
  intro k hk
  simp only [switchChars, List.mem_cons, List.not_mem_nil, or_false] at hk
  simp only [isDigit, Bool.and_eq_true, decide_eq_true_eq] at h
  rcases hk with rfl | rfl | rfl | rfl | rfl | rfl | rfl | rfl | rfl | rfl | rfl | rfl | rfl | rfl | rfl | rfl | rfl | rfl | rfl | rfl | rfl | rfl | rfl | rfl | rfl | rfl | rfl
  all_goals (simp only [beq_eq_false_iff_ne, ne_eq]; omega)

/-- **6.4.2.1**: an identifier start followed by identifier characters, up to a character that is none (and no quote:
`L"…"`, `u8'…'` are literals), is read as one identifier-like word — for all code points, ASCII or not -/
theorem identifier_reads (c0 : Nat) (cs r : S) (h0 : isIdStart c0 = true) (hcs : ∀ c ∈ cs, isIdCont c.c = true)
    (hr : isIdCont (hd r) = false) (hq1 : hd r ≠ 34) (hq2 : hd r ≠ 39) :
    tokenAt c0 (cs ++ r) = { kind := .IdentifierToken, rest := r, word := true } := by
  have hs := idStart_not_switch c0 h0
  have key := fun cs' h => ident_append cs' r h hr
  have key0 : ident r = { kind := .IdentifierToken, rest := r, word := true } := by simpa using key [] (by simp)
  unfold tokenAt
  simp only [hs 34 (by decide), hs 39 (by decide), hs 123 (by decide), hs 125 (by decide), hs 91 (by decide), hs 93 (by decide),
    hs 35 (by decide), hs 40 (by decide), hs 41 (by decide), hs 59 (by decide), hs 58 (by decide), hs 46 (by decide),
    hs 63 (by decide), hs 43 (by decide), hs 45 (by decide), hs 42 (by decide), hs 47 (by decide), hs 37 (by decide),
    hs 94 (by decide), hs 38 (by decide), hs 124 (by decide), hs 126 (by decide), hs 33 (by decide), hs 61 (by decide),
    hs 60 (by decide), hs 62 (by decide), hs 44 (by decide), Bool.false_eq_true, if_false, h0, if_true]
  have nq : ∀ x : Nat, isIdCont x = true → x ≠ 34 ∧ x ≠ 39 := by
    intro x hx; constructor <;> (intro h; subst h; simp [isIdCont, isAlnum, isDigit, isAlpha] at hx)
  have hr82 : hd r ≠ 82 := by intro h; rw [h] at hr; simp [isIdCont, isAlnum, isDigit, isAlpha] at hr
  have hr56 : hd r ≠ 56 := by intro h; rw [h] at hr; simp [isIdCont, isAlnum, isDigit, isAlpha] at hr
  have b34 : (hd r == 34) = false := by simpa using hq1
  have b39 : (hd r == 39) = false := by simpa using hq2
  have b82 : (hd r == 82) = false := by simpa using hr82
  have b56 : (hd r == 56) = false := by simpa using hr56
  have nb : ∀ x : Nat, isIdCont x = true → (x == 34) = false ∧ (x == 39) = false := by
    intro x hx; have := nq x hx; simp [this.1, this.2]
  rcases cs with _ | ⟨c1, _ | ⟨c2, _ | ⟨c3, cs⟩⟩⟩
  · simp [b34, b39, b82, b56, key0]
  · have h1 := hcs c1 (by simp)
    have k1 : ident (c1 :: r) = _ := key [c1] (by simpa using h1)
    simp [(nb _ h1).1, (nb _ h1).2, b34, b39, b82, key0, k1]
  · have h1 := hcs c1 (by simp)
    have h2 := hcs c2 (by simp)
    have k1 : ident (c2 :: r) = _ := key [c2] (by simpa using h2)
    have k2 : ident (c1 :: c2 :: r) = _ := key [c1, c2] (by simp [h1, h2])
    simp [(nb _ h1).1, (nb _ h1).2, (nb _ h2).1, (nb _ h2).2, b34, key0, k1, k2]
  · have h1 := hcs c1 (by simp)
    have h2 := hcs c2 (by simp)
    have h3 := hcs c3 (by simp)
    have hall : ∀ c ∈ cs, isIdCont c.c = true := fun c hc => hcs c (by simp [hc])
    have k1 : ident (c3 :: (cs ++ r)) = _ := key (c3 :: cs) (by simpa [h3] using hall)
    have k2 : ident (c2 :: c3 :: (cs ++ r)) = _ := key (c2 :: c3 :: cs) (by simpa [h2, h3] using hall)
    have k3 : ident (c1 :: c2 :: c3 :: (cs ++ r)) = _ := key (c1 :: c2 :: c3 :: cs) (by simpa [h1, h2, h3] using hall)
    simp [(nb _ h1).1, (nb _ h1).2, (nb _ h2).1, (nb _ h2).2, (nb _ h3).1, k1, k2, k3]

end PsycheModel.Lex
