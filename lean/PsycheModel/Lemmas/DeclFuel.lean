import PsycheModel.Lemmas.DeclParser
/-! Consumption and fuel bound of the declarator-parser model: every answer leaves a suffix no longer than the input, and an
answer obtained with ANY fuel is obtained with fuel `2 * consumed + c` (c = 3 for `parseD`, 2 for `parseDirect`, 1 for
`suffixes`, 4 / 3 / 2 for the three parameter functions).  With this the fixed fuel of `parseDeclarator` is enough for every
token string: the fuel only bounds the recursion, it never changes an answer. -/
namespace PsycheModel.DeclParser
open PsycheModel.Declarators

theorem takeQuals_length : ∀ r : List Tok, (takeQuals r).2.length ≤ r.length
  | [] => by simp [takeQuals]
  | t :: r => by
    cases t <;> simp [takeQuals]
    exact Nat.le_succ_of_le (takeQuals_length r)

/-- one function's statement: the rest is a suffix in length, and fuel `2 * consumed + c` reproduces the answer -/
abbrev BD (c : Nat) (ts r : List Tok) (run : Nat → Prop) : Prop :=
  r.length ≤ ts.length ∧ ∀ g, 2 * (ts.length - r.length) + c ≤ g → run g

structure Bnd (f : Nat) : Prop where
  d : ∀ form ts d r, parseD form f ts = some (d, r) → BD 3 ts r (fun g => parseD form g ts = some (d, r))
  dir : ∀ form ts d r, parseDirect form f ts = some (d, r) → BD 2 ts r (fun g => parseDirect form g ts = some (d, r))
  suf : ∀ inner ts d r, suffixes f inner ts = some (d, r) → BD 1 ts r (fun g => suffixes g inner ts = some (d, r))
  ps : ∀ ts p e r, parseParams f ts = some (p, e, r) → BD 4 ts r (fun g => parseParams g ts = some (p, e, r))
  pl : ∀ ts p e r, parseParamList f ts = some (p, e, r) → BD 3 ts r (fun g => parseParamList g ts = some (p, e, r))
  p : ∀ ts s d r, parseParam f ts = some (s, d, r) → BD 2 ts r (fun g => parseParam g ts = some (s, d, r))
  -- a concrete declarator has an identifier, whose token pays for one call more
  dC : ∀ ts d r, parseD .concrete f ts = some (d, r) → BD 2 ts r (fun g => parseD .concrete g ts = some (d, r))
  dirC : ∀ ts d r, parseDirect .concrete f ts = some (d, r) → BD 1 ts r (fun g => parseDirect .concrete g ts = some (d, r))

theorem bnd : ∀ f, Bnd f
  | 0 => by constructor <;> intros <;> simp_all [parseD, parseDirect, suffixes, parseParams, parseParamList, parseParam]
  | f + 1 => by
    have ih := bnd f
    constructor
    · intro form ts d r h
      unfold parseD at h
      split at h
      · split at h
        · rename_i r0 _ d' r2 heq
          cases h
          have hq := takeQuals_length r0
          obtain ⟨hl, hb⟩ := ih.d _ _ _ _ heq
          refine ⟨by simp; omega, fun g hg => ?_⟩
          obtain ⟨g', rfl⟩ : ∃ g', g = g' + 1 := ⟨g - 1, by omega⟩
          have hx : parseD form g' (takeQuals r0).2 = some (d', r) := hb g' (by simp at hg; omega)
          unfold parseD
          simp only [hx]
        · simp at h
      · obtain ⟨hl, hb⟩ := ih.dir _ _ _ _ h
        refine ⟨hl, fun g hg => ?_⟩
        obtain ⟨g', rfl⟩ : ∃ g', g = g' + 1 := ⟨g - 1, by omega⟩
        unfold parseD
        split
        · simp_all
        · exact hb g' (by omega)
    · intro form ts d r h
      unfold parseDirect at h
      split at h
      · -- identifier
        rename_i n r0
        obtain ⟨hl, hb⟩ := ih.suf _ _ _ _ h
        refine ⟨by simp; omega, fun g hg => ?_⟩
        obtain ⟨g', rfl⟩ : ∃ g', g = g' + 1 := ⟨g - 1, by omega⟩
        unfold parseDirect
        exact hb g' (by simp at hg; omega)
      · simp at h
      · -- concrete `( declarator )`
        rename_i r0
        split at h
        · rename_i d' r2 heq
          obtain ⟨hl1, hb1⟩ := ih.d _ _ _ _ heq
          obtain ⟨hl2, hb2⟩ := ih.suf _ _ _ _ h
          simp at hl1
          refine ⟨by simp; omega, fun g hg => ?_⟩
          obtain ⟨g', rfl⟩ : ∃ g', g = g' + 1 := ⟨g - 1, by omega⟩
          have hx : parseD .concrete g' r0 = some (d', .rparen :: r2) := hb1 g' (by simp at hg ⊢; omega)
          unfold parseDirect
          simp only [hx]
          exact hb2 g' (by simp at hg; omega)
        · simp at h
      · -- abstract `( )`
        obtain ⟨hl, hb⟩ := ih.suf _ _ _ _ h
        refine ⟨hl, fun g hg => ?_⟩
        obtain ⟨g', rfl⟩ : ∃ g', g = g' + 1 := ⟨g - 1, by omega⟩
        unfold parseDirect
        exact hb g' (by omega)
      · -- abstract `(`: the speculative parse, or the fall-back to a parameter suffix
        rename_i r0 hne
        split at h
        · rename_i d' r2 heq
          obtain ⟨hl1, hb1⟩ := ih.d _ _ _ _ heq
          obtain ⟨hl2, hb2⟩ := ih.suf _ _ _ _ h
          simp at hl1
          refine ⟨by simp; omega, fun g hg => ?_⟩
          obtain ⟨g', rfl⟩ : ∃ g', g = g' + 1 := ⟨g - 1, by omega⟩
          have hx : parseD .abstract g' r0 = some (d', .rparen :: r2) := hb1 g' (by simp at hg ⊢; omega)
          unfold parseDirect
          split
          · simp_all
          · simp_all
          · simp_all
          · rename_i heq2; cases heq2; exact absurd rfl (hne _)
          · rename_i heq2; cases heq2
            simp only [hx]
            exact hb2 g' (by simp at hg; omega)
          · simp_all
          · simp_all
          · simp_all
        · obtain ⟨hl, hb⟩ := ih.suf _ _ _ _ h
          refine ⟨hl, fun g hg => ?_⟩
          obtain ⟨g', rfl⟩ : ∃ g', g = g' + 1 := ⟨g - 1, by omega⟩
          have hs := hb g' (by omega)
          unfold parseDirect
          split
          · simp_all
          · simp_all
          · simp_all
          · rename_i heq2; cases heq2; exact absurd rfl (hne _)
          · rename_i heq2; cases heq2
            rcases suffixes_lparen_start h with ⟨r', rfl⟩ | ⟨s, r', rfl⟩
            · exact absurd rfl (hne r')
            · rcases parseD_abstract_spec g' s r' with h' | h'
              · rw [h']; exact hs
              · rw [h']; exact hs
          · simp_all
          · simp_all
          · simp_all
      · -- abstract `[`
        obtain ⟨hl, hb⟩ := ih.suf _ _ _ _ h
        refine ⟨hl, fun g hg => ?_⟩
        obtain ⟨g', rfl⟩ : ∃ g', g = g' + 1 := ⟨g - 1, by omega⟩
        unfold parseDirect
        exact hb g' (by omega)
      · simp at h
      · -- abstract, nothing
        cases h
        refine ⟨Nat.le_refl _, fun g hg => ?_⟩
        obtain ⟨g', rfl⟩ : ∃ g', g = g' + 1 := ⟨g - 1, by omega⟩
        unfold parseDirect
        split <;> simp_all
    · intro inner ts d r h
      unfold suffixes at h
      split at h
      · rename_i r0
        split at h
        · rename_i ps ell r2 heq
          obtain ⟨hl1, hb1⟩ := ih.ps _ _ _ _ heq
          obtain ⟨hl2, hb2⟩ := ih.suf _ _ _ _ h
          simp at hl1
          refine ⟨by simp; omega, fun g hg => ?_⟩
          obtain ⟨g', rfl⟩ : ∃ g', g = g' + 1 := ⟨g - 1, by omega⟩
          have hx : parseParams g' r0 = some (ps, ell, .rparen :: r2) := hb1 g' (by simp at hg ⊢; omega)
          unfold suffixes
          simp only [hx]
          exact hb2 g' (by simp at hg; omega)
        · simp at h
      · obtain ⟨hl, hb⟩ := ih.suf _ _ _ _ h
        refine ⟨by simp; omega, fun g hg => ?_⟩
        obtain ⟨g', rfl⟩ : ∃ g', g = g' + 1 := ⟨g - 1, by omega⟩
        unfold suffixes
        exact hb g' (by simp at hg; omega)
      · obtain ⟨hl, hb⟩ := ih.suf _ _ _ _ h
        refine ⟨by simp; omega, fun g hg => ?_⟩
        obtain ⟨g', rfl⟩ : ∃ g', g = g' + 1 := ⟨g - 1, by omega⟩
        unfold suffixes
        exact hb g' (by simp at hg; omega)
      · simp at h
      · cases h
        refine ⟨Nat.le_refl _, fun g hg => ?_⟩
        obtain ⟨g', rfl⟩ : ∃ g', g = g' + 1 := ⟨g - 1, by omega⟩
        unfold suffixes
        split <;> simp_all
    · intro ts p e r h
      unfold parseParams at h
      split at h
      · cases h
        refine ⟨Nat.le_refl _, fun g hg => ?_⟩
        obtain ⟨g', rfl⟩ : ∃ g', g = g' + 1 := ⟨g - 1, by omega⟩
        unfold parseParams
        rfl
      · simp at h
      · obtain ⟨hl, hb⟩ := ih.pl _ _ _ _ h
        refine ⟨hl, fun g hg => ?_⟩
        obtain ⟨g', rfl⟩ : ∃ g', g = g' + 1 := ⟨g - 1, by omega⟩
        unfold parseParams
        split
        · simp_all
        · simp_all
        · exact hb g' (by omega)
    · intro ts p e r h
      unfold parseParamList at h
      split at h
      · simp at h
      · rename_i b d' r0 heq
        cases h
        obtain ⟨hl, hb⟩ := ih.p _ _ _ _ heq
        simp at hl
        refine ⟨by omega, fun g hg => ?_⟩
        obtain ⟨g', rfl⟩ : ∃ g', g = g' + 1 := ⟨g - 1, by omega⟩
        have hx : parseParam g' ts = some (b, d', .comma :: .ellipsis :: r) := hb g' (by simp at hg ⊢; omega)
        unfold parseParamList
        simp only [hx]
      · rename_i b d' r0 heq
        cases h
        obtain ⟨hl, hb⟩ := ih.p _ _ _ _ heq
        simp at hl
        refine ⟨by omega, fun g hg => ?_⟩
        obtain ⟨g', rfl⟩ : ∃ g', g = g' + 1 := ⟨g - 1, by omega⟩
        have hx : parseParam g' ts = some (b, d', .ellipsis :: r) := hb g' (by simp at hg ⊢; omega)
        unfold parseParamList
        simp only [hx]
      · rename_i b d' r0 hne heq
        split at h
        · rename_i ps ell r2 heq2
          simp only [Option.some.injEq, Prod.mk.injEq] at h
          obtain ⟨rfl, rfl, rfl⟩ := h
          obtain ⟨hl1, hb1⟩ := ih.p _ _ _ _ heq
          obtain ⟨hl2, hb2⟩ := ih.pl _ _ _ _ heq2
          simp at hl1
          refine ⟨by omega, fun g hg => ?_⟩
          obtain ⟨g', rfl⟩ : ∃ g', g = g' + 1 := ⟨g - 1, by omega⟩
          have hx : parseParam g' ts = some (b, d', .comma :: r0) := hb1 g' (by simp at hg ⊢; omega)
          have hy : parseParamList g' r0 = some (ps, ell, r2) := hb2 g' (by simp at hg ⊢; omega)
          unfold parseParamList
          simp only [hx]
          split <;> simp_all
        · simp at h
      · rename_i b d' r0 hne1 hne2 hne3 heq
        cases h
        obtain ⟨hl, hb⟩ := ih.p _ _ _ _ heq
        refine ⟨hl, fun g hg => ?_⟩
        obtain ⟨g', rfl⟩ : ∃ g', g = g' + 1 := ⟨g - 1, by omega⟩
        have hx : parseParam g' ts = some (b, d', r) := hb g' (by omega)
        unfold parseParamList
        simp only [hx]
    · intro ts s d r h
      unfold parseParam at h
      split at h
      · rename_i s' r0
        split at h
        · rename_i d' r2 heq
          cases h
          obtain ⟨hl, hb⟩ := ih.d _ _ _ _ heq
          refine ⟨by simp; omega, fun g hg => ?_⟩
          obtain ⟨g', rfl⟩ : ∃ g', g = g' + 1 := ⟨g - 1, by omega⟩
          have hx : parseD .concrete g' r0 = some (d, r) := hb g' (by simp at hg ⊢; omega)
          unfold parseParam
          simp only [hx]
        · split at h
          · rename_i hnone d' r2 heq2
            cases h
            obtain ⟨hl, hb⟩ := ih.d _ _ _ _ heq2
            refine ⟨by simp; omega, fun g hg => ?_⟩
            obtain ⟨g', rfl⟩ : ∃ g', g = g' + 1 := ⟨g - 1, by omega⟩
            have hx : parseD .abstract g' r0 = some (d, r) := hb g' (by simp at hg ⊢; omega)
            unfold parseParam
            cases hc : parseD .concrete g' r0 with
            | some y =>
              have := (concrete_excludes_abstract g').1 _ _ hc f
              rw [this] at heq2; simp at heq2
            | none => simp only [hc, hx]
          · simp at h
      · simp at h

    · intro ts d r h
      unfold parseD at h
      split at h
      · split at h
        · rename_i r0 _ d' r2 heq
          cases h
          have hq := takeQuals_length r0
          obtain ⟨hl, hb⟩ := ih.dC _ _ _ heq
          refine ⟨by simp; omega, fun g hg => ?_⟩
          obtain ⟨g', rfl⟩ : ∃ g', g = g' + 1 := ⟨g - 1, by omega⟩
          have hx : parseD .concrete g' (takeQuals r0).2 = some (d', r) := hb g' (by simp at hg; omega)
          unfold parseD
          simp only [hx]
        · simp at h
      · obtain ⟨hl, hb⟩ := ih.dirC _ _ _ h
        refine ⟨hl, fun g hg => ?_⟩
        obtain ⟨g', rfl⟩ : ∃ g', g = g' + 1 := ⟨g - 1, by omega⟩
        unfold parseD
        split
        · simp_all
        · exact hb g' (by omega)
    · intro ts d r h
      unfold parseDirect at h
      split at h
      · rename_i n r0
        obtain ⟨hl, hb⟩ := ih.suf _ _ _ _ h
        refine ⟨by simp; omega, fun g hg => ?_⟩
        obtain ⟨g', rfl⟩ : ∃ g', g = g' + 1 := ⟨g - 1, by omega⟩
        unfold parseDirect
        exact hb g' (by simp at hg; omega)
      · simp at h
      · rename_i r0 _
        split at h
        · rename_i d' r2 heq
          obtain ⟨hl1, hb1⟩ := ih.dC _ _ _ heq
          obtain ⟨hl2, hb2⟩ := ih.suf _ _ _ _ h
          simp at hl1
          refine ⟨by simp; omega, fun g hg => ?_⟩
          obtain ⟨g', rfl⟩ : ∃ g', g = g' + 1 := ⟨g - 1, by omega⟩
          have hx : parseD .concrete g' r0 = some (d', .rparen :: r2) := hb1 g' (by simp at hg ⊢; omega)
          unfold parseDirect
          simp only [hx]
          exact hb2 g' (by simp at hg; omega)
        · simp at h
      all_goals simp_all

/-- **Fuel `2 * length + 3` is enough for every token string** (and `+ 2` for a concrete declarator): the fuel bounds the
recursion and never changes an answer. -/
theorem parseD_fuel_bound {form ts d r f} (h : parseD form f ts = some (d, r)) : parseD form (2 * ts.length + 3) ts = some (d, r) :=
  ((bnd f).d _ _ _ _ h).2 _ (by omega)

theorem parseD_concrete_fuel_bound {ts d r f} (h : parseD .concrete f ts = some (d, r)) :
    parseD .concrete (2 * ts.length + 2) ts = some (d, r) :=
  ((bnd f).dC _ _ _ h).2 _ (by omega)

/-- every answer leaves a rest no longer than the input -/
theorem parseD_consumes {form ts d r f} (h : parseD form f ts = some (d, r)) : r.length ≤ ts.length :=
  ((bnd f).d _ _ _ _ h).1

end PsycheModel.DeclParser
