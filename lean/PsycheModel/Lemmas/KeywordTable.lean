import PsycheModel.Lemmas.KeywordTrie
import PsycheModel.KeywordSpec
/-! From a checked table (`tableOK`, decidable) to "dispatch = lookup in the list of entries". -/
namespace PsycheModel.KeywordTrie
open PsycheModel.Generated PsycheModel.KeywordSpec

def keysDistinct : List Nat → Bool
  | [] => true
  | n :: t => !t.contains n && keysDistinct t

def blockOK (n : Nat) (b : Block) : Bool :=
  wf b && (paths b).all (fun q => q.kind == Kind.IdentifierToken || q.complete n)

/-- all generated obligations on one dispatcher table: well-formed chains (no shadowing, nothing after a
nested chain), every keyword path tests exactly positions `0..n-1` (in bounds, complete), distinct `case` labels -/
def tableOK (t : List (Nat × Block)) : Bool :=
  t.all (fun nb => blockOK nb.1 nb.2) && keysDistinct (t.map (·.1))

def toEntry (q : Path) : Entry := ⟨q.word, q.kind, q.gs⟩

def genEntries (t : List (Nat × Block)) : List Entry :=
  t.flatMap (fun nb => ((paths nb.2).filter (fun q => q.kind != Kind.IdentifierToken)).map toEntry)

theorem lookupLen_of_mem : ∀ {t : List (Nat × Block)} {n : Nat} {b : Block},
    keysDistinct (t.map (·.1)) = true → (n, b) ∈ t → lookupLen t n = some b := by
  intro t
  induction t with
  | nil => intro n b _ h; simp at h
  | cons x t ih =>
    intro n b hk hm
    obtain ⟨m, b'⟩ := x
    simp only [List.map_cons, keysDistinct, Bool.and_eq_true, Bool.not_eq_true'] at hk
    simp only [lookupLen]
    rcases List.mem_cons.mp hm with h | h
    · cases h; simp
    · have : m ≠ n := by
        intro hmn; subst hmn
        have : (t.map (·.1)).contains m = true := by
          simp only [List.contains_eq_mem, List.mem_map, decide_eq_true_eq]
          exact ⟨(m, b), h, rfl⟩
        rw [this] at hk; exact absurd hk.1 (by simp)
      rw [if_neg this]
      exact ih hk.2 h

theorem dispatch_iff_entries (t : List (Nat × Block)) (ht : tableOK t = true) (w : Word) (o : Opts) (k : Kind)
    (hk : k ≠ Kind.IdentifierToken) :
    dispatch t w o = k ↔ ∃ e ∈ genEntries t, e.word = w ∧ e.kind = k ∧ e.holds o = true := by
  simp only [tableOK, Bool.and_eq_true, List.all_eq_true] at ht
  obtain ⟨hall, hkeys⟩ := ht
  constructor
  · intro hd
    unfold dispatch at hd
    cases hl : lookupLen t w.length with
    | none => rw [hl] at hd; exact absurd hd.symm hk
    | some b =>
      rw [hl] at hd
      simp only [] at hd
      have hmem := lookupLen_mem hl
      have hb := hall _ hmem
      simp only [blockOK, Bool.and_eq_true, List.all_eq_true] at hb
      cases he : exec b w o with
      | none => rw [he] at hd; exact absurd hd.symm hk
      | some k' =>
        rw [he] at hd
        simp only [Option.getD_some] at hd
        subst hd
        obtain ⟨q, hq, h1, h2⟩ := (exec_iff b w o k' hb.1 hk).mp he
        have hc := hb.2 q hq
        have hcomp : q.complete w.length = true := by
          simp only [Bool.or_eq_true, beq_iff_eq] at hc
          rcases hc with hc | hc
          · exact absurd (h1 ▸ hc) hk
          · exact hc
        obtain ⟨hw, hg⟩ := (complete_matches hcomp w o rfl).mp h2
        refine ⟨toEntry q, ?_, hw.symm, h1, hg⟩
        simp only [genEntries, List.mem_flatMap, List.mem_map, List.mem_filter]
        exact ⟨(w.length, b), hmem, q, ⟨hq, by simp [h1, hk]⟩, rfl⟩
  · rintro ⟨e, he, hw, hkind, hholds⟩
    simp only [genEntries, List.mem_flatMap, List.mem_map, List.mem_filter] at he
    obtain ⟨⟨n, b⟩, hmem, q, ⟨hq, hqk⟩, rfl⟩ := he
    have hb := hall _ hmem
    simp only [blockOK, Bool.and_eq_true, List.all_eq_true] at hb
    have hqk' : q.kind ≠ Kind.IdentifierToken := by simpa using hqk
    have hcomp : q.complete n = true := by
      have hc := hb.2 q hq
      simp only [Bool.or_eq_true, beq_iff_eq] at hc
      rcases hc with hc | hc
      · exact absurd hc hqk'
      · exact hc
    simp only [toEntry] at hw hkind hholds
    have hlen : w.length = n := by
      simp only [Path.complete, Bool.and_eq_true, beq_iff_eq] at hcomp
      rw [← hw]; simp [Path.word, hcomp.2]
    have hm : q.matches w o = true := (complete_matches hcomp w o hlen).mpr ⟨hw.symm, hholds⟩
    have hex : exec b w o = some k := (exec_iff b w o k hb.1 hk).mpr ⟨q, hq, hkind, hm⟩
    unfold dispatch
    rw [hlen, lookupLen_of_mem hkeys hmem]
    simp [hex]

/-- gates are compared as sets -/
def gateEquiv (a b : List Guard) : Bool := a.all (b.contains ·) && b.all (a.contains ·)

def entryEquiv (e f : Entry) : Bool := e.word == f.word && e.kind == f.kind && gateEquiv e.gate f.gate

/-- the generated entries and the specification table denote the same set of (spelling, kind, gate) -/
def sameEntries (gen spec : List Entry) : Bool :=
  gen.all (fun e => spec.any (entryEquiv e)) && spec.all (fun f => gen.any (fun e => entryEquiv e f))

theorem gateEquiv_holds {a b : List Guard} (h : gateEquiv a b = true) (o : Opts) :
    a.all (·.holds o) = b.all (·.holds o) := by
  simp only [gateEquiv, Bool.and_eq_true, List.all_eq_true, List.contains_eq_mem, decide_eq_true_eq] at h
  rw [Bool.eq_iff_iff]
  simp only [List.all_eq_true]
  exact ⟨fun ha g hg => ha g (h.2 g hg), fun hb g hg => hb g (h.1 g hg)⟩

theorem entryEquiv_spec {e f : Entry} (h : entryEquiv e f = true) (o : Opts) :
    e.word = f.word ∧ e.kind = f.kind ∧ e.holds o = f.holds o := by
  simp only [entryEquiv, Bool.and_eq_true, beq_iff_eq] at h
  exact ⟨h.1.1, h.1.2, gateEquiv_holds h.2 o⟩

theorem exists_entry_iff {gen spec : List Entry} (h : sameEntries gen spec = true) (w : Word) (k : Kind) (o : Opts) :
    (∃ e ∈ gen, e.word = w ∧ e.kind = k ∧ e.holds o = true) ↔
    (∃ f ∈ spec, f.word = w ∧ f.kind = k ∧ f.holds o = true) := by
  simp only [sameEntries, Bool.and_eq_true, List.all_eq_true, List.any_eq_true] at h
  constructor
  · rintro ⟨e, he, h1, h2, h3⟩
    obtain ⟨f, hf, heq⟩ := h.1 e he
    obtain ⟨a, b, c⟩ := entryEquiv_spec heq o
    exact ⟨f, hf, a ▸ h1, b ▸ h2, c ▸ h3⟩
  · rintro ⟨f, hf, h1, h2, h3⟩
    obtain ⟨e, he, heq⟩ := h.2 f hf
    obtain ⟨a, b, c⟩ := entryEquiv_spec heq o
    exact ⟨e, he, a.symm ▸ h1, b.symm ▸ h2, c.symm ▸ h3⟩

end PsycheModel.KeywordTrie
