import PsycheModel.Lemmas.LexConf
/-! Helper lemmas for C05, part B: decimal integer constants (6.4.4.1). -/
namespace PsycheModel.Lex
open PsycheModel.LexSpec PsycheModel.Generated

/-- 6.4.4.1: the integer suffixes (none included) -/
def intSuffixes : List (List Nat) :=
  [[], w!"u", w!"U", w!"l", w!"L", w!"ll", w!"LL", w!"ul", w!"uL", w!"Ul", w!"UL", w!"lu", w!"lU", w!"Lu", w!"LU",
   w!"ull", w!"uLL", w!"Ull", w!"ULL", w!"llu", w!"llU", w!"LLu", w!"LLU"]

/-- after the digits: the suffix and then a character that does not continue a word -/
theorem intTail_reads (sfx : List Nat) (r : S) (hs : sfx ∈ intSuffixes) (hr : isWordTail (hd r) = false) :
    intTail (asS sfx ++ r) = (Kind.IntegerConstantToken, r) := by
  have hi : isImag (hd r) = false := by
    cases h : isImag (hd r) with
    | false => rfl
    | true =>
      exfalso
      simp only [isImag, Bool.or_eq_true, beq_iff_eq] at h
      rcases h with h | h <;> (rw [h] at hr; simp [isWordTail, isAlnum, isAlpha, isDigit] at hr)
  have h117 : (hd r == 117) = false := by
    cases h : hd r == 117 with
    | false => rfl
    | true => exfalso; rw [beq_iff_eq] at h; rw [h] at hr; simp [isWordTail, isAlnum, isAlpha, isDigit] at hr
  have h85 : (hd r == 85) = false := by
    cases h : hd r == 85 with
    | false => rfl
    | true => exfalso; rw [beq_iff_eq] at h; rw [h] at hr; simp [isWordTail, isAlnum, isAlpha, isDigit] at hr
  have h108 : (hd r == 108) = false := by
    cases h : hd r == 108 with
    | false => rfl
    | true => exfalso; rw [beq_iff_eq] at h; rw [h] at hr; simp [isWordTail, isAlnum, isAlpha, isDigit] at hr
  have h76 : (hd r == 76) = false := by
    cases h : hd r == 76 with
    | false => rfl
    | true => exfalso; rw [beq_iff_eq] at h; rw [h] at hr; simp [isWordTail, isAlnum, isAlpha, isDigit] at hr
  simp only [intSuffixes, List.mem_cons, List.not_mem_nil, or_false] at hs
  rcases hs with rfl | rfl | rfl | rfl | rfl | rfl | rfl | rfl | rfl | rfl | rfl | rfl | rfl | rfl | rfl | rfl | rfl | rfl | rfl | rfl | rfl | rfl | rfl
  all_goals (
    cases r with
    | nil => simp [intTail, intSuffix, afterSuffix, asS, asS.asciiCp', isImag, isWordTail, isAlnum, isAlpha, isDigit]
    | cons c r' =>
      simp only [hd_cons] at hr hi h117 h85 h108 h76
      have hi' : ¬(c.c = 105 ∨ c.c = 106) := by simpa [isImag] using hi
      have e117 : ¬ c.c = 117 := by simpa using h117
      have e85 : ¬ c.c = 85 := by simpa using h85
      have e108 : ¬ c.c = 108 := by simpa using h108
      have e76 : ¬ c.c = 76 := by simpa using h76
      simp [intTail, intSuffix, afterSuffix, asS, asS.asciiCp', isImag, hr, hi', e117, e85, e108, e76])

/-- the digit loop of `lexIntegerOrFloatingConstant`: over digits, up to a character that is no digit, period or exponent letter -/
theorem decimal_digits (ds t : S) (hds : ∀ c ∈ ds, isDigit c.c = true)
    (ht : isDigit (hd t) = false ∧ hd t ≠ 46 ∧ hd t ≠ 101 ∧ hd t ≠ 69) : decimal (ds ++ t) = intTail t := by
  induction ds with
  | nil =>
    cases t with
    | nil => rfl
    | cons c r =>
      simp only [hd_cons] at ht
      obtain ⟨h1, h2, h3, h4⟩ := ht
      simp [decimal, h1, h2, h3, h4]
  | cons d ds ih =>
    have hd' := hds d (by simp)
    have hne : d.c ≠ 46 ∧ d.c ≠ 101 ∧ d.c ≠ 69 := by
      simp only [isDigit, Bool.and_eq_true, decide_eq_true_eq] at hd'
      omega
    simp only [List.cons_append, decimal]
    simp [hne.1, hne.2.1, hne.2.2, hd']
    exact ih (fun c hc => hds c (by simp [hc]))

/-- **6.4.4.1, decimal constants**: a non-zero digit, any digits, one of the 23 suffix spellings (or none), up to a character that does not
continue a word (and, without a suffix, is no period): read as ONE integer constant, all of it and nothing more - any number of digits. -/
theorem decimal_constant_reads (d0 : Nat) (ds : S) (sfx : List Nat) (r : S)
    (h0 : isDigit d0 = true) (hnz : d0 ≠ 48) (hds : ∀ c ∈ ds, isDigit c.c = true) (hs : sfx ∈ intSuffixes)
    (hr : isWordTail (hd r) = false) (hdot : sfx = [] → hd r ≠ 46) :
    tokenAt d0 (ds ++ (asS sfx ++ r)) = { kind := .IntegerConstantToken, rest := r } := by
  have hsw := digit_not_switch d0 h0
  have hd4 : 48 ≤ d0 ∧ d0 ≤ 57 := by simpa [isDigit] using h0
  have hnid : isIdStart d0 = false := by
    simp [isIdStart, isAlpha]; omega
  have ht : isDigit (hd (asS sfx ++ r)) = false ∧ hd (asS sfx ++ r) ≠ 46 ∧ hd (asS sfx ++ r) ≠ 101 ∧ hd (asS sfx ++ r) ≠ 69 := by
    have hrr : isDigit (hd r) = false ∧ hd r ≠ 101 ∧ hd r ≠ 69 := by
      refine ⟨?_, ?_, ?_⟩
      · cases h : isDigit (hd r) with
        | false => rfl
        | true => simp [isWordTail, isAlnum, h] at hr
      · intro h; rw [h] at hr; simp [isWordTail, isAlnum, isAlpha, isDigit] at hr
      · intro h; rw [h] at hr; simp [isWordTail, isAlnum, isAlpha, isDigit] at hr
    simp only [intSuffixes, List.mem_cons, List.not_mem_nil, or_false] at hs
    rcases hs with rfl | rfl | rfl | rfl | rfl | rfl | rfl | rfl | rfl | rfl | rfl | rfl | rfl | rfl | rfl | rfl | rfl | rfl | rfl | rfl | rfl | rfl | rfl
    · simpa [asS] using ⟨hrr.1, hdot rfl, hrr.2.1, hrr.2.2⟩
    all_goals simp [asS, asS.asciiCp', isDigit]
  have hnum : number d0 (ds ++ (asS sfx ++ r)) = (Kind.IntegerConstantToken, r) := by
    unfold number
    have : (d0 == 48) = false := by simpa using hnz
    simp only [this, Bool.false_eq_true, if_false]
    rw [decimal_digits ds _ hds ht, intTail_reads sfx r hs hr]
  unfold tokenAt
  have n76 : (d0 == 76) = false := by simp; omega
  have n117 : (d0 == 117) = false := by simp; omega
  have n85 : (d0 == 85) = false := by simp; omega
  have n82 : (d0 == 82) = false := by simp; omega
  simp only [hsw 34 (by decide), hsw 39 (by decide), hsw 123 (by decide), hsw 125 (by decide), hsw 91 (by decide), hsw 93 (by decide),
    hsw 35 (by decide), hsw 40 (by decide), hsw 41 (by decide), hsw 59 (by decide), hsw 58 (by decide), hsw 46 (by decide),
    hsw 63 (by decide), hsw 43 (by decide), hsw 45 (by decide), hsw 42 (by decide), hsw 47 (by decide), hsw 37 (by decide),
    hsw 94 (by decide), hsw 38 (by decide), hsw 124 (by decide), hsw 126 (by decide), hsw 33 (by decide), hsw 61 (by decide),
    hsw 60 (by decide), hsw 62 (by decide), hsw 44 (by decide), Bool.false_eq_true, if_false, n76, n117, n85, n82, Bool.or_self, hnid, h0, if_true, hnum]

/-- what follows the digits of an integer constant: the head of `suffix ++ rest` is no hexadecimal digit, period or binary-exponent letter -/
theorem after_digits_head (sfx : List Nat) (r : S) (hs : sfx ∈ intSuffixes) (hr : isWordTail (hd r) = false) (hdot : sfx = [] → hd r ≠ 46) :
    isHexDigit (hd (asS sfx ++ r)) = false ∧ hd (asS sfx ++ r) ≠ 46 ∧ hd (asS sfx ++ r) ≠ 112 ∧ hd (asS sfx ++ r) ≠ 80 := by
  have hrr : isHexDigit (hd r) = false ∧ hd r ≠ 112 ∧ hd r ≠ 80 := by
    refine ⟨?_, ?_, ?_⟩
    · cases h : isHexDigit (hd r) with
      | false => rfl
      | true =>
        exfalso
        simp only [isHexDigit, isDigit, Bool.or_eq_true, Bool.and_eq_true, decide_eq_true_eq] at h
        simp only [isWordTail, isAlnum, isAlpha, isDigit, Bool.or_eq_false_iff, Bool.and_eq_false_iff, decide_eq_false_iff_not, beq_eq_false_iff_ne] at hr
        omega
    · intro h; rw [h] at hr; simp [isWordTail, isAlnum, isAlpha, isDigit] at hr
    · intro h; rw [h] at hr; simp [isWordTail, isAlnum, isAlpha, isDigit] at hr
  simp only [intSuffixes, List.mem_cons, List.not_mem_nil, or_false] at hs
  rcases hs with rfl | rfl | rfl | rfl | rfl | rfl | rfl | rfl | rfl | rfl | rfl | rfl | rfl | rfl | rfl | rfl | rfl | rfl | rfl | rfl | rfl | rfl | rfl
  · simpa [asS] using ⟨hrr.1, hdot rfl, hrr.2.1, hrr.2.2⟩
  all_goals simp [asS, asS.asciiCp', isHexDigit, isDigit]

/-- **6.4.4.1, hexadecimal constants**: `0x` / `0X`, hexadecimal digits, a suffix (or none), up to a character that does not continue a word -/
theorem hex_constant_reads (x : Nat) (hx : x = 120 ∨ x = 88) (hs : S) (sfx : List Nat) (r : S)
    (hhs : ∀ c ∈ hs, isHexDigit c.c = true) (hsf : sfx ∈ intSuffixes) (hr : isWordTail (hd r) = false) (hdot : sfx = [] → hd r ≠ 46) :
    tokenAt 48 ((⟨x, [x]⟩ : Cp) :: (hs ++ (asS sfx ++ r))) = { kind := .IntegerConstantToken, rest := r } := by
  obtain ⟨h1, h2, h3, h4⟩ := after_digits_head sfx r hsf hr hdot
  have hdw := dw_append_stop isHexDigit hs (asS sfx ++ r) hhs h1
  have hnum : number 48 ((⟨x, [x]⟩ : Cp) :: (hs ++ (asS sfx ++ r))) = (Kind.IntegerConstantToken, r) := by
    unfold number
    have b46 : (hd (asS sfx ++ r) == 46) = false := by simpa using h2
    have b112 : (hd (asS sfx ++ r) == 112) = false := by simpa using h3
    have b80 : (hd (asS sfx ++ r) == 80) = false := by simpa using h4
    rcases hx with rfl | rfl <;> simp [hdw, b46, b112, b80, intTail_reads sfx r hsf hr]
  have hsw := digit_not_switch 48 (by decide)
  unfold tokenAt
  simp only [hsw 34 (by decide), hsw 39 (by decide), hsw 123 (by decide), hsw 125 (by decide), hsw 91 (by decide), hsw 93 (by decide),
    hsw 35 (by decide), hsw 40 (by decide), hsw 41 (by decide), hsw 59 (by decide), hsw 58 (by decide), hsw 46 (by decide),
    hsw 63 (by decide), hsw 43 (by decide), hsw 45 (by decide), hsw 42 (by decide), hsw 47 (by decide), hsw 37 (by decide),
    hsw 94 (by decide), hsw 38 (by decide), hsw 124 (by decide), hsw 126 (by decide), hsw 33 (by decide), hsw 61 (by decide),
    hsw 60 (by decide), hsw 62 (by decide), hsw 44 (by decide), Bool.false_eq_true, if_false, hnum]
  have e1 : (48 == 76 || 48 == 117 || 48 == 85 || 48 == 82) = false := by decide
  have e2 : isIdStart 48 = false := by decide
  have e3 : isDigit 48 = true := by decide
  simp only [e1, e2, e3, Bool.false_eq_true, if_false, if_true]

end PsycheModel.Lex
